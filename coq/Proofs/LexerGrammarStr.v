(* C03, lexical level, layer 3: short strings.
   EscCode = the escape sequences lexer.go readEscapeSequence accepts (a superset of the manual's EscLua: `\q`,
   `\x` without two hex digits, `\256`, `\u` without braces ... are taken as they come - the recorded deviation).
   EscFx fx = what the variant fx of the code accepts WITHOUT raising an error (Model/Lexer.v, FxEscape): before the
   repair (fx = false) all of EscCode; after it (fx = true) the members of EscCode that start a legal escape of the manual
   (legal_escape, Spec/LuaLex.v) - the repaired readEscapeSequence scans as before and reports the others.
   scan_short_string raises no error and stops at r  <->  StrItems (EscFx fx) q (text after the quote) r. *)
From Coq Require Import List NArith ZArith Bool Arith Lia ZifyNat ZifyN ZifyBool.
From LH Require Import Base.Bytes Base.Res Model.Codec Model.Lexer Spec.LuaNumeral Spec.LuaLex.
From LH Require Import Proofs.LexerTotalFuel Proofs.LexerTotalProgress Proofs.LexerGrammarBase.
Import ListNotations.
Local Open Scope N_scope.

(* what the code accepts after a backslash: e is consumed, r follows *)
Inductive EscCode : list N -> list N -> Prop :=
| Ec_hex h1 h2 r : lx_xdigit h1 = true -> lx_xdigit h2 = true -> EscCode [120; h1; h2] r
| Ec_x r : (forall h1 h2 r', r = h1 :: h2 :: r' -> lx_xdigit h1 && lx_xdigit h2 = false) -> EscCode [120] r
| Ec_newline c r : lx_newline c = true -> hd_is lx_newline r = false \/ hd_is (N.eqb c) r = true -> EscCode [c] r
| Ec_newline2 c d r : lx_newline c = true -> lx_newline d = true -> c <> d -> EscCode [c; d] r
| Ec_z ws r : forallb lx_blank ws = true -> hd_is lx_blank r = false -> EscCode (122 :: ws) r
| Ec_dec ds r : ds <> [] -> forallb lx_digit ds = true -> hd_is lx_digit r = false -> EscCode ds r
| Ec_char c r : lx_newline c = false -> c <> 120 -> c <> 122 -> lx_digit c = false -> EscCode [c] r.

(* the same as a function: number of bytes the escape sequence at the head of l takes *)
Definition esc_len (l : list N) : nat :=
  match l with
  | [] => 0%nat
  | c :: t =>
    if c =? 120 then match t with h1 :: h2 :: _ => if lx_xdigit h1 && lx_xdigit h2 then 3%nat else 1%nat | _ => 1%nat end
    else if lx_newline c then match t with d :: _ => if lx_newline d && negb (d =? c) then 2%nat else 1%nat | [] => 1%nat end
    else if c =? 122 then S (length (take_while lx_blank t))
    else if lx_digit c then S (length (take_while lx_digit t))
    else 1%nat
  end.

Lemma take_while_split p l :
  forallb p (take_while p l) = true /\ hd_is p (skipn (length (take_while p l)) l) = false /\
  firstn (length (take_while p l)) l = take_while p l.
Proof.
  induction l as [|c t IH]; cbn [take_while]; [repeat split|].
  destruct (p c) eqn:E.
  - cbn [forallb length skipn firstn]. rewrite E. destruct IH as (A & B & C). rewrite C. repeat split; assumption.
  - cbn [forallb length skipn firstn hd_is]. repeat split. exact E.
Qed.

Lemma take_while_app p a r : forallb p a = true -> hd_is p r = false -> take_while p (a ++ r) = a.
Proof.
  intros Ha Hr. induction a as [|c t IH]; cbn [app take_while].
  - destruct r as [|x r]; [reflexivity|]. cbn [take_while hd_is] in *. rewrite Hr. reflexivity.
  - cbn [forallb] in Ha. apply andb_true_iff in Ha as [Hc Ht]. rewrite Hc, (IH Ht). reflexivity.
Qed.

Lemma take_while_le p l : (length (take_while p l) <= length l)%nat.
Proof. induction l as [|c t IH]; cbn [take_while length]; [lia|]. destruct (p c); cbn [length]; lia. Qed.

Lemma esc_len_le l : (esc_len l <= length l)%nat.
Proof.
  destruct l as [|c t]; cbn [esc_len length]; [lia|].
  pose proof (take_while_le lx_blank t). pose proof (take_while_le lx_digit t).
  destruct (c =? 120).
  - destruct t as [|h1 [|h2 t']]; cbn [length]; try lia. destruct (_ && _); lia.
  - destruct (lx_newline c).
    + destruct t as [|d t']; cbn [length]; [lia|]. destruct (_ && _); lia.
    + destruct (c =? 122); [lia|]. destruct (lx_digit c); lia.
Qed.

Lemma esc_len_pos l : l <> [] -> (1 <= esc_len l)%nat.
Proof.
  destruct l as [|c t]; [congruence|]. intros _. cbn [esc_len].
  repeat match goal with |- context [if ?b then _ else _] => destruct b end;
    repeat match goal with |- context [match ?x with _ => _ end] => destruct x end; lia.
Qed.

Lemma esc_len_sound l : l <> [] -> EscCode (firstn (esc_len l) l) (skipn (esc_len l) l).
Proof.
  destruct l as [|c t]; [congruence|]. intros _. cbn [esc_len].
  destruct (c =? 120) eqn:Ex.
  { apply N.eqb_eq in Ex. subst c.
    assert (D : forall r, (forall h1 h2 r', r = h1 :: h2 :: r' -> lx_xdigit h1 && lx_xdigit h2 = false) -> EscCode [120] r)
      by (intros; apply Ec_x; assumption).
    destruct t as [|h1 [|h2 t']]; cbn [firstn skipn]; try (apply D; intros; discriminate).
    destruct (lx_xdigit h1 && lx_xdigit h2) eqn:E; cbn [firstn skipn].
    - apply andb_true_iff in E as [E1 E2]. apply Ec_hex; assumption.
    - apply D. intros a b r' Hr. injection Hr as <- <- <-. exact E. }
  destruct (lx_newline c) eqn:En.
  { destruct t as [|d t']; cbn [firstn skipn].
    - apply Ec_newline; [exact En|left; reflexivity].
    - destruct (lx_newline d && negb (d =? c)) eqn:E; cbn [firstn skipn].
      + apply andb_true_iff in E as [E1 E2]. apply Ec_newline2; [exact En|exact E1|]. lia.
      + apply Ec_newline; [exact En|]. cbn [hd_is]. destruct (lx_newline d); [right|left; reflexivity].
        cbn [andb] in E. lia. }
  destruct (c =? 122) eqn:Ez.
  { apply N.eqb_eq in Ez. subst c. destruct (take_while_split lx_blank t) as (A & B & C).
    cbn [firstn skipn]. rewrite C. apply Ec_z; assumption. }
  destruct (lx_digit c) eqn:Ed.
  { destruct (take_while_split lx_digit t) as (A & B & C).
    cbn [firstn skipn]. rewrite C. apply Ec_dec; [discriminate|cbn [forallb]; rewrite Ed; exact A|exact B]. }
  cbn [firstn skipn]. apply Ec_char; [exact En|lia|lia|exact Ed].
Qed.

Lemma esc_len_complete e r : EscCode e r -> esc_len (e ++ r) = length e.
Proof.
  intros [h1 h2 r' H1 H2|r' Hx|c r' Hn Hr|c d r' Hc Hd Hne|ws r' Hw Hr|ds r' Hne Hd Hr|c r' Hn H1 H2 Hd];
    cbn [app esc_len length].
  - rewrite H1, H2. reflexivity.
  - destruct r' as [|h1 [|h2 r'']]; try reflexivity. rewrite (Hx h1 h2 r'' eq_refl). reflexivity.
  - assert (c =? 120 = false) by (unfold lx_newline in Hn; lia). rewrite H, Hn.
    destruct r' as [|d r'']; [reflexivity|]. cbn [hd_is] in Hr.
    assert (E : lx_newline d && negb (d =? c) = false) by (destruct Hr as [Hr|Hr]; lia). rewrite E. reflexivity.
  - assert (c =? 120 = false) by (unfold lx_newline in Hc; lia). rewrite H, Hc.
    assert (E : lx_newline d && negb (d =? c) = true) by lia. rewrite E. reflexivity.
  - cbn [N.eqb Pos.eqb lx_newline orb]. rewrite (take_while_app _ _ _ Hw Hr). reflexivity.
  - destruct ds as [|c ds']; [congruence|]. cbn [app forallb] in *. apply andb_true_iff in Hd as [Hc Hds].
    assert (c =? 120 = false) by (unfold lx_digit in Hc; lia).
    assert (lx_newline c = false) by (unfold lx_digit, lx_newline in *; lia).
    assert (c =? 122 = false) by (unfold lx_digit in Hc; lia).
    cbn [esc_len length]. rewrite H, H0, H1, Hc, (take_while_app _ _ _ Hds Hr). reflexivity.
  - assert (c =? 120 = false) by lia. assert (c =? 122 = false) by lia. rewrite H, Hn, H0, Hd. reflexivity.
Qed.

Lemma esc_code_nonempty e r : EscCode e r -> e <> [].
Proof. intros [ | | | | |ds r' Hne _ _| ]; try discriminate. exact Hne. Qed.

(* ------------------------------------------------------------------ the escapes a variant of the code accepts silently *)
Definition EscFx (fx : bool) (e r : list N) : Prop := EscCode e r /\ (fx = true -> legal_escape (e ++ r) = true).

Lemma esc_fx_code fx e r : EscFx fx e r -> EscCode e r.
Proof. intros [H _]. exact H. Qed.

Lemma esc_code_fx_false e r : EscCode e r -> EscFx false e r.
Proof. intros H. split; [exact H|discriminate]. Qed.

(* the strict checks of the repaired code are the boolean test of the spec *)
Lemma hex_digit_value_lc c : lx_xdigit c = true -> hex_digit_value c = num_digit_val (num_lc c).
Proof.
  unfold lx_xdigit, lx_digit, hex_digit_value, num_digit_val, num_lc, num_digit. intros H.
  repeat match goal with |- context [if ?b then _ else _] => destruct b eqn:? end; lia.
Qed.

Lemma dec_value_spec : forall n l acc,
  dec_value n l acc = fold_left (fun a c => a * 10 + num_digit_val c) (firstn n (take_while lx_digit l)) acc.
Proof.
  induction n as [|n IH]; intros l acc; [destruct l; reflexivity|].
  destruct l as [|c t]; [reflexivity|]. cbn [dec_value take_while]. rewrite cls_digit.
  destruct (lx_digit c) eqn:E; [|reflexivity]. cbn [firstn fold_left]. rewrite IH.
  unfold num_digit_val, num_digit. unfold lx_digit in E. rewrite E. reflexivity.
Qed.

Lemma utf8_esc_loop_spec : forall l v d, v < 2147483648 ->
  utf8_esc_loop l v d =
  let hs := take_while lx_xdigit l in
  (d || negb (match hs with [] => true | _ => false end)) && hd_is (N.eqb 125) (skipn (length hs) l)
  && (fold_left (fun a c => a * 16 + num_digit_val c) (map num_lc hs) v <? 2147483648).
Proof.
  induction l as [|c t IH]; intros v d Hv; cbn [utf8_esc_loop take_while].
  { cbv zeta. cbn [length skipn hd_is]. rewrite andb_false_r. reflexivity. }
  rewrite cls_xdigit. destruct (lx_xdigit c) eqn:E.
  - cbv zeta. cbn [length skipn map fold_left]. rewrite <- (hex_digit_value_lc c E).
    set (v' := v * 16 + hex_digit_value c).
    destruct (2147483648 <=? v') eqn:Eb.
    + symmetry. apply andb_false_iff. right. apply N.ltb_ge.
      assert (M : forall hs a, a <= fold_left (fun a c => a * 16 + num_digit_val c) hs a).
      { induction hs as [|h hs IHh]; intros a; cbn [fold_left]; [lia|]. etransitivity; [|apply IHh]. lia. }
      etransitivity; [|apply M]. lia.
    + rewrite IH by lia. cbv zeta. rewrite orb_true_r. cbn [orb negb]. reflexivity.
  - cbv zeta. cbn [length skipn hd_is map fold_left negb]. rewrite orb_false_r.
    assert (Hc : (c =? 125) = (125 =? c)) by apply N.eqb_sym. rewrite Hc.
    replace (v <? 2147483648) with true by lia. rewrite andb_true_r. apply andb_comm.
Qed.

Lemma is_utf8_escape_spec t :
  is_utf8_escape t =
  match t with
  | b :: t' => let hs := take_while lx_xdigit t' in
               (b =? 123) && negb (match hs with [] => true | _ => false end)
               && hd_is (N.eqb 125) (skipn (length hs) t') && (num_value 16 (map num_lc hs) <? 2147483648)
  | [] => false
  end.
Proof.
  destruct t as [|b t']; [reflexivity|]. cbn [is_utf8_escape]. rewrite utf8_esc_loop_spec by lia. cbv zeta.
  cbn [orb]. unfold num_value. rewrite !andb_assoc. reflexivity.
Qed.

(* ------------------------------------------------------------------ the helpers of readEscapeSequence *)
Lemma skip_digits_spec : forall f ch i, (length ch - i < f)%nat ->
  skip_digits_f f ch i = (i + length (take_while lx_digit (skipn i ch)))%nat.
Proof.
  induction f as [|f IH]; intros ch i Hf; [lia|]. cbn [skip_digits_f].
  rewrite (nth_byte_skipn ch i). destruct (skipn i ch) as [|c t] eqn:E; cbn [hd_error take_while length]; [lia|].
  assert (Hlen : (S (length t) = length ch - i)%nat) by (rewrite <- skipn_length, E; reflexivity).
  rewrite cls_digit. destruct (lx_digit c); cbn [length]; [|lia].
  rewrite IH by lia. rewrite (skipn_S_cons _ _ _ _ E). lia.
Qed.

Lemma skip_z_spec : forall f ch i ln ls p0, (length ch - i < f)%nat ->
  fst (fst (skip_z_f f ch i ln ls p0)) = (i + length (take_while lx_blank (skipn i ch)))%nat.
Proof.
  induction f as [|f IH]; intros ch i ln ls p0 Hf; [lia|]. cbn [skip_z_f].
  rewrite (nth_byte_skipn ch i). destruct (skipn i ch) as [|c t] eqn:E; cbn [hd_error take_while length fst]; [lia|].
  assert (Hlen : (S (length t) = length ch - i)%nat) by (rewrite <- skipn_length, E; reflexivity).
  pose proof (skipn_S_cons _ _ _ _ E) as E1.
  rewrite cls_new_white. unfold lx_blank at 1. destruct (lx_space c) eqn:Es; cbn [orb length].
  { rewrite IH by lia. rewrite E1. lia. }
  unfold consume_eol. rewrite (nth_byte_skipn ch i), E. cbn [hd_error]. rewrite cls_newline.
  destruct (lx_newline c) eqn:En; cbn [length fst]; [|lia].
  rewrite (nth_byte_skipn ch (S i)), E1.
  destruct t as [|d t']; cbn [hd_error].
  - replace ((c =? 13) && (32 =? 10) || (32 =? 13) && (c =? 10)) with false by lia.
    rewrite IH by lia. rewrite E1. cbn [take_while length]. lia.
  - pose proof (skipn_S_cons _ _ _ _ E1) as E2. cbn [length] in Hlen.
    destruct ((c =? 13) && (d =? 10) || (d =? 13) && (c =? 10)) eqn:Ep.
    + rewrite IH by lia. rewrite E2. cbn [take_while].
      assert (Hd : lx_blank d = true) by (unfold lx_blank, lx_newline; lia). rewrite Hd. cbn [length]. lia.
    + rewrite IH by lia. rewrite E1. lia.
Qed.

Lemma simple_escape_eq c : simple_escape c = existsb (fun x => x =? c) [97; 98; 102; 110; 114; 116; 118; 92; 34; 39].
Proof. reflexivity. Qed.

Lemma legal_simple c t : simple_escape c || lx_newline c || (c =? 122) = true -> legal_escape (c :: t) = true.
Proof. intros H. unfold legal_escape. rewrite H. reflexivity. Qed.

Lemma legal_digit c t : lx_digit c = true ->
  legal_escape (c :: t) = (num_value 10 (firstn 3 (take_while lx_digit (c :: t))) <=? 255).
Proof.
  intros H. unfold legal_escape.
  replace (simple_escape c || lx_newline c || (c =? 122)) with false
    by (rewrite simple_escape_eq; cbn [existsb]; unfold lx_newline, lx_digit in *; lia).
  replace (c =? 120) with false by (unfold lx_digit in H; lia). rewrite H. reflexivity.
Qed.

Lemma legal_other c t : simple_escape c = false -> lx_newline c = false -> c <> 122 -> c <> 120 ->
  lx_digit c = false -> c <> 117 -> legal_escape (c :: t) = false.
Proof.
  intros H1 H2 H3 H4 H5 H6. unfold legal_escape. rewrite H1, H2, H5.
  replace (c =? 122) with false by lia. replace (c =? 120) with false by lia. replace (c =? 117) with false by lia.
  reflexivity.
Qed.

Lemma esc_err_false {fx : FxEscape} : esc_err false = [].
Proof. unfold esc_err. rewrite andb_false_r. reflexivity. Qed.

Lemma esc_err_nil {fx : FxEscape} b : esc_err (negb b) = [] -> fx = true -> b = true.
Proof. unfold esc_err, fx_escape. intros H ->. destruct b; [reflexivity|discriminate]. Qed.

Lemma esc_err_legal {fx : FxEscape} b : (fx = true -> b = true) -> esc_err (negb b) = [].
Proof. unfold esc_err, fx_escape. intros H. destruct fx; [rewrite (H eq_refl)|]; reflexivity. Qed.

(* one call of readEscapeSequence: it consumes esc_len bytes in both variants; the repaired one reports exactly the
   sequences that do not start a legal escape of the manual *)
Lemma read_escape_spec {fx : FxEscape} ch i ln ls p0 piece i2 ln' ls' es :
  (i < length ch)%nat -> read_escape ch i ln ls p0 = (piece, i2, ln', ls', es) ->
  es = esc_err (negb (legal_escape (skipn i ch))) /\ i2 = (i + esc_len (skipn i ch))%nat.
Proof.
  intros Hi. unfold read_escape. rewrite (nth_byte_skipn ch i).
  destruct (skipn i ch) as [|c t] eqn:E.
  { exfalso. assert (Hl : length (skipn i ch) = 0%nat) by (rewrite E; reflexivity). rewrite skipn_length in Hl. lia. }
  cbn [hd_error]. pose proof (skipn_S_cons _ _ _ _ E) as E1.
  assert (Hlen : (S (length t) = length ch - i)%nat) by (rewrite <- skipn_length, E; reflexivity).
  destruct (c =? 97) eqn:T1;
    [apply N.eqb_eq in T1; subst c; intros H; pinj H; split; [symmetry; apply esc_err_false|cbn; lia]|].
  destruct (c =? 98) eqn:T2;
    [apply N.eqb_eq in T2; subst c; intros H; pinj H; split; [symmetry; apply esc_err_false|cbn; lia]|].
  destruct (c =? 102) eqn:T3;
    [apply N.eqb_eq in T3; subst c; intros H; pinj H; split; [symmetry; apply esc_err_false|cbn; lia]|].
  destruct (c =? 110) eqn:T4;
    [apply N.eqb_eq in T4; subst c; intros H; pinj H; split; [symmetry; apply esc_err_false|cbn; lia]|].
  destruct (c =? 114) eqn:T5;
    [apply N.eqb_eq in T5; subst c; intros H; pinj H; split; [symmetry; apply esc_err_false|cbn; lia]|].
  destruct (c =? 116) eqn:T6;
    [apply N.eqb_eq in T6; subst c; intros H; pinj H; split; [symmetry; apply esc_err_false|cbn; lia]|].
  destruct (c =? 118) eqn:T7;
    [apply N.eqb_eq in T7; subst c; intros H; pinj H; split; [symmetry; apply esc_err_false|cbn; lia]|].
  destruct (c =? 120) eqn:Tx.
  { apply N.eqb_eq in Tx. subst c.
    rewrite (nth_byte_skipn ch (S i)), E1. destruct t as [|h1 t']; cbn [hd_error].
    - intros H; pinj H. split; [reflexivity|cbn; lia].
    - rewrite (nth_byte_skipn ch (S (S i))), (skipn_S_cons _ _ _ _ E1).
      destruct t' as [|h2 t'']; cbn [hd_error]; [intros H; pinj H; split; [reflexivity|cbn; lia]|].
      change is_hex_digit with lx_xdigit.
      change (legal_escape (120 :: h1 :: h2 :: t'')) with (lx_xdigit h1 && lx_xdigit h2). cbn [esc_len N.eqb Pos.eqb].
      destruct (lx_xdigit h1 && lx_xdigit h2); intros H; pinj H; split; try reflexivity; try lia.
      symmetry. apply esc_err_false. }
  destruct (c =? 117) eqn:Tu.
  { apply N.eqb_eq in Tu. subst c. rewrite E1, is_utf8_escape_spec. intros H; pinj H. split; [reflexivity|cbn; lia]. }
  rewrite cls_newline. destruct (lx_newline c) eqn:Tn.
  { rewrite (legal_simple c t) by (rewrite Tn, orb_true_r; reflexivity). cbn [negb]. rewrite esc_err_false.
    cbn [esc_len]. rewrite Tx, Tn.
    unfold consume_eol. rewrite (nth_byte_skipn ch i), E. cbn [hd_error]. rewrite cls_newline, Tn.
    rewrite (nth_byte_skipn ch (S i)), E1. destruct t as [|d t']; cbn [hd_error].
    - replace ((c =? 13) && (32 =? 10) || (32 =? 13) && (c =? 10)) with false by lia.
      intros H; pinj H. split; [reflexivity|lia].
    - assert (Ep : (c =? 13) && (d =? 10) || (d =? 13) && (c =? 10) = lx_newline d && negb (d =? c))
        by (unfold lx_newline in *; lia).
      rewrite Ep. destruct (lx_newline d && negb (d =? c)); intros H; pinj H; split; try reflexivity; lia. }
  destruct ((c =? 92) || (c =? 39) || (c =? 34)) eqn:Tq.
  { rewrite (legal_simple c t) by (rewrite simple_escape_eq; cbn [existsb]; lia). cbn [negb]. rewrite esc_err_false.
    intros H; pinj H. split; [reflexivity|]. cbn [esc_len]. rewrite Tx, Tn.
    replace (c =? 122) with false by lia. replace (lx_digit c) with false by (unfold lx_digit; lia). lia. }
  destruct (c =? 122) eqn:Tz.
  { rewrite (legal_simple c t) by (rewrite Tz, orb_true_r; reflexivity). cbn [negb]. rewrite esc_err_false.
    cbn [esc_len]. rewrite Tx, Tn, Tz.
    pose proof (skip_z_spec (S (length ch)) ch (S i) ln ls p0 ltac:(lia)) as Hz.
    destruct (skip_z_f (S (length ch)) ch (S i) ln ls p0) as [[i' l1] l2]. cbn [fst] in Hz. rewrite E1 in Hz.
    intros H; pinj H. split; [reflexivity|]. lia. }
  rewrite cls_digit. destruct (lx_digit c) eqn:Td.
  { rewrite (legal_digit c t Td), dec_value_spec, <- N.ltb_antisym. cbn [esc_len]. rewrite Tx, Tn, Tz, Td.
    rewrite skip_digits_spec by lia. rewrite E1. intros H; pinj H. split; [reflexivity|]. lia. }
  rewrite (legal_other c t) by (try rewrite simple_escape_eq; cbn [existsb]; lia).
  intros H; pinj H. cbn [esc_len]. rewrite Tx, Tn, Tz, Td. split; [reflexivity|lia].
Qed.

(* ------------------------------------------------------------------ scan_short_f *)
Lemma str_items_nonempty Esc q bs r : StrItems Esc q bs r -> bs <> [].
Proof. intros [r'|c bs' r' _ _ _ _|e bs' r' _ _]; discriminate. Qed.

Section WithOracle.
  Context {fx : FxEscape}.
  Variable gbk_runes : list N -> Z.

  Lemma scan_short_f_sound : forall f d ch i st acc ln ls p0 errs str s' errs' ov,
    scan_short_f gbk_runes f d ch i st acc ln ls p0 errs = (str, s', errs', ov) ->
    exists es, errs' = errs ++ es /\ (es = [] -> StrItems (EscFx fx) d (skipn i ch) (chunk s')).
  Proof.
    induction f as [|f IH]; intros d ch i st acc ln ls p0 errs str s' errs' ov H; cbn [scan_short_f] in H.
    { pinj H. eexists. split; [reflexivity|discriminate]. }
    destruct (i <? length ch)%nat eqn:Hlt; [|pinj H; eexists; split; [reflexivity|discriminate]].
    apply Nat.ltb_lt in Hlt.
    rewrite (nth_byte_skipn ch i) in H. destruct (skipn i ch) as [|c t] eqn:E; cbn [hd_error] in H;
      [pinj H; eexists; split; [reflexivity|discriminate]|].
    pose proof (skipn_S_cons _ _ _ _ E) as E1.
    assert (Hlen : (S (length t) = length ch - i)%nat) by (rewrite <- skipn_length, E; reflexivity).
    destruct (c =? d) eqn:Ed.
    { apply N.eqb_eq in Ed. subst c. pinj H. exists []. rewrite app_nil_r. split; [reflexivity|]. intros _.
      cbn [chunk]. constructor. }
    destruct ((length ch <=? S i)%nat || is_newline c) eqn:Eu; [pinj H; eexists; split; [reflexivity|discriminate]|].
    apply orb_false_iff in Eu as [Eu1 Eu2]. apply Nat.leb_gt in Eu1. rewrite cls_newline in Eu2.
    destruct (c =? 92) eqn:Eb; cbn [negb] in H.
    - apply N.eqb_eq in Eb. subst c.
      destruct (read_escape ch (S i) ln ls p0) as [[[[piece i2] ln'] ls'] es0] eqn:Hre.
      apply read_escape_spec in Hre as [Hes ->]; [|lia]. rewrite E1 in H, Hes.
      apply IH in H as (es & -> & Hs). exists (es0 ++ es). split; [rewrite app_assoc; reflexivity|]. intros Ees.
      apply app_eq_nil in Ees as [E0 Ees]. subst es0.
      specialize (Hs Ees). rewrite <- (firstn_skipn (esc_len t) t) at 1.
      assert (Ht : t <> []) by (intros ->; cbn [length] in Hlen; lia).
      apply SI_esc; [split; [apply esc_len_sound; exact Ht|rewrite firstn_skipn; apply esc_err_nil; exact E0]|].
      replace (skipn (esc_len t) t) with (skipn (S i + esc_len t) ch) by (rewrite skipn_add, E1; reflexivity). exact Hs.
    - apply IH in H as (es & -> & Hs). exists es. split; [reflexivity|]. intros Ees. specialize (Hs Ees).
      rewrite E1 in Hs. apply SI_plain; [lia|lia|exact Eu2|exact Hs].
  Qed.

  Lemma scan_short_f_complete d (Hd : d <> 92) : forall l r, StrItems (EscFx fx) d l r ->
    forall f ch i st acc ln ls p0 errs, skipn i ch = l -> (length ch - i < f)%nat ->
    exists str s', scan_short_f gbk_runes f d ch i st acc ln ls p0 errs = (str, s', errs, None) /\ chunk s' = r.
  Proof.
    induction 1 as [r|c bs r Hcd Hc92 Hcn HS IH|e bs r He HS IH]; intros f ch i st acc ln ls p0 errs E Hf.
    - destruct f as [|f]; [lia|]. cbn [scan_short_f].
      assert (Hlen : (S (length r) = length ch - i)%nat) by (rewrite <- skipn_length, E; reflexivity).
      replace (i <? length ch)%nat with true by (symmetry; apply Nat.ltb_lt; lia).
      rewrite (nth_byte_skipn ch i), E. cbn [hd_error]. rewrite N.eqb_refl.
      eexists _, _. split; [reflexivity|]. cbn [chunk]. apply (skipn_S_cons _ _ _ _ E).
    - destruct f as [|f]; [lia|]. cbn [scan_short_f].
      assert (Hlen : (S (length bs) = length ch - i)%nat) by (rewrite <- skipn_length, E; reflexivity).
      pose proof (str_items_nonempty _ _ _ _ HS) as Hne.
      assert (Hb : (1 <= length bs)%nat) by (destruct bs; [congruence|cbn [length]; lia]).
      replace (i <? length ch)%nat with true by (symmetry; apply Nat.ltb_lt; lia).
      rewrite (nth_byte_skipn ch i), E. cbn [hd_error].
      replace (c =? d) with false by lia.
      replace ((length ch <=? S i)%nat) with false by (symmetry; apply Nat.leb_gt; lia).
      rewrite cls_newline, Hcn. cbn [orb]. replace (c =? 92) with false by lia. cbn [negb].
      apply IH; [apply (skipn_S_cons _ _ _ _ E)|lia].
    - destruct f as [|f]; [lia|]. cbn [scan_short_f].
      assert (Hlen : (S (length (e ++ bs)) = length ch - i)%nat) by (rewrite <- skipn_length, E; reflexivity).
      destruct He as [He Hl].
      pose proof (esc_code_nonempty _ _ He) as Hne.
      assert (Hb : (1 <= length e)%nat) by (destruct e; [congruence|cbn [length]; lia]).
      rewrite app_length in Hlen.
      replace (i <? length ch)%nat with true by (symmetry; apply Nat.ltb_lt; lia).
      rewrite (nth_byte_skipn ch i), E. cbn [hd_error].
      replace (92 =? d) with false by lia.
      replace ((length ch <=? S i)%nat) with false by (symmetry; apply Nat.leb_gt; lia).
      cbn [is_newline N.eqb Pos.eqb orb negb].
      destruct (read_escape ch (S i) ln ls p0) as [[[[piece i2] ln'] ls'] es0] eqn:Hre.
      apply read_escape_spec in Hre as [-> ->]; [|lia].
      pose proof (skipn_S_cons _ _ _ _ E) as E1. rewrite E1, (esc_len_complete _ _ He), (esc_err_legal _ Hl), app_nil_r.
      apply IH; [|lia]. rewrite skipn_add, E1, skipn_app, Nat.sub_diag, skipn_all. reflexivity.
  Qed.

  Lemma scan_short_sound s d rest str s' ov :
    chunk s = d :: rest -> scan_short_string gbk_runes s = (str, s', [], ov) ->
    StrItems (EscFx fx) d rest (chunk s').
  Proof.
    intros Hch. unfold scan_short_string. rewrite Hch. intros H.
    apply scan_short_f_sound in H as (es & E & Hs). cbn [app] in E. subst es. apply (Hs eq_refl).
  Qed.

  Lemma scan_short_complete s d rest r :
    chunk s = d :: rest -> d <> 92 -> StrItems (EscFx fx) d rest r ->
    exists str s', scan_short_string gbk_runes s = (str, s', [], None) /\ chunk s' = r.
  Proof.
    intros Hch Hd HS. unfold scan_short_string. rewrite Hch.
    apply (scan_short_f_complete d Hd rest r HS); [reflexivity|cbn [length]; lia].
  Qed.
End WithOracle.
