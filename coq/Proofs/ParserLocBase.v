(* C04, names level: the name-bearing nodes of the AST, the ghost invariant that ties a parser state to the token
   stream it runs on, and the Hoare-style `post` machinery for the fuel-driven parser monad.

   name_locs b : the (identifier, Loc) pairs of the name-bearing nodes of the AST (mirror of checks/c04.py:named_locs):
     NameExp, the names of `local`, of numeric / generic `for`, of `local function`, and the parameters of a function
     (minus the synthetic `self` of `function a:m()`, which is not in the text).

   Invariant Inv ts st (ts = the ltok list handed to parse_tokens):
     running:  ts = dl ++ rest st  with  rest st <> [],  (pre st, now st) = the last two tokens of dl (None where dl is too
               short),  lseen st = the lexical errors attached to dl;
     stuck:    the sticky EOF has been reached: rest st = [EOF without errors], now st = that EOF token and
               lseen st = all lexical errors of ts.
   From the invariant: whenever the current token is an identifier, (now token, now_loc st) is an element of
   Spec.LspRange.tok_locs zero_tok ts, the list the token-level theorem C04_tok_range_exact speaks about. *)
From Coq Require Import List NArith ZArith Bool Arith Lia.
From LH Require Import Base.Bytes Base.Res Model.Lexer Model.Ast Model.Parser Spec.LspRange.
From LH Require Import Proofs.LexerTotalWf Proofs.ParserTotalBase.
Import ListNotations.

(* ------------------------------------------------------------------ the name-bearing nodes *)
Definition nl_pars (colon : bool) (pars : list (list N)) (plocs : list loc) : list (list N * loc) :=
  if colon then combine (tl pars) (tl plocs) else combine pars plocs.

Fixpoint nl_exp (e : exp) {struct e} : list (list N * loc) :=
  match e with
  | EName n l => [(n, l)]
  | EUnop _ e1 _ => nl_exp e1
  | EBinop _ e1 e2 _ => nl_exp e1 ++ nl_exp e2
  | ETable ks vs _ =>
    flat_map (fun k => match k with Some k' => nl_exp k' | None => [] end) ks ++ flat_map nl_exp vs
  | EFunc _ _ pars plocs b _ _ colon => nl_pars colon pars plocs ++ nl_block b
  | EParens e1 _ => nl_exp e1
  | EIndex p k _ => nl_exp p ++ nl_exp k
  | ECall p _ args _ => nl_exp p ++ flat_map nl_exp args
  | _ => []
  end
with nl_stat (s : stat) {struct s} : list (list N * loc) :=
  match s with
  | SBreak | SLabel _ _ | SGoto _ _ => []
  | SDo b _ => nl_block b
  | SCall e => nl_exp e
  | SIf es bs _ => flat_map nl_exp es ++ flat_map nl_block bs
  | SWhile e b _ => nl_exp e ++ nl_block b
  | SRepeat b e _ => nl_block b ++ nl_exp e
  | SForNum name vl e1 e2 e3 b _ => (name, vl) :: nl_exp e1 ++ nl_exp e2 ++ nl_exp e3 ++ nl_block b
  | SForIn names locs es b _ => combine names locs ++ flat_map nl_exp es ++ nl_block b
  | SAssign vars es _ => flat_map nl_exp vars ++ flat_map nl_exp es
  | SLocal names locs _ es _ => combine names locs ++ flat_map nl_exp es
  | SLocalFunc name nl f _ => (name, nl) :: nl_exp f
  end
with nl_block (b : block) {struct b} : list (list N * loc) :=
  match b with
  | Block ss ret _ => flat_map nl_stat ss ++ match ret with Some es => flat_map nl_exp es | None => [] end
  end.

Definition name_locs (b : block) : list (list N * loc) := nl_block b.

Definition nl_okey (k : option exp) : list (list N * loc) := match k with Some k' => nl_exp k' | None => [] end.
Definition nl_ostat (s : option stat) : list (list N * loc) := match s with Some s' => nl_stat s' | None => [] end.
Definition fcolon (e : exp) : bool := match e with EFunc _ _ _ _ _ _ _ c => c | _ => false end.

Lemma nl_exp_table ks vs l : nl_exp (ETable ks vs l) = flat_map nl_okey ks ++ flat_map nl_exp vs.
Proof. reflexivity. Qed.

Lemma nl_set_block_loc b l : nl_block (set_block_loc b l) = nl_block b.
Proof. destruct b; reflexivity. Qed.

(* `function a.b:m() ... end`: the function value gets the synthetic `self` parameter in front; the name-bearing
   nodes stay the same *)
Lemma nl_method_func fd colon cls fname selfloc : fcolon fd = false ->
  nl_exp (match fd with
          | EFunc _ _ pars plocs b l va _ =>
            if colon : bool then EFunc cls fname (s_self :: pars) (selfloc :: plocs) b l va true
            else EFunc cls fname pars plocs b l va false
          | e => e
          end) = nl_exp fd.
Proof. destruct fd; try reflexivity. cbn [fcolon]. intros ->. destruct colon; reflexivity. Qed.

(* ------------------------------------------------------------------ partial-correctness triples of the parser monad *)
Definition post {A} (Q : A -> pst -> Prop) (r : Res (A * pst)) : Prop :=
  forall a st', r = Ok (a, st') -> Q a st'.

Lemma post_ret {A} (Q : A -> pst -> Prop) a st : Q a st -> post Q (Ok (a, st)).
Proof. intros H a' st' E. injection E as <- <-. exact H. Qed.
Lemma post_oof {A} (Q : A -> pst -> Prop) : post Q OutOfFuel.
Proof. intros a st E. discriminate. Qed.
Lemma post_fault {A} (Q : A -> pst -> Prop) k : post Q (Fault k).
Proof. intros a st E. discriminate. Qed.
Lemma post_bind {A B} (Q : A -> pst -> Prop) (Q' : B -> pst -> Prop) (r : Res (A * pst)) (f : A * pst -> Res (B * pst)) :
  post Q r -> (forall a st', Q a st' -> post Q' (f (a, st'))) ->
  post Q' (match r with Ok x => f x | Fault k => Fault k | OutOfFuel => OutOfFuel end).
Proof.
  intros Hr Hf. destruct r as [[a st']|k|]; [|apply post_fault|apply post_oof]. apply Hf. apply Hr. reflexivity.
Qed.
Lemma post_assoc {A B C} (Q : C -> pst -> Prop) (r : Res (A * pst)) (g : A * pst -> Res (B * pst))
      (f : B * pst -> Res (C * pst)) :
  post Q (match r with
          | Ok x => match g x with Ok y => f y | Fault k => Fault k | OutOfFuel => OutOfFuel end
          | Fault k => Fault k | OutOfFuel => OutOfFuel end) ->
  post Q (match (match r with Ok x => g x | Fault k => Fault k | OutOfFuel => OutOfFuel end) with
          | Ok y => f y | Fault k => Fault k | OutOfFuel => OutOfFuel end).
Proof. destruct r as [x|k|]; auto. Qed.
Lemma post_weaken {A} (Q Q' : A -> pst -> Prop) r : post Q r -> (forall a st', Q a st' -> Q' a st') -> post Q' r.
Proof. intros H Hw a st' E. apply Hw, H, E. Qed.

(* ------------------------------------------------------------------ the error list only grows *)
Definition mono (st st' : pst) : Prop := perrs st' = [] -> perrs st = [].

Lemma mono_refl st : mono st st.
Proof. intros H; exact H. Qed.
Lemma mono_trans a b c : mono a b -> mono b c -> mono a c.
Proof. unfold mono. auto. Qed.
Lemma perrs_next st : perrs (next st) = perrs st.
Proof. unfold next. destruct (rest st) as [|t [|t2 r]]; reflexivity. Qed.
Lemma mono_next_r a st : mono a st -> mono a (next st).
Proof. unfold mono. rewrite perrs_next. auto. Qed.
Lemma mono_err_r a e st : mono a st -> mono a (err e st).
Proof. unfold mono. cbn [err perrs]. intros _ H. apply app_eq_nil in H as [_ H]. discriminate. Qed.
Lemma mono_expect_r a k st : mono a st -> mono a (expect k st).
Proof. unfold expect. destruct (tk_eqb _ _); [apply mono_next_r|intros H; apply mono_err_r, mono_next_r, H]. Qed.

Lemma perrs_expect_nil k st : perrs (expect k st) = [] -> now_kind (next st) = k.
Proof.
  unfold expect. destruct (tk_eqb (now_kind (next st)) k) eqn:E; [intros _; apply tk_eqb_true, E|].
  cbn [err perrs]. intros H. apply app_eq_nil in H as [_ H]. discriminate.
Qed.

Lemma now_expect k st : now (expect k st) = now (next st).
Proof. unfold expect. destruct (tk_eqb _ _); reflexivity. Qed.
Lemma pre_expect k st : pre (expect k st) = pre (next st).
Proof. unfold expect. destruct (tk_eqb _ _); reflexivity. Qed.
Lemma now_str_expect k st : now_str (expect k st) = now_str (next st).
Proof. unfold now_str, now_tok. rewrite now_expect. reflexivity. Qed.
Lemma now_loc_expect k st : now_loc (expect k st) = now_loc (next st).
Proof.
  unfold now_loc, heard_loc, ahead_tok. rewrite now_expect, pre_expect, rest_expect. reflexivity.
Qed.
Lemma now_next_some st : exists t, now (next st) = Some t.
Proof. unfold next. destruct (rest st) as [|t [|t2 r]]; cbn [now]; eauto. Qed.

(* ------------------------------------------------------------------ the last two consumed tokens *)
Inductive Last2 : list tok -> option tok -> option tok -> Prop :=
| L2nil : Last2 [] None None
| L2one t : Last2 [t] None (Some t)
| L2more l p t : Last2 (l ++ [p; t]) (Some p) (Some t).

Lemma Last2_snoc l p n t : Last2 l p n -> Last2 (l ++ [t]) n (Some t).
Proof.
  intros H. destruct H as [|t0|l p t0].
  - apply L2one.
  - apply (L2more [] t0 t).
  - rewrite <- app_assoc. change ([p; t0] ++ [t]) with ([p] ++ [t0; t]). rewrite app_assoc. apply L2more.
Qed.

Lemma tok_locs_mid : forall l ts z p t r,
  map lt ts = l ++ p :: t :: r -> In (t, tok_loc p t) (tok_locs z ts).
Proof.
  induction l as [|x l IH]; intros ts z p t r H.
  - destruct ts as [|a [|b ts]]; try discriminate. cbn [map app] in H. injection H as <- <- _.
    cbn [tok_locs]. right. left. reflexivity.
  - destruct ts as [|a ts]; [discriminate|]. cbn [map app] in H. injection H as _ H.
    cbn [tok_locs]. right. eapply IH. exact H.
Qed.

Section Inv.
  Variable ts : list ltok.

  Definition RunI (st : pst) : Prop :=
    exists dl, ts = dl ++ rest st /\ rest st <> [] /\ lseen st = flat_map lerrs dl /\
               Last2 (map lt dl) (pre st) (now st).
  Definition StuckI (st : pst) : Prop :=
    exists e, rest st = [mkLtok e [] []] /\ tk e = TkEOF /\ now st = Some e /\ lseen st = flat_map lerrs ts /\
              In e (map lt ts).
  Definition Inv (st : pst) : Prop := RunI st \/ StuckI st.

  Lemma Inv_init : ts <> [] -> Inv (init_pst ts).
  Proof. intros Hne. left. exists []. cbn. repeat split; [exact Hne|apply L2nil]. Qed.

  Lemma Inv_err e st : Inv st -> Inv (err e st).
  Proof. intros H. exact H. Qed.

  Hypothesis Hwf : wfr ts.

  Lemma Inv_next st : Inv st -> Inv (next st).
  Proof.
    intros [(dl & Hts & Hne & Hls & Hl2)|(e & Hr & Hk & Hn & Hls & Hin)].
    - unfold next. destruct (rest st) as [|t [|t2 r]] eqn:Er; [congruence| |].
      + right. exists (lt t). cbn [rest now lseen]. repeat split.
        * destruct Hwf as [_ Hl]. rewrite Hts, last_last in Hl. exact Hl.
        * rewrite Hls, Hts, flat_map_app. cbn [flat_map]. rewrite app_nil_r. reflexivity.
        * rewrite Hts, map_app. apply in_or_app. right. left. reflexivity.
      + left. exists (dl ++ [t]). cbn [rest now pre lseen]. split; [rewrite <- app_assoc; exact Hts|].
        split; [discriminate|]. split.
        * rewrite Hls, flat_map_app. cbn [flat_map]. rewrite app_nil_r. reflexivity.
        * rewrite map_app. cbn [map]. eapply Last2_snoc. exact Hl2.
    - right. exists e. unfold next. rewrite Hr. cbn [rest now lseen lt lerrs]. rewrite app_nil_r. repeat split; assumption.
  Qed.

  Lemma Inv_expect k st : Inv st -> Inv (expect k st).
  Proof. intros H. unfold expect. destruct (tk_eqb _ _); [|apply Inv_err]; apply Inv_next, H. Qed.

  (* the identifier under the cursor is an element of the token/Loc list of the stream *)
  Lemma Inv_now_id st t : Inv st -> now st = Some t -> tk t = TkIdentifier ->
    In (t, now_loc st) (tok_locs zero_tok ts).
  Proof.
    intros [(dl & Hts & Hne & Hls & Hl2)|(e & Hr & Hk & Hn & Hls & Hin)] Hnow Hid.
    - unfold now_loc. rewrite Hnow. rewrite Hnow in Hl2.
      assert (Hm : map lt ts = map lt dl ++ map lt (rest st)) by (rewrite Hts at 1; apply map_app).
      inversion Hl2 as [E1 E2 E3|t0 E1 E2 E3|l p t0 E1 E2 E3].
      + destruct ts as [|a ts'] eqn:Ets; [destruct dl; discriminate|].
        rewrite <- E1 in Hm. cbn [map app] in Hm. injection Hm as Ha _.
        cbn [tok_locs otok]. left. rewrite Ha, E3. reflexivity.
      + rewrite <- E1, <- app_assoc, E3 in Hm. cbn [otok]. eapply tok_locs_mid. exact Hm.
    - exfalso. rewrite Hn in Hnow. injection Hnow as <-. congruence.
  Qed.

  (* ---------------------------------------------------------------- what a recorded name must be *)
  Definition Good (x : list N * loc) : Prop :=
    exists t, In (t, snd x) (tok_locs zero_tok ts) /\ tk t = TkIdentifier /\ tstr t = fst x.
  Definition GoodAt (st : pst) (x : list N * loc) : Prop := perrs st = [] -> Good x.
  Definition G2 (st : pst) (ns : list (list N)) (ls : list loc) : Prop :=
    Forall2 (fun n l => GoodAt st (n, l)) ns ls.

  Lemma good_mono st st' x : GoodAt st x -> mono st st' -> GoodAt st' x.
  Proof. unfold GoodAt, mono. auto. Qed.
  Lemma goods_mono st st' L : Forall (GoodAt st) L -> mono st st' -> Forall (GoodAt st') L.
  Proof. intros H Hm. eapply Forall_impl; [|exact H]. intros x Hx. eapply good_mono; eassumption. Qed.
  Lemma G2_mono st st' ns ls : G2 st ns ls -> mono st st' -> G2 st' ns ls.
  Proof.
    unfold G2. intros H Hm. induction H; constructor; [eapply good_mono; eassumption|assumption].
  Qed.
  Lemma G2_combine st ns ls : G2 st ns ls -> Forall (GoodAt st) (combine ns ls).
  Proof. unfold G2. intros H. induction H; cbn [combine]; constructor; assumption. Qed.
  Lemma G2_snoc st ns ls n l : G2 st ns ls -> GoodAt st (n, l) -> G2 st (ns ++ [n]) (ls ++ [l]).
  Proof. intros H Hx. apply Forall2_app; [exact H|]. constructor; [exact Hx|constructor]. Qed.
  Lemma G2_one st n l : GoodAt st (n, l) -> G2 st [n] [l].
  Proof. intros Hx. constructor; [exact Hx|constructor]. Qed.
  Lemma G2_nil st : G2 st [] [].
  Proof. constructor. Qed.

  (* the one place where names are recorded: right after `expect TkIdentifier` *)
  Lemma good_record st : Inv st ->
    GoodAt (expect TkIdentifier st) (now_str (expect TkIdentifier st), now_loc (expect TkIdentifier st)).
  Proof.
    intros HI He. apply perrs_expect_nil in He. rewrite now_str_expect, now_loc_expect.
    destruct (now_next_some st) as [t Ht]. unfold now_kind, now_str, now_tok in *. rewrite Ht in *. cbn [otok] in *.
    exists t. cbn [fst snd]. split; [|split; [exact He|reflexivity]].
    apply Inv_now_id; [apply Inv_next, HI|exact Ht|exact He].
  Qed.

  (* ---------------------------------------------------------------- the result predicate of a parser function *)
  Definition R (st : pst) (names : list (list N * loc)) (st' : pst) : Prop :=
    Inv st' /\ mono st st' /\ Forall (GoodAt st') names.
  Definition R2 (st : pst) (ns : list (list N)) (ls : list loc) (st' : pst) : Prop :=
    Inv st' /\ mono st st' /\ G2 st' ns ls.

  Lemma local_attr_inv st a st' : p_local_attr st = (a, st') -> Inv st -> Inv st' /\ mono st st'.
  Proof.
    unfold p_local_attr. intros H HI.
    repeat match type of H with context [if ?b then _ else _] => destruct b end;
      injection H as <- <-;
      (split; [repeat first [assumption | apply Inv_expect | apply Inv_next | apply Inv_err]
              |repeat first [apply mono_refl | apply mono_expect_r | apply mono_next_r | apply mono_err_r]]).
  Qed.

  (* ---------------------------------------------------------------- the end of the parse *)
  Lemma Inv_eof_all st : wf_tokens ts -> Inv st -> now_kind st = TkEOF -> lseen st = flat_map lerrs ts.
  Proof.
    intros (_ & _ & Hall) [(dl & Hts & Hne & Hls & Hl2)|(e & Hr & Hk & Hn & Hls & Hin)] Hk0; [exfalso|exact Hls].
    unfold now_kind, now_tok in Hk0.
    assert (Hin : forall x, In x dl -> tk (lt x) <> TkEOF).
    { intros x Hx. apply Hall. rewrite Hts. rewrite removelast_app by exact Hne. apply in_or_app. left. exact Hx. }
    inversion Hl2 as [E1 E2 E3|t0 E1 E2 E3|l p t0 E1 E2 E3].
    - rewrite <- E3 in Hk0. cbn in Hk0. discriminate.
    - rewrite <- E3 in Hk0. cbn [otok] in Hk0. destruct dl as [|x [|y dl']]; try discriminate.
      cbn [map] in E1. injection E1 as E1. apply (Hin x); [left; reflexivity|rewrite <- E1; exact Hk0].
    - rewrite <- E3 in Hk0. cbn [otok] in Hk0.
      assert (Hx : In t0 (map lt dl)) by (rewrite <- E1; apply in_or_app; right; right; left; reflexivity).
      apply in_map_iff in Hx as (x & <- & Hx). apply (Hin x Hx). exact Hk0.
  Qed.
End Inv.
