(* Traversal resolver, layout: the FIRST look-ups (tr_clean1 of Proofs/TraverseBindClean1.v) are position-clean on
   every Laid chunk of the fragment - no guard on the names.  Same development as Proofs/TraverseBindLaidLoops.v with
   the weaker target and without the syntactic guard no_funcstat. *)
From Coq Require Import List NArith ZArith Bool Lia.
From LH Require Import Base.Bytes Model.Lexer Model.Ast Model.Scope Spec.LuaScope Proofs.TraverseBindDefs
  Proofs.TraverseBindSim Proofs.TraverseBindLoops Proofs.TraverseBindLaidBase Proofs.TraverseBindLaidPieces
  Proofs.TraverseBindLaidLoops Proofs.TraverseBindClean1.
Import ListNotations.
Local Open Scope Z_scope.

Definition tgt_c1 (flv : Z) (nm : list N) (v : exp) : ctarget :=
  match v with
  | EName n l => CName n l
  | EIndex p k _ =>
    COther (fun s => tr_exp flv k (tr_exp flv p s))
           (fun s => cl1_exp nm flv p s && cl1_exp nm flv k (tr_exp flv p s))
  | _ => COther (fun s => s) (fun _ => true)
  end.

Lemma ct_run_eq1 flv slv nm v eo s : ct_run flv slv (tgt_c1 flv nm v) eo s = tgt_run flv slv (tgt_m flv v) eo s.
Proof. destruct v; reflexivity. Qed.

Section Laid1.
  Variable W : Z.
  Hypothesis HW : 0 < W.
  Variable nm : list N.

  (* a target at l in [A, m], the assigned expression's region in [ra, rb] *)
  Lemma assign_name_clean1 flv slv n l eo A m ra rb st :
    idok W l -> A <= lo W l -> hi W l <= m ->
    match eo with Some e => InReg W (ref_of_exp e) ra rb | None => True end ->
    vss st <> [] -> G W (vss st) A m ->
    cl1_assign_name nm n l eo st = true /\ Evo W ra rb (vss st) (vss (assign_name flv slv n l eo st)).
  Proof.
    intros Hid Ha Hm Hreg Hn Hg. split.
    - unfold cl1_assign_name, clean_at. rewrite vars_of_vss, (G_clean W HW (vss st) n l A m Hg Hid Ha Hm).
      apply orb_true_r.
    - destruct (assign_name_vss flv slv n l eo st) as [E|E]; rewrite E; [|apply Evo_refl].
      unfold vss, st_repoint. cbn [t_frames]. apply (upd_frames_evo W). intros v. apply (repoint_evo W). exact Hreg.
  Qed.

  (* ------------------------------------------------------------------ the statements proved by mutual induction *)
  Definition CE1 (e : exp) : Prop :=
    frag_exp e = true -> tb_shp_exp e = true ->
    forall flv a b, chain W a (m_exp e) b -> PieceE W (tr_exp flv e) (cl1_exp nm flv e) a b.
  (* for a function expression the marks of its own Loc are irrelevant *)
  Definition CEF1 (e : exp) : Prop :=
    match e with
    | EFunc _ _ _ pls bk _ _ _ =>
      frag_exp e = true -> tb_shp_exp e = true ->
      forall flv a b, chain W a (flat_map id_marks pls ++ m_block bk) b ->
                      PieceE W (tr_exp flv e) (cl1_exp nm flv e) a b
    | _ => True
    end.
  Definition Pe1 (e : exp) : Prop := CE1 e /\ CEF1 e.
  Definition Ps1 (s : stat) : Prop :=
    frag_stat s = true -> tb_shp_stat s = true ->
    forall flv slv a b, chain W a (m_stat s) b -> PieceS W (tr_stat flv slv s) (cl1_stat nm flv slv s) a b.
  Definition Pb1 (b : block) : Prop :=
    frag_block b = true -> tb_shp_block b = true ->
    forall flv slv a c, chain W a (m_block b) c -> PieceS W (tr_block flv slv b) (cl1_block nm flv slv b) a c.

  Lemma exps_piece1 flv : forall es a b,
    Forall Pe1 es -> forallb frag_exp es = true -> forallb tb_shp_exp es = true ->
    chain W a (flat_map m_exp es) b ->
    PieceE W (apply_all (map (fun e => tr_exp flv e) es))
           (cl_all (map (fun e => (tr_exp flv e, cl1_exp nm flv e)) es)) a b.
  Proof.
    intros es a b Hall Hf Hs Hch.
    apply (PieceE_list W (fun e => tr_exp flv e) (fun e => cl1_exp nm flv e) m_exp); [|exact Hch].
    rewrite forallb_forall in Hf, Hs. rewrite Forall_forall in *. intros e He a' b' Hc.
    exact (proj1 (Hall e He) (Hf e He) (Hs e He) flv a' b' Hc).
  Qed.

  (* a block in its own scope; an empty block has no marks *)
  Lemma block_scope_piece1 flv slv bk a c :
    Pb1 bk -> frag_block bk = true -> tb_shp_block bk = true ->
    chain W a (blockmarks bk) c ->
    PieceE W (fun st => pop (tr_block flv slv bk (push (block_loc bk) st)))
           (fun st => cl1_block nm flv slv bk (push (block_loc bk) st)) a c.
  Proof.
    intros Hb Hf Hs Hch. destruct bk as [ss ret l]. unfold blockmarks in Hch. cbn [block_stats block_ret block_loc] in *.
    destruct ss as [|s ss'].
    - destruct ret as [es|].
      + destruct (chain_region W _ _ _ _ Hch) as [_ [H2 [H3 H4]]].
        eapply PieceE_sub; [apply PieceE_scope; exact (Hb Hf Hs flv slv _ _ H4)|exact H2|exact H3].
      + eapply PieceE_ext; [| |exact (PieceE_scope W l _ _ a c (PieceS_id W a c))]; intros; reflexivity.
    - destruct (chain_region W _ _ _ _ Hch) as [_ [H2 [H3 H4]]].
      eapply PieceE_sub; [apply PieceE_scope; exact (Hb Hf Hs flv slv _ _ H4)|exact H2|exact H3].
  Qed.

  Lemma if_piece1 flv slv : forall es bs a b,
    length es = length bs ->
    Forall Pe1 es -> Forall Pb1 bs ->
    forallb frag_exp es = true -> forallb tb_shp_exp es = true ->
    forallb frag_block bs = true -> forallb tb_shp_block bs = true ->
    chain W a (zipapp (map m_exp es) (map blockmarks bs)) b ->
    PieceE W (if_loop (map (fun e => tr_exp flv e) es) (map (fun bk => (block_loc bk, tr_block flv (slv + 1) bk)) bs))
           (cl_if_loop (map (fun e => (tr_exp flv e, cl1_exp nm flv e)) es)
                       (map (fun bk => (block_loc bk, tr_block flv (slv + 1) bk, cl1_block nm flv (slv + 1) bk)) bs)) a b.
  Proof.
    induction es as [|e es' IH]; intros bs a b Hlen He Hb Hfe Hse Hfb Hsb Hch.
    - destruct bs; [|discriminate]. eapply PieceE_ext; [| |apply PieceE_id]; intros; reflexivity.
    - destruct bs as [|bk bs']; [discriminate|]. injection Hlen as Hlen.
      inversion He as [|? ? He1 He2]; subst. inversion Hb as [|? ? Hb1 Hb2]; subst.
      cbn [forallb] in *.
      apply andb_true_iff in Hfe. destruct Hfe as [Hfe1 Hfe2].
      apply andb_true_iff in Hse. destruct Hse as [Hse1 Hse2].
      apply andb_true_iff in Hfb. destruct Hfb as [Hfb1 Hfb2]. apply andb_true_iff in Hsb. destruct Hsb as [Hsb1 Hsb2].
      cbn [map zipapp] in Hch. destruct (chain_app W _ _ _ _ Hch) as [c1 [C1 C2]].
      destruct (chain_app W _ _ _ _ C2) as [c2 [C3 C4]].
      pose proof (chain_le W _ _ _ C1) as L1. pose proof (chain_le W _ _ _ C3) as L2. pose proof (chain_le W _ _ _ C4) as L3.
      pose proof (proj1 He1 Hfe1 Hse1 flv a c1 C1) as P1.
      pose proof (block_scope_piece1 flv (slv + 1) bk c1 c2 Hb1 Hfb1 Hsb1 C3) as P2.
      pose proof (IH bs' c2 b Hlen He2 Hb2 Hfe2 Hse2 Hfb2 Hsb2 C4) as P3.
      assert (La : a <= c2) by (clear - L1 L2; lia).
      pose proof (PieceE_seq W _ _ _ _ a c1 c2 L1 L2 P1 P2) as P12.
      pose proof (PieceE_seq W _ _ _ _ a c2 b La L3 P12 P3) as H.
      eapply PieceE_ext; [| |exact H]; intros; reflexivity.
  Qed.

  (* ---- assignment, general form: targets in [A, m], right-hand sides in [c0, B] *)
  Lemma assign_piece1 flv slv : forall vars es A m c0 B st,
    (forall v, In v vars -> exists n l, v = EName n l) ->
    Forall Pe1 es -> forallb frag_exp es = true -> forallb tb_shp_exp es = true ->
    chain W A (flat_map m_exp vars) m -> chain W c0 (flat_map m_exp es) B -> m <= c0 ->
    vss st <> [] -> G W (vss st) A m -> G W (vss st) c0 B ->
    cl1_assign_loop nm flv slv (map (tgt_c1 flv nm) vars) (map (fun e => (e, tr_exp flv e, cl1_exp nm flv e)) es) st = true /\
    Evo W m B (vss st) (vss (assign_loop flv slv (map (tgt_m flv) vars) (map (fun e => (e, tr_exp flv e)) es) st)).
  Proof.
    induction vars as [|v vars' IH]; intros es A m c0 B st Hv He Hf Hs Ht Hx Hmc Hne Hg1 Hg2.
    - pose proof (exps_piece1 flv es c0 B He Hf Hs Hx st Hne Hg2) as [P1 P2].
      cbn [map assign_loop cl1_assign_loop]. rewrite !map_map. cbn [fst snd]. split; [exact P1|].
      exact (Evo_widen W _ _ _ _ _ _ P2 Hmc (Z.le_refl B)).
    - destruct (Hv v (or_introl eq_refl)) as [n [l ->]].
      assert (Hv' : forall v, In v vars' -> exists n l, v = EName n l) by (intros v0 H0; apply Hv; right; exact H0).
      cbn [flat_map m_exp] in Ht. destruct (chain_id W _ _ _ _ Ht) as [Hid [Ha Ht']].
      pose proof (idok_lt W _ Hid) as Hlt. pose proof (chain_le W _ _ _ Ht') as Hlm.
      pose proof (chain_le W _ _ _ Hx) as HcB.
      destruct es as [|e es'].
      + cbn [map]. rewrite assign_loop_cons_nil. cbn [cl1_assign_loop tgt_c1 ct_clean1 ct_run tgt_m tgt_run].
        destruct (assign_name_clean1 flv slv n l None A m m m st Hid Ha Hlm I Hne Hg1) as [Q1 Q2].
        remember (assign_name flv slv n l None st) as st2 eqn:Est2 in *. clear Est2.
        assert (Hne2 : vss st2 <> []) by exact (Evo_nonempty W _ _ _ _ Q2 Hne).
        assert (G1' : G W (vss st2) (hi W l) m).
        { apply (G_evo W _ _ m m (hi W l) m (G_sub W (vss st) A m (hi W l) m Hg1 ltac:(zlia) (Z.le_refl m)) Q2). right. zlia. }
        assert (G2' : G W (vss st2) c0 B).
        { apply (G_evo W _ _ m m c0 B Hg2 Q2). left. zlia. }
        destruct (IH [] (hi W l) m c0 B st2 Hv' He Hf Hs Ht' Hx Hmc Hne2 G1' G2') as [R1 R2].
        split; [rewrite Q1; exact R1|].
        eapply Evo_trans; [exact (Evo_widen W m m m B _ _ Q2 (Z.le_refl m) ltac:(zlia))|exact R2].
      + inversion He as [|? ? He1 He2]; subst. cbn [forallb] in Hf, Hs.
        apply andb_true_iff in Hf. destruct Hf as [Hf1 Hf2].
        apply andb_true_iff in Hs. destruct Hs as [Hs1 Hs2].
        cbn [flat_map] in Hx. destruct (chain_app W _ _ _ _ Hx) as [c1 [X1 X2]].
        pose proof (chain_le W _ _ _ X1) as L1. pose proof (chain_le W _ _ _ X2) as L2.
        cbn [map]. rewrite assign_loop_cons. cbn [cl1_assign_loop tgt_c1 ct_clean1 ct_run tgt_m tgt_run].
        destruct (proj1 He1 Hf1 Hs1 flv c0 c1 X1 st Hne (G_sub W _ _ _ _ _ Hg2 (Z.le_refl c0) L2)) as [P1 P2].
        remember (tr_exp flv e st) as st1 eqn:Est1 in *. clear Est1.
        assert (Hne1 : vss st1 <> []) by exact (Evo_nonempty W _ _ _ _ P2 Hne).
        assert (G1a : G W (vss st1) A m).
        { apply (G_evo W _ _ c0 c1 A m Hg1 P2). right. zlia. }
        pose proof (InReg_widen W _ _ _ m c1 (region_of_exp W e c0 c1 X1) Hmc (Z.le_refl c1)) as Hreg.
        destruct (assign_name_clean1 flv slv n l (Some e) A m m c1 st1 Hid Ha Hlm Hreg Hne1 G1a) as [Q1 Q2].
        remember (assign_name flv slv n l (Some e) st1) as st2 eqn:Est2 in *. clear Est2.
        assert (Hne2 : vss st2 <> []) by exact (Evo_nonempty W _ _ _ _ Q2 Hne1).
        assert (G1' : G W (vss st2) (hi W l) m).
        { apply (G_evo W _ _ m c1 (hi W l) m (G_sub W (vss st1) A m (hi W l) m G1a ltac:(zlia) (Z.le_refl m)) Q2). right. zlia. }
        assert (G2' : G W (vss st2) c1 B).
        { assert (G2a : G W (vss st1) c1 B).
          { apply (G_evo W (vss st) (vss st1) c0 c1 c1 B (G_sub W (vss st) c0 B c1 B Hg2 L1 (Z.le_refl B)) P2).
            left. zlia. }
          apply (G_evo W (vss st1) (vss st2) m c1 c1 B G2a Q2). left. zlia. }
        destruct (IH es' (hi W l) m c1 B st2 Hv' He2 Hf2 Hs2 Ht' X2 ltac:(zlia) Hne2 G1' G2') as [R1 R2].
        split; [rewrite P1, Q1; exact R1|].
        eapply Evo_trans; [exact (Evo_widen W _ _ _ _ _ _ P2 Hmc L2)|].
        eapply Evo_trans; [exact (Evo_widen W _ _ _ _ _ _ Q2 (Z.le_refl m) L2)|exact R2].
  Qed.

  (* ---- local n_0, ... = e_0, ...: names in ls (before c0), initialisers in [c0, B] *)
  Lemma vss_add_rest lastc flag : forall pl st vs r,
    vss st = vs :: r ->
    vss (fold_left (fun s nl => add_var (mkV (fst nl) (snd nl) lastc flag) s) pl st)
    = (rev (map (fun p : list N * loc => mkV (fst p) (snd p) lastc flag) pl) ++ vs) :: r.
  Proof.
    induction pl as [|p pl' IH]; intros st vs r E; [exact E|]. cbn [fold_left map rev].
    rewrite (IH _ _ _ (vss_add _ st vs r E)). rewrite <- app_assoc. reflexivity.
  Qed.

  Lemma local_piece1 flv : forall es (pl : list (list N * loc)) cA c0 B lastc il st,
    Forall Pe1 es -> forallb frag_exp es = true -> forallb tb_shp_exp es = true ->
    chain W c0 (flat_map m_exp es) B ->
    (forall p, In p pl -> idok W (snd p) /\ hi W (snd p) <= c0) ->
    InReg W lastc cA c0 -> cA <= c0 ->
    match il with Some i => colok W i /\ hi W i <= B | None => True end ->
    vss st <> [] -> G W (vss st) c0 B ->
    cl_local_loop (map (fun e => (e, tr_exp flv e, cl1_exp nm flv e)) es) pl st = true /\
    EvoS W cA B (vss st) (vss (local_loop (map (fun e => (e, tr_exp flv e)) es) pl lastc il st)).
  Proof.
    intros es pl cA c0 B lastc il st He Hf Hs Hx Hp Hlast HcA Hil Hne Hg.
    exact (local_piece_gen W (fun e => tr_exp flv e) (fun e => cl1_exp nm flv e) es pl cA c0 B lastc il st
                           (exps_piece1 flv es c0 B He Hf Hs Hx) Hx Hp Hlast HcA Hil Hne Hg).
  Qed.

  Lemma stats_piece1 flv slv : forall ss a b,
    Forall Ps1 ss -> forallb frag_stat ss = true -> forallb tb_shp_stat ss = true ->
    chain W a (flat_map m_stat ss) b ->
    PieceS W (apply_all (map (fun s => tr_stat flv slv s) ss))
           (cl_all (map (fun s => (tr_stat flv slv s, cl1_stat nm flv slv s)) ss)) a b.
  Proof.
    induction ss as [|s r IH]; intros a b Hall Hf Hs Hch.
    - apply PieceS_id.
    - inversion Hall as [|? ? Hx Hr]; subst. cbn [forallb] in *.
      apply andb_true_iff in Hf. destruct Hf as [Hf1 Hf2]. apply andb_true_iff in Hs. destruct Hs as [Hs1 Hs2].
     
      cbn [flat_map] in Hch. destruct (chain_app W _ _ _ _ Hch) as [c [C1 C2]].
      pose proof (PieceS_seq W _ _ _ _ a c b (chain_le W _ _ _ C1) (chain_le W _ _ _ C2)
                             (Hx Hf1 Hs1 flv slv a c C1) (IH c b Hr Hf2 Hs2 C2)) as H.
      eapply PieceS_ext; [| |exact H]; intros; reflexivity.
  Qed.
End Laid1.
