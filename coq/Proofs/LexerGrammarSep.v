(* C03, lexical level, layer 1: white space, line breaks and comments.
   skip_ws raises no error and stops at r  <->  Sep (chunk s) r   (Spec/LuaLex.v). *)
From Coq Require Import List NArith ZArith Bool Arith Lia ZifyNat ZifyN ZifyBool.
From LH Require Import Base.Bytes Base.Res Model.Codec Model.Lexer Spec.LuaLex.
From LH Require Import Proofs.LexerTotalFuel Proofs.LexerTotalProgress Proofs.LexerGrammarBase.
Import ListNotations.
Set Default Proof Using "Type".
Local Open Scope N_scope.

(* ------------------------------------------------------------------ short comments *)
Lemma until_newline_spec l :
  forallb (fun c => negb (lx_newline c)) (firstn (until_newline l) l) = true /\
  (skipn (until_newline l) l = [] \/ hd_is lx_newline (skipn (until_newline l) l) = true).
Proof.
  induction l as [|c t IH]; cbn [until_newline]; [split; [reflexivity|left; reflexivity]|].
  rewrite cls_newline. destruct (lx_newline c) eqn:E.
  - cbn [firstn skipn forallb hd_is]. split; [reflexivity|right; exact E].
  - cbn [firstn skipn forallb]. rewrite E. cbn [negb andb]. exact IH.
Qed.

Lemma until_newline_app body r :
  forallb (fun c => negb (lx_newline c)) body = true -> r = [] \/ hd_is lx_newline r = true ->
  until_newline (body ++ r) = length body.
Proof.
  intros Hb Hr. induction body as [|c t IH]; cbn [app until_newline length].
  - destruct Hr as [->|Hr]; [reflexivity|]. destruct r as [|x r]; [reflexivity|]. cbn [hd_is] in Hr.
    cbn [until_newline]. rewrite cls_newline, Hr. reflexivity.
  - cbn [forallb] in Hb. apply andb_true_iff in Hb as [Hc Ht]. rewrite cls_newline.
    destruct (lx_newline c); [discriminate|]. rewrite (IH Ht). reflexivity.
Qed.

(* the `long` test of skipComment *)
Definition long_flag (l : list N) : bool :=
  match l with
  | 91 :: _ => match fst (match_long_bracket l) with [] => false | _ => true end
  | _ => false
  end.

Lemma long_flag_iff l : long_flag l = true <-> opens_long l.
Proof.
  rewrite <- opens_long_iff. unfold long_flag. destruct l as [|c t]; [cbn; split; [discriminate|intros H; exfalso; apply H; reflexivity]|].
  destruct (N.eq_dec c 91) as [->|Hc].
  - destruct (fst (match_long_bracket (91 :: t))); split; congruence.
  - assert (E : fst (match_long_bracket (c :: t)) = []).
    { unfold match_long_bracket. destruct c as [|p]; [reflexivity|].
      do 7 (try (destruct p as [p|p|]; try reflexivity)). congruence. }
    rewrite E. split; [|congruence]. destruct c as [|p]; [discriminate|].
    do 7 (try (destruct p as [p|p|]; try discriminate)).
Qed.

Lemma skip_comment_unfold s :
  skip_comment s =
  let s1 := adv s 2 in
  if long_flag (chunk s1) then let '(str, s2, es, _) := scan_long_string s1 in (false, str, s2, es)
  else let n := until_newline (chunk s1) in (true, firstn n (chunk s1), adv s1 n, []).
Proof. reflexivity. Qed.

Lemma skip_comment_complete s bs r :
  Comment bs r -> chunk s = bs ->
  exists short txt s1, skip_comment s = (short, txt, s1, []) /\ chunk s1 = r.
Proof.
  intros HC Hc. rewrite skip_comment_unfold. cbv zeta.
  assert (Hadv : forall x, bs = 45 :: 45 :: x -> chunk (adv s 2) = x).
  { intros x Hx. unfold adv. cbn [chunk]. rewrite Hc, Hx. reflexivity. }
  destruct HC as [x r HL | body r Hno Hb Hr].
  - specialize (Hadv _ eq_refl).
    assert (Hlf : long_flag (chunk (adv s 2)) = true).
    { apply long_flag_iff. rewrite Hadv. destruct HL as [n body r _]. exists n, (body ++ lb_close n ++ r). reflexivity. }
    rewrite Hlf. destruct (scan_long_complete (adv s 2) x r HL Hadv) as (str & s' & Hs & Hc').
    rewrite Hs. eexists _, _, _. split; [reflexivity|exact Hc'].
  - specialize (Hadv _ eq_refl).
    assert (Hlf : long_flag (chunk (adv s 2)) = false).
    { destruct (long_flag (chunk (adv s 2))) eqn:E; [|reflexivity]. apply long_flag_iff in E. rewrite Hadv in E. contradiction. }
    rewrite Hlf. eexists _, _, _. split; [reflexivity|]. unfold adv at 1. cbn [chunk]. rewrite Hadv.
    rewrite (until_newline_app _ _ Hb Hr), skipn_app, Nat.sub_diag, skipn_all. reflexivity.
Qed.

Lemma skip_comment_sound s x short txt s1 :
  chunk s = 45 :: 45 :: x -> skip_comment s = (short, txt, s1, []) -> Comment (chunk s) (chunk s1).
Proof.
  intros Hc. rewrite skip_comment_unfold. cbv zeta.
  assert (Hadv : chunk (adv s 2) = x) by (unfold adv; cbn [chunk]; rewrite Hc; reflexivity).
  rewrite Hc. clear Hc. revert Hadv. generalize (adv s 2). intros s0 Hadv.
  destruct (long_flag (chunk s0)) eqn:Hlf.
  - destruct (scan_long_string s0) as [[[str s2] es] ov] eqn:Hs. intros H.
    assert (es = []) by congruence. assert (s2 = s1) by congruence. subst es s2.
    apply scan_long_sound in Hs. rewrite Hadv in Hs. constructor. exact Hs.
  - intros H. assert (E : adv s0 (until_newline (chunk s0)) = s1) by congruence. rewrite <- E.
    unfold adv. cbn [chunk]. rewrite Hadv.
    destruct (until_newline_spec x) as [Hb Hr].
    rewrite <- (firstn_skipn (until_newline x) x) at 1. apply Cm_short.
    + rewrite firstn_skipn. intros Ho. rewrite <- Hadv in Ho. apply long_flag_iff in Ho. congruence.
    + exact Hb.
    + exact Hr.
Qed.

(* ------------------------------------------------------------------ inversion of Sep *)
Lemma comment_starts bs r : Comment bs r -> exists x, bs = 45 :: 45 :: x.
Proof. intros [x r' _|body r' _ _ _]; eexists; reflexivity. Qed.

Lemma sep_inv_nil r : Sep [] r -> r = [].
Proof.
  intros H. inversion H as [r0 _ _ E1 E2|c bs r0 _ _ E1 E2|bs r1 r0 HC _ E1 E2]; subst; [reflexivity|].
  apply comment_starts in HC as [x Hx]. discriminate.
Qed.

Lemma sep_inv_blank c bs r : lx_blank c = true -> Sep (c :: bs) r -> Sep bs r.
Proof.
  intros Hb H. inversion H as [r0 Hh _ E1 E2|c' bs' r0 _ HS E1 E2|bs' r1 r0 HC _ E1 E2]; subst.
  - cbn [hd_is] in Hh. congruence.
  - exact HS.
  - apply comment_starts in HC as [x Hx]. injection Hx as -> _. discriminate.
Qed.

Lemma sep_inv_end c bs r :
  lx_blank c = false -> ~ starts [45; 45] (c :: bs) -> Sep (c :: bs) r -> r = c :: bs.
Proof.
  intros Hb Hn H. inversion H as [r0 _ _ E1 E2|c' bs' r0 Hb' _ E1 E2|bs' r1 r0 HC _ E1 E2]; subst.
  - reflexivity.
  - congruence.
  - apply comment_starts in HC as [x Hx]. exfalso. apply Hn. rewrite Hx. exists x. reflexivity.
Qed.

Lemma sep_inv_comment x r : Sep (45 :: 45 :: x) r -> exists r1, Comment (45 :: 45 :: x) r1 /\ Sep r1 r.
Proof.
  intros H. inversion H as [r0 _ Hn E1 E2|c' bs' r0 Hb' _ E1 E2|bs' r1 r0 HC HS E1 E2]; subst.
  - exfalso. apply Hn. exists x. reflexivity.
  - discriminate.
  - exists r1. split; assumption.
Qed.

(* ------------------------------------------------------------------ skip_ws_f *)
Lemma pair_blank c0 c1 : ((c0 =? 13) && (c1 =? 10)) || ((c0 =? 10) && (c1 =? 13)) = true ->
  lx_blank c0 = true /\ lx_blank c1 = true.
Proof. unfold lx_blank, lx_newline, lx_space. lia. Qed.

Lemma skip_ws_f_sound : forall f prev2 prev1 s cs errs s1 cs1 errs1,
  (clen s < f)%nat -> skip_ws_f f prev2 prev1 s cs errs = (s1, cs1, errs1) ->
  exists es, errs1 = errs ++ es /\ (es = [] -> Sep (chunk s) (chunk s1)).
Proof.
  induction f as [|f IH]; intros prev2 prev1 s cs errs s1 cs1 errs1 Hf H; [lia|].
  rewrite skip_ws_f_S in H.
  destruct (chunk s) as [|c0 rest] eqn:Hch.
  { pinj H. exists []. rewrite app_nil_r. split; [reflexivity|]. intros _. rewrite Hch. apply Sep_end; [reflexivity|].
    apply starts_nil_inv. }
  cbn [length] in Hf. cbv zeta in H.
  match type of H with context [if ?b then _ else _] => destruct b eqn:Ewrap end.
  { destruct rest as [|c1 rest']; [discriminate|]. cbn [length] in Hf. apply pair_blank in Ewrap as [B0 B1].
    apply IH in H; [|cbn [chunk]; rewrite adv_len, Hch; cbn [length]; lia].
    destruct H as (es & -> & Hs). exists es. split; [reflexivity|]. intros E. specialize (Hs E).
    cbn [chunk adv] in Hs. rewrite Hch in Hs. cbn [skipn] in Hs. apply Sep_blank; [exact B0|]. apply Sep_blank; assumption. }
  destruct (is_newline c0) eqn:Enl.
  { apply IH in H; [|cbn [chunk]; rewrite adv_len, Hch; cbn [length]; lia].
    destruct H as (es & -> & Hs). exists es. split; [reflexivity|]. intros E. specialize (Hs E).
    cbn [chunk adv] in Hs. rewrite Hch in Hs. cbn [skipn] in Hs. apply Sep_blank; [|exact Hs].
    unfold lx_blank. rewrite <- cls_newline, Enl. apply orb_true_r. }
  destruct (is_white c0) eqn:Ewh.
  { apply IH in H; [|rewrite adv_len, Hch; cbn [length]; lia].
    destruct H as (es & -> & Hs). exists es. split; [reflexivity|]. intros E. specialize (Hs E).
    cbn [chunk adv] in Hs. rewrite Hch in Hs. cbn [skipn] in Hs. apply Sep_blank; [|exact Hs].
    unfold lx_blank. rewrite <- cls_white, Ewh. reflexivity. }
  match type of H with context [if negb ?b then _ else _] => destruct b eqn:Epre end; cbn [negb] in H.
  2:{ pinj H. exists []. rewrite app_nil_r. split; [reflexivity|]. intros _. rewrite Hch. apply Sep_end.
      - cbn [hd_is]. unfold lx_blank. rewrite <- cls_newline, <- cls_white, Enl, Ewh. reflexivity.
      - intros [q Hq]. cbn [app] in Hq. injection Hq as -> ->. cbn in Epre. discriminate. }
  destruct rest as [|c1 rest']; [discriminate|]. apply andb_true_iff in Epre as [E0 E1].
  apply N.eqb_eq in E0, E1. subst c0 c1.
  destruct (skip_comment s) as [[[short txt] s2] es] eqn:Hsc.
  pose proof (skip_comment_le _ _ _ _ _ Hsc) as Hle. rewrite Hch in Hle. cbn [length] in Hle, Hf.
  apply IH in H; [|lia]. destruct H as (es' & -> & Hs). exists (es ++ es'). split; [symmetry; apply app_assoc|].
  intros E. apply app_eq_nil in E as [-> ->]. specialize (Hs eq_refl).
  apply Sep_comment with (r1 := chunk s2); [|exact Hs]. rewrite <- Hch. eapply skip_comment_sound; eassumption.
Qed.

Lemma skip_ws_f_complete : forall f prev2 prev1 s cs errs r,
  (clen s < f)%nat -> Sep (chunk s) r ->
  exists s1 cs1, skip_ws_f f prev2 prev1 s cs errs = (s1, cs1, errs) /\ chunk s1 = r.
Proof.
  induction f as [|f IH]; intros prev2 prev1 s cs errs r Hf HS; [lia|].
  rewrite skip_ws_f_S.
  destruct (chunk s) as [|c0 rest] eqn:Hch.
  { apply sep_inv_nil in HS. subst r. eexists _, _. split; [reflexivity|exact Hch]. }
  cbn [length] in Hf. cbv zeta.
  match goal with |- context [if ?b then _ else _] => destruct b eqn:Ewrap end.
  { destruct rest as [|c1 rest']; [discriminate|]. cbn [length] in Hf. apply pair_blank in Ewrap as [B0 B1].
    apply sep_inv_blank in HS; [|exact B0]. apply sep_inv_blank in HS; [|exact B1].
    apply IH; [cbn [chunk]; rewrite adv_len, Hch; cbn [length]; lia|].
    cbn [chunk adv]. rewrite Hch. exact HS. }
  destruct (is_newline c0) eqn:Enl.
  { apply sep_inv_blank in HS; [|unfold lx_blank; rewrite <- cls_newline, Enl; apply orb_true_r].
    apply IH; [cbn [chunk]; rewrite adv_len, Hch; cbn [length]; lia|].
    cbn [chunk adv]. rewrite Hch. exact HS. }
  destruct (is_white c0) eqn:Ewh.
  { apply sep_inv_blank in HS; [|unfold lx_blank; rewrite <- cls_white, Ewh; reflexivity].
    apply IH; [rewrite adv_len, Hch; cbn [length]; lia|].
    cbn [chunk adv]. rewrite Hch. exact HS. }
  match goal with |- context [if negb ?b then _ else _] => destruct b eqn:Epre end; cbn [negb].
  2:{ apply sep_inv_end in HS.
      - subst r. eexists _, _. split; [reflexivity|exact Hch].
      - unfold lx_blank. rewrite <- cls_newline, <- cls_white, Enl, Ewh. reflexivity.
      - intros [q Hq]. cbn [app] in Hq. injection Hq as -> ->. cbn in Epre. discriminate. }
  destruct rest as [|c1 rest']; [discriminate|]. apply andb_true_iff in Epre as [E0 E1].
  apply N.eqb_eq in E0, E1. subst c0 c1.
  apply sep_inv_comment in HS as (r1 & HC & HS).
  destruct (skip_comment_complete s _ _ HC Hch) as (short & txt & s2 & Hsc & Hc2). rewrite Hsc.
  pose proof (skip_comment_le _ _ _ _ _ Hsc) as Hle. rewrite Hch in Hle. cbn [length] in Hle, Hf.
  rewrite app_nil_r. apply IH; [lia|]. rewrite Hc2. exact HS.
Qed.

(* ------------------------------------------------------------------ skip_ws *)
Lemma skip_ws_sound prev2 prev1 s s1 cms :
  skip_ws prev2 prev1 s = (s1, cms, []) -> Sep (chunk s) (chunk s1).
Proof.
  unfold skip_ws. destruct (skip_ws_f _ _ _ _ _ _) as [[s' cs] errs] eqn:Hf. intros H. pinj H.
  apply skip_ws_f_sound in Hf; [|lia]. destruct Hf as (es & E & Hs). cbn [app] in E. subst es. apply Hs. reflexivity.
Qed.

Lemma skip_ws_complete prev2 prev1 s r :
  Sep (chunk s) r -> exists s1 cms, skip_ws prev2 prev1 s = (s1, cms, []) /\ chunk s1 = r.
Proof.
  intros HS. unfold skip_ws.
  destruct (skip_ws_f_complete (S (clen s)) prev2 prev1 s (mkCst None 0 []) [] r ltac:(lia) HS) as (s1 & cs1 & Hf & Hc).
  rewrite Hf. eexists _, _. split; [reflexivity|exact Hc].
Qed.

(* what Sep leaves is not the start of a separator *)
Lemma sep_rest bs r : Sep bs r -> hd_is lx_blank r = false /\ ~ starts [45; 45] r.
Proof. induction 1 as [r Hh Hn|c bs r _ _ IH|bs r1 r _ _ IH]; [split; assumption|exact IH|exact IH]. Qed.
