(* The reference binder of Spec/LuaScope.v on a Laid chunk: the Locs of ALL its occurrences (declarations and uses) are
   pairwise distinct identifiers with disjoint spans.  Consequences: a binding Loc determines the name, and no use lies
   inside a declaration - the guard decl_layout_ok of Proofs/TraverseBindRefs.v follows from Laid. *)
From Coq Require Import List NArith ZArith Bool Lia Permutation.
From LH Require Import Base.Bytes Model.Lexer Model.Ast Model.Scope Model.Globals Model.Resolve Spec.LuaScope
  Proofs.TraverseBindDefs Proofs.TraverseBindSim Proofs.TraverseBindLoops Proofs.TraverseBindLocal
  Proofs.TraverseBindRefs Proofs.TraverseBindSpecDecls
  Proofs.TraverseBindLaidBase Proofs.TraverseBindLaidLoops Proofs.TraverseBindLaidMain.
Import ListNotations.
Local Open Scope Z_scope.

Lemma NoDup_app_intro2 {A} (x y : list A) :
  NoDup x -> NoDup y -> (forall l, In l x -> In l y -> False) -> NoDup (x ++ y).
Proof.
  induction x as [|a r IH]; intros Hx Hy Hd; [exact Hy|]. inversion Hx as [|? ? Hn Hr]; subst. cbn. constructor.
  - intros Hin. apply in_app_or in Hin. destruct Hin as [Hin|Hin]; [contradiction|]. apply (Hd a); [left; reflexivity|exact Hin].
  - apply IH; auto. intros l Hl. apply Hd. right. exact Hl.
Qed.

Lemma flat_map_map_comp {A B C} (f : B -> list C) (g : A -> B) l : flat_map f (map g l) = flat_map (fun x => f (g x)) l.
Proof. induction l as [|x r IH]; [reflexivity|]. cbn. rewrite IH. reflexivity. Qed.

Definition slocs (os : list socc) : list loc := map s_loc os.
Lemma slocs_app a b : slocs (a ++ b) = slocs a ++ slocs b.
Proof. apply map_app. Qed.
Lemma slocs_tag_if c t os : slocs (tag_if c t os) = slocs os.
Proof. unfold slocs, tag_if. rewrite map_map. apply map_ext. intros o. destruct (c o); reflexivity. Qed.
Lemma slocs_flat_map {A} (f : A -> list socc) xs : slocs (flat_map f xs) = flat_map (fun x => slocs (f x)) xs.
Proof. induction xs as [|x r IH]; [reflexivity|]. cbn [flat_map]. rewrite slocs_app, IH. reflexivity. Qed.

Section SpecLaid.
  Variable W : Z.
  Hypothesis HW : 0 < W.

  (* identifier Locs inside [a, b]: pairwise distinct, pairwise disjoint spans *)
  Definition ILD (a b : Z) (ls : list loc) : Prop :=
    Forall (fun l => idok W l /\ a <= lo W l /\ hi W l <= b) ls /\ NoDup ls /\
    (forall l1 l2, In l1 ls -> In l2 ls -> l1 = l2 \/ hi W l1 <= lo W l2 \/ hi W l2 <= lo W l1).

  Lemma ILD_nil a b : ILD a b [].
  Proof. split; [constructor|split; [constructor|intros l1 l2 []]]. Qed.

  Lemma ILD_single l a b : idok W l -> a <= lo W l -> hi W l <= b -> ILD a b [l].
  Proof.
    intros H1 H2 H3. split; [constructor; [auto|constructor]|]. split; [constructor; [intros []|constructor]|].
    intros l1 l2 [<-|[]] [<-|[]]. left. reflexivity.
  Qed.

  Lemma ILD_widen a b a' b' ls : ILD a b ls -> a' <= a -> b <= b' -> ILD a' b' ls.
  Proof.
    intros [H1 [H2 H3]] Ha Hb. split; [|split; [exact H2|exact H3]].
    eapply Forall_impl; [|exact H1]. intros l [A1 [A2 A3]]. split; [exact A1|split; lia].
  Qed.

  Lemma ILD_perm a b x y : Permutation x y -> ILD a b x -> ILD a b y.
  Proof.
    intros Hp [H1 [H2 H3]]. split; [|split; [exact (Permutation_NoDup Hp H2)|]].
    - rewrite Forall_forall in *. intros l Hl. apply H1. exact (Permutation_in _ (Permutation_sym Hp) Hl).
    - intros l1 l2 I1 I2. apply H3; [exact (Permutation_in _ (Permutation_sym Hp) I1)|exact (Permutation_in _ (Permutation_sym Hp) I2)].
  Qed.

  Lemma ILD_app a1 b1 a2 b2 a b x y :
    ILD a1 b1 x -> ILD a2 b2 y -> (b1 <= a2 \/ b2 <= a1) ->
    a <= a1 -> a <= a2 -> b1 <= b -> b2 <= b -> ILD a b (x ++ y).
  Proof.
    intros [X1 [X2 X3]] [Y1 [Y2 Y3]] Hd Ha1 Ha2 Hb1 Hb2. split; [|split].
    - apply Forall_app. split; (eapply Forall_impl; [|eassumption]); intros l [A1 [A2 A3]]; (split; [exact A1|split; lia]).
    - rewrite Forall_forall in X1, Y1. apply NoDup_app_intro2; auto. intros l Hx Hy.
      destruct (X1 l Hx) as [Hid [P1 P2]]. destruct (Y1 l Hy) as [_ [Q1 Q2]]. pose proof (idok_lt W l Hid). lia.
    - rewrite Forall_forall in X1, Y1. intros l1 l2 I1 I2. apply in_app_or in I1. apply in_app_or in I2.
      destruct I1 as [I1|I1], I2 as [I2|I2].
      + apply X3; assumption.
      + destruct (X1 l1 I1) as [_ [P1 P2]]. destruct (Y1 l2 I2) as [_ [Q1 Q2]]. right. lia.
      + destruct (Y1 l1 I1) as [_ [P1 P2]]. destruct (X1 l2 I2) as [_ [Q1 Q2]]. right. lia.
      + apply Y3; assumption.
  Qed.

  Lemma ILD_seq a m b x y : ILD a m x -> ILD m b y -> a <= m -> m <= b -> ILD a b (x ++ y).
  Proof. intros Hx Hy Ham Hmb. apply (ILD_app a m m b a b x y Hx Hy); auto; lia. Qed.

  Lemma ILD_ids : forall ls a b, chain W a (flat_map id_marks ls) b -> ILD a b ls.
  Proof.
    induction ls as [|l r IH]; intros a b H; [apply ILD_nil|].
    cbn [flat_map] in H. destruct (chain_id W _ _ _ _ H) as [Hid [Ha Hr]].
    pose proof (idok_lt W _ Hid) as Hlt. pose proof (chain_le W _ _ _ Hr) as Hle.
    change (l :: r) with ([l] ++ r). apply (ILD_seq a (hi W l) b [l] r); try lia; [|exact (IH _ _ Hr)].
    apply ILD_single; auto; lia.
  Qed.

  Lemma ILD_firstn k ls a b : ILD a b ls -> ILD a b (firstn k ls).
  Proof.
    intros [H1 [H2 H3]]. assert (Hin : forall l, In l (firstn k ls) -> In l ls).
    { intros l Hl. rewrite <- (firstn_skipn k ls). apply in_or_app. left. exact Hl. }
    split; [|split].
    - rewrite Forall_forall in *. intros l Hl. apply H1. apply Hin. exact Hl.
    - rewrite <- (firstn_skipn k ls) in H2. clear - H2. induction (firstn k ls) as [|x r IH]; [constructor|].
      cbn in H2. inversion H2 as [|? ? Hn Hr]; subst. constructor; [|apply IH; exact Hr].
      intros Hx. apply Hn. apply in_or_app. left. exact Hx.
    - intros l1 l2 I1 I2. apply H3; apply Hin; assumption.
  Qed.

  Lemma combine_snd_firstn {A B} : forall (xs : list A) (ys : list B), map snd (combine xs ys) = firstn (length xs) ys.
  Proof.
    induction xs as [|x r IH]; intros ys; [reflexivity|]. destruct ys as [|y r']; [reflexivity|]. cbn. f_equal. apply IH.
  Qed.

  Lemma slocs_decls en flv slv reg e pl : slocs (map (decl_occ en flv slv reg e) pl) = map snd pl.
  Proof. unfold slocs. rewrite map_map. reflexivity. Qed.

  (* ------------------------------------------------------------------ the statements *)
  Definition PL (e : exp) : Prop :=
    tb_shp_exp e = true ->
    forall flv slv reg en a b, chain W a (m_exp e) b -> ILD a b (slocs (b_exp flv slv reg e en)).
  Definition PLF (e : exp) : Prop :=
    match e with
    | EFunc _ _ _ pls bk _ _ _ =>
      tb_shp_exp e = true ->
      forall flv slv reg en a b, chain W a (flat_map id_marks pls ++ m_block bk) b ->
                                 ILD a b (slocs (b_exp flv slv reg e en))
    | _ => True
    end.
  Definition PeL2 (e : exp) : Prop := PL e /\ PLF e.
  Definition SL (s : stat) : Prop :=
    tb_shp_stat s = true ->
    forall flv slv reg en a b, chain W a (m_stat s) b -> ILD a b (slocs (snd (b_stat flv slv reg s en))).
  Definition BL (bk : block) : Prop :=
    tb_shp_block bk = true ->
    forall flv slv reg en a b, chain W a (m_block bk) b -> ILD a b (slocs (snd (b_block flv slv reg bk en))).

  Lemma exps_L flv slv reg : forall es en a b,
    Forall PeL2 es -> forallb tb_shp_exp es = true -> chain W a (flat_map m_exp es) b ->
    ILD a b (slocs (flat_map (fun e => b_exp flv slv reg e en) es)).
  Proof.
    induction es as [|e r IH]; intros en a b Hall Hs Hch; [apply ILD_nil|].
    inversion Hall as [|? ? [He _] Hr]; subst. cbn [forallb] in Hs. apply andb_true_iff in Hs. destruct Hs as [Hs1 Hs2].
    cbn [flat_map] in *. destruct (chain_app W _ _ _ _ Hch) as [c [C1 C2]].
    rewrite slocs_app. apply (ILD_seq a c b); [exact (He Hs1 flv slv reg en a c C1)|exact (IH en c b Hr Hs2 C2)|
                                               exact (chain_le W _ _ _ C1)|exact (chain_le W _ _ _ C2)].
  Qed.

  Lemma stats_L flv slv reg : forall ss en a b,
    Forall SL ss -> forallb tb_shp_stat ss = true -> chain W a (flat_map m_stat ss) b ->
    ILD a b (slocs (snd (seq_stats (map (fun s => b_stat flv slv reg s) ss) en))).
  Proof.
    induction ss as [|s r IH]; intros en a b Hall Hsh Hch; [apply ILD_nil|].
    inversion Hall as [|? ? Hs Hr]; subst. cbn [forallb] in Hsh. apply andb_true_iff in Hsh. destruct Hsh as [Hs1 Hs2].
    cbn [flat_map map] in *. rewrite seq_stats_cons. cbn [snd].
    destruct (chain_app W _ _ _ _ Hch) as [c [C1 C2]].
    rewrite slocs_app. apply (ILD_seq a c b); [exact (Hs Hs1 flv slv reg en a c C1)|exact (IH _ c b Hr Hs2 C2)|
                                               exact (chain_le W _ _ _ C1)|exact (chain_le W _ _ _ C2)].
  Qed.

  Lemma block_L flv slv bk en a c :
    BL bk -> tb_shp_block bk = true -> chain W a (blockmarks bk) c -> a <= c ->
    ILD a c (slocs (snd (b_block flv slv (block_loc bk) bk en))).
  Proof.
    intros Hb Hs Hch Hac. destruct bk as [ss ret l]. unfold blockmarks in Hch. cbn [block_stats block_ret block_loc] in *.
    destruct ss as [|s ss'].
    - destruct ret as [es|].
      + destruct (chain_region W _ _ _ _ Hch) as [_ [H2 [H3 H4]]]. exact (ILD_widen _ _ _ _ _ (Hb Hs flv slv l en _ _ H4) H2 H3).
      + cbn. apply ILD_nil.
    - destruct (chain_region W _ _ _ _ Hch) as [_ [H2 [H3 H4]]]. exact (ILD_widen _ _ _ _ _ (Hb Hs flv slv l en _ _ H4) H2 H3).
  Qed.

  Lemma if_L flv slv reg : forall es bs en a b,
    length es = length bs -> Forall PeL2 es -> Forall BL bs ->
    forallb tb_shp_exp es = true -> forallb tb_shp_block bs = true ->
    chain W a (zipapp (map m_exp es) (map blockmarks bs)) b ->
    ILD a b (slocs (flat_map (fun e => b_exp flv slv reg e en) es
                    ++ flat_map (fun bk => snd (b_block flv (slv + 1) (block_loc bk) bk en)) bs)).
  Proof.
    induction es as [|e es' IH]; intros bs en a b Hlen He Hb Hse Hsb Hch.
    - destruct bs; [|discriminate]. apply ILD_nil.
    - destruct bs as [|bk bs']; [discriminate|]. injection Hlen as Hlen.
      inversion He as [|? ? [He1 _] He2]; subst. inversion Hb as [|? ? Hb1 Hb2]; subst.
      cbn [forallb] in Hse, Hsb. apply andb_true_iff in Hse. destruct Hse as [Hse1 Hse2].
      apply andb_true_iff in Hsb. destruct Hsb as [Hsb1 Hsb2].
      cbn [map zipapp] in Hch. destruct (chain_app W _ _ _ _ Hch) as [c1 [C1 C2]].
      destruct (chain_app W _ _ _ _ C2) as [c2 [C3 C4]].
      pose proof (chain_le W _ _ _ C1) as L1. pose proof (chain_le W _ _ _ C3) as L2. pose proof (chain_le W _ _ _ C4) as L3.
      pose proof (He1 Hse1 flv slv reg en a c1 C1) as P1.
      pose proof (block_L flv (slv + 1) bk en c1 c2 Hb1 Hsb1 C3 L2) as P2.
      pose proof (IH bs' en c2 b Hlen He2 Hb2 Hse2 Hsb2 C4) as P3.
      cbn [flat_map].
      assert (T : ILD a b (slocs ((b_exp flv slv reg e en ++ snd (b_block flv (slv + 1) (block_loc bk) bk en))
                                  ++ (flat_map (fun e0 => b_exp flv slv reg e0 en) es'
                                      ++ flat_map (fun bk0 => snd (b_block flv (slv + 1) (block_loc bk0) bk0 en)) bs')))).
      { rewrite !slocs_app. rewrite <- app_assoc. apply (ILD_seq a c1 b); auto; [|lia].
        apply (ILD_seq c1 c2 b); auto. rewrite <- slocs_app. exact P3. }
      eapply ILD_perm; [|exact T]. unfold slocs. apply Permutation_map. apply perm_if.
  Qed.

  Ltac bs H := repeat (apply andb_true_iff in H; let H' := fresh H in destruct H as [H H']).

  Lemma PeL2_atom e : (forall flv slv reg en, b_exp flv slv reg e en = []) ->
                      match e with EFunc _ _ _ _ _ _ _ _ => False | _ => True end -> PeL2 e.
  Proof.
    intros Hb Hk. split.
    - intros _ flv slv reg en a b _. rewrite Hb. apply ILD_nil.
    - destruct e; try exact I. contradiction.
  Qed.
  Lemma PeL2_nofunc e : PL e -> match e with EFunc _ _ _ _ _ _ _ _ => False | _ => True end -> PeL2 e.
  Proof. intros H Hk. split; [exact H|]. destruct e; try exact I. contradiction. Qed.

  Lemma slocs_concat_index {A} (f g : nat -> A -> list socc) : forall xs k,
    (forall i x, slocs (f i x) = slocs (g i x)) ->
    slocs (concat (index_map f k xs)) = slocs (concat (index_map g k xs)).
  Proof.
    induction xs as [|x r IH]; intros k H; [reflexivity|]. cbn [index_map concat]. rewrite !slocs_app, H, (IH (S k) H). reflexivity.
  Qed.
  Lemma concat_index_const {A} (g : A -> list socc) : forall xs k,
    concat (index_map (fun _ x => g x) k xs) = flat_map g xs.
  Proof. induction xs as [|x r IH]; intros k; [reflexivity|]. cbn [index_map concat flat_map]. rewrite IH. reflexivity. Qed.

  Lemma slocs_b4f vars es en i os : slocs (b4f vars es en i os) = slocs os.
  Proof.
    unfold b4f. destruct (nth_error vars i) as [v|]; [|reflexivity]. destruct v; try reflexivity.
    destruct (nth_error es i) as [e|]; [|reflexivity].
    destruct (env_find en n) as [[[a d] f]|]; [|reflexivity]. destruct f; [|reflexivity].
    destruct (ref_of_exp e); try reflexivity; apply slocs_tag_if.
  Qed.

  Theorem speclaid_all : (forall e, PeL2 e) /\ (forall s, SL s) /\ (forall b, BL b).
  Proof.
    apply tb_ast_ind.
    - intros; apply PeL2_atom; auto.
    - intros; apply PeL2_atom; auto.
    - intros; apply PeL2_atom; auto.
    - intros; apply PeL2_atom; auto.
    - intros; apply PeL2_atom; auto.
    - intros; apply PeL2_atom; auto.
    - intros; apply PeL2_atom; auto.
    - intros; apply PeL2_atom; auto.
    - (* EName *) intros n l. apply PeL2_nofunc; [|exact I]. intros _ flv slv reg en a b Hch.
      cbn [m_exp] in Hch. rewrite <- (app_nil_r (id_marks l)) in Hch. destruct (chain_id W _ _ _ _ Hch) as [Hid [Ha Hb]].
      cbn [chain] in Hb. cbn. apply ILD_single; auto.
    - intros o x l [IH _]. apply PeL2_nofunc; [|exact I]. intros Hs flv slv reg en a b Hch. exact (IH Hs flv slv reg en a b Hch).
    - (* EBinop *) intros o x y l [IHx _] [IHy _]. apply PeL2_nofunc; [|exact I]. intros Hs flv slv reg en a b Hch.
      cbn [tb_shp_exp] in Hs. bs Hs. cbn [m_exp b_exp] in *. destruct (chain_app W _ _ _ _ Hch) as [c [C1 C2]].
      rewrite slocs_app. apply (ILD_seq a c b); [exact (IHx Hs _ _ _ _ _ _ C1)|exact (IHy Hs0 _ _ _ _ _ _ C2)|
                                                 exact (chain_le W _ _ _ C1)|exact (chain_le W _ _ _ C2)].
    - intros x l [IH _]. apply PeL2_nofunc; [|exact I]. intros Hs flv slv reg en a b Hch. exact (IH Hs flv slv reg en a b Hch).
    - (* EIndex *) intros p k l [IHp _] [IHk _]. apply PeL2_nofunc; [|exact I]. intros Hs flv slv reg en a b Hch.
      cbn [tb_shp_exp] in Hs. bs Hs. cbn [m_exp b_exp] in *. destruct (chain_app W _ _ _ _ Hch) as [c [C1 C2]].
      rewrite slocs_app. apply (ILD_seq a c b); [exact (IHp Hs _ _ _ _ _ _ C1)|exact (IHk Hs0 _ _ _ _ _ _ C2)|
                                                 exact (chain_le W _ _ _ C1)|exact (chain_le W _ _ _ C2)].
    - (* ECall *) intros p name args l [IHp _] IHa. apply PeL2_nofunc; [|exact I]. intros Hs flv slv reg en a b Hch.
      cbn [tb_shp_exp] in Hs. bs Hs. cbn [m_exp b_exp] in *. rewrite app_assoc in Hch.
      destruct (chain_region W _ _ _ _ Hch) as [_ [H2 [H3 H4]]]. destruct (chain_app W _ _ _ _ H4) as [c [C1 C2]].
      rewrite slocs_app. eapply ILD_widen; [|exact H2|exact H3].
      apply (ILD_seq _ c _); [exact (IHp Hs _ _ _ _ _ _ C1)|exact (exps_L flv slv reg args en _ _ IHa Hs0 C2)|
                              exact (chain_le W _ _ _ C1)|exact (chain_le W _ _ _ C2)].
    - (* ETable *) intros ks vs l IHk IHv. apply PeL2_nofunc; [|exact I]. intros Hs flv slv reg en a b Hch.
      cbn [tb_shp_exp] in Hs. bs Hs. cbn [m_exp b_exp] in *. destruct (chain_app W _ _ _ _ Hch) as [c [C1 C2]].
      rewrite slocs_app. apply (ILD_seq a c b); [|exact (exps_L flv slv reg vs en _ _ IHv Hs0 C2)|
                                                 exact (chain_le W _ _ _ C1)|exact (chain_le W _ _ _ C2)].
      clear C2 Hch Hs0. revert a c C1 Hs. induction IHk as [|k r Hk Hr IH]; intros a c C1 Hs; [apply ILD_nil|].
      cbn [flat_map forallb] in *. bs Hs. destruct (chain_app W _ _ _ _ C1) as [c' [D1 D2]].
      rewrite slocs_app. apply (ILD_seq a c' c); [|exact (IH _ _ D2 Hs0)|exact (chain_le W _ _ _ D1)|exact (chain_le W _ _ _ D2)].
      destruct k as [k'|]; [exact (proj1 Hk Hs _ _ _ _ _ _ D1)|apply ILD_nil].
    - (* EFunc *) intros c f ps pl bk l va co IHb.
      assert (HF : PLF (EFunc c f ps pl bk l va co)).
      { cbn [PLF]. intros Hs flv slv reg en a b Hch. cbn [tb_shp_exp b_exp] in *.
        destruct (chain_app W _ _ _ _ Hch) as [c1 [C1 C2]].
        rewrite slocs_app, slocs_decls, combine_snd_firstn.
        apply (ILD_seq a c1 b); [apply ILD_firstn; apply ILD_ids; exact C1|exact (IHb Hs _ _ _ _ _ _ C2)|
                                 exact (chain_le W _ _ _ C1)|exact (chain_le W _ _ _ C2)]. }
      split; [|exact HF]. intros Hs flv slv reg en a b Hch.
      cbn [m_exp] in Hch. rewrite app_assoc in Hch. destruct (chain_region W _ _ _ _ Hch) as [_ [H2 [H3 H4]]].
      exact (ILD_widen _ _ _ _ _ (HF Hs flv slv reg en _ _ H4) H2 H3).
    - intros _ flv slv reg en a b _. apply ILD_nil.
    - intros n l _ flv slv reg en a b _. apply ILD_nil.
    - intros n l _ flv slv reg en a b _. apply ILD_nil.
    - (* SDo *) intros bk l IHb Hs flv slv reg en a b Hch. cbn [tb_shp_stat m_stat b_stat snd] in *.
      destruct (chain_region W _ _ _ _ Hch) as [_ [H2 [H3 H4]]]. exact (ILD_widen _ _ _ _ _ (IHb Hs _ _ _ _ _ _ H4) H2 H3).
    - (* SCall *) intros e [IHe _] Hs flv slv reg en a b Hch. cbn [tb_shp_stat m_stat b_stat snd] in *. exact (IHe Hs _ _ _ _ _ _ Hch).
    - (* SIf *) intros es bs l IHe IHb Hs flv slv reg en a b Hch. rewrite m_stat_if in Hch.
      cbn [tb_shp_stat b_stat snd] in *. bs Hs. apply Nat.eqb_eq in Hs.
      exact (if_L flv slv reg es bs en a b Hs IHe IHb Hs1 Hs0 Hch).
    - (* SWhile *) intros e bk l [IHe _] IHb Hs flv slv reg en a b Hch. cbn [tb_shp_stat m_stat b_stat snd] in *. bs Hs.
      rewrite app_assoc in Hch. destruct (chain_region W _ _ _ _ Hch) as [_ [H2 [H3 H4]]].
      destruct (chain_app W _ _ _ _ H4) as [c [C1 C2]]. rewrite slocs_app. eapply ILD_widen; [|exact H2|exact H3].
      apply (ILD_seq _ c _); [exact (IHe Hs _ _ _ _ _ _ C1)|exact (IHb Hs0 _ _ _ _ _ _ C2)|
                              exact (chain_le W _ _ _ C1)|exact (chain_le W _ _ _ C2)].
    - (* SRepeat *) intros bk e l IHb [IHe _] Hs flv slv reg en a b Hch. cbn [tb_shp_stat m_stat b_stat] in *. bs Hs.
      rewrite app_assoc in Hch. destruct (chain_region W _ _ _ _ Hch) as [_ [H2 [H3 H4]]].
      destruct (chain_app W _ _ _ _ H4) as [c [C1 C2]].
      pose proof (IHb Hs flv (slv + 1) l en _ _ C1) as P1.
      destruct (b_block flv (slv + 1) l bk en) as [en1 os]. cbn [snd] in *.
      rewrite slocs_app. eapply ILD_widen; [|exact H2|exact H3].
      apply (ILD_seq _ c _); [exact P1|exact (IHe Hs0 _ _ _ _ _ _ C2)|exact (chain_le W _ _ _ C1)|exact (chain_le W _ _ _ C2)].
    - (* SForNum *) intros n vl e1 e2 e3 bk l [IH1 _] [IH2 _] [IH3 _] IHb Hs flv slv reg en a b Hch.
      cbn [tb_shp_stat m_stat b_stat snd] in *. bs Hs.
      rewrite !app_assoc in Hch. destruct (chain_region W _ _ _ _ Hch) as [_ [H2 [H3 H4]]].
      rewrite <- !app_assoc in H4. destruct (chain_id W _ _ _ _ H4) as [Hid [Ha Hr]].
      pose proof (idok_lt W _ Hid) as Hlt.
      destruct (chain_app W _ _ _ _ Hr) as [c1 [C1 R1]]. destruct (chain_app W _ _ _ _ R1) as [c2 [C2 R2]].
      destruct (chain_app W _ _ _ _ R2) as [c3 [C3 C4]].
      pose proof (chain_le W _ _ _ C1) as L1. pose proof (chain_le W _ _ _ C2) as L2.
      pose proof (chain_le W _ _ _ C3) as L3. pose proof (chain_le W _ _ _ C4) as L4.
      rewrite slocs_app, slocs_tag_if, !slocs_app.
      cbn [slocs map]. fold (slocs (snd (b_block flv (slv + 1) l bk (push_decls en [(n, vl)] [false])))).
      eapply ILD_widen; [|exact H2|exact H3].
      set (X := slocs (b_exp flv slv reg e1 en) ++ slocs (b_exp flv slv reg e2 en) ++ slocs (b_exp flv slv reg e3 en)).
      assert (T : ILD (lo W l) (hi W l) ([vl] ++ X ++ slocs (snd (b_block flv (slv + 1) l bk (push_decls en [(n, vl)] [false]))))).
      { apply (ILD_seq _ (hi W vl) _); try lia; [apply ILD_single; auto; lia|].
        apply (ILD_seq _ c3 _); try lia; [|exact (IHb ltac:(assumption) _ _ _ _ _ _ C4)].
        unfold X. apply (ILD_seq _ c1 _); try lia; [exact (IH1 ltac:(assumption) _ _ _ _ _ _ C1)|].
        apply (ILD_seq _ c2 _); [exact (IH2 ltac:(assumption) _ _ _ _ _ _ C2)|exact (IH3 ltac:(assumption) _ _ _ _ _ _ C3)|exact L2|exact L3]. }
      eapply ILD_perm; [|exact T]. unfold X. cbn [app s_loc decl_occ snd]. apply Permutation_middle.
    - (* SForIn *) intros ns ls es bk l IHe IHb Hs flv slv reg en a b Hch. cbn [tb_shp_stat m_stat b_stat snd] in *. bs Hs.
      rewrite !app_assoc in Hch. destruct (chain_region W _ _ _ _ Hch) as [_ [H2 [H3 H4]]].
      rewrite <- !app_assoc in H4.
      destruct (chain_app W _ _ _ _ H4) as [c1 [C1 R1]]. destruct (chain_app W _ _ _ _ R1) as [c2 [C2 C3]].
      pose proof (chain_le W _ _ _ C1) as L1. pose proof (chain_le W _ _ _ C2) as L2. pose proof (chain_le W _ _ _ C3) as L3.
      rewrite slocs_app, slocs_tag_if, slocs_app, slocs_decls, combine_snd_firstn.
      eapply ILD_widen; [|exact H2|exact H3].
      assert (T : ILD (lo W l) (hi W l)
                      (firstn (length ns) ls ++ slocs (flat_map (fun e => b_exp flv slv reg e en) es)
                       ++ slocs (snd (b_block flv (slv + 1) l bk (push_decls en (combine ns ls) (map (fun _ => false) (combine ns ls))))))).
      { apply (ILD_seq _ c1 _); try lia; [apply ILD_firstn; apply ILD_ids; exact C1|].
        apply (ILD_seq _ c2 _); [exact (exps_L flv slv reg es en _ _ IHe Hs C2)|exact (IHb Hs0 _ _ _ _ _ _ C3)|exact L2|exact L3]. }
      eapply ILD_perm; [|exact T]. apply Permutation_app_swap_app.
    - (* SAssign *) intros vars es l IHv IHe Hs flv slv reg en a b Hch. cbn [tb_shp_stat] in Hs. bs Hs.
      rewrite b_stat_assign_eq. cbn [snd]. rewrite slocs_app.
      rewrite (slocs_concat_index _ (fun _ v => match v with
                                                | EName n l1 => [mkS l1 n (resolve en n) RWrite flv slv reg false [] en]
                                                | EIndex p k _ => b_exp flv slv reg p en ++ b_exp flv slv reg k en
                                                | _ => []
                                                end) vars O)
        by (intros i v; destruct v; try reflexivity; apply slocs_b4f).
      rewrite (slocs_concat_index _ (fun _ eo => snd eo) (map (fun e => (e, b_exp flv slv reg e en)) es) O)
        by (intros; apply slocs_b4f).
      rewrite !concat_index_const. rewrite flat_map_map_comp. cbn [snd].
      (* the marks *)
      assert (Hcase : (exists n nl c f0 fn ps pls bk fl va co,
                          vars = [EName n nl] /\ es = [EFunc c (f0 :: fn) ps pls bk fl va co])
                      \/ m_stat (SAssign vars es l) = flat_map m_exp vars ++ flat_map m_exp es).
      { clear. destruct vars as [|[] [|]]; destruct es as [|[] [|]]; try (right; reflexivity);
          try (destruct fname as [|f0 fn]; right; reflexivity).
        destruct fname as [|f0 fn]; [right; reflexivity|]. left. do 11 eexists. split; reflexivity. }
      destruct Hcase as [[n [nl [c [f0 [fn [ps [pls [bk [fl [va [co [-> ->]]]]]]]]]]]]|Hm].
      + cbn [m_stat] in Hch. pose proof (Forall_inv IHe) as [_ HF]. cbn [PLF] in HF.
        cbn [forallb] in Hs0. apply andb_true_iff in Hs0. destruct Hs0 as [Hse _].
        rewrite !app_assoc in Hch. destruct (chain_region W _ _ _ _ Hch) as [Hc [H2 [H3 H4]]].
        rewrite <- !app_assoc in H4. destruct (chain_id W _ _ _ _ H4) as [Hid [Ha Hr]].
        pose proof (idok_lt W _ Hid) as Hlt. pose proof (chain_le W _ _ _ Hr) as Hle.
        cbn [flat_map app slocs map s_loc]. rewrite app_nil_r.
        change (nl :: ?x) with ([nl] ++ x). eapply ILD_widen; [|exact H2|exact H3].
        apply (ILD_seq _ (hi W nl) _); try lia; [apply ILD_single; auto; lia|].
        exact (HF Hse flv slv reg en _ _ Hr).
      + rewrite Hm in Hch. destruct (chain_app W _ _ _ _ Hch) as [m [C1 C2]].
        apply (ILD_seq a m b); [|exact (exps_L flv slv reg es en _ _ IHe Hs0 C2)|exact (chain_le W _ _ _ C1)|exact (chain_le W _ _ _ C2)].
        clear C2 Hch Hm. revert a m C1 Hs. induction IHv as [|v r Hv Hr IH]; intros a m C1 Hs; [apply ILD_nil|].
        cbn [flat_map forallb] in *. bs Hs. destruct (chain_app W _ _ _ _ C1) as [c' [D1 D2]].
        rewrite slocs_app. apply (ILD_seq a c' m); [|exact (IH _ _ D2 Hs1)|exact (chain_le W _ _ _ D1)|exact (chain_le W _ _ _ D2)].
        destruct v; try apply ILD_nil.
        * cbn [m_exp] in D1. rewrite <- (app_nil_r (id_marks l0)) in D1. destruct (chain_id W _ _ _ _ D1) as [Hid [Ha Hb]].
          cbn [chain] in Hb. cbn. apply ILD_single; auto.
        * exact (proj1 Hv Hs flv slv reg en _ _ D1).
    - (* SLocal *) intros ns ls ats es l IHe Hs flv slv reg en a b Hch. cbn [tb_shp_stat m_stat b_stat snd] in *. bs Hs.
      destruct (chain_app W _ _ _ _ Hch) as [c0 [C1 C2]].
      rewrite slocs_app.
      rewrite (slocs_concat_index _ (fun _ eo => snd eo) (map (fun e => (e, b_exp flv slv reg e en)) es) O)
        by (intros i eo; unfold tag_local_init; reflexivity).
      rewrite concat_index_const, flat_map_map_comp. cbn [snd].
      assert (Hd : exists k, slocs (map (fun x => decl_occ en flv slv reg (snd x) (fst x))
                                        (combine (combine ns ls) (local_empties ns es))) = firstn k ls).
      { unfold slocs. rewrite map_map. cbn [decl_occ s_loc].
        generalize (local_empties ns es) as emp. clear. revert ls. induction ns as [|n r IH]; intros ls emp; [exists O; reflexivity|].
        destruct ls as [|l0 ls']; [exists O; reflexivity|]. destruct emp as [|e0 emp']; [exists O; reflexivity|].
        cbn [combine map snd fst]. destruct (IH ls' emp') as [k Hk]. exists (S k). cbn [firstn]. f_equal. exact Hk. }
      destruct Hd as [k Hk]. rewrite Hk.
      eapply ILD_perm; [apply Permutation_app_comm|].
      destruct (local_marks_chain W ns ls es l c0 b C2) as [c1 [c2 [Lc1 [Lc2 [C3 _]]]]].
      apply (ILD_seq a c0 b); [apply ILD_firstn; apply ILD_ids; exact C1|
                               exact (ILD_widen _ _ _ _ _ (exps_L flv slv reg es en _ _ IHe Hs0 C3) Lc1 Lc2)|
                               exact (chain_le W _ _ _ C1)|exact (chain_le W _ _ _ C2)].
    - (* SLocalFunc *) intros n nl f l IHf Hs flv slv reg en a b Hch. cbn [tb_shp_stat b_stat snd] in *.
      cbn [slocs map decl_occ s_loc snd]. fold (slocs (b_exp flv slv reg f (push_decls en [(n, nl)] [false]))).
      change (nl :: ?x) with ([nl] ++ x).
      destruct f; cbn [m_stat] in Hch;
        try (destruct (chain_id W _ _ _ _ Hch) as [Hid [Ha Hr]]; pose proof (idok_lt W _ Hid) as Hlt;
             apply (ILD_seq a (hi W nl) b); [apply ILD_single; auto; lia|exact (proj1 IHf Hs _ _ _ _ _ _ Hr)|lia|exact (chain_le W _ _ _ Hr)]).
      destruct IHf as [_ HF]. cbn [PLF] in HF.
      rewrite !app_assoc in Hch. destruct (chain_region W _ _ _ _ Hch) as [Hc [H2 [H3 H4]]].
      rewrite <- !app_assoc in H4. destruct (chain_id W _ _ _ _ H4) as [Hid [Ha Hr]].
      pose proof (idok_lt W _ Hid) as Hlt. pose proof (chain_le W _ _ _ Hr) as Hle.
      eapply ILD_widen; [|exact H2|exact H3].
      apply (ILD_seq _ (hi W nl) _); try lia; [apply ILD_single; auto; lia|exact (HF Hs _ _ _ _ _ _ Hr)].
    - (* Block *) intros ss ret l IHs IHr Hs flv slv reg en a b Hch. cbn [tb_shp_block m_block b_block] in *. bs Hs.
      destruct (chain_app W _ _ _ _ Hch) as [c [C1 C2]].
      pose proof (stats_L flv slv reg ss en a c IHs Hs C1) as P1.
      destruct (seq_stats (map (fun s => b_stat flv slv reg s) ss) en) as [en1 os]. cbn [snd] in *.
      destruct ret as [es|]; cbn [snd].
      + cbn [tb_ret] in IHr. rewrite slocs_app.
        apply (ILD_seq a c b); [exact P1|exact (exps_L flv slv reg es en1 _ _ IHr Hs0 C2)|exact (chain_le W _ _ _ C1)|exact (chain_le W _ _ _ C2)].
      + exact (ILD_widen _ _ _ _ _ P1 (Z.le_refl a) (chain_le W _ _ _ C2)).
  Qed.
End SpecLaid.

(* ------------------------------------------------------------------ on whole chunks *)
Lemma NoDup_map_inj2 {A B} (f : A -> B) l a b :
  NoDup (map f l) -> In a l -> In b l -> f a = f b -> a = b.
Proof.
  induction l as [|x r IH]; intros Hnd Ha Hb Hf; [destruct Ha|].
  cbn in Hnd. inversion Hnd as [|? ? Hni Hnd']; subst.
  destruct Ha as [->|Ha], Hb as [->|Hb].
  - reflexivity.
  - exfalso. apply Hni. rewrite Hf. apply in_map. exact Hb.
  - exfalso. apply Hni. rewrite <- Hf. apply in_map. exact Ha.
  - apply IH; assumption.
Qed.

Lemma not_inside W d l :
  0 < W -> idok W d -> idok W l -> (hi W d <= lo W l \/ hi W l <= lo W d) -> inside d l = false.
Proof.
  intros HW Hd Hl Hdis. pose proof (idok_lt W d Hd) as Ld. pose proof (idok_lt W l Hl) as Ll.
  destruct Hd as [Sd [_ [Cd1 Cd2]]]. destruct Hl as [Sl [_ [Cl1 Cl2]]]. unfold inside.
  destruct Hdis as [H|H].
  - (* l after d: its end is outside *)
    assert (Hk : key W (el d) (ec d) < key W (el l) (ec l)) by (unfold hi, lo in *; lia).
    destruct (key_lt_lex W HW _ _ _ _ Cd2 Cl2 Hk) as [A|[A A']];
      assert (E : in_location d (el l) (ec l) = false) by (unfold in_location; zb); rewrite E; apply andb_false_r.
  - assert (Hk : key W (sl l) (sc l) < key W (sl d) (sc d)) by (unfold hi, lo in *; lia).
    destruct (key_lt_lex W HW _ _ _ _ Cl1 Cd1 Hk) as [A|[A A']];
      assert (E : in_location d (sl l) (sc l) = false) by (unfold in_location; zb); rewrite E; reflexivity.
Qed.

Theorem laid_occ_locs W P :
  tb_shape P = true -> laid_b W P = true -> exists a b, 0 < W /\ ILD W a b (slocs (bind_file P)).
Proof.
  intros Hs Hl. unfold laid_b in Hl. apply andb_true_iff in Hl. destruct Hl as [Hl Hst].
  apply andb_true_iff in Hl. destruct Hl as [HW Hok]. apply Z.ltb_lt in HW.
  unfold marks in *. destruct (steps_chain W _ _ Hok Hst) as [b Hb].
  destruct Hb as [_ [_ Hb]]. destruct (chain_app W _ _ _ _ Hb) as [c [C1 _]].
  destruct (speclaid_all W) as [_ [_ HB]].
  exists (lo W (block_loc P)), c. split; [exact HW|]. exact (HB P Hs 0 0 (block_loc P) [] _ _ C1).
Qed.

Theorem laid_decl_layout W P o d :
  tb_shape P = true -> laid_b W P = true -> In o (bind_file P) -> s_bind o = BLocal d ->
  decl_layout_ok (bind_file P) (s_name o) d = true.
Proof.
  intros Hs Hl Hin Hb. destruct (laid_occ_locs W P Hs Hl) as [a [b [HW [Hall [Hnd Hdis]]]]].
  rewrite Forall_forall in Hall.
  destruct (bound_has_named_decl P o d Hin Hb) as [sd [Hsd [Hdecl [Hsl [Hsn _]]]]].
  unfold decl_layout_ok. apply forallb_forall. intros s Hs'.
  destruct (binding_eqb (s_bind s) (BLocal d)) eqn:Eb; [|reflexivity]. cbn [negb orb].
  apply binding_eqb_local in Eb.
  destruct (bound_has_named_decl P s d Hs' Eb) as [sd' [Hsd' [Hdecl' [Hsl' [Hsn' _]]]]].
  assert (E : sd' = sd) by (apply (NoDup_map_inj2 s_loc (bind_file P)); auto; congruence). subst sd'.
  apply andb_true_iff. split; [apply beq_bytes_eq; congruence|].
  destruct (is_decl (s_role s)) eqn:Ed; [reflexivity|]. cbn [orb]. apply negb_true_iff.
  assert (Hne : s_loc s <> d).
  { intros E. assert (s = sd) by (apply (NoDup_map_inj2 s_loc (bind_file P)); auto; congruence). subst s. congruence. }
  assert (I1 : In (s_loc s) (slocs (bind_file P))) by (apply in_map; exact Hs').
  assert (I2 : In d (slocs (bind_file P))) by (rewrite <- Hsl; apply in_map; exact Hsd).
  destruct (Hall _ I1) as [Hid1 _]. destruct (Hall _ I2) as [Hid2 _].
  destruct (Hdis d (s_loc s) I2 I1) as [E|Hd]; [congruence|].
  exact (not_inside W d (s_loc s) HW Hid2 Hid1 Hd).
Qed.
