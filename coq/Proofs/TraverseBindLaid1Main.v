(* Traversal resolver, layout: the mutual induction for the first look-ups, and the theorem on whole chunks
     in_fragment P -> tb_shape P -> laid_b W P -> tr_clean1 P n = true      (for EVERY name n, no further guard). *)
From Coq Require Import List NArith ZArith Bool Lia.
From LH Require Import Base.Bytes Model.Lexer Model.Ast Model.Scope Spec.LuaScope Proofs.TraverseBindDefs
  Proofs.TraverseBindSim Proofs.TraverseBindLoops Proofs.TraverseBindLaidBase Proofs.TraverseBindLaidPieces
  Proofs.TraverseBindLaidLoops Proofs.TraverseBindLaidMain Proofs.TraverseBindClean1 Proofs.TraverseBindLaid1Loops.
Import ListNotations.
Local Open Scope Z_scope.

Section Main1.
  Variable W : Z.
  Hypothesis HW : 0 < W.
  Variable nm : list N.

  Notation Pe := (Pe1 W nm).
  Notation Ps := (Ps1 W nm).
  Notation Pb := (Pb1 W nm).
  Notation CE := (CE1 W nm).

  Ltac bs H := repeat (apply andb_true_iff in H; let H' := fresh H in destruct H as [H H']).

  Lemma Pe_atom e : (forall flv st, tr_exp flv e st = st) -> (forall flv st, cl1_exp nm flv e st = true) ->
                    match e with EFunc _ _ _ _ _ _ _ _ => False | _ => True end -> Pe e.
  Proof.
    intros Ht Hc Hk. split.
    - intros _ _ flv a b _. eapply PieceE_ext; [| |apply PieceE_id]; intros; [apply Ht|apply Hc].
    - destruct e; try exact I. contradiction.
  Qed.

  Lemma Pe_nofunc e : CE e -> match e with EFunc _ _ _ _ _ _ _ _ => False | _ => True end -> Pe e.
  Proof. intros H Hk. split; [exact H|]. destruct e; try exact I. contradiction. Qed.

  Theorem laid1_all : (forall e, Pe e) /\ (forall s, Ps s) /\ (forall b, Pb b).
  Proof.
    apply tb_ast_ind.
    - intros; apply Pe_atom; auto.
    - intros; apply Pe_atom; auto.
    - intros; apply Pe_atom; auto.
    - intros; apply Pe_atom; auto.
    - intros; apply Pe_atom; auto.
    - intros; apply Pe_atom; auto.
    - intros; apply Pe_atom; auto.
    - intros; apply Pe_atom; auto.
    - (* EName *) intros n l. apply Pe_nofunc; [|exact I]. intros _ _ flv a b Hch.
      cbn [m_exp] in Hch. rewrite <- (app_nil_r (id_marks l)) in Hch.
      destruct (chain_id W _ _ _ _ Hch) as [Hid [Ha Hb]]. cbn [chain] in Hb.
      eapply PieceE_ext; [| |exact (PieceE_log W HW nm OUse n l a b Hid Ha Hb)]; intros; reflexivity.
    - (* EUnop *) intros o x l [IH _]. apply Pe_nofunc; [|exact I]. intros Hf Hs flv a b Hch.
      eapply PieceE_ext; [| |exact (IH Hf Hs flv a b Hch)]; intros; reflexivity.
    - (* EBinop *) intros o x y l [IHx _] [IHy _]. apply Pe_nofunc; [|exact I]. intros Hf Hs flv a b Hch.
      cbn [frag_exp] in Hf. cbn [tb_shp_exp] in Hs. bs Hf. bs Hs.
      cbn [m_exp] in Hch. destruct (chain_app W _ _ _ _ Hch) as [c [C1 C2]].
      pose proof (PieceE_seq W _ _ _ _ a c b (chain_le W _ _ _ C1) (chain_le W _ _ _ C2)
                             (IHx Hf Hs flv a c C1) (IHy Hf0 Hs0 flv c b C2)) as H.
      eapply PieceE_ext; [| |exact H]; intros; reflexivity.
    - (* EParens *) intros x l [IH _]. apply Pe_nofunc; [|exact I]. intros Hf Hs flv a b Hch.
      eapply PieceE_ext; [| |exact (IH Hf Hs flv a b Hch)]; intros; reflexivity.
    - (* EIndex *) intros p k l _ _. apply Pe_nofunc; [|exact I]. intros Hf; discriminate.
    - (* ECall *) intros p name args l _ IHa. apply Pe_nofunc; [|exact I]. intros Hf Hs flv a b Hch.
      destruct p; try discriminate Hf. destruct name; try discriminate Hf.
      cbn [frag_exp] in Hf. cbn [tb_shp_exp] in Hs. bs Hf. bs Hs.
      cbn [m_exp] in Hch. rewrite app_assoc in Hch.
      destruct (chain_region W _ _ _ _ Hch) as [_ [H2 [H3 H4]]].
      destruct (chain_id W _ _ _ _ H4) as [Hid [Ha Hr]].
      pose proof (idok_lt W _ Hid) as Hlt. pose proof (chain_le W _ _ _ Hr) as Hle.
      pose proof (PieceE_log W HW nm OUse n l0 (lo W l) (hi W l0) Hid Ha (Z.le_refl _)) as P1.
      pose proof (exps_piece1 W nm flv args (hi W l0) (hi W l) IHa Hf0 Hs0 Hr) as P2.
      pose proof (PieceE_seq W _ _ _ _ (lo W l) (hi W l0) (hi W l) ltac:(lia) Hle P1 P2) as H.
      eapply PieceE_sub; [|exact H2|exact H3]. eapply PieceE_ext; [| |exact H]; intros; reflexivity.
    - (* ETable *) intros ks vs l _ _. apply Pe_nofunc; [|exact I]. intros Hf; discriminate.
    - (* EFunc *) intros c f ps pl bk l va co IHb.
      assert (HF : CEF1 W nm (EFunc c f ps pl bk l va co)).
      { cbn [CEF1]. intros Hf Hs flv a b Hch. cbn [frag_exp] in Hf. cbn [tb_shp_exp] in Hs. bs Hf.
        destruct (chain_app W _ _ _ _ Hch) as [c1 [C1 C2]].
        assert (Hp : forall p, In p (combine ps pl) -> idok W (snd p) /\ hi W (snd p) <= c1).
        { intros [x y] Hin. apply in_combine_r in Hin. destruct (chain_ids W _ _ _ C1 y Hin) as [A1 [_ A3]]. auto. }
        pose proof (PieceS_seq W _ _ _ _ a c1 b (chain_le W _ _ _ C1) (chain_le W _ _ _ C2)
                               (PieceS_add_params W (combine ps pl) a c1 Hp)
                               (IHb ltac:(assumption) Hs (flv + 1) 0 c1 b C2)) as H.
        eapply PieceE_ext; [| |exact (PieceE_scope W l _ _ a b H)]; intros; reflexivity. }
      split; [|exact HF].
      intros Hf Hs flv a b Hch.
      cbn [m_exp] in Hch. rewrite app_assoc in Hch.
      destruct (chain_region W _ _ _ _ Hch) as [_ [H2 [H3 H4]]].
      eapply PieceE_sub; [exact (HF Hf Hs flv _ _ H4)|exact H2|exact H3].
    - (* SBreak *) intros _ _ flv slv a b _. eapply PieceS_ext; [| |apply PieceS_id]; intros; reflexivity.
    - intros n l Hf; discriminate.
    - intros n l Hf; discriminate.
    - (* SDo *) intros bk l IHb Hf Hs flv slv a b Hch. cbn [frag_stat tb_shp_stat m_stat] in *.
      destruct (chain_region W _ _ _ _ Hch) as [_ [H2 [H3 H4]]].
      apply PieceS_of_E. eapply PieceE_sub; [|exact H2|exact H3].
      eapply PieceE_ext; [| |exact (PieceE_scope W l _ _ _ _ (IHb Hf Hs flv (slv + 1) _ _ H4))]; intros; reflexivity.
    - (* SCall *) intros e [IHe _] Hf Hs flv slv a b Hch. cbn [tb_shp_stat m_stat] in *.
      assert (Hfe : frag_exp e = true) by (destruct e; try discriminate Hf; exact Hf).
      apply PieceS_of_E. eapply PieceE_ext; [| |exact (IHe Hfe Hs flv a b Hch)]; intros; reflexivity.
    - (* SIf *) intros es bs l IHe IHb Hf Hs flv slv a b Hch. rewrite m_stat_if in Hch.
      cbn [frag_stat tb_shp_stat] in *. bs Hf. bs Hs. apply Nat.eqb_eq in Hs.
      apply PieceS_of_E.
      eapply PieceE_ext; [| |exact (if_piece1 W nm flv slv es bs a b Hs IHe IHb Hf Hs1 Hf0 Hs0 Hch)];
        intros; reflexivity.
    - (* SWhile *) intros e bk l [IHe _] IHb Hf Hs flv slv a b Hch.
      cbn [frag_stat tb_shp_stat m_stat] in *. bs Hf. bs Hs.
      rewrite app_assoc in Hch. destruct (chain_region W _ _ _ _ Hch) as [_ [H2 [H3 H4]]].
      destruct (chain_app W _ _ _ _ H4) as [c [C1 C2]].
      pose proof (PieceE_seq W _ _ _ _ _ c _ (chain_le W _ _ _ C1) (chain_le W _ _ _ C2)
                             (IHe Hf Hs flv _ _ C1) (PieceE_scope W l _ _ _ _ (IHb Hf0 Hs0 flv (slv + 1) _ _ C2))) as H.
      apply PieceS_of_E. eapply PieceE_sub; [|exact H2|exact H3].
      eapply PieceE_ext; [| |exact H]; intros; reflexivity.
    - (* SRepeat *) intros bk e l IHb [IHe _] Hf Hs flv slv a b Hch.
      cbn [frag_stat tb_shp_stat m_stat] in *. bs Hf. bs Hs.
      rewrite app_assoc in Hch. destruct (chain_region W _ _ _ _ Hch) as [_ [H2 [H3 H4]]].
      destruct (chain_app W _ _ _ _ H4) as [c [C1 C2]].
      pose proof (PieceS_seq W _ _ _ _ _ c _ (chain_le W _ _ _ C1) (chain_le W _ _ _ C2)
                             (IHb Hf Hs flv (slv + 1) _ _ C1)
                             (PieceS_of_E W _ _ _ _ (IHe Hf0 Hs0 flv _ _ C2))) as H.
      apply PieceS_of_E. eapply PieceE_sub; [|exact H2|exact H3].
      eapply PieceE_ext; [| |exact (PieceE_scope W l _ _ _ _ H)]; intros; reflexivity.
    - (* SForNum *) intros n vl e1 e2 e3 bk l [IH1 _] [IH2 _] [IH3 _] IHb Hf Hs flv slv a b Hch.
      cbn [frag_stat tb_shp_stat m_stat] in *. bs Hf. bs Hs.
      rewrite !app_assoc in Hch. destruct (chain_region W _ _ _ _ Hch) as [_ [H2 [H3 H4]]].
      rewrite <- !app_assoc in H4. destruct (chain_id W _ _ _ _ H4) as [Hid [Ha Hr]].
      pose proof (idok_lt W _ Hid) as Hlt.
      destruct (chain_app W _ _ _ _ Hr) as [c1 [C1 R1]]. destruct (chain_app W _ _ _ _ R1) as [c2 [C2 R2]].
      destruct (chain_app W _ _ _ _ R2) as [c3 [C3 C4]].
      pose proof (chain_le W _ _ _ C1) as L1. pose proof (chain_le W _ _ _ C2) as L2.
      pose proof (chain_le W _ _ _ C3) as L3. pose proof (chain_le W _ _ _ C4) as L4.
      pose proof (IH1 ltac:(assumption) ltac:(assumption) flv _ _ C1) as P1.
      pose proof (IH2 ltac:(assumption) ltac:(assumption) flv _ _ C2) as P2.
      pose proof (IH3 ltac:(assumption) ltac:(assumption) flv _ _ C3) as P3.
      pose proof (IHb ltac:(assumption) ltac:(assumption) flv (slv + 1) _ _ C4) as P4.
      pose proof (PieceE_seq W _ _ _ _ c1 c2 c3 L2 L3 P2 P3) as P32.
      assert (L13 : c1 <= c3) by (clear - L2 L3; lia).
      pose proof (PieceE_seq W _ _ _ _ (hi W vl) c1 c3 L1 L13 P1 P32) as P132.
      assert (Hb : Born W c3 c3 (mkV n vl RNone false)).
      { apply Born_of_InReg; [exact Hid|clear - L1 L13; lia|exact I]. }
      pose proof (PieceS_seq W _ _ _ _ (hi W vl) c3 c3 ltac:(clear - L1 L13; lia) (Z.le_refl c3)
                             (PieceS_of_E W _ _ _ _ P132) (PieceS_add W (mkV n vl RNone false) c3 c3 Hb)) as P5.
      pose proof (PieceS_seq W _ _ _ _ (hi W vl) c3 (hi W l) ltac:(clear - L1 L13; lia) L4 P5 P4) as H.
      apply PieceS_of_E. eapply PieceE_sub; [|exact H2|exact H3].
      eapply PieceE_sub; [|exact (Z.le_trans _ _ _ Ha (Z.lt_le_incl _ _ Hlt))|apply Z.le_refl].
      eapply PieceE_ext; [intros st|intros st|exact (PieceE_scope W l _ _ _ _ H)]; [reflexivity|].
      cbn [cl1_stat]. cbv zeta beta. rewrite !andb_true_r, !andb_assoc. reflexivity.
    - (* SForIn *) intros ns ls es bk l IHe IHb Hf Hs flv slv a b Hch.
      cbn [frag_stat tb_shp_stat m_stat] in *. bs Hf. bs Hs.
      rewrite !app_assoc in Hch. destruct (chain_region W _ _ _ _ Hch) as [_ [H2 [H3 H4]]].
      rewrite <- !app_assoc in H4.
      destruct (chain_app W _ _ _ _ H4) as [c1 [C1 R1]]. destruct (chain_app W _ _ _ _ R1) as [c2 [C2 C3]].
      pose proof (chain_le W _ _ _ C1) as L1. pose proof (chain_le W _ _ _ C2) as L2. pose proof (chain_le W _ _ _ C3) as L3.
      pose proof (exps_piece1 W nm flv es c1 c2 IHe ltac:(assumption) ltac:(assumption) C2) as P1.
      assert (Hp : forall p, In p (combine ns ls) -> idok W (snd p) /\ hi W (snd p) <= c2).
      { intros [x y] Hin. apply in_combine_r in Hin. destruct (chain_ids W _ _ _ C1 y Hin) as [A1 [_ A3]].
        split; [exact A1|]. cbn [snd]. clear - A3 L2. lia. }
      pose proof (IHb ltac:(assumption) ltac:(assumption) flv (slv + 1) _ _ C3) as P3.
      pose proof (PieceS_seq W _ _ _ _ c1 c2 c2 L2 (Z.le_refl c2) (PieceS_of_E W _ _ _ _ P1)
                             (PieceS_add_params W (combine ns ls) c2 c2 Hp)) as P12.
      pose proof (PieceS_seq W _ _ _ _ c1 c2 (hi W l) L2 L3 P12 P3) as H.
      apply PieceS_of_E. eapply PieceE_sub; [|exact H2|exact H3].
      eapply PieceE_sub; [|exact L1|apply Z.le_refl].
      eapply PieceE_ext; [intros st|intros st|exact (PieceE_scope W l _ _ _ _ H)]; [reflexivity|].
      cbn [cl1_stat]. cbv zeta beta. rewrite !andb_true_r. reflexivity.
    - (* SAssign *) intros vars es l IHv IHe Hf Hs flv slv a b Hch.
      cbn [frag_stat] in Hf. bs Hf.
      assert (Hvars : forall v, In v vars -> exists n l0, v = EName n l0).
      { rewrite forallb_forall in Hf. intros v Hv. specialize (Hf v Hv). destruct v; try discriminate Hf. eauto. }
      (* which form of marks *)
      assert (Hcase : (exists n nl c f0 fn ps pls bk fl va co,
                          vars = [EName n nl] /\ es = [EFunc c (f0 :: fn) ps pls bk fl va co])
                      \/ m_stat (SAssign vars es l) = flat_map m_exp vars ++ flat_map m_exp es).
      { clear. destruct vars as [|[] [|]]; destruct es as [|[] [|]]; try (right; reflexivity);
          try (destruct fname as [|f0 fn]; right; reflexivity).
        destruct fname as [|f0 fn]; [right; reflexivity|]. left. do 11 eexists. split; reflexivity. }
      destruct Hcase as [[n [nl [c [f0 [fn [ps [pls [bk [fl [va [co [Ev Ee]]]]]]]]]]]]|Hm].
      + (* function n(...) *)
        subst vars es. cbn [m_stat] in Hch.
        pose proof (Forall_inv IHe) as [_ HF]. cbn [CEF1] in HF.
        assert (Hfe : frag_exp (EFunc c (f0 :: fn) ps pls bk fl va co) = true).
        { cbn [forallb] in Hf0. apply andb_true_iff in Hf0. apply Hf0. }
        assert (Hse : tb_shp_exp (EFunc c (f0 :: fn) ps pls bk fl va co) = true).
        { cbn [tb_shp_stat forallb] in Hs. apply andb_true_iff in Hs. destruct Hs as [_ Hs].
          apply andb_true_iff in Hs. apply Hs. }
        rewrite !app_assoc in Hch. destruct (chain_region W _ _ _ _ Hch) as [Hc [H2 [H3 H4]]].
        rewrite <- !app_assoc in H4. destruct (chain_id W _ _ _ _ H4) as [Hid [Ha Hr]].
        pose proof (idok_lt W _ Hid) as Hlt. pose proof (chain_le W _ _ _ Hr) as Hle.
        intros st Hne Hg.
        destruct (HF Hfe Hse flv (hi W nl) (hi W fl) Hr st Hne
                     (G_sub W (vss st) a b (hi W nl) (hi W fl) Hg ltac:(clear - H2 Ha Hlt; lia) H3)) as [P1 P2].
        cbn [tr_stat cl1_stat map assign_loop cl1_assign_loop ct_clean1 ct_run].
        pose proof (Evo_nonempty W _ _ _ _ P2 Hne) as Hne1.
        assert (Hg1 : G W (vss (tr_exp flv (EFunc c (f0 :: fn) ps pls bk fl va co) st)) a (hi W nl)).
        { apply (G_evo W _ _ (hi W nl) (hi W fl) a (hi W nl)
                       (G_sub W (vss st) a b a (hi W nl) Hg (Z.le_refl a) ltac:(clear - Hle H3; lia)) P2).
          right. apply Z.le_refl. }
        destruct (assign_name_clean1 W HW nm flv slv n nl (Some (EFunc c (f0 :: fn) ps pls bk fl va co))
                     a (hi W nl) a b (tr_exp flv (EFunc c (f0 :: fn) ps pls bk fl va co) st)
                     Hid ltac:(clear - H2 Ha; lia) (Z.le_refl _)) as [Q1 Q2]; auto.
        { cbn [ref_of_exp InReg]. auto. }
        split.
        * rewrite P1. cbn [andb]. rewrite Q1. reflexivity.
        * destruct (vss st) as [|vs r] eqn:E; [contradiction|]. apply Evo_EvoS.
          eapply Evo_trans; [|exact Q2].
          exact (Evo_widen W (hi W nl) (hi W fl) a b _ _ P2 ltac:(clear - H2 Ha Hlt; lia) H3).
      + rewrite Hm in Hch. destruct (chain_app W _ _ _ _ Hch) as [m [C1 C2]].
        pose proof (chain_le W _ _ _ C1) as L1. pose proof (chain_le W _ _ _ C2) as L2.
        assert (Hse : forallb tb_shp_exp es = true).
        { cbn [tb_shp_stat] in Hs. apply andb_true_iff in Hs. apply Hs. }
        intros st Hne Hg.
        destruct (assign_piece1 W HW nm flv slv vars es a m m b st Hvars IHe Hf0 Hse C1 C2 (Z.le_refl m) Hne
                               (G_sub W _ _ _ _ _ Hg (Z.le_refl a) L2) (G_sub W _ _ _ _ _ Hg L1 (Z.le_refl b))) as [P1 P2].
        split.
        * cbn [cl1_stat]. exact P1.
        * destruct (vss st) as [|vs r] eqn:E; [contradiction|]. apply Evo_EvoS.
          cbn [tr_stat]. exact (Evo_widen W _ _ _ _ _ _ P2 L1 (Z.le_refl b)).
    - (* SLocal *) intros ns ls ats es l IHe Hf Hs flv slv a b Hch.
      cbn [frag_stat m_stat] in *. bs Hf.
      destruct (chain_app W _ _ _ _ Hch) as [c0 [C1 C2]].
      pose proof (chain_le W _ _ _ C1) as L1. pose proof (chain_le W _ _ _ C2) as L2.
      assert (Hse : forallb tb_shp_exp es = true).
      { cbn [tb_shp_stat] in Hs. apply andb_true_iff in Hs. apply Hs. }
      intros st Hne Hg.
      destruct (local_marks_chain W ns ls es l c0 b C2) as [c1 [c2 [Lc1 [Lc2 [C3 Hil]]]]].
      pose proof (chain_le W _ _ _ C3) as L3.
      destruct (local_piece1 W nm flv es (combine ns ls) c0 c1 c2 RNone (init_loc ns ls es l) st IHe ltac:(assumption) Hse C3)
        as [P1 P2]; auto.
      + intros [x y] Hin. apply in_combine_r in Hin. destruct (chain_ids W _ _ _ C1 y Hin) as [A1 [_ A3]].
        split; [exact A1|]. cbn [snd]. clear - A3 Lc1. lia.
      + exact I.
      + apply (G_sub W _ _ _ _ _ Hg); [clear - L1 Lc1; lia|exact Lc2].
      + split; [exact P1|]. apply (EvoS_widen W _ _ _ _ _ _ P2); [exact L1|exact Lc2].
    - (* SLocalFunc *) intros n nl f l [_ IHf] Hf Hs flv slv a b Hch.
      cbn [frag_stat tb_shp_stat] in Hf, Hs. apply andb_true_iff in Hf. destruct Hf as [_ Hff].
      destruct f; try discriminate Hff.
      cbn [CEF1 m_stat] in *.
      rewrite !app_assoc in Hch. destruct (chain_region W _ _ _ _ Hch) as [Hc [H2 [H3 H4]]].
      rewrite <- !app_assoc in H4. destruct (chain_id W _ _ _ _ H4) as [Hid [Ha Hr]].
      pose proof (idok_lt W _ Hid) as Hlt. pose proof (chain_le W _ _ _ Hr) as Hle.
      assert (Hb : Born W a (hi W nl) (mkV n nl (RFunc l0) false)).
      { pose proof Hid as [_ [_ [Hcc _]]]. unfold Born. cbn [v_loc v_ref]. repeat split; try lia.
        left. apply (contains_ok W HW); [exact Hc|exact Hid|exact Ha|lia]. }
      pose proof (PieceS_seq W _ _ _ _ a (hi W nl) (hi W l0) ltac:(clear - H2 Ha Hlt; lia) Hle
                             (PieceS_add W _ a (hi W nl) Hb)
                             (PieceS_of_E W _ _ _ _ (IHf Hff Hs flv _ _ Hr))) as H.
      eapply PieceS_sub; [|apply Z.le_refl|exact H3].
      eapply PieceS_ext; [| |exact H]; intros; reflexivity.
    - (* Block *) intros ss ret l IHs IHr Hf Hs flv slv a b Hch.
      cbn [frag_block tb_shp_block m_block] in *. bs Hf. bs Hs.
      destruct (chain_app W _ _ _ _ Hch) as [c [C1 C2]].
      pose proof (chain_le W _ _ _ C1) as L1. pose proof (chain_le W _ _ _ C2) as L2.
      pose proof (stats_piece1 W nm flv slv ss a c IHs Hf Hs C1) as P1.
      destruct ret as [es|].
      + cbn [tb_ret] in IHr.
        pose proof (exps_piece1 W nm flv es c b IHr Hf0 Hs0 C2) as P2.
        pose proof (PieceS_seq W _ _ _ _ a c b L1 L2 P1 (PieceS_of_E W _ _ _ _ P2)) as H.
        eapply PieceS_ext; [| |exact H]; intros; reflexivity.
      + eapply PieceS_sub; [|apply Z.le_refl|exact L2].
        eapply PieceS_ext; [| |exact P1]; intros; [reflexivity|]. cbn [cl1_block]. apply andb_true_r.
  Qed.
End Main1.


Theorem laid_tr_clean1 W P n :
  in_fragment P = true -> tb_shape P = true -> laid_b W P = true -> tr_clean1 P n = true.
Proof.
  intros Hf Hs Hl. unfold laid_b in Hl. apply andb_true_iff in Hl. destruct Hl as [Hl Hst].
  apply andb_true_iff in Hl. destruct Hl as [HW Hok]. apply Z.ltb_lt in HW.
  unfold marks in *. destruct (steps_chain W _ _ Hok Hst) as [b Hb].
  destruct Hb as [_ [_ Hb]]. destruct (chain_app W _ _ _ _ Hb) as [c [C1 _]].
  destruct (laid1_all W HW n) as [_ [_ HB]].
  destruct (HB P Hf Hs 0 0 _ _ C1 (st0 P)) as [H1 _].
  - discriminate.
  - constructor; [constructor|constructor].
  - exact H1.
Qed.
