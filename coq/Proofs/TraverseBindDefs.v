(* Traversal resolver = Lua's binder (C06 C07 C11), part 0: vocabulary of the simulation proof.
   - `tb_shape`: the list-length conditions every parser output satisfies (SIf: one block per condition; SLocal: one
     Loc per name and no more initialisers than names - `local a = 1, 2` is the only parser output outside);
   - `clean_at` / `cl_exp` / `cl_stat` / `cl_block` / `tr_clean P n`: the boolean layout hypothesis of the core
     theorem: replaying the traversal of Model/Scope.v, at every look-up of the name n the NEWEST same-named variable
     of the open scopes passes IsCorrectPosition (i.e. IsCorrectPosition's Loc test agrees with program order for n);
   - `core`: the part of a reference occurrence the traversal is compared with (Loc, name, binding, role, CB3 tag);
   - a mutual induction principle for exp / stat / block. *)
From Coq Require Import List NArith ZArith Bool Lia Permutation.
From LH Require Import Base.Bytes Model.Lexer Model.Ast Model.Scope Spec.LuaScope.
Import ListNotations.
Local Open Scope Z_scope.

(* ------------------------------------------------------------------ shape of parser output *)
Fixpoint tb_shp_exp (e : exp) {struct e} : bool :=
  match e with
  | EUnop _ e1 _ | EParens e1 _ => tb_shp_exp e1
  | EBinop _ e1 e2 _ | EIndex e1 e2 _ => tb_shp_exp e1 && tb_shp_exp e2
  | ECall p _ args _ => tb_shp_exp p && forallb tb_shp_exp args
  | ETable ks vs _ =>
    forallb (fun k => match k with Some k' => tb_shp_exp k' | None => true end) ks && forallb tb_shp_exp vs
  | EFunc _ _ _ _ b _ _ _ => tb_shp_block b
  | _ => true
  end
with tb_shp_stat (s : stat) {struct s} : bool :=
  match s with
  | SBreak | SLabel _ _ | SGoto _ _ => true
  | SDo b _ => tb_shp_block b
  | SCall e => tb_shp_exp e
  | SIf es bs _ => Nat.eqb (length es) (length bs) && forallb tb_shp_exp es && forallb tb_shp_block bs
  | SWhile e b _ => tb_shp_exp e && tb_shp_block b
  | SRepeat b e _ => tb_shp_block b && tb_shp_exp e
  | SForNum _ _ e1 e2 e3 b _ => tb_shp_exp e1 && tb_shp_exp e2 && tb_shp_exp e3 && tb_shp_block b
  | SForIn _ _ es b _ => forallb tb_shp_exp es && tb_shp_block b
  | SAssign vars es _ => forallb tb_shp_exp vars && forallb tb_shp_exp es
  | SLocal ns ls _ es _ =>
    Nat.eqb (length ns) (length ls) && forallb tb_shp_exp es
  | SLocalFunc _ _ f _ => tb_shp_exp f
  end
with tb_shp_block (b : block) {struct b} : bool :=
  match b with
  | Block ss ret _ => forallb tb_shp_stat ss && match ret with Some es => forallb tb_shp_exp es | None => true end
  end.

Definition tb_shape (b : block) : bool := tb_shp_block b.

(* ------------------------------------------------------------------ the layout hypothesis, replayed on the traversal *)
Definition vars_of (st : tstate) : list ventry := concat (map f_vars (t_frames st)).
Definition name_is (n : list N) (v : ventry) : bool := beq_bytes (v_name v) n.

(* the newest same-named variable of the open scopes is accepted by IsCorrectPosition *)
Definition clean_at (st : tstate) (n : list N) (l : loc) : bool :=
  match find (name_is n) (vars_of st) with
  | Some v => is_correct_position v l
  | None => true
  end.

Definition tT := (tstate -> tstate).
Definition tC := (tstate -> bool).

Fixpoint cl_all (fs : list (tT * tC)) (st : tstate) {struct fs} : bool :=
  match fs with
  | [] => true
  | (f, c) :: r => c st && cl_all r (f st)
  end.

(* assign_name: the look-up before the re-pointing and the look-up of `log` after it *)
Definition cl_assign_name (nm : list N) (n : list N) (l : loc) (eo : option exp) (st : tstate) : bool :=
  negb (beq_bytes n nm)
  || (clean_at st n l
      && clean_at (mkT (upd_frames (var_hit n l) (repoint n eo) (t_frames st)) (t_globals st) (t_occs st)) n l).

(* local_loop: all look-ups happen while the expressions are visited (those beyond the names included:
   fixes/C20-local-surplus.diff), before any name of the statement is added (since fixes/C07-multi-local-order.diff) *)
Definition cl_local_loop (vis : list (exp * tT * tC)) (ns : list (list N * loc)) (st : tstate) : bool :=
  cl_all (map (fun x => (snd (fst x), snd x)) vis) st.

Lemma local_adds_fold il : forall es nls lc st,
  local_adds es nls lc il st = fold_left (fun s v => add_var v s) (local_vars es nls lc il) st.
Proof.
  induction es as [|e r IH]; intros nls lc st; cbn [local_adds local_vars].
  - generalize st. induction nls as [|p q IHq]; intros st0; [reflexivity|]. cbn [fold_left map]. apply IHq.
  - destruct nls as [|[n nl] nls']; [reflexivity|]. cbn [fold_left]. apply IH.
Qed.

(* the shapes used under tb_shape: no more expressions than names *)
Lemma local_loop_shape (f : exp -> tT) es nls lc il st :
  local_loop (map (fun e => (e, f e)) es) nls lc il st = local_adds es nls lc il (apply_all (map f es) st).
Proof.
  unfold local_loop.
  rewrite !map_map. cbn [fst snd]. rewrite map_id. reflexivity.
Qed.
Lemma cl_local_loop_shape (f : exp -> tT) (c : exp -> tC) es nls st :
  cl_local_loop (map (fun e => (e, f e, c e)) es) nls st = cl_all (map (fun e => (f e, c e)) es) st.
Proof.
  unfold cl_local_loop.
  rewrite map_map. reflexivity.
Qed.

Inductive ctarget := CName (n : list N) (l : loc) | COther (f : tT) (c : tC).

Definition ct_run (flv slv : Z) (v : ctarget) (eo : option exp) (s : tstate) : tstate :=
  match v with CName n l => assign_name flv slv n l eo s | COther f _ => f s end.
Definition ct_clean (nm : list N) (v : ctarget) (eo : option exp) (s : tstate) : bool :=
  match v with CName n l => cl_assign_name nm n l eo s | COther _ c => c s end.

Fixpoint cl_assign_loop (nm : list N) (flv slv : Z) (vars : list ctarget) (vis : list (exp * tT * tC))
         (st : tstate) {struct vars} : bool :=
  match vars with
  | [] => cl_all (map (fun x => (snd (fst x), snd x)) vis) st
  | v :: vars' =>
    match vis with
    | (e, f, c) :: vis' =>
      c st && ct_clean nm v (Some e) (f st) && cl_assign_loop nm flv slv vars' vis' (ct_run flv slv v (Some e) (f st))
    | [] => ct_clean nm v None st && cl_assign_loop nm flv slv vars' [] (ct_run flv slv v None st)
    end
  end.

Fixpoint cl_if_loop (conds : list (tT * tC)) (blocks : list (loc * tT * tC)) (st : tstate) {struct conds} : bool :=
  match conds, blocks with
  | (c, cc) :: cs, (bl, b, bc) :: bs =>
    cc st && bc (push bl (c st)) && cl_if_loop cs bs (pop (b (push bl (c st))))
  | _, _ => true
  end.

Definition add_params (pl : list (list N * loc)) (st : tstate) : tstate :=
  fold_left (fun s pl => add_var (mkV (fst pl) (snd pl) RNone false) s) pl st.

Fixpoint cl_exp (nm : list N) (flv : Z) (e : exp) (st : tstate) {struct e} : bool :=
  match e with
  | EName n l => negb (beq_bytes n nm) || clean_at st n l
  | EParens e1 _ => cl_exp nm flv e1 st
  | EUnop _ e1 _ => cl_exp nm flv e1 st
  | EBinop _ e1 e2 _ => cl_exp nm flv e1 st && cl_exp nm flv e2 (tr_exp flv e1 st)
  | EIndex p k _ => cl_exp nm flv p st && cl_exp nm flv k (tr_exp flv p st)
  | ECall p _ args _ =>
    cl_exp nm flv p st && cl_all (map (fun a => (tr_exp flv a, cl_exp nm flv a)) args) (tr_exp flv p st)
  | ETable ks vs _ =>
    cl_all (map (fun k => match k with
                          | Some k' => (tr_exp flv k', cl_exp nm flv k')
                          | None => (fun s => s, fun _ => true)
                          end) ks) st
    && cl_all (map (fun a => (tr_exp flv a, cl_exp nm flv a)) vs)
              (apply_all (map (fun k => match k with Some k' => tr_exp flv k' | None => fun s => s end) ks) st)
  | EFunc _ _ pars plocs b l _ _ =>
    cl_block nm (flv + 1) 0 b (add_params (combine pars plocs) (push l st))
  | _ => true
  end
with cl_stat (nm : list N) (flv slv : Z) (s : stat) (st : tstate) {struct s} : bool :=
  match s with
  | SBreak | SLabel _ _ | SGoto _ _ => true
  | SDo b l => cl_block nm flv (slv + 1) b (push l st)
  | SCall e => cl_exp nm flv e st
  | SIf es bs _ =>
    cl_if_loop (map (fun e => (tr_exp flv e, cl_exp nm flv e)) es)
               (map (fun b => (block_loc b, tr_block flv (slv + 1) b, cl_block nm flv (slv + 1) b)) bs) st
  | SWhile e b l => cl_exp nm flv e st && cl_block nm flv (slv + 1) b (push l (tr_exp flv e st))
  | SRepeat b e l =>
    cl_block nm flv (slv + 1) b (push l st) && cl_exp nm flv e (tr_block flv (slv + 1) b (push l st))
  | SForNum n vl e1 e2 e3 b l =>
    let s0 := push l st in
    let s1 := tr_exp flv e1 s0 in
    let s2 := tr_exp flv e2 s1 in
    let s3 := tr_exp flv e3 s2 in
    cl_exp nm flv e1 s0 && cl_exp nm flv e2 s1 && cl_exp nm flv e3 s2
    && cl_block nm flv (slv + 1) b (add_var (mkV n vl RNone false) s3)
  | SForIn ns ls es b l =>
    let s0 := push l st in
    cl_all (map (fun e => (tr_exp flv e, cl_exp nm flv e)) es) s0
    && cl_block nm flv (slv + 1) b
                (add_params (combine ns ls) (apply_all (map (fun e => tr_exp flv e) es) s0))
  | SAssign vars es _ =>
    cl_assign_loop nm flv slv
                   (map (fun v => match v with
                                  | EName n l => CName n l
                                  | EIndex p k _ =>
                                    COther (fun s => tr_exp flv k (tr_exp flv p s))
                                           (fun s => cl_exp nm flv p s && cl_exp nm flv k (tr_exp flv p s))
                                  | _ => COther (fun s => s) (fun _ => true)
                                  end) vars)
                   (map (fun e => (e, tr_exp flv e, cl_exp nm flv e)) es) st
  | SLocal ns ls _ es _ =>
    cl_local_loop (map (fun e => (e, tr_exp flv e, cl_exp nm flv e)) es) (combine ns ls) st
  | SLocalFunc n nl f _ => cl_exp nm flv f (add_var (mkV n nl (ref_of_exp f) false) st)
  end
with cl_block (nm : list N) (flv slv : Z) (b : block) (st : tstate) {struct b} : bool :=
  match b with
  | Block ss ret _ =>
    cl_all (map (fun s => (tr_stat flv slv s, cl_stat nm flv slv s)) ss) st
    && match ret with
       | Some es => cl_all (map (fun e => (tr_exp flv e, cl_exp nm flv e)) es)
                           (apply_all (map (fun s => tr_stat flv slv s) ss) st)
       | None => true
       end
  end.

Definition st0 (b : block) : tstate := mkT [mkF (block_loc b) [] []] [] [].

(* every look-up of the name n during the analysis of the chunk is position-clean *)
Definition tr_clean (b : block) (n : list N) : bool := cl_block n 0 0 b (st0 b).

(* ------------------------------------------------------------------ what is compared *)
Definition tbind (o : occ) : binding :=
  match o_res o with Some d => BLocal d | None => BGlobal (o_name o) end.

Record core := mkC { c_loc : loc; c_name : list N; c_bind : binding; c_role : role; c_b3 : bool }.
Definition core_of (s : socc) : core := mkC (s_loc s) (s_name s) (s_bind s) (s_role s) (has_tag CB3 s).

Definition nondecl (c : core) : bool := negb (is_decl (c_role c)).
(* the cores of the occurrences that are not declarations *)
Definition ccore (os : list socc) : list core := filter nondecl (map core_of os).

(* the reference occurrences that are not declarations *)
Definition nd (os : list socc) : list socc := filter (fun s => negb (is_decl (s_role s))) os.

Definition krole (k : occkind) (r : role) : Prop :=
  match k, r with
  | OUse, RRead => True
  | OAssign, RWrite | ODefineG, RWrite => True
  | _, _ => False
  end.

(* ------------------------------------------------------------------ mutual induction over the AST *)
Definition tb_ret (ret : option (list exp)) : list exp := match ret with Some es => es | None => [] end.
Definition tb_optP (P : exp -> Prop) (k : option exp) : Prop := match k with Some k' => P k' | None => True end.

Section AstInd.
  Variable Pe : exp -> Prop.
  Variable Ps : stat -> Prop.
  Variable Pb : block -> Prop.
  Hypothesis H_nil : forall l, Pe (ENil l).
  Hypothesis H_bad : forall l, Pe (EBad l).
  Hypothesis H_true : forall l, Pe (ETrue l).
  Hypothesis H_false : forall l, Pe (EFalse l).
  Hypothesis H_vararg : forall l, Pe (EVararg l).
  Hypothesis H_int : forall v l, Pe (EInt v l).
  Hypothesis H_float : forall t l, Pe (EFloat t l).
  Hypothesis H_str : forall s l, Pe (EStr s l).
  Hypothesis H_name : forall n l, Pe (EName n l).
  Hypothesis H_unop : forall o x l, Pe x -> Pe (EUnop o x l).
  Hypothesis H_binop : forall o a b l, Pe a -> Pe b -> Pe (EBinop o a b l).
  Hypothesis H_parens : forall x l, Pe x -> Pe (EParens x l).
  Hypothesis H_index : forall p k l, Pe p -> Pe k -> Pe (EIndex p k l).
  Hypothesis H_call : forall p nm args l, Pe p -> Forall Pe args -> Pe (ECall p nm args l).
  Hypothesis H_table : forall ks vs l, Forall (tb_optP Pe) ks -> Forall Pe vs -> Pe (ETable ks vs l).
  Hypothesis H_func : forall c f ps pl b l va co, Pb b -> Pe (EFunc c f ps pl b l va co).
  Hypothesis H_break : Ps SBreak.
  Hypothesis H_label : forall n l, Ps (SLabel n l).
  Hypothesis H_goto : forall n l, Ps (SGoto n l).
  Hypothesis H_do : forall b l, Pb b -> Ps (SDo b l).
  Hypothesis H_scall : forall e, Pe e -> Ps (SCall e).
  Hypothesis H_if : forall es bs l, Forall Pe es -> Forall Pb bs -> Ps (SIf es bs l).
  Hypothesis H_while : forall e b l, Pe e -> Pb b -> Ps (SWhile e b l).
  Hypothesis H_repeat : forall b e l, Pb b -> Pe e -> Ps (SRepeat b e l).
  Hypothesis H_fornum : forall n vl e1 e2 e3 b l, Pe e1 -> Pe e2 -> Pe e3 -> Pb b -> Ps (SForNum n vl e1 e2 e3 b l).
  Hypothesis H_forin : forall ns ls es b l, Forall Pe es -> Pb b -> Ps (SForIn ns ls es b l).
  Hypothesis H_assign : forall vars es l, Forall Pe vars -> Forall Pe es -> Ps (SAssign vars es l).
  Hypothesis H_local : forall ns ls at_ es l, Forall Pe es -> Ps (SLocal ns ls at_ es l).
  Hypothesis H_localfunc : forall n nl f l, Pe f -> Ps (SLocalFunc n nl f l).
  Hypothesis H_block : forall ss ret l, Forall Ps ss -> Forall Pe (tb_ret ret) -> Pb (Block ss ret l).

  Fixpoint tb_exp_ind (e : exp) {struct e} : Pe e :=
    match e with
    | ENil l => H_nil l
    | EBad l => H_bad l
    | ETrue l => H_true l
    | EFalse l => H_false l
    | EVararg l => H_vararg l
    | EInt v l => H_int v l
    | EFloat t l => H_float t l
    | EStr s l => H_str s l
    | EName n l => H_name n l
    | EUnop o x l => H_unop o x l (tb_exp_ind x)
    | EBinop o a b l => H_binop o a b l (tb_exp_ind a) (tb_exp_ind b)
    | EParens x l => H_parens x l (tb_exp_ind x)
    | EIndex p k l => H_index p k l (tb_exp_ind p) (tb_exp_ind k)
    | ECall p nm args l =>
      H_call p nm args l (tb_exp_ind p)
             ((fix go (xs : list exp) : Forall Pe xs :=
                 match xs with [] => Forall_nil Pe | x :: r => Forall_cons x (tb_exp_ind x) (go r) end) args)
    | ETable ks vs l =>
      H_table ks vs l
              ((fix go (xs : list (option exp)) : Forall (tb_optP Pe) xs :=
                  match xs with
                  | [] => Forall_nil _
                  | x :: r => Forall_cons x (match x as y return tb_optP Pe y with
                                             | Some k' => tb_exp_ind k'
                                             | None => I
                                             end) (go r)
                  end) ks)
              ((fix go (xs : list exp) : Forall Pe xs :=
                  match xs with [] => Forall_nil Pe | x :: r => Forall_cons x (tb_exp_ind x) (go r) end) vs)
    | EFunc c f ps pl b l va co => H_func c f ps pl b l va co (tb_block_ind b)
    end
  with tb_stat_ind (s : stat) {struct s} : Ps s :=
    match s with
    | SBreak => H_break
    | SLabel n l => H_label n l
    | SGoto n l => H_goto n l
    | SDo b l => H_do b l (tb_block_ind b)
    | SCall e => H_scall e (tb_exp_ind e)
    | SIf es bs l =>
      H_if es bs l
           ((fix go (xs : list exp) : Forall Pe xs :=
               match xs with [] => Forall_nil Pe | x :: r => Forall_cons x (tb_exp_ind x) (go r) end) es)
           ((fix go (xs : list block) : Forall Pb xs :=
               match xs with [] => Forall_nil Pb | x :: r => Forall_cons x (tb_block_ind x) (go r) end) bs)
    | SWhile e b l => H_while e b l (tb_exp_ind e) (tb_block_ind b)
    | SRepeat b e l => H_repeat b e l (tb_block_ind b) (tb_exp_ind e)
    | SForNum n vl e1 e2 e3 b l =>
      H_fornum n vl e1 e2 e3 b l (tb_exp_ind e1) (tb_exp_ind e2) (tb_exp_ind e3) (tb_block_ind b)
    | SForIn ns ls es b l =>
      H_forin ns ls es b l
              ((fix go (xs : list exp) : Forall Pe xs :=
                  match xs with [] => Forall_nil Pe | x :: r => Forall_cons x (tb_exp_ind x) (go r) end) es)
              (tb_block_ind b)
    | SAssign vars es l =>
      H_assign vars es l
               ((fix go (xs : list exp) : Forall Pe xs :=
                   match xs with [] => Forall_nil Pe | x :: r => Forall_cons x (tb_exp_ind x) (go r) end) vars)
               ((fix go (xs : list exp) : Forall Pe xs :=
                   match xs with [] => Forall_nil Pe | x :: r => Forall_cons x (tb_exp_ind x) (go r) end) es)
    | SLocal ns ls at_ es l =>
      H_local ns ls at_ es l
              ((fix go (xs : list exp) : Forall Pe xs :=
                  match xs with [] => Forall_nil Pe | x :: r => Forall_cons x (tb_exp_ind x) (go r) end) es)
    | SLocalFunc n nl f l => H_localfunc n nl f l (tb_exp_ind f)
    end
  with tb_block_ind (b : block) {struct b} : Pb b :=
    match b with
    | Block ss ret l =>
      H_block ss ret l
              ((fix go (xs : list stat) : Forall Ps xs :=
                  match xs with [] => Forall_nil Ps | x :: r => Forall_cons x (tb_stat_ind x) (go r) end) ss)
              (match ret as r return Forall Pe (tb_ret r) with
               | Some es =>
                 (fix go (xs : list exp) : Forall Pe xs :=
                    match xs with [] => Forall_nil Pe | x :: r => Forall_cons x (tb_exp_ind x) (go r) end) es
               | None => Forall_nil Pe
               end)
    end.

  Lemma tb_ast_ind : (forall e, Pe e) /\ (forall s, Ps s) /\ (forall b, Pb b).
  Proof. repeat split; [exact tb_exp_ind | exact tb_stat_ind | exact tb_block_ind]. Qed.
End AstInd.
