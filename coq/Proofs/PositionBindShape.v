(* Position resolver = Lua's binder, part 1: the scope tree that the traversal (Model/Scope.v tr_exp / tr_stat /
   tr_block, `analyse`) builds IS the skeleton of Proofs/PositionBindBase.v (`sk_root`), up to the re-pointing of
   entries that cgAssignStat performs (`vstep` / `sstep`).  For every program of the core fragment. *)
From Coq Require Import List NArith ZArith Bool Lia.
From LH Require Import Base.Bytes Model.Lexer Model.Ast Model.Scope Model.Globals Model.Resolve Spec.LuaScope
  Proofs.PositionBindBase.
Import ListNotations.
Local Open Scope Z_scope.

Lemma Forall2_refl {X} (R : X -> X -> Prop) : (forall x, R x x) -> forall l, Forall2 R l l.
Proof. intros H l. induction l; constructor; auto. Qed.
Lemma Forall2_trans {X} (R : X -> X -> Prop) :
  (forall a b c, R a b -> R b c -> R a c) -> forall l1 l2 l3, Forall2 R l1 l2 -> Forall2 R l2 l3 -> Forall2 R l1 l3.
Proof.
  intros H l1 l2 l3 H12. revert l3. induction H12 as [|a b r1 r2 Hab Hr IH]; intros l3 H23; inversion H23; subst; constructor; eauto.
Qed.
Lemma Forall2_nil_l {X Y} (R : X -> Y -> Prop) l : Forall2 R [] l -> l = [].
Proof. intros H. inversion H. reflexivity. Qed.

Lemma incl_flat_map {X Y} (f : X -> list Y) l (B : list Y) : incl (flat_map f l) B -> Forall (fun x => incl (f x) B) l.
Proof.
  induction l as [|x r IH]; intros H; constructor.
  - intros y Hy. apply H. cbn. apply in_or_app. left. exact Hy.
  - apply IH. intros y Hy. apply H. cbn. apply in_or_app. right. exact Hy.
Qed.
Lemma incl_app_l {Y} (a b B : list Y) : incl (a ++ b) B -> incl a B.
Proof. intros H y Hy. apply H. apply in_or_app. left. exact Hy. Qed.
Lemma incl_app_r {Y} (a b B : list Y) : incl (a ++ b) B -> incl b B.
Proof. intros H y Hy. apply H. apply in_or_app. right. exact Hy. Qed.

Section Shape.
  Variable A : list (list N * loc * exp).

  Lemma vstep_refl v : vstep A v v.
  Proof. left. reflexivity. Qed.

  Lemma vstep_trans a b c : vstep A a b -> vstep A b c -> vstep A a c.
  Proof.
    intros [Hab|(He & Hn & (Hl & Hi & Ht) & Hr)] Hbc; [subst b; exact Hbc|].
    destruct Hbc as [Hbc|(He' & Hn' & (Hl' & Hi' & Ht') & Hr')]; [subst c; right; split; [exact He|split; [exact Hn|split; [split; [exact Hl|split; [exact Hi|exact Ht]]|exact Hr]]]|].
    right. split; [exact He|]. split; [congruence|]. split; [split; [congruence|split; congruence]|].
    destruct Hr' as [Hr'|(n & tl & e & Hin & Hb & Hlb & Hre)].
    - rewrite Hr'. exact Hr.
    - right. exists n, tl, e. rewrite <- Hn, <- Hl. auto.
  Qed.

  Fixpoint sstep_refl (s : scope) {struct s} : sstep A s s :=
    match s with
    | Scope l vs ss =>
      sstep_intro A l vs vs ss ss (Forall2_refl _ vstep_refl vs)
                  ((fix go (xs : list scope) : Forall2 (sstep A) xs xs :=
                      match xs with [] => Forall2_nil _ | x :: r => Forall2_cons x x (sstep_refl x) (go r) end) ss)
    end.

  (* f' = f after some piece of the traversal that added the variables nv (newest first) and created the scopes ns
     (creation order) in this frame *)
  Definition fext (f f' : frame) (nv : list ventry) (ns : list scope) : Prop :=
    f_loc f' = f_loc f /\
    exists nv' ov' ns',
      f_vars f' = nv' ++ ov' /\ Forall2 (vstep A) nv nv' /\ Forall2 (vstep A) (f_vars f) ov' /\
      f_subs f' = rev ns' ++ f_subs f /\ Forall2 (sstep A) ns ns'.
  Definition frest (g g' : frame) : Prop := fext g g' [] [].

  Lemma fext_refl f : fext f f [] [].
  Proof.
    split; [reflexivity|]. exists [], (f_vars f), []. repeat split; try constructor.
    apply Forall2_refl. exact vstep_refl.
  Qed.

  Lemma fext_trans f f' f'' nv1 ns1 nv2 ns2 :
    fext f f' nv1 ns1 -> fext f' f'' nv2 ns2 -> fext f f'' (nv2 ++ nv1) (ns1 ++ ns2).
  Proof.
    intros [Hl1 (nv1' & ov1 & ns1' & Hv1 & Hn1 & Ho1 & Hs1 & Hss1)] [Hl2 (nv2' & ov2 & ns2' & Hv2 & Hn2 & Ho2 & Hs2 & Hss2)].
    split; [congruence|].
    rewrite Hv1 in Ho2. apply Forall2_app_inv_l in Ho2. destruct Ho2 as (x1 & x2 & Hx1 & Hx2 & Hov2).
    exists (nv2' ++ x1), x2, (ns1' ++ ns2'). repeat split.
    - rewrite Hv2, Hov2. rewrite app_assoc. reflexivity.
    - apply Forall2_app; [exact Hn2|]. eapply Forall2_trans; [exact vstep_trans|exact Hn1|exact Hx1].
    - eapply Forall2_trans; [exact vstep_trans|exact Ho1|exact Hx2].
    - rewrite Hs2, Hs1, rev_app_distr, app_assoc. reflexivity.
    - apply Forall2_app; assumption.
  Qed.

  Lemma frest_trans g g' g'' : frest g g' -> frest g' g'' -> frest g g''.
  Proof. intros H1 H2. exact (fext_trans _ _ _ _ _ _ _ H1 H2). Qed.

  Definition ext (fs fs' : list frame) (nv : list ventry) (ns : list scope) : Prop :=
    match fs, fs' with
    | f :: rest, f' :: rest' => fext f f' nv ns /\ Forall2 frest rest rest'
    | _, _ => False
    end.

  Lemma ext_nonempty fs fs' nv ns : ext fs fs' nv ns -> fs' <> [].
  Proof. destruct fs, fs'; cbn; intros H; try contradiction. discriminate. Qed.

  Lemma ext_refl fs : fs <> [] -> ext fs fs [] [].
  Proof.
    destruct fs as [|f rest]; [congruence|]. intros _. split; [apply fext_refl|].
    apply Forall2_refl. exact fext_refl.
  Qed.

  Lemma ext_trans a b c nv1 ns1 nv2 ns2 : ext a b nv1 ns1 -> ext b c nv2 ns2 -> ext a c (nv2 ++ nv1) (ns1 ++ ns2).
  Proof.
    destruct a as [|fa ra], b as [|fb rb], c as [|fc rc]; cbn; try tauto.
    intros [H1 R1] [H2 R2]. split; [eapply fext_trans; eauto|].
    eapply Forall2_trans; [exact frest_trans|exact R1|exact R2].
  Qed.

  Lemma ext_eq a b nv ns nv' ns' : ext a b nv ns -> nv = nv' -> ns = ns' -> ext a b nv' ns'.
  Proof. intros H -> ->. exact H. Qed.

  Lemma ext_of_frest fs fs' : fs <> [] -> Forall2 frest fs fs' -> ext fs fs' [] [].
  Proof. intros Hne H. destruct H as [|f f' r r' Hf Hr]; [congruence|]. split; assumption. Qed.

  (* ---- primitive steps *)
  Lemma ext_add_var v st : t_frames st <> [] -> ext (t_frames st) (t_frames (add_var v st)) [v] [].
  Proof.
    unfold add_var. destruct (t_frames st) as [|f rest] eqn:E; [congruence|]. intros _. cbn.
    split; [|apply Forall2_refl; exact fext_refl].
    split; [reflexivity|]. exists [v], (f_vars f), []. cbn. repeat split; try constructor; try apply vstep_refl.
    - constructor.
    - apply Forall2_refl. exact vstep_refl.
  Qed.

  Lemma frames_log k n l st : t_frames (log k n l st) = t_frames st.
  Proof. reflexivity. Qed.

  Lemma ext_fold_add {X} (g : X -> ventry) (xs : list X) : forall st,
    t_frames st <> [] ->
    ext (t_frames st) (t_frames (fold_left (fun s x => add_var (g x) s) xs st)) (rev (map g xs)) [].
  Proof.
    induction xs as [|x r IH]; intros st Hne; cbn [fold_left map rev].
    - apply ext_refl. exact Hne.
    - pose proof (ext_add_var (g x) st Hne) as H1.
      pose proof (IH (add_var (g x) st) (ext_nonempty _ _ _ _ H1)) as H2.
      eapply ext_eq; [exact (ext_trans _ _ _ _ _ _ _ H1 H2)|reflexivity|reflexivity].
  Qed.

  Lemma ext_push_pop st0 st2 l nv ns :
    t_frames st0 <> [] ->
    ext (mkF l [] [] :: t_frames st0) (t_frames st2) nv ns ->
    ext (t_frames st0) (t_frames (pop st2)) [] [Scope l nv ns].
  Proof.
    intros Hne H. unfold pop. destruct (t_frames st0) as [|p rest]; [congruence|].
    destruct (t_frames st2) as [|g' fs2]; [contradiction|]. cbn in H. destruct H as [Hg Hr].
    inversion Hr as [|p0 p' r0 rest' Hp Hrest]; subst. cbn [t_frames].
    destruct Hg as [Hgl (nv' & ov' & ns' & Hv & Hn & Ho & Hs & Hss)]. cbn in Hgl, Ho, Hs.
    apply Forall2_nil_l in Ho. subst ov'. rewrite app_nil_r in Hv, Hs.
    destruct Hp as [Hpl (nvp & ovp & nsp & Hpv & Hpn & Hpo & Hps & Hpss)].
    apply Forall2_nil_l in Hpn. apply Forall2_nil_l in Hpss. subst nvp nsp. cbn in Hpv, Hps.
    split; [|exact Hrest].
    split; [exact Hpl|]. exists [], ovp, [close_frame g']. cbn. repeat split; auto.
    - rewrite Hps. reflexivity.
    - constructor; [|constructor]. unfold close_frame. rewrite Hgl, Hv, Hs, rev_involutive. constructor; assumption.
  Qed.

  Lemma frames_push l st : t_frames (push l st) = mkF l [] [] :: t_frames st.
  Proof. reflexivity. Qed.

  (* ---- re-pointing *)
  Lemma var_hit_facts n l v : var_hit n l v = true -> beq_bytes (v_name v) n = true /\ loc_before (v_loc v) l = true.
  Proof.
    unfold var_hit, is_correct_position. intros H. apply andb_true_iff in H. destruct H as [Hn Hp].
    split; [exact Hn|]. destruct (loc_before (v_loc v) l); [reflexivity|discriminate].
  Qed.

  Lemma repoint_vstep n l eo v :
    (forall e, eo = Some e -> In (n, l, e) A) -> var_hit n l v = true -> vstep A v (repoint n eo v).
  Proof.
    intros HA Hh. destruct (var_hit_facts _ _ _ Hh) as [Hn Hl].
    unfold repoint. destruct (v_empty v) eqn:He; [|left; reflexivity].
    destruct eo as [e|]; right; cbn; repeat split; auto.
    right. exists n, l, e. auto.
  Qed.

  Lemma upd_first_vstep p f vs vs' :
    (forall v, p v = true -> vstep A v (f v)) -> upd_first p f vs = Some vs' -> Forall2 (vstep A) vs vs'.
  Proof.
    intros Hf. revert vs'. induction vs as [|v r IH]; intros vs' H; cbn in H; [discriminate|].
    destruct (p v) eqn:Hp.
    - injection H as H. subst vs'. constructor; [apply Hf; exact Hp|apply Forall2_refl; exact vstep_refl].
    - destruct (upd_first p f r) as [r'|]; [|discriminate]. injection H as H. subst vs'.
      constructor; [apply vstep_refl|apply IH; reflexivity].
  Qed.

  Lemma upd_frames_frest p f fs :
    (forall v, p v = true -> vstep A v (f v)) -> Forall2 frest fs (upd_frames p f fs).
  Proof.
    intros Hf. induction fs as [|fr rest IH]; cbn; [constructor|].
    destruct (upd_first p f (f_vars fr)) as [vs'|] eqn:E.
    - constructor; [|apply Forall2_refl; exact fext_refl].
      split; [reflexivity|]. exists [], vs', []. cbn. repeat split; try constructor.
      eapply upd_first_vstep; eauto.
    - constructor; [apply fext_refl|exact IH].
  Qed.

  Lemma ext_assign_name flv slv n l eo st :
    (forall e, eo = Some e -> In (n, l, e) A) -> t_frames st <> [] ->
    ext (t_frames st) (t_frames (assign_name flv slv n l eo st)) [] [].
  Proof.
    intros HA Hne. unfold assign_name. destruct (lookup st n l) as [v0|].
    - rewrite frames_log. cbn [t_frames]. apply ext_of_frest; [exact Hne|].
      apply upd_frames_frest. intros v Hv. exact (repoint_vstep n l eo v HA Hv).
    - destruct (find_global_limit (t_globals st) n flv slv l); cbn [t_frames]; rewrite ?frames_log; apply ext_refl; exact Hne.
  Qed.

  (* ---- the statement *)
  Definition Pe (e : exp) : Prop :=
    forall flv st, incl (asg_exp e) A -> t_frames st <> [] ->
      ext (t_frames st) (t_frames (tr_exp flv e st)) [] (sk_exp e).
  Definition Ps (s : stat) : Prop :=
    forall flv slv st, incl (asg_stat s) A -> t_frames st <> [] ->
      ext (t_frames st) (t_frames (tr_stat flv slv s st)) (fst (sk_stat s)) (snd (sk_stat s)).
  Definition Pb (b : block) : Prop :=
    forall flv slv st, incl (asg_block b) A -> t_frames st <> [] ->
      ext (t_frames st) (t_frames (tr_block flv slv b st)) (fst (sk_block b)) (snd (sk_block b)).

  Lemma ext_apply_exps flv es : Forall Pe es -> forall st,
    incl (flat_map asg_exp es) A -> t_frames st <> [] ->
    ext (t_frames st) (t_frames (apply_all (map (fun a => tr_exp flv a) es) st)) [] (flat_map sk_exp es).
  Proof.
    intros Hall. induction Hall as [|e r He Hr IH]; intros st HA Hne; cbn [map flat_map].
    - apply ext_refl. exact Hne.
    - unfold apply_all. cbn [fold_left]. fold (apply_all (map (fun a => tr_exp flv a) r) (tr_exp flv e st)).
      cbn in HA. pose proof (He flv st (incl_app_l _ _ _ HA) Hne) as H1.
      pose proof (IH (tr_exp flv e st) (incl_app_r _ _ _ HA) (ext_nonempty _ _ _ _ H1)) as H2.
      eapply ext_eq; [exact (ext_trans _ _ _ _ _ _ _ H1 H2)|reflexivity|reflexivity].
  Qed.

  Lemma ext_local_adds il es : forall nls lastcall st,
    t_frames st <> [] ->
    ext (t_frames st) (t_frames (local_adds es nls lastcall il st)) (rev (local_vars es nls lastcall il)) [].
  Proof.
    induction es as [|e r IH]; intros nls lastcall st Hne; cbn [local_adds local_vars].
    - apply (ext_fold_add (fun nl => mkV5 (fst nl) (snd nl) lastcall match lastcall with RNone => true | _ => false end il None)).
      exact Hne.
    - destruct nls as [|[n nl] nls']; [apply ext_refl; exact Hne|].
      pose proof (ext_add_var (mkV5 n nl (ref_of_exp e) (refer_empty n e) il (tab_of_exp e)) _ Hne) as H1.
      pose proof (IH nls' (match e with ECall _ _ _ _ => ref_of_exp e | _ => RNone end) _ (ext_nonempty _ _ _ _ H1)) as H2.
      eapply ext_eq; [exact (ext_trans _ _ _ _ _ _ _ H1 H2)| |reflexivity].
      cbn [rev]. reflexivity.
  Qed.

  Lemma ext_local_loop flv il es : Forall Pe es -> forall nls lastcall st,
    incl (flat_map asg_exp es) A -> t_frames st <> [] ->
    ext (t_frames st) (t_frames (local_loop (map (fun e => (e, tr_exp flv e)) es) nls lastcall il st))
        (rev (local_vars es nls lastcall il)) (flat_map sk_exp es).
  Proof.
    intros Hall nls lastcall st HA Hne. unfold local_loop.
    rewrite !map_map. cbn [fst snd]. rewrite map_id.
    pose proof (ext_apply_exps flv es Hall st HA Hne) as H1.
    pose proof (ext_local_adds il es nls lastcall _ (ext_nonempty _ _ _ _ H1)) as H2.
    eapply ext_eq; [exact (ext_trans _ _ _ _ _ _ _ H1 H2)|apply app_nil_r|apply app_nil_r].
  Qed.

  Definition tgt_of (flv : Z) (v : exp) : atarget :=
    match v with
    | EName n l => TgName n l
    | EIndex p k _ => TgOther (fun s => tr_exp flv k (tr_exp flv p s))
    | _ => TgOther (fun s => s)
    end.

  Lemma ext_assign_loop flv slv vars :
    Forall (fun v => exists n ln, v = EName n ln /\ frag_name n = true) vars ->
    forall es, Forall Pe es -> forall st,
    incl (asg_pairs vars es ++ flat_map asg_exp es) A -> t_frames st <> [] ->
    ext (t_frames st)
        (t_frames (assign_loop flv slv (map (tgt_of flv) vars) (map (fun e => (e, tr_exp flv e)) es) st))
        [] (flat_map sk_exp es).
  Proof.
    intros Hv. induction Hv as [|v vars' (n & ln & Hvn & _) Hvars IH]; intros es Hes st HA Hne.
    - cbn [map assign_loop]. rewrite map_map. cbn [snd].
      apply ext_apply_exps; [exact Hes|exact (incl_app_r _ _ _ HA)|exact Hne].
    - subst v. cbn [map tgt_of assign_loop]. destruct Hes as [|e r He Hr]; cbn [map flat_map].
      + pose proof (ext_assign_name flv slv n ln None st (fun e H => ltac:(discriminate)) Hne) as H1.
        pose proof (IH [] (Forall_nil _) _ ltac:(intros x Hx; cbn in Hx; destruct vars'; cbn in Hx; contradiction)
                       (ext_nonempty _ _ _ _ H1)) as H2.
        cbn [map flat_map] in H2.
        eapply ext_eq; [exact (ext_trans _ _ _ _ _ _ _ H1 H2)|reflexivity|reflexivity].
      + assert (HAe : incl (asg_exp e) A).
        { intros x Hx. apply HA. apply in_or_app. right. cbn. apply in_or_app. left. exact Hx. }
        assert (HAn : In (n, ln, e) A).
        { apply HA. apply in_or_app. left. unfold asg_pairs. cbn. left. reflexivity. }
        assert (HAr : incl (asg_pairs vars' r ++ flat_map asg_exp r) A).
        { intros x Hx. apply HA. apply in_app_or in Hx. apply in_or_app. destruct Hx as [Hx|Hx].
          - left. unfold asg_pairs. cbn. right. exact Hx.
          - right. cbn. apply in_or_app. right. exact Hx. }
        pose proof (He flv st HAe Hne) as H1.
        pose proof (ext_assign_name flv slv n ln (Some e) _
                     (fun e0 H => ltac:(injection H as H; subst e0; exact HAn)) (ext_nonempty _ _ _ _ H1)) as H2.
        pose proof (ext_trans _ _ _ _ _ _ _ H1 H2) as H12.
        pose proof (IH r Hr _ HAr (ext_nonempty _ _ _ _ H12)) as H3.
        eapply ext_eq; [exact (ext_trans _ _ _ _ _ _ _ H12 H3)|reflexivity|].
        rewrite app_nil_r. reflexivity.
  Qed.

  Lemma ext_if_loop flv slv es : Forall Pe es -> forall bs, Forall Pb bs -> forall st,
    length es = length bs ->
    incl (flat_map asg_exp es ++ flat_map asg_block bs) A -> t_frames st <> [] ->
    ext (t_frames st)
        (t_frames (if_loop (map (fun e => tr_exp flv e) es)
                           (map (fun b => (block_loc b, tr_block flv (slv + 1) b)) bs) st))
        [] (zip_if (map sk_exp es) (map (fun b => [Scope (block_loc b) (fst (sk_block b)) (snd (sk_block b))]) bs)).
  Proof.
    intros Hes. induction Hes as [|e r He Hr IH]; intros bs Hbs st Hlen HA Hne.
    - cbn [map if_loop zip_if]. apply ext_refl. exact Hne.
    - destruct Hbs as [|b rb Hb Hrb]; [cbn in Hlen; discriminate|].
      cbn [map if_loop zip_if].
      assert (HAe : incl (asg_exp e) A).
      { intros x Hx. apply HA. apply in_or_app. left. cbn. apply in_or_app. left. exact Hx. }
      assert (HAb : incl (asg_block b) A).
      { intros x Hx. apply HA. apply in_or_app. right. cbn. apply in_or_app. left. exact Hx. }
      assert (HAr : incl (flat_map asg_exp r ++ flat_map asg_block rb) A).
      { intros x Hx. apply HA. apply in_app_or in Hx. apply in_or_app. destruct Hx as [Hx|Hx].
        - left. cbn. apply in_or_app. right. exact Hx.
        - right. cbn. apply in_or_app. right. exact Hx. }
      pose proof (He flv st HAe Hne) as H1.
      pose proof (ext_nonempty _ _ _ _ H1) as Hne1.
      assert (Hpne : t_frames (push (block_loc b) (tr_exp flv e st)) <> []) by (rewrite frames_push; discriminate).
      pose proof (Hb flv (slv + 1) _ HAb Hpne) as H2. rewrite frames_push in H2.
      pose proof (ext_push_pop _ _ _ _ _ Hne1 H2) as H3.
      pose proof (ext_trans _ _ _ _ _ _ _ H1 H3) as H13.
      assert (Hlen' : length r = length rb) by (cbn in Hlen; lia).
      pose proof (IH rb Hrb _ Hlen' HAr (ext_nonempty _ _ _ _ H13)) as H4.
      eapply ext_eq; [exact (ext_trans _ _ _ _ _ _ _ H13 H4)|reflexivity|].
      rewrite <- app_assoc. reflexivity.
  Qed.

  Lemma ext_apply_stats flv slv ss : Forall Ps ss -> forall st,
    incl (flat_map asg_stat ss) A -> t_frames st <> [] ->
    ext (t_frames st) (t_frames (apply_all (map (fun s => tr_stat flv slv s) ss) st))
        (concat (rev (map (fun s => fst (sk_stat s)) ss))) (flat_map (fun s => snd (sk_stat s)) ss).
  Proof.
    intros Hall. induction Hall as [|s r Hs Hr IH]; intros st HA Hne; cbn [map flat_map rev concat].
    - apply ext_refl. exact Hne.
    - unfold apply_all. cbn [fold_left]. fold (apply_all (map (fun s => tr_stat flv slv s) r) (tr_stat flv slv s st)).
      cbn in HA. pose proof (Hs flv slv st (incl_app_l _ _ _ HA) Hne) as H1.
      pose proof (IH (tr_stat flv slv s st) (incl_app_r _ _ _ HA) (ext_nonempty _ _ _ _ H1)) as H2.
      eapply ext_eq; [exact (ext_trans _ _ _ _ _ _ _ H1 H2)| |reflexivity].
      rewrite concat_app. cbn [concat]. rewrite app_nil_r. reflexivity.
  Qed.

  Lemma shape_all : (forall e, core_e e -> Pe e) /\ (forall s, core_s s -> Ps s) /\ (forall b, core_b b -> Pb b).
  Proof.
    apply core_ind3.
    - (* atoms *)
      intros e Ha _ flv st HA Hne. destruct e; try contradiction; cbn [tr_exp sk_exp]; rewrite ?frames_log; apply ext_refl; exact Hne.
    - intros o x l _ IH flv st HA Hne. exact (IH flv st HA Hne).
    - intros o a b l _ _ IHa IHb flv st HA Hne. cbn [tr_exp sk_exp]. cbn in HA.
      pose proof (IHa flv st (incl_app_l _ _ _ HA) Hne) as H1.
      pose proof (IHb flv _ (incl_app_r _ _ _ HA) (ext_nonempty _ _ _ _ H1)) as H2.
      eapply ext_eq; [exact (ext_trans _ _ _ _ _ _ _ H1 H2)|reflexivity|reflexivity].
    - intros x l _ IH flv st HA Hne. exact (IH flv st HA Hne).
    - (* call *)
      intros n ln args l _ _ IH flv st HA Hne. cbn [tr_exp sk_exp app]. cbn in HA.
      apply (ext_apply_exps flv args IH (log OUse n ln st)); [exact HA|rewrite frames_log; exact Hne].
    - (* function *)
      intros f ps pl b l va _ _ IH flv st HA Hne. cbn [tr_exp sk_exp]. cbn in HA.
      apply ext_push_pop; [exact Hne|].
      assert (Hpne : t_frames (push l st) <> []) by (rewrite frames_push; discriminate).
      pose proof (ext_fold_add (fun pl0 : list N * loc => mkV (fst pl0) (snd pl0) RNone false) (combine ps pl) _ Hpne) as H1.
      pose proof (IH (flv + 1) 0 _ HA (ext_nonempty _ _ _ _ H1)) as H2.
      rewrite frames_push in H1.
      eapply ext_eq; [exact (ext_trans _ _ _ _ _ _ _ H1 H2)|reflexivity|reflexivity].
    - (* break *) intros flv slv st HA Hne. apply ext_refl. exact Hne.
    - (* do *)
      intros b l _ IH flv slv st HA Hne. cbn [tr_stat sk_stat fst snd]. cbn in HA.
      apply ext_push_pop; [exact Hne|].
      assert (Hpne : t_frames (push l st) <> []) by (rewrite frames_push; discriminate).
      pose proof (IH flv (slv + 1) _ HA Hpne) as H1. rewrite frames_push in H1. exact H1.
    - (* call statement *)
      intros n ln args l _ IH flv slv st HA Hne. exact (IH flv st HA Hne).
    - (* if *)
      intros es bs l Hlen _ _ IHes IHbs flv slv st HA Hne. cbn [tr_stat sk_stat fst snd]. cbn in HA.
      apply ext_if_loop; assumption.
    - (* while *)
      intros e b l _ _ IHe IHb flv slv st HA Hne. cbn [tr_stat sk_stat fst snd]. cbn in HA.
      pose proof (IHe flv st (incl_app_l _ _ _ HA) Hne) as H1.
      pose proof (ext_nonempty _ _ _ _ H1) as Hne1.
      assert (Hpne : t_frames (push l (tr_exp flv e st)) <> []) by (rewrite frames_push; discriminate).
      pose proof (IHb flv (slv + 1) _ (incl_app_r _ _ _ HA) Hpne) as H2. rewrite frames_push in H2.
      pose proof (ext_push_pop _ _ _ _ _ Hne1 H2) as H3.
      eapply ext_eq; [exact (ext_trans _ _ _ _ _ _ _ H1 H3)|reflexivity|reflexivity].
    - (* repeat *)
      intros b e l _ _ IHb IHe flv slv st HA Hne. cbn [tr_stat sk_stat fst snd]. cbn in HA.
      apply ext_push_pop; [exact Hne|].
      assert (Hpne : t_frames (push l st) <> []) by (rewrite frames_push; discriminate).
      pose proof (IHb flv (slv + 1) _ (incl_app_l _ _ _ HA) Hpne) as H1.
      pose proof (IHe flv _ (incl_app_r _ _ _ HA) (ext_nonempty _ _ _ _ H1)) as H2.
      rewrite frames_push in H1.
      eapply ext_eq; [exact (ext_trans _ _ _ _ _ _ _ H1 H2)|rewrite app_nil_l; reflexivity|reflexivity].
    - (* numeric for *)
      intros n vl e1 e2 e3 b l _ _ _ _ _ IH1 IH2 IH3 IHb flv slv st HA Hne. cbn [tr_stat sk_stat fst snd]. cbn in HA.
      apply ext_push_pop; [exact Hne|].
      assert (Hpne : t_frames (push l st) <> []) by (rewrite frames_push; discriminate).
      assert (HA1 : incl (asg_exp e1) A) by (intros x Hx; apply HA; apply in_or_app; left; exact Hx).
      assert (HA2 : incl (asg_exp e2) A) by (intros x Hx; apply HA; apply in_or_app; right; apply in_or_app; left; exact Hx).
      assert (HA3 : incl (asg_exp e3) A)
        by (intros x Hx; apply HA; apply in_or_app; right; apply in_or_app; right; apply in_or_app; left; exact Hx).
      assert (HAb : incl (asg_block b) A)
        by (intros x Hx; apply HA; apply in_or_app; right; apply in_or_app; right; apply in_or_app; right; exact Hx).
      pose proof (IH1 flv _ HA1 Hpne) as H1.
      pose proof (IH2 flv _ HA2 (ext_nonempty _ _ _ _ H1)) as H3.
      pose proof (ext_trans _ _ _ _ _ _ _ H1 H3) as H13.
      pose proof (IH3 flv _ HA3 (ext_nonempty _ _ _ _ H13)) as H2.
      pose proof (ext_trans _ _ _ _ _ _ _ H13 H2) as H132.
      pose proof (ext_add_var (mkV n vl RNone false) _ (ext_nonempty _ _ _ _ H132)) as H4.
      pose proof (ext_trans _ _ _ _ _ _ _ H132 H4) as H1324.
      pose proof (IHb flv (slv + 1) _ HAb (ext_nonempty _ _ _ _ H1324)) as H5.
      pose proof (ext_trans _ _ _ _ _ _ _ H1324 H5) as H6.
      rewrite frames_push in H6.
      eapply ext_eq; [exact H6|reflexivity|].
      rewrite app_nil_r, <- !app_assoc. reflexivity.
    - (* generic for *)
      intros ns ls es b l _ _ _ IHes IHb flv slv st HA Hne. cbn [tr_stat sk_stat fst snd]. cbn in HA.
      apply ext_push_pop; [exact Hne|].
      assert (Hpne : t_frames (push l st) <> []) by (rewrite frames_push; discriminate).
      pose proof (ext_apply_exps flv es IHes _ (incl_app_l _ _ _ HA) Hpne) as H1.
      pose proof (ext_fold_add (fun pl0 : list N * loc => mkV (fst pl0) (snd pl0) RNone false) (combine ns ls) _
                               (ext_nonempty _ _ _ _ H1)) as H2.
      pose proof (ext_trans _ _ _ _ _ _ _ H1 H2) as H12.
      pose proof (IHb flv (slv + 1) _ (incl_app_r _ _ _ HA) (ext_nonempty _ _ _ _ H12)) as H3.
      pose proof (ext_trans _ _ _ _ _ _ _ H12 H3) as H4.
      rewrite frames_push in H4.
      eapply ext_eq; [exact H4|rewrite app_nil_r; reflexivity|rewrite app_nil_r; reflexivity].
    - (* assignment *)
      intros vars es l Hv _ IHes flv slv st HA Hne. cbn [tr_stat sk_stat fst snd]. cbn in HA.
      apply (ext_assign_loop flv slv vars Hv es IHes st HA Hne).
    - (* local *)
      intros ns ls at_ es l _ Hlen _ IHes flv slv st HA Hne. cbn [tr_stat sk_stat fst snd]. cbn in HA.
      apply ext_local_loop; auto.
    - (* local function *)
      intros n nl f ps pl b lf va l _ _ IH flv slv st HA Hne. cbn [tr_stat sk_stat fst snd].
      pose proof (ext_add_var (mkV n nl (ref_of_exp (EFunc [] f ps pl b lf va false)) false) st Hne) as H1.
      pose proof (IH flv _ HA (ext_nonempty _ _ _ _ H1)) as H2.
      eapply ext_eq; [exact (ext_trans _ _ _ _ _ _ _ H1 H2)|reflexivity|reflexivity].
    - (* block *)
      intros ss ret l _ IHss _ IHret flv slv st HA Hne. cbn [tr_block sk_block fst snd]. cbn in HA.
      pose proof (ext_apply_stats flv slv ss IHss st (incl_app_l _ _ _ HA) Hne) as H1.
      destruct ret as [es|]; cbn [ret_exps] in IHret.
      + pose proof (ext_apply_exps flv es IHret _ (incl_app_r _ _ _ HA) (ext_nonempty _ _ _ _ H1)) as H2.
        eapply ext_eq; [exact (ext_trans _ _ _ _ _ _ _ H1 H2)|reflexivity|reflexivity].
      + eapply ext_eq; [exact H1|reflexivity|rewrite app_nil_r; reflexivity].
  Qed.
End Shape.

Theorem analyse_shape P : core_b P -> sstep (asg_block P) (sk_root P) (fi_root (analyse P)).
Proof.
  intros Hc. destruct (shape_all (asg_block P)) as (_ & _ & Hb).
  set (st0 := mkT [mkF (block_loc P) [] []] [] []).
  assert (Hne : t_frames st0 <> []) by (cbn; discriminate).
  pose proof (Hb P Hc 0 0 st0 (incl_refl _) Hne) as H.
  unfold analyse. fold st0. cbn [fi_root].
  destruct (t_frames (tr_block 0 0 P st0)) as [|f' rest']; [cbn in H; contradiction|].
  cbn in H. destruct H as [[Hl (nv' & ov' & ns' & Hv & Hn & Ho & Hs & Hss)] _].
  cbn in Hl, Ho, Hs. apply Forall2_nil_l in Ho. subst ov'. rewrite app_nil_r in Hv, Hs.
  unfold close_frame, sk_root. rewrite Hl, Hv, Hs, rev_involutive. constructor; assumption.
Qed.
Print Assumptions analyse_shape.
