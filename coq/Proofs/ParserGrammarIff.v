(* C03, token level: the two directions together.  Chunk ts  <->  the token list has the lexer's shape (ends with its
   only EOF token), no token of kind "illegal", and BeginAnalyze reports no parse error  (below the 31-error cut-off,
   which counts the lexical errors carried by the tokens too). *)
From Coq Require Import List NArith ZArith Bool Arith Lia.
From LH Require Import Base.Bytes Base.Res Model.Lexer Model.Ast Model.Parser Model.LuaFront Spec.LuaGrammar.
From LH Require Import Proofs.ParserGrammarSoundBase Proofs.ParserGrammarCompleteTop Proofs.ParserGrammarSoundMain
     Proofs.ParserGrammarChunkOk.
Import ListNotations.

Section Iff.
  Variable classify : list N -> numcls.

  Theorem chunk_tokens_ok ts : Chunk classify ts -> tokens_ok ts = true.
  Proof. intros H. apply tokens_ok_okl. eapply chunk_okl; eauto. Qed.

  Theorem parse_tokens_iff_full ts :
    length (flat_map lerrs ts) < 31 ->
    (Chunk classify ts <->
     tokens_ok ts = true /\
     exists b, parse_tokens classify (fuel_of_tokens ts) ts = Ok (PR b (flat_map lerrs ts) [])).
  Proof.
    intros Hl. split.
    - intros HC. pose proof (chunk_tokens_ok ts HC) as G. split; [exact G|].
      apply (parse_tokens_iff classify ts G Hl). exact HC.
    - intros [G H]. apply (parse_tokens_iff classify ts G Hl). exact H.
  Qed.
End Iff.
