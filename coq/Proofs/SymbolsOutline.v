(* C19 - theorems about the outline of a whole file: ranges (repaired rules, fx_all). *)
From Coq Require Import List NArith ZArith Bool Lia ZifyBool.
From LH Require Import Base.Bytes Base.Res Model.Lexer Model.Ast Model.Parser Model.LuaFront Model.Symbols Spec.SymbolSpec
  Proofs.SymbolsRange Proofs.SymbolsLocs Proofs.SymbolsMerge Proofs.SymbolsWitness.
Import ListNotations.

(* ------------------------------------------------------------------ layout hypothesis: token spans *)
(* every Loc of the syntax tree that the analysis can store has start <= end *)
Definition layout_wf (b : block) : bool := locs_block well_formed b.

(* the outline of a file, unfolded *)
Lemma outline_of_bytes_inv : forall fx bs ss,
    outline_of_bytes fx bs = Some ss ->
    exists b st, parse_bytes no_gbk classify_tok bs = Ok (PR b [] []) /\ analyse (fuel_of_bytes bs) b = Ok st /\
                 ss = find_all_symbol fx (finalize st).
Proof.
  intros fx bs ss H. unfold outline_of_bytes, analyse_bytes in H.
  destruct (parse_bytes no_gbk classify_tok bs) as [r| |] eqn:Ep; cbn [rbind] in H; try discriminate.
  destruct r as [b le pe|]; [|discriminate]. destruct le; [|discriminate]. destruct pe; [|discriminate].
  destruct (analyse (fuel_of_bytes bs) b) as [st| |] eqn:Ea; cbn [rbind] in H; try discriminate.
  injection H as <-. exists b, st. auto.
Qed.

Definition parsed_ok (chk : block -> bool) (bs : list N) : bool :=
  match parse_bytes no_gbk classify_tok bs with
  | Ok (PR b [] []) => chk b
  | _ => false
  end.

(* ------------------------------------------------------------------ the Loc invariant at the end of the analysis *)
Section WithP.
  Variable P : loc -> bool.
  Hypothesis Hzero : P zero_loc = true.

  Lemma init_state_ok : st_ok P init_state.
  Proof.
    constructor; unfold init_state; cbn [env globs nodefs].
    - constructor; [|constructor]. apply scope_all_unfold. split; constructor.
    - constructor.
    - constructor.
  Qed.

  Lemma analyse_ok : forall n b st, locs_block P b = true -> analyse n b = Ok st -> st_ok P st.
  Proof.
    intros n b st Hb H. unfold analyse in H.
    destruct (all_spec P Hzero n) as [_ [_ [_ Hblk]]]. eapply Hblk; [exact Hb | apply init_state_ok | exact H].
  Qed.

  Lemma finalize_ok : forall st, st_ok P st -> st_ok P (finalize st).
  Proof.
    intros st [He Hg Hn]. destruct (finalize_facts st) as [H1 [H2 [_ H4]]].
    constructor; [rewrite H1; exact He | | rewrite H2; exact Hn].
    apply Forall_forall. intros [nm v'] Hin. cbn [snd].
    destruct (gext_in _ _ _ _ _ H4 Hin) as [v [Hv Hext]].
    unfold subs_ok in Hg. rewrite Forall_forall in Hg. specialize (Hg _ Hv). cbn [snd] in Hg.
    destruct v as [l f s p g r e]. destruct Hext as [extra [-> Hex]]. cbn [set_sub v_sub].
    apply vi_ok_unfold in Hg. destruct Hg as [Hl [Hf Hs]]. apply vi_ok_intro; auto.
    apply Forall_app. split; [exact Hs|]. apply Forall_forall. intros m Hm.
    rewrite Forall_forall in Hex. specialize (Hex _ Hm). unfold nodef_members in Hex. apply in_flat_map in Hex.
    destruct Hex as [nv [Hnv Hm2]]. unfold subs_ok in Hn. rewrite Forall_forall in Hn. specialize (Hn _ Hnv).
    apply vi_ok_sub in Hn. unfold subs_ok in Hn. rewrite Forall_forall in Hn. apply Hn. exact Hm2.
  Qed.

  (* every entry of the outline is var_sym of a variable all of whose Locs satisfy P *)
  Lemma outline_entry_ok : forall fx n b st s,
      locs_block P b = true -> analyse n b = Ok st -> In s (find_all_symbol fx (finalize st)) ->
      exists lc nm v u, vi_ok P v /\ s = set_undecl u (var_sym fx lc nm v).
  Proof.
    intros fx n b st s Hb Ha Hin. pose proof (finalize_ok _ (analyse_ok _ _ _ Hb Ha)) as [He Hg Hn].
    apply (find_all_symbol_entry (vi_ok P) fx (finalize st) s); [| exact Hg | exact Hn | exact Hin].
    unfold main_scope. destruct (env (finalize st)) as [|fr rest].
    - apply scope_all_unfold. split; constructor.
    - inversion He; assumption.
  Qed.
End WithP.

(* ------------------------------------------------------------------ C19_range_well_formed *)
Lemma well_formed_zero : well_formed zero_loc = true.
Proof. reflexivity. Qed.

Lemma child_sym_loc_ok : forall nm k sv, vi_ok well_formed sv -> well_formed (c_loc (child_sym fx_all nm k sv)) = true.
Proof.
  intros nm k sv Hsv. unfold child_sym. pose proof (vi_ok_func well_formed _ Hsv) as Hf.
  pose proof (vi_ok_loc well_formed _ Hsv) as Hl.
  destruct (v_func sv); cbn [c_loc]; [apply loc_union_wf; [exact Hf | exact Hl] | exact Hl].
Qed.

Lemma var_sym_wf : forall lc nm v,
    vi_ok well_formed v ->
    well_formed (s_loc (var_sym fx_all lc nm v)) = true /\
    forall c, In c (s_children (var_sym fx_all lc nm v)) -> well_formed (c_loc c) = true.
Proof.
  intros lc nm v Hv.
  assert (Hch : forall c, In c (s_children (var_sym fx_all lc nm v)) -> well_formed (c_loc c) = true).
  { intros c Hc. apply var_sym_child_form in Hc. destruct Hc as [k [sv [Hin [_ ->]]]].
    apply child_sym_loc_ok. pose proof (vi_ok_sub _ _ Hv) as Hs. unfold subs_ok in Hs. rewrite Forall_forall in Hs.
    apply (Hs _ Hin). }
  split; [|exact Hch].
  destruct (v_func v) as [fi|] eqn:Ef.
  - rewrite (var_sym_fn_loc fx_all lc nm v fi Ef). pose proof (vi_ok_func _ _ Hv) as Hf. rewrite Ef in Hf.
    apply loc_union_wf; [exact Hf | apply (vi_ok_loc _ _ Hv)].
  - rewrite (var_sym_nonfn_loc lc nm v Ef). apply hull_wf; [apply (vi_ok_loc _ _ Hv) | exact Hch].
Qed.

Theorem outline_ranges_wf : forall n b st s,
    layout_wf b = true -> analyse n b = Ok st -> In s (find_all_symbol fx_all (finalize st)) ->
    well_formed (s_loc s) = true /\ forall c, In c (s_children s) -> well_formed (c_loc c) = true.
Proof.
  intros n b st s Hb Ha Hin.
  destruct (outline_entry_ok well_formed well_formed_zero fx_all n b st s Hb Ha Hin) as [lc [nm [v [u [Hv ->]]]]].
  cbn [set_undecl s_loc s_children]. apply var_sym_wf. exact Hv.
Qed.

Theorem outline_of_bytes_wf : forall bs b ss s,
    parse_bytes no_gbk classify_tok bs = Ok (PR b [] []) -> layout_wf b = true ->
    outline_of_bytes fx_all bs = Some ss -> In s ss ->
    well_formed (s_loc s) = true /\ forall c, In c (s_children s) -> well_formed (c_loc c) = true.
Proof.
  intros bs b ss s Hp Hl Ho Hin. apply outline_of_bytes_inv in Ho. destruct Ho as [b' [st [Hp' [Ha ->]]]].
  rewrite Hp in Hp'. injection Hp' as <-. eapply outline_ranges_wf; eauto.
Qed.

(* ------------------------------------------------------------------ C19_range_contains_decl / children_inside *)
(* for EVERY file (no layout hypothesis): every entry and every child entry contains its declaring identifier *)
Theorem outline_contains_decl : forall bs ss s,
    outline_of_bytes fx_all bs = Some ss -> In s ss ->
    contains (s_loc s) (s_decl s) = true /\
    forall c, In c (s_children s) -> contains (c_loc c) (c_decl c) = true.
Proof.
  intros bs ss s Ho Hin. apply outline_of_bytes_inv in Ho. destruct Ho as [b [st [_ [_ ->]]]].
  apply find_all_symbol_var_sym in Hin. destruct Hin as [lc [nm [v [u ->]]]]. cbn [set_undecl s_loc s_decl s_children].
  split; [apply var_sym_contains_decl|].
  intros c Hc. destruct (var_sym_child_form _ _ _ _ _ Hc) as [k [sv [_ [_ ->]]]]. apply child_sym_contains_decl.
Qed.

(* every child lies inside its parent *)
Theorem outline_children_inside : forall bs ss s c,
    outline_of_bytes fx_all bs = Some ss -> In s ss -> In c (s_children s) -> contains (s_loc s) (c_loc c) = true.
Proof.
  intros bs ss s c Ho Hin Hc. apply outline_of_bytes_inv in Ho. destruct Ho as [b [st [_ [_ ->]]]].
  apply find_all_symbol_var_sym in Hin. destruct Hin as [lc [nm [v [u ->]]]]. cbn [set_undecl s_loc s_children] in *.
  apply var_sym_contains_child. exact Hc.
Qed.

(* only entries that are not function-valued have children; a child that is not function-valued is located at its
   declaring identifier *)
Theorem outline_children : forall fx bs ss s c,
    outline_of_bytes fx bs = Some ss -> In s ss -> In c (s_children s) ->
    s_fn s = false /\ (c_fn c = false -> c_loc c = c_decl c).
Proof.
  intros fx bs ss s c Ho Hin Hc. apply outline_of_bytes_inv in Ho. destruct Ho as [b [st [_ [_ ->]]]].
  apply find_all_symbol_var_sym in Hin. destruct Hin as [lc [nm [v [u ->]]]]. cbn [set_undecl s_fn s_children] in *.
  destruct (var_sym_child_form _ _ _ _ _ Hc) as [k [sv [_ [Hf ->]]]]. split.
  - rewrite var_sym_fn, Hf. reflexivity.
  - apply child_sym_nonfn.
Qed.

(* the range of an entry is the SMALLEST one that contains its identifier and its children: an entry that is not
   function-valued starts at the start of its identifier or of a child and ends at the end of its identifier or of a
   child; without children it is the identifier itself *)
Theorem outline_range_tight : forall bs ss s,
    outline_of_bytes fx_all bs = Some ss -> In s ss -> s_fn s = false ->
    ((sl (s_loc s), sc (s_loc s)) = (sl (s_decl s), sc (s_decl s)) \/
     exists c, In c (s_children s) /\ (sl (s_loc s), sc (s_loc s)) = (sl (c_loc c), sc (c_loc c))) /\
    ((el (s_loc s), ec (s_loc s)) = (el (s_decl s), ec (s_decl s)) \/
     exists c, In c (s_children s) /\ (el (s_loc s), ec (s_loc s)) = (el (c_loc c), ec (c_loc c))).
Proof.
  intros bs ss s Ho Hin Hfn. apply outline_of_bytes_inv in Ho. destruct Ho as [b [st [_ [_ ->]]]].
  apply find_all_symbol_var_sym in Hin. destruct Hin as [lc [nm [v [u ->]]]]. cbn [set_undecl s_fn s_loc s_decl s_children] in *.
  apply (var_sym_nonfn_ends lc nm v Hfn).
Qed.

Theorem outline_tight : forall bs ss s,
    outline_of_bytes fx_all bs = Some ss -> In s ss ->
    (forall c, In c (s_children s) -> s_fn s = false /\ (c_fn c = false -> c_loc c = c_decl c)) /\
    (s_fn s = false ->
     ((sl (s_loc s), sc (s_loc s)) = (sl (s_decl s), sc (s_decl s)) \/
      exists c, In c (s_children s) /\ (sl (s_loc s), sc (s_loc s)) = (sl (c_loc c), sc (c_loc c))) /\
     ((el (s_loc s), ec (s_loc s)) = (el (s_decl s), ec (s_decl s)) \/
      exists c, In c (s_children s) /\ (el (s_loc s), ec (s_loc s)) = (el (c_loc c), ec (c_loc c)))).
Proof.
  intros bs ss s Ho Hin. split.
  - intros c Hc. exact (outline_children fx_all bs ss s c Ho Hin Hc).
  - intros Hfn. exact (outline_range_tight bs ss s Ho Hin Hfn).
Qed.
