(* C07, part 6 (types 4 and 17): the variables the trace adds are the declarations of the reference (`file_decls`),
   and what the sweep says about a declaration's variable, evolved by the occurrences bound to it, is what
   `spec_unused` says about the declaration. *)
From Coq Require Import List NArith ZArith Bool Lia Permutation.
From LH Require Import Base.Bytes Model.Lexer Model.Ast Spec.LuaUsage Model.Usage Proofs.TraverseBindDefs
  Proofs.UsageBindRun Proofs.UsageBindSim Proofs.UsageBind Proofs.UsageBindSweep.
Import ListNotations.
Local Open Scope N_scope.

Definition var_of_decl (d : decl) : var :=
  mkVar10 (d_name d) (d_loc d)
        (match d_kind d with DParam | DLoop => true | _ => false end)
        (d_close d)
        (match d_kind d with
         | DLocalFun => true
         | DLocal => match d_value d with Some e => is_func_exp e | None => false end
         | _ => false
         end)
        (d_value d) (d_empty d) [] (d_init d) (d_tab d).

Definition AddsOK (acts : list action) (ds : list decl) : Prop := Permutation (adds_of acts) (map var_of_decl ds).

Lemma AddsOK_nil : AddsOK [] [].
Proof. apply Permutation_refl. Qed.
Lemma AddsOK_app a1 a2 d1 d2 : AddsOK a1 d1 -> AddsOK a2 d2 -> AddsOK (a1 ++ a2) (d1 ++ d2).
Proof. unfold AddsOK. intros H1 H2. rewrite adds_of_app, map_app. apply Permutation_app; assumption. Qed.
Lemma AddsOK_scope a ds : AddsOK a ds -> AddsOK (APush :: a ++ [APop]) ds.
Proof.
  unfold AddsOK. intros H. change (APush :: a ++ [APop]) with ([APush] ++ a ++ [APop]).
  rewrite !adds_of_app. cbn. rewrite app_nil_r. exact H.
Qed.
Lemma AddsOK_read n l f s ci : AddsOK [ARead n l f s ci] [].
Proof. apply Permutation_refl. Qed.
Lemma AddsOK_adds k ns ls : (k = DParam \/ k = DLoop) -> AddsOK (adds ns ls) (plain_decls k ns ls).
Proof.
  intros Hk. unfold AddsOK, plain_decls. revert ls. induction ns as [|n ns' IH]; intros ls; [apply Permutation_refl|].
  destruct ls as [|l ls']; [apply Permutation_refl|]. cbn [adds combine map].
  change (adds_of (AAdd (param_var n l) :: adds ns' ls')) with (param_var n l :: adds_of (adds ns' ls')).
  replace (var_of_decl (mkDecl (fst (n, l)) (snd (n, l)) k false None false)) with (param_var n l)
    by (destruct Hk as [-> | ->]; reflexivity).
  apply perm_skip. apply IH.
Qed.

Lemma local_rest_decls il lc : (forall e, lc = Some e -> is_func_exp e = false) -> forall ns ls ats,
  adds_of (local_rest il ns ls ats lc) = map var_of_decl (local_decls il ns ls ats [] lc).
Proof.
  intros Hlc. induction ns as [|n ns' IH]; intros ls ats; [reflexivity|].
  destruct ls as [|l ls']; [reflexivity|]. destruct ats as [|a ats']; [reflexivity|].
  cbn [local_rest local_decls map].
  change (adds_of (AAdd ?v :: ?r)) with (v :: adds_of r). rewrite IH. f_equal.
  unfold var_of_decl. cbn. destruct lc as [e|]; [|reflexivity]. rewrite (Hlc e eq_refl). reflexivity.
Qed.

Lemma lastcall_not_func e x : (if is_call_exp e then Some e else None) = Some x -> is_func_exp x = false.
Proof. destruct e; cbn; intros H; try discriminate. injection H as <-. reflexivity. Qed.

Definition ExpAdds (e : exp) : Prop :=
  frag_exp e = true -> forall bp flv g, AddsOK (fst (tr_exp e bp flv g)) (d_exp e).
Definition StatAdds (s : stat) : Prop :=
  frag_stat s = true -> forall flv slv g, AddsOK (fst (tr_stat s flv slv g)) (d_stat s).
Definition BlockAdds (b : block) : Prop :=
  frag_block b = true -> forall flv slv g, AddsOK (fst (tr_block b flv slv g)) (d_block b).

Lemma thread_exps_adds flv : forall es g,
  Forall ExpAdds es -> forallb frag_exp es = true ->
  AddsOK (fst (thread (fun x g0 => tr_exp x None flv g0) es g)) (flat_map d_exp es).
Proof.
  induction es as [|e r IH]; intros g Hok Hf; [apply AddsOK_nil|].
  inversion Hok as [|? ? He Hr]; subst. cbn [forallb] in Hf. apply andb_true_iff in Hf. destruct Hf as [Hf1 Hf2].
  cbn [thread flat_map]. pose proof (He Hf1 None flv g) as H1. destruct (tr_exp e None flv g) as [b1 g1].
  pose proof (IH g1 Hr Hf2) as H2. destruct (thread (fun x g0 => tr_exp x None flv g0) r g1) as [b2 g2].
  cbn [fst] in *. apply AddsOK_app; assumption.
Qed.

Lemma thread_stats_adds flv slv : forall ss g,
  Forall StatAdds ss -> forallb frag_stat ss = true ->
  AddsOK (fst (thread (fun s g0 => tr_stat s flv slv g0) ss g)) (flat_map d_stat ss).
Proof.
  induction ss as [|s r IH]; intros g Hok Hf; [apply AddsOK_nil|].
  inversion Hok as [|? ? Hs Hr]; subst. cbn [forallb] in Hf. apply andb_true_iff in Hf. destruct Hf as [Hf1 Hf2].
  cbn [thread flat_map]. pose proof (Hs Hf1 flv slv g) as H1. destruct (tr_stat s flv slv g) as [b1 g1].
  pose proof (IH g1 Hr Hf2) as H2. destruct (thread (fun s0 g0 => tr_stat s0 flv slv g0) r g1) as [b2 g2].
  cbn [fst] in *. apply AddsOK_app; assumption.
Qed.

Lemma alt_thread_adds flv slv : forall es bs g,
  Forall ExpAdds es -> Forall BlockAdds bs -> forallb frag_exp es = true -> forallb frag_block bs = true ->
  AddsOK (fst (alt_thread
                 (map (fun e g0 => tr_exp e None flv (set_inif g0 true)) es)
                 (map (fun b g0 => let (a2, g2) := tr_block b flv (slv + 1) (set_inif g0 false) in
                                   (APush :: a2 ++ [APop], g2)) bs) g))
         (interleave (map d_exp es) (map d_block bs)).
Proof.
  induction es as [|e es' IH]; intros bs g He Hb Hfe Hfb; [apply AddsOK_nil|].
  destruct bs as [|b bs']; [apply AddsOK_nil|].
  inversion He as [|? ? He1 He2]; subst. inversion Hb as [|? ? Hb1 Hb2]; subst.
  cbn [forallb] in Hfe, Hfb. apply andb_true_iff in Hfe. destruct Hfe as [Hfe1 Hfe2].
  apply andb_true_iff in Hfb. destruct Hfb as [Hfb1 Hfb2].
  cbn [map alt_thread interleave].
  pose proof (He1 Hfe1 None flv (set_inif g true)) as H1.
  destruct (tr_exp e None flv (set_inif g true)) as [a1 g1].
  pose proof (Hb1 Hfb1 flv (slv + 1) (set_inif g1 false)) as H2.
  destruct (tr_block b flv (slv + 1) (set_inif g1 false)) as [a2 g2].
  pose proof (IH bs' g2 He2 Hb2 Hfe2 Hfb2) as H3.
  destruct (alt_thread _ _ g2) as [a3 g3]. cbn [fst] in *.
  apply AddsOK_app; [exact H1|]. apply AddsOK_app; [|exact H3]. apply AddsOK_scope. exact H2.
Qed.

(* the variables local_add_acts creates are the declarations of the statement *)
Lemma local_add_acts_decls il : forall es ns ls ats,
  length ns = length ls -> length ns = length ats ->
  adds_of (local_add_acts il ns ls ats es) = map var_of_decl (local_decls il ns ls ats es None).
Proof.
  induction es as [|e es' IH]; intros ns ls ats Hl Ha.
  - cbn [local_add_acts]. apply local_rest_decls. intros; discriminate.
  - destruct ns as [|n ns']; [reflexivity|].
    destruct ls as [|l ls']; [discriminate|]. destruct ats as [|a ats']; [discriminate|].
    assert (Hl' : length ns' = length ls') by (cbn [length] in Hl; lia).
    assert (Ha' : length ns' = length ats') by (cbn [length] in Ha; lia).
    cbn [local_add_acts local_decls map].
    set (v := mkVar10 n l false (match a with AttrClose => true | _ => false end) (is_func_exp e) (Some e)
                      (local_refer_empty n e) [] il (Scope.tab_of_exp e)).
    assert (Hv : var_of_decl (mkDecl8 n l DLocal (match a with AttrClose => true | _ => false end) (Some e)
                                      (local_refer_empty n e) il (Scope.tab_of_exp e)) = v) by reflexivity.
    rewrite Hv. destruct es' as [|e2 es2].
    + change (adds_of (AAdd v :: ?r)) with (v :: adds_of r). f_equal.
      apply local_rest_decls. apply lastcall_not_func.
    + change (adds_of (AAdd v :: ?r)) with (v :: adds_of r). f_equal. apply IH; assumption.
Qed.

Lemma local_go_adds flv slv l : forall es ns ls ats g,
  length ns = length ls -> length ns = length ats ->
  Forall ExpAdds es -> forallb frag_exp es = true ->
  AddsOK (fst (tr_stat (SLocal ns ls ats es l) flv slv g)) (flat_map d_exp es ++ local_decls (Scope.init_loc ns ls es l) ns ls ats es None).
Proof.
  intros es ns ls ats g Hl Ha Hok Hf.
  rewrite tr_stat_local.
  pose proof (thread_exps_adds flv es g Hok Hf) as H1.
  destruct (thread (fun x g0 => tr_exp x None flv g0) es g) as [a1 g1]. cbn [fst] in *.
  apply AddsOK_app; [exact H1|]. unfold AddsOK. rewrite (local_add_acts_decls _ es ns ls ats Hl Ha).
  apply Permutation_refl.
Qed.

Theorem adds_all : (forall e, ExpAdds e) /\ (forall s, StatAdds s) /\ (forall b, BlockAdds b).
Proof.
  apply tb_ast_ind; unfold ExpAdds, StatAdds, BlockAdds.
  - intros; apply AddsOK_nil.
  - intros l Hf; discriminate.
  - intros; apply AddsOK_nil.
  - intros; apply AddsOK_nil.
  - intros; apply AddsOK_nil.
  - intros; apply AddsOK_nil.
  - intros; apply AddsOK_nil.
  - intros; apply AddsOK_nil.
  - intros; apply AddsOK_read.
  - (* EUnop *) intros o x l IH Hf bp flv g. cbn [tr_exp d_exp].
    match goal with |- context [tr_exp x None flv ?g1] => pose proof (IH Hf None flv g1) as H;
      destruct (tr_exp x None flv g1) as [a g2] end. exact H.
  - (* EBinop *) intros o a b l IHa IHb Hf bp flv g. cbn [frag_exp] in Hf. apply andb_true_iff in Hf.
    destruct Hf as [Hfa Hfb]. cbn [tr_exp d_exp].
    match goal with |- context [tr_exp a ?bp1 flv ?g1] => pose proof (IHa Hfa bp1 flv g1) as H1;
      destruct (tr_exp a bp1 flv g1) as [a1 g3] end.
    match goal with |- context [tr_exp b ?bp1 flv ?g1] => pose proof (IHb Hfb bp1 flv g1) as H2;
      destruct (tr_exp b bp1 flv g1) as [a2 g4] end.
    cbn [fst] in *. apply AddsOK_app; assumption.
  - (* EParens *) intros x l IH Hf bp flv g. cbn [tr_exp d_exp]. exact (IH Hf bp flv g).
  - intros p k l _ _ Hf; discriminate.
  - (* ECall *) intros p nm args l IHp IHa Hf bp flv g. destruct nm as [nm|]; [discriminate|].
    cbn [frag_exp] in Hf. apply andb_true_iff in Hf. destruct Hf as [Hfp Hfa]. cbn [tr_exp d_exp].
    pose proof (IHp Hfp None flv g) as H1. destruct (tr_exp p None flv g) as [a1 g1].
    pose proof (thread_exps_adds flv args g1 IHa Hfa) as H2.
    destruct (thread (fun x g0 => tr_exp x None flv g0) args g1) as [a2 g2]. cbn [fst] in *.
    apply AddsOK_app; assumption.
  - intros ks vs l _ _ Hf; discriminate.
  - (* EFunc *) intros c f ps pl b l va co IHb Hf bp flv g. destruct co; [discriminate|].
    cbn [frag_exp] in Hf. apply andb_true_iff in Hf. destruct Hf as [Hf Hfb]. cbn [tr_exp d_exp].
    pose proof (IHb Hfb (flv + 1) 0 g) as H1. destruct (tr_block b (flv + 1) 0 g) as [a g1]. cbn [fst] in *.
    change (APush :: adds ps pl ++ a ++ [APop]) with (APush :: (adds ps pl ++ a ++ [APop])).
    rewrite app_assoc. apply AddsOK_scope. apply AddsOK_app; [apply AddsOK_adds; left; reflexivity|exact H1].
  - intros; apply AddsOK_nil.
  - intros n l Hf; discriminate.
  - intros n l Hf; discriminate.
  - (* SDo *) intros b l IHb Hf flv slv g. cbn [frag_stat] in Hf. cbn [tr_stat d_stat].
    pose proof (IHb Hf flv (slv + 1) g) as H1. destruct (tr_block b flv (slv + 1) g) as [a g1]. cbn [fst] in *.
    apply AddsOK_scope. exact H1.
  - (* SCall *) intros e IHe Hf flv slv g. cbn [frag_stat] in Hf. cbn [tr_stat d_stat]. exact (IHe Hf None flv g).
  - (* SIf *) intros es bs l IHe IHb Hf flv slv g. cbn [frag_stat] in Hf.
    apply andb_true_iff in Hf. destruct Hf as [Hf Hfb]. apply andb_true_iff in Hf. destruct Hf as [_ Hfe].
    cbn [tr_stat d_stat]. apply alt_thread_adds; assumption.
  - (* SWhile *) intros e b l IHe IHb Hf flv slv g. cbn [frag_stat] in Hf. apply andb_true_iff in Hf.
    destruct Hf as [Hfe Hfb]. cbn [tr_stat d_stat].
    pose proof (IHe Hfe None flv g) as H1. destruct (tr_exp e None flv g) as [a1 g1].
    pose proof (IHb Hfb flv (slv + 1) g1) as H2. destruct (tr_block b flv (slv + 1) g1) as [a2 g2]. cbn [fst] in *.
    apply AddsOK_app; [exact H1|]. apply AddsOK_scope. exact H2.
  - (* SRepeat *) intros b e l IHb IHe Hf flv slv g. cbn [frag_stat] in Hf. apply andb_true_iff in Hf.
    destruct Hf as [Hfb Hfe]. cbn [tr_stat d_stat].
    pose proof (IHb Hfb flv (slv + 1) g) as H1. destruct (tr_block b flv (slv + 1) g) as [a1 g1].
    pose proof (IHe Hfe None flv g1) as H2. destruct (tr_exp e None flv g1) as [a2 g2]. cbn [fst] in *.
    rewrite app_assoc. apply AddsOK_scope. apply AddsOK_app; assumption.
  - (* SForNum *) intros n vl e1 e2 e3 b l IH1 IH2 IH3 IHb Hf flv slv g. cbn [frag_stat] in Hf.
    repeat (apply andb_true_iff in Hf; let H := fresh "Hf" in destruct Hf as [Hf H]).
    cbn [tr_stat d_stat].
    pose proof (IH1 ltac:(assumption) None flv g) as A1. destruct (tr_exp e1 None flv g) as [a1 g1].
    pose proof (IH2 ltac:(assumption) None flv g1) as A2. destruct (tr_exp e2 None flv g1) as [a2 g2].
    pose proof (IH3 ltac:(assumption) None flv g2) as A3. destruct (tr_exp e3 None flv g2) as [a3 g3].
    pose proof (IHb ltac:(assumption) flv (slv + 1) g3) as A4. destruct (tr_block b flv (slv + 1) g3) as [a4 g4].
    cbn [fst] in *.
    replace (APush :: a1 ++ a2 ++ a3 ++ AAdd (param_var n vl) :: a4 ++ [APop])
      with (APush :: (a1 ++ a2 ++ a3 ++ [AAdd (param_var n vl)] ++ a4) ++ [APop])
      by (rewrite <- !app_assoc; reflexivity).
    apply AddsOK_scope.
    change (mkDecl n vl DLoop false None false :: d_block b) with ([mkDecl n vl DLoop false None false] ++ d_block b).
    repeat (apply AddsOK_app; [assumption|]). apply AddsOK_app; [apply Permutation_refl|exact A4].
  - (* SForIn *) intros ns ls es b l IHe IHb Hf flv slv g. cbn [frag_stat] in Hf.
    repeat (apply andb_true_iff in Hf; let H := fresh "Hf" in destruct Hf as [Hf H]).
    cbn [tr_stat d_stat].
    pose proof (thread_exps_adds flv es g IHe ltac:(assumption)) as A1.
    destruct (thread (fun x g0 => tr_exp x None flv g0) es g) as [a1 g1].
    pose proof (IHb ltac:(assumption) flv (slv + 1) g1) as A2. destruct (tr_block b flv (slv + 1) g1) as [a2 g2].
    cbn [fst] in *.
    replace (APush :: a1 ++ adds ns ls ++ a2 ++ [APop]) with (APush :: (a1 ++ adds ns ls ++ a2) ++ [APop])
      by (rewrite <- !app_assoc; reflexivity).
    apply AddsOK_scope. apply AddsOK_app; [exact A1|]. apply AddsOK_app; [apply AddsOK_adds; right; reflexivity|exact A2].
  - (* SAssign *) intros vars es l IHv IHe Hf flv slv g.
    destruct vars as [|v vars']; try discriminate Hf. destruct v; try discriminate Hf.
    destruct vars' as [|v2 vars']; try discriminate Hf.
    destruct es as [|e es']; try discriminate Hf. destruct es' as [|e2 es']; try discriminate Hf.
    cbn [frag_stat] in Hf. apply andb_true_iff in Hf. destruct Hf as [_ Hfe].
    pose proof (Forall_inv IHe) as He.
    cbn [tr_stat d_stat map assign_thread tl thread fst snd flat_map].
    match goal with |- context [tr_exp e None flv ?g0] =>
      pose proof (He Hfe None flv g0) as H1; destruct (tr_exp e None flv g0) as [a1 g1] end.
    cbn [fst snd] in *. rewrite !app_nil_r.
    replace (d_exp e) with (d_exp e ++ []) by apply app_nil_r.
    apply AddsOK_app; [exact H1|apply Permutation_refl].
  - (* SLocal *) intros ns ls ats es l IHe Hf flv slv g. cbn [frag_stat] in Hf.
    repeat (apply andb_true_iff in Hf; let H := fresh "Hf" in destruct Hf as [Hf H]).
    repeat match goal with
           | H : (_ =? _)%nat = true |- _ => apply Nat.eqb_eq in H
           | H : (_ <=? _)%nat = true |- _ => apply Nat.leb_le in H
           end.
    cbn [d_stat]. apply local_go_adds; assumption.
  - (* SLocalFunc *) intros n nl f l IHf Hf flv slv g. cbn [frag_stat] in Hf.
    repeat (apply andb_true_iff in Hf; let H := fresh "Hf" in destruct Hf as [Hf H]).
    cbn [tr_stat d_stat]. pose proof (IHf ltac:(assumption) None flv g) as H1.
    destruct (tr_exp f None flv g) as [a g1]. cbn [fst] in *.
    change (AAdd ?v :: a) with ([AAdd v] ++ a).
    change (mkDecl n nl DLocalFun false (Some f) false :: d_exp f) with ([mkDecl n nl DLocalFun false (Some f) false] ++ d_exp f).
    apply AddsOK_app; [apply Permutation_refl|exact H1].
  - (* Block *) intros ss ret l IHs IHr Hf flv slv g. cbn [frag_block] in Hf. apply andb_true_iff in Hf.
    destruct Hf as [Hfs Hfr]. cbn [tr_block d_block].
    pose proof (thread_stats_adds flv slv ss g IHs Hfs) as A1.
    destruct (thread (fun s g0 => tr_stat s flv slv g0) ss g) as [a1 g1].
    destruct ret as [es|].
    + cbn [tb_ret] in IHr. pose proof (thread_exps_adds flv es g1 IHr Hfr) as A2.
      destruct (thread (fun x g0 => tr_exp x None flv g0) es g1) as [a2 g2]. cbn [fst] in *.
      apply AddsOK_app; assumption.
    + cbn [fst] in *. apply AddsOK_app; [exact A1|apply AddsOK_nil].
Qed.

Lemma trace_adds b : in_fragment b = true -> Permutation (adds_of (trace b)) (map var_of_decl (file_decls b)).
Proof.
  intros Hf. destruct adds_all as [_ [_ Hb]]. pose proof (Hb b Hf 0 0 ign0) as H.
  unfold trace, file_decls. apply (AddsOK_scope _ _ H).
Qed.
