(* Traversal resolver = Lua's binder under the layout hypothesis `Laid` of Spec/LuaScope.v: the replayed guard
   `tr_clean P n` of Proofs/TraverseBind.v is discharged by  in_fragment P, laid_b W P  and the syntactic guard
   no_funcstat P n  (Proofs/TraverseLaidMain.v). *)
From Coq Require Import List NArith ZArith Bool Lia Permutation.
From LH Require Import Base.Bytes Model.Lexer Model.Ast Model.Scope Model.Globals Model.Resolve Spec.LuaScope
  Proofs.TraverseBindDefs Proofs.TraverseBindSim Proofs.TraverseBind Proofs.TraverseBindRefs
  Proofs.TraverseBindLaidLoops Proofs.TraverseBindLaidMain.
Import ListNotations.
Local Open Scope Z_scope.

Definition occ_agrees_laid (P : block) (o : occ) (s : socc) : Prop :=
  o_loc o = s_loc s /\ o_name o = s_name s /\ krole (o_kind o) (s_role s) /\
  (o_kind o = ODefineG -> o_res o = None) /\
  (no_funcstat P (o_name o) = true -> has_tag CB3 s = false -> tbind o = s_bind s).

Theorem traverse_bind_core_laid (P : block) (W : Z) :
  in_fragment P = true -> tb_shape P = true -> laid_b W P = true ->
  exists os', Permutation (nd (bind_file P)) os' /\ Forall2 (occ_agrees_laid P) (fi_occs (analyse P)) os'.
Proof.
  intros Hf Hs Hl. destruct (traverse_bind_core P Hs) as [os' [Hp Hall]]. exists os'. split; [exact Hp|].
  eapply Forall2_impl; [|exact Hall]. intros o s [A1 [A2 [A3 [A5 A4]]]]. repeat split; auto.
  intros Hn Ht. apply A4; [|exact Ht]. exact (laid_tr_clean W P (o_name o) Hf Hs Hl Hn).
Qed.

Theorem refs_local_laid mode P W w f name line col v :
  in_fragment P = true -> tb_shape P = true -> laid_b W P = true -> no_funcstat P name = true ->
  classA_ok (bind_file P) name = true ->
  decl_layout_ok (bind_file P) name (v_loc v) = true ->
  resolve_at w f (analyse P) name line col = TLocal v ->
  exists l', references_at mode w f (analyse P) name line col = Some ((f, v_loc v) :: l') /\
             forall x, In x l' <-> In x (spec_uses P f (v_loc v)).
Proof.
  intros Hf Hs Hl Hn. apply refs_local_classA; auto. exact (laid_tr_clean W P name Hf Hs Hl Hn).
Qed.

Theorem refs_local_same_var_laid mode P W w f name line col v o :
  in_fragment P = true -> tb_shape P = true -> laid_b W P = true -> no_funcstat P name = true ->
  classA_ok (bind_file P) name = true ->
  decl_layout_ok (bind_file P) name (v_loc v) = true -> decl_self_ok (bind_file P) (v_loc v) = true ->
  resolve_at w f (analyse P) name line col = TLocal v ->
  s_bind o = BLocal (v_loc v) ->
  exists l, references_at mode w f (analyse P) name line col = Some l /\
            forall x, In x l <-> In x (spec_refs [(f, bind_file P)] f o).
Proof.
  intros Hf Hs Hl Hn. apply refs_local_same_var; auto. exact (laid_tr_clean W P name Hf Hs Hl Hn).
Qed.

(* with the two facts about the reference binder itself (Proofs/TraverseBindSpecDecls.v) the guard decl_self_ok is not
   needed: o is any reference occurrence of the chunk bound to the declaration the query resolves to *)
From LH Require Import Proofs.TraverseBindSpecDecls.

Theorem refs_local_same_var_in mode P w f name line col v o :
  tb_shape P = true -> tr_clean P name = true -> classA_ok (bind_file P) name = true ->
  decl_layout_ok (bind_file P) name (v_loc v) = true ->
  resolve_at w f (analyse P) name line col = TLocal v ->
  In o (bind_file P) -> s_bind o = BLocal (v_loc v) ->
  exists l, references_at mode w f (analyse P) name line col = Some l /\
            forall x, In x l <-> In x (spec_refs [(f, bind_file P)] f o).
Proof.
  intros Hs Hc Ha Hlay Hres Hin Hb.
  exact (refs_local_same_var mode P w f name line col v o Hs Hc Ha Hlay (decl_self_always P o _ Hin Hb) Hres Hb).
Qed.

Theorem refs_local_same_var_laid_in mode P W w f name line col v o :
  in_fragment P = true -> tb_shape P = true -> laid_b W P = true -> no_funcstat P name = true ->
  classA_ok (bind_file P) name = true ->
  decl_layout_ok (bind_file P) name (v_loc v) = true ->
  resolve_at w f (analyse P) name line col = TLocal v ->
  In o (bind_file P) -> s_bind o = BLocal (v_loc v) ->
  exists l, references_at mode w f (analyse P) name line col = Some l /\
            forall x, In x l <-> In x (spec_refs [(f, bind_file P)] f o).
Proof.
  intros Hf Hs Hl Hn. apply refs_local_same_var_in; auto. exact (laid_tr_clean W P name Hf Hs Hl Hn).
Qed.

(* ------------------------------------------------------------------ the guards of the brief: Laid and classA_ok only.
   Laid gives the first look-ups (Proofs/TraverseBindLaid1Main.v), the absence of the CB3 / CB4 tags gives the
   look-ups after cgAssignStat's re-pointing (Proofs/TraverseBindB4.v). *)
From LH Require Import Proofs.TraverseBindClean1 Proofs.TraverseBindLaid1Main Proofs.TraverseBindB4.

Theorem laid_classA_clean W P n :
  in_fragment P = true -> tb_shape P = true -> laid_b W P = true -> classA_ok (bind_file P) n = true ->
  tr_clean P n = true.
Proof.
  intros Hf Hs Hl Ha. apply (clean1_classA_clean n P Hf Hs Ha). exact (laid_tr_clean1 W P n Hf Hs Hl).
Qed.

Definition occ_agrees_classA (P : block) (o : occ) (s : socc) : Prop :=
  o_loc o = s_loc s /\ o_name o = s_name s /\ krole (o_kind o) (s_role s) /\
  (o_kind o = ODefineG -> o_res o = None) /\
  (classA_ok (bind_file P) (o_name o) = true -> tbind o = s_bind s).

(* the core lemma of the brief: on every Laid chunk of the fragment the traversal resolver agrees with the reference
   binder at every occurrence whose name is outside the classes B3 / B4 *)
Theorem traverse_bind_core_classA (P : block) (W : Z) :
  in_fragment P = true -> tb_shape P = true -> laid_b W P = true ->
  exists os', Permutation (nd (bind_file P)) os' /\ Forall2 (occ_agrees_classA P) (fi_occs (analyse P)) os'.
Proof.
  intros Hf Hs Hl. destruct (traverse_bind_core P Hs) as [os' [Hp Hall]]. exists os'. split; [exact Hp|].
  assert (Hin : forall s, In s os' -> In s (bind_file P)).
  { intros s Hs'. apply (Permutation_in _ (Permutation_sym Hp)) in Hs'. unfold nd in Hs'. apply filter_In in Hs'. apply Hs'. }
  clear Hp. induction Hall as [|o s l l' [A1 [A2 [A3 [A5 A4]]]] Hr IH]; constructor.
  - repeat split; auto. intros Ha. apply A4; [exact (laid_classA_clean W P (o_name o) Hf Hs Hl Ha)|].
    apply (no_cb3_spec (bind_file P) (o_name o)); [apply classA_no_cb3; exact Ha|apply Hin; left; reflexivity|].
    symmetry. exact A2.
  - apply IH. intros s' Hs'. apply Hin. right. exact Hs'.
Qed.

Theorem refs_local_same_var_classA mode P W w f name line col v o :
  in_fragment P = true -> tb_shape P = true -> laid_b W P = true ->
  classA_ok (bind_file P) name = true ->
  decl_layout_ok (bind_file P) name (v_loc v) = true ->
  resolve_at w f (analyse P) name line col = TLocal v ->
  In o (bind_file P) -> s_bind o = BLocal (v_loc v) ->
  exists l, references_at mode w f (analyse P) name line col = Some l /\
            forall x, In x l <-> In x (spec_refs [(f, bind_file P)] f o).
Proof.
  intros Hf Hs Hl Ha. apply refs_local_same_var_in; auto. exact (laid_classA_clean W P name Hf Hs Hl Ha).
Qed.
