(* Traversal resolver = Lua's binder under the layout hypothesis `Laid` of Spec/LuaScope.v: the replayed guard
   `tr_clean P n` of Proofs/TraverseBind.v is discharged by  in_fragment P, laid_b W P  and the syntactic guard
   no_funcstat P n  (Proofs/TraverseLaidMain.v). *)
From Coq Require Import List NArith ZArith Bool Lia Permutation.
From LH Require Import Base.Bytes Model.Lexer Model.Ast Model.Scope Model.Globals Model.Resolve Spec.LuaScope
  Proofs.TraverseBindDefs Proofs.TraverseBindSim Proofs.TraverseBind Proofs.TraverseBindRefs
  Proofs.TraverseBindLaidLoops Proofs.TraverseBindLaidMain.
Import ListNotations.
Local Open Scope Z_scope.

Definition occ_agrees_laid (P : block) (o : occ) (s : socc) : Prop :=
  o_loc o = s_loc s /\ o_name o = s_name s /\ krole (o_kind o) (s_role s) /\
  (o_kind o = ODefineG -> o_res o = None) /\
  (no_funcstat P (o_name o) = true -> has_tag CB3 s = false -> tbind o = s_bind s).

Theorem traverse_bind_core_laid (P : block) (W : Z) :
  in_fragment P = true -> tb_shape P = true -> laid_b W P = true ->
  exists os', Permutation (nd (bind_file P)) os' /\ Forall2 (occ_agrees_laid P) (fi_occs (analyse P)) os'.
Proof.
  intros Hf Hs Hl. destruct (traverse_bind_core P Hs) as [os' [Hp Hall]]. exists os'. split; [exact Hp|].
  eapply Forall2_impl; [|exact Hall]. intros o s [A1 [A2 [A3 [A5 A4]]]]. repeat split; auto.
  intros Hn Ht. apply A4; [|exact Ht]. exact (laid_tr_clean W P (o_name o) Hf Hs Hl Hn).
Qed.

Theorem refs_local_laid mode P W w f name line col v :
  in_fragment P = true -> tb_shape P = true -> laid_b W P = true -> no_funcstat P name = true ->
  classA_ok (bind_file P) name = true ->
  decl_layout_ok (bind_file P) name (v_loc v) = true ->
  resolve_at w f (analyse P) name line col = TLocal v ->
  exists l', references_at mode w f (analyse P) name line col = Some ((f, v_loc v) :: l') /\
             forall x, In x l' <-> In x (spec_uses P f (v_loc v)).
Proof.
  intros Hf Hs Hl Hn. apply refs_local_classA; auto. exact (laid_tr_clean W P name Hf Hs Hl Hn).
Qed.

Theorem refs_local_same_var_laid mode P W w f name line col v o :
  in_fragment P = true -> tb_shape P = true -> laid_b W P = true -> no_funcstat P name = true ->
  classA_ok (bind_file P) name = true ->
  decl_layout_ok (bind_file P) name (v_loc v) = true -> decl_self_ok (bind_file P) (v_loc v) = true ->
  resolve_at w f (analyse P) name line col = TLocal v ->
  s_bind o = BLocal (v_loc v) ->
  exists l, references_at mode w f (analyse P) name line col = Some l /\
            forall x, In x l <-> In x (spec_refs [(f, bind_file P)] f o).
Proof.
  intros Hf Hs Hl Hn. apply refs_local_same_var; auto. exact (laid_tr_clean W P name Hf Hs Hl Hn).
Qed.

(* with the two facts about the reference binder itself (Proofs/TraverseBindSpecDecls.v) the guard decl_self_ok is not
   needed: o is any reference occurrence of the chunk bound to the declaration the query resolves to *)
From LH Require Import Proofs.TraverseBindSpecDecls.

Theorem refs_local_same_var_in mode P w f name line col v o :
  tb_shape P = true -> tr_clean P name = true -> classA_ok (bind_file P) name = true ->
  decl_layout_ok (bind_file P) name (v_loc v) = true ->
  resolve_at w f (analyse P) name line col = TLocal v ->
  In o (bind_file P) -> s_bind o = BLocal (v_loc v) ->
  exists l, references_at mode w f (analyse P) name line col = Some l /\
            forall x, In x l <-> In x (spec_refs [(f, bind_file P)] f o).
Proof.
  intros Hs Hc Ha Hlay Hres Hin Hb.
  exact (refs_local_same_var mode P w f name line col v o Hs Hc Ha Hlay (decl_self_always P o _ Hin Hb) Hres Hb).
Qed.

Theorem refs_local_same_var_laid_in mode P W w f name line col v o :
  in_fragment P = true -> tb_shape P = true -> laid_b W P = true -> no_funcstat P name = true ->
  classA_ok (bind_file P) name = true ->
  decl_layout_ok (bind_file P) name (v_loc v) = true ->
  resolve_at w f (analyse P) name line col = TLocal v ->
  In o (bind_file P) -> s_bind o = BLocal (v_loc v) ->
  exists l, references_at mode w f (analyse P) name line col = Some l /\
            forall x, In x l <-> In x (spec_refs [(f, bind_file P)] f o).
Proof.
  intros Hf Hs Hl Hn. apply refs_local_same_var_in; auto. exact (laid_tr_clean W P name Hf Hs Hl Hn).
Qed.
