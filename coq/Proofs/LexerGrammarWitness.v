(* C03, lexical level: the guard was necessary for the code before the repair (it accepted escape sequences the manual
   does not have; the repaired code reports them) and is satisfiable (a program with every token class, every escape form and all comment forms). *)
From Coq Require Import Ascii String List NArith ZArith Bool Arith Lia ZifyNat ZifyN ZifyBool.
From LH Require Import Base.Bytes Base.Res Model.Codec Model.Lexer Spec.LuaNumeral Spec.LuaLex.
From LH Require Import Proofs.LexerGrammarBase Proofs.LexerGrammarSep Proofs.LexerGrammarTok Proofs.LexerGrammarStr
  Proofs.LexerGrammarEsc Proofs.LexerGrammarMain.
Import ListNotations.
Local Open Scope N_scope.

(* a text that begins with a quote and a backslash is lexically valid only if that backslash starts a legal escape *)
Lemma lexes_quote_first q x sts : quote q -> Lex EscLua (q :: 92 :: x) sts -> legal_escape x = true.
Proof.
  intros Hq HL.
  assert (Hb : lx_blank q = false) by (destruct Hq; subst q; reflexivity).
  assert (Hnc : ~ starts [45; 45] (q :: 92 :: x)).
  { intros [y Hy]. cbn [app] in Hy. destruct Hq; subst q; discriminate. }
  inversion HL as [bs HS E1 E2|bs r1 t r ts HS HT _ E1 E2]; subst.
  - apply (sep_inv_end _ _ _ Hb Hnc) in HS. discriminate.
  - apply (sep_inv_end _ _ _ Hb Hnc) in HS. subst r1.
    inversion HT as [c body r0 H1 H2 H3 E1 E2 E3|bs0 H E1 E2 E3|bs0 w k H1 H2 E1 E2 E3|q0 bs0 r0 Hq0 HS E1 E2 E3|bs0 r0 HLB E1 E2 E3]; subst.
    + destruct Hq; subst q; discriminate.
    + destruct Hq; subst q; discriminate.
    + destruct Hq; subst q; discriminate.
    + inversion HS as [r1 E1 E2|c bs1 r1 _ Hc _ _ E1 E2|e bs1 r1 He _ E1 E2]; subst.
      * destruct Hq; discriminate.
      * congruence.
      * apply esc_lua_legal. exact He.
    + inversion HLB as [n body r1 _ E1 E2]. destruct Hq; subst q; discriminate.
Qed.

(* the recorded witnesses: "\q"  "\xZZ"  "\256"  "\u{}"  (DESIGN 6 row 7) *)
Definition w_esc_q : list N := [34; 92; 113; 34].
Definition w_esc_x : list N := [34; 92; 120; 90; 90; 34].
Definition w_esc_256 : list N := [34; 92; 50; 53; 54; 34].
Definition w_esc_u : list N := [34; 92; 117; 123; 125; 34].
Definition w_esc_300 : list N := [34; 92; 51; 48; 48; 34].                                       (* "\300" *)
Definition w_esc_uzz : list N := [34; 92; 117; 123; 122; 122; 125; 34].                           (* "\u{zz}" *)
Definition w_esc_ubig : list N := [34; 92; 117; 123; 55; 70; 70; 70; 70; 70; 70; 70; 70; 125; 34]. (* "\u{7FFFFFFFF}" *)
Definition accepted_by_code {fx : FxEscape} (gbk_runes : list N -> Z) (bs : list N) : Prop :=
  exists ts, lex_all gbk_runes bs = Ok ts /\ flat_map lerrs ts = [].

Definition esc_witnesses : list (list N) := [w_esc_q; w_esc_x; w_esc_256; w_esc_u; w_esc_300; w_esc_uzz; w_esc_ubig].

(* the code BEFORE the repair (fx_escape = false) accepts them *)
Lemma escape_witnesses gbk_runes :
  Forall (fun bs => accepted_by_code (fx := false) gbk_runes bs /\ no_bad_escape bs = false /\ ~ exists sts, LexesTo bs sts)
         esc_witnesses.
Proof.
  repeat constructor;
    try (eexists; split; vm_compute; reflexivity);
    intros [sts H]; apply (lexes_quote_first 34 _ sts (or_introl eq_refl)) in H; vm_compute in H; discriminate.
Qed.

(* the REPAIRED code (fx_escape = true) reports each of them: one token, one "invalid escape sequence", nothing else *)
Lemma escape_witnesses_rejected gbk_runes :
  Forall (fun bs => exists ts, lex_all (fx := true) gbk_runes bs = Ok ts /\ flat_map lerrs ts = [LeBadEscape])
         esc_witnesses.
Proof. repeat constructor; eexists; split; vm_compute; reflexivity. Qed.

(* a program with every token class, every escape form of the manual, long brackets of two levels and both
   comment forms satisfies the guard and is lexically valid *)
Definition w_lex_demo : list N := txt
"#!/usr/bin/lua
local s = ""a\n\x41\065\u{48}\z
   b\\\'"" --[==[ c ]] ]==] .. [[x]] .. [=[ ]] ]=] -- e
 f(1e+5, 0x1p-3, .5, 12ull, ...) ::l:: goto l; t = {[1] = #a // 2 ~= 3 >> 1, a.b:c()} -- end".

Lemma forall2_len {A B} (R : A -> B -> Prop) l1 l2 : Forall2 R l1 l2 -> length l1 = length l2.
Proof. induction 1; cbn [length]; congruence. Qed.

Lemma lex_demo_valid :
  no_bad_escape w_lex_demo = true /\ exists sts, LexesTo w_lex_demo sts /\ length sts = 50%nat.
Proof.
  split; [vm_compute; reflexivity|].
  assert (Hfacts : forall ts, lex_all (fun _ => 0%Z) w_lex_demo = Ok ts -> flat_map lerrs ts = [] /\ length ts = 51%nat).
  { intros ts0 E0. vm_compute in E0. injection E0 as <-. split; vm_compute; reflexivity. }
  destruct (lex_all (fun _ => 0%Z) w_lex_demo) as [ts| |] eqn:E; try (vm_compute in E; discriminate).
  destruct (Hfacts ts eq_refl) as [Hl Hlen].
  destruct (lex_all_sound_guarded _ _ _ E Hl ltac:(vm_compute; reflexivity)) as (body & eof & sts & -> & _ & HL & HF).
  exists sts. split; [exact HL|].
  rewrite <- (forall2_len _ _ _ HF). rewrite app_length in Hlen. cbn [length] in Hlen. lia.
Qed.

(* Recorded leniency, NOT a deviation of the model from this spec: a numeral ends where the run of numeral characters
   ends, a letter may follow directly (read_numeral of Lua 5.2 / 5.3; Lua 5.4 rejects "numeral touching a letter";
   the repository's own TestParseJitNumber pins `0then`).  `a = 1x = 2` is the six tokens  a = 1 x = 2. *)
Definition w_num_letter : list N := txt "a = 1x = 2".
Lemma numeral_touching_letter :
  exists sts, LexesTo w_num_letter sts /\
              map sk sts = [TkIdentifier; TkOpAssign; TkNumber; TkIdentifier; TkOpAssign; TkNumber].
Proof.
  assert (Hfacts : forall ts, lex_all (fun _ => 0%Z) w_num_letter = Ok ts ->
            flat_map lerrs ts = [] /\
            map (fun t => tk (lt t)) ts = [TkIdentifier; TkOpAssign; TkNumber; TkIdentifier; TkOpAssign; TkNumber] ++ [TkEOF]).
  { intros ts0 E0. vm_compute in E0. injection E0 as <-. split; vm_compute; reflexivity. }
  destruct (lex_all (fun _ => 0%Z) w_num_letter) as [ts| |] eqn:E; try (vm_compute in E; discriminate).
  destruct (Hfacts ts eq_refl) as (Hl & Hk).
  destruct (lex_all_sound_guarded _ _ _ E Hl ltac:(vm_compute; reflexivity)) as (body & eof & sts & -> & _ & HL & HF).
  exists sts. split; [exact HL|]. rewrite map_app in Hk. cbn [map] in Hk.
  apply app_inj_tail in Hk as [Hk _]. rewrite <- (tok_ok_kinds _ _ HF). exact Hk.
Qed.
