(* C18 after fixes/C18-create-not-reanalysed.diff (reanalyse_fixed cfg = true, with the deterministic choice
   order_fixed cfg = true): after ANY history of create / delete events the referencing file's view - per reference:
   valid flag, loaded file, type-6 diagnostic, and what definition / hover answer - is the view of a fresh start on
   the files now present (events_fresh). The index built incrementally and the index built from scratch are different
   association lists with the same lookups; the repaired choice does not depend on the order of the candidates
   (MergeDet.best_match_perm_full), so CheckReferFile is a function of the lookups (check_refer_ext). *)
From Coq Require Import List Arith PeanoNat NArith ZArith Bool Lia Permutation.
From LH Require Import Base.Bytes Model.FileIndex Model.ModulePath Spec.ModuleSpec
  Proofs.FileIndexProofs Proofs.ModulePathStr Proofs.MergeDet Proofs.ModulePathProofs.
Import ListNotations.

(* ---- two index states with the same lookups ---- *)
Definition idx_equiv (a b : idx) : Prop :=
  forall n f, aget f (get_name_map a n) = aget f (get_name_map b n) /\
              aget f (get_pre_map a n) = aget f (get_pre_map b n).

Lemma filter_keys_perm {V} (P : list N * V -> bool) (m1 m2 : amap V) :
  wf_amap m1 -> wf_amap m2 -> (forall k, aget k m1 = aget k m2) ->
  Permutation (map fst (filter P m1)) (map fst (filter P m2)).
Proof.
  intros H1 H2 He. apply NoDup_Permutation.
  - apply NoDup_map_fst_filter. exact H1.
  - apply NoDup_map_fst_filter. exact H2.
  - assert (forall ma mb, wf_amap ma -> wf_amap mb -> (forall k, aget k ma = aget k mb) ->
              forall x, In x (map fst (filter P ma)) -> In x (map fst (filter P mb))) as Hdir.
    { intros ma mb Ha Hb Hab x Hx. apply in_map_iff in Hx as [[k v] [Hk Hin]]. simpl in Hk. subst k.
      apply filter_In in Hin as [Hin Hp]. apply (wf_in_aget _ _ _ Ha) in Hin. rewrite Hab in Hin.
      apply (wf_in_aget _ _ _ Hb) in Hin. apply in_map_iff. exists (x, v). split; [reflexivity|].
      apply filter_In. split; assumption. }
    intros x. split; [apply Hdir; assumption|apply Hdir; try assumption]. intros k. symmetry. apply He.
Qed.

Lemma cands_equiv b r a a' : wf_idx a -> wf_idx a' -> idx_equiv a a' ->
  Permutation (bm_candidates_g b r a) (bm_candidates_g b r a').
Proof.
  intros Ha Ha' He. unfold bm_candidates_g. destruct b; apply filter_keys_perm.
  - apply wf_get_name; exact Ha.
  - apply wf_get_name; exact Ha'.
  - intros k. apply (He (last_seg r) k).
  - apply wf_get_pre; exact Ha.
  - apply wf_get_pre; exact Ha'.
  - intros k. apply (He (last_seg r) k).
Qed.

Lemma best_of_perm cur r cs cs' : Permutation cs cs' -> best_of true cur r cs = best_of true cur r cs'.
Proof. intros Hp. cbn [best_of]. rewrite (best_match_perm_full cur r cs cs' Hp). reflexivity. Qed.

Section Ext.
  Variables a a' : idx.
  Hypothesis Ha : wf_idx a.
  Hypothesis Ha' : wf_idx a'.
  Hypothesis He : idx_equiv a a'.

  Lemma best_set_fx_ext cur r : best_set_fx true cur r a = best_set_fx true cur r a'.
  Proof. unfold best_set_fx, bm_candidates. apply best_of_perm. apply cands_equiv; assumption. Qed.

  Lemma best_set_lit_ext l cur r : best_set_lit l true cur r a = best_set_lit l true cur r a'.
  Proof. unfold best_set_lit. apply best_of_perm. apply cands_equiv; assumption. Qed.

  (* CheckReferFile with the repaired choice is a function of the index lookups *)
  Lemma check_refer_ext disk cfg cur k refer : order_fixed cfg = true ->
    check_refer disk cfg a cur k refer = check_refer disk cfg a' cur k refer.
  Proof.
    intros Hfx. unfold check_refer. rewrite Hfx.
    rewrite (best_set_lit_ext (lit_fixed cfg) cur (remove_pre_str refer)).
    rewrite (best_set_fx_ext cur (replace_byte dot slash (remove_pre_str refer))).
    rewrite (best_set_fx_ext cur (replace_byte dot slash (remove_pre_str refer) ++ init_tail)).
    reflexivity.
  Qed.

  (* so are definition and hover *)
  Lemma open_outcomes_ext cfg loaded cur items : order_fixed cfg = true ->
    open_outcomes cfg a loaded cur items = open_outcomes cfg a' loaded cur items.
  Proof.
    intros Hfx. induction items as [|it rest IH]; [reflexivity|].
    cbn [open_outcomes]. rewrite Hfx, (best_set_fx_ext cur it), IH. reflexivity.
  Qed.
End Ext.

Lemma index_is_equiv sfx a a' s s' : index_is sfx a s -> index_is sfx a' s' ->
  (forall f, fmem f s = fmem f s') -> idx_equiv a a'.
Proof.
  intros H1 H2 Hm n f. destruct (H1 n f) as [A1 B1]. destruct (H2 n f) as [A2 B2].
  destruct (spec_ext sfx s s' Hm n f) as [En Ep]. rewrite A1, A2, B1, B2. split; assumption.
Qed.

(* ---- what an observer sees of one reference ---- *)
Definition ref_view (r : ref_state) : rkind * list N * bool * list (list N) * bool :=
  (rs_kind r, rs_str r, rs_valid r, (if rs_valid r then rs_vstr r else []), rs_err r).

Definition outcome_view (k : rkind) (s : list N) (o : routcome) : rkind * list N * bool * list (list N) * bool :=
  (k, s, r_valid o, (if r_valid o then r_resolved o else []), r_err6 o).

Lemma check_refer_valid disk cfg st cur k refer :
  r_valid (check_refer disk cfg st cur k refer) = true -> r_resolved (check_refer disk cfg st cur k refer) <> [].
Proof.
  unfold check_refer.
  destruct (mem_bytes (remove_pre_str refer) (ignore_refer cfg)); [discriminate|].
  assert (forall l : list (list N),
            r_valid (match l with [] => not_found | c :: l' => found (c :: l') end) = true ->
            r_resolved (match l with [] => not_found | c :: l' => found (c :: l') end) <> []) as Hm.
  { intros [|c l]; [discriminate|]. intros _. discriminate. }
  destruct k.
  - destruct (true && _); [discriminate|]. destruct (disk _); [discriminate|]. destruct (exact_mode cfg).
    + destruct (disk _); [intros _; discriminate|]. destruct (disk _); [intros _|]; discriminate.
    + destruct (best_set_fx (order_fixed cfg) cur (replace_byte dot slash (remove_pre_str refer)) st);
        [apply Hm|intros _; discriminate].
  - destruct (disk _); [intros _; discriminate|]. destruct (exact_mode cfg); [discriminate|]. apply Hm.
  - destruct (false && _); [discriminate|]. destruct (disk _); [discriminate|]. destruct (exact_mode cfg).
    + destruct (disk _); [intros _; discriminate|]. destruct (disk _); [intros _|]; discriminate.
    + destruct (best_set_fx (order_fixed cfg) cur (replace_byte dot slash (remove_pre_str refer)) st);
        [apply Hm|intros _; discriminate].
Qed.

Lemma reanalyse_view cfg cur d st r :
  ref_view (reanalyse_ref cfg cur d st r) =
  outcome_view (rs_kind r) (rs_str r) (check_refer (disk_of d) cfg st cur (rs_kind r) (rs_str r)).
Proof.
  unfold ref_view, outcome_view, reanalyse_ref. cbn [rs_kind rs_str rs_valid rs_vstr rs_err].
  pose proof (check_refer_valid (disk_of d) cfg st cur (rs_kind r) (rs_str r)) as Hv.
  destruct (r_valid (check_refer (disk_of d) cfg st cur (rs_kind r) (rs_str r))); [|reflexivity].
  destruct (r_resolved (check_refer (disk_of d) cfg st cur (rs_kind r) (rs_str r))); [|reflexivity].
  exfalso. apply Hv; reflexivity.
Qed.

(* ---- the file set of the event model ---- *)
Lemma fmem_app f a b : fmem f (a ++ b) = fmem f a || fmem f b.
Proof. unfold fmem. apply existsb_app. Qed.

Lemma files_after_ins_from l : forall acc f,
  fmem f (fold_left files_step (map Ins l) acc) = fmem f l || fmem f acc.
Proof.
  induction l as [|p l IH]; intros acc f; [reflexivity|].
  cbn [map fold_left files_step]. rewrite IH, fmem_fadd.
  change (fmem f (p :: l)) with (beq_bytes f p || fmem f l).
  destruct (beq_bytes f p), (fmem f l), (fmem f acc); reflexivity.
Qed.

Lemma no_removes_ins l : no_removes (map Ins l) = true.
Proof. induction l as [|p l IH]; [reflexivity|exact IH]. Qed.

Lemma index_ok_ins sfx lua : wf_idx (idx_run_g sfx (map Ins lua)) /\ index_is sfx (idx_run_g sfx (map Ins lua)) lua.
Proof.
  split; [apply wf_run|].
  pose proof (unfixed_refines_insert_only sfx (map Ins lua) (no_removes_ins lua)) as H.
  intros n f. destruct (H n f) as [A B]. rewrite A, B. apply spec_ext.
  intros g. unfold files_after. rewrite files_after_ins_from. cbn [fmem existsb]. apply orb_false_r.
Qed.

Section Fresh.
  Variable cfg : rcfg.
  Variable cur : list N.
  Hypothesis Hfx : order_fixed cfg = true.
  Hypothesis Hre : reanalyse_fixed cfg = true.
  Variable refs : list (rkind * list N).

  Definition keys (rs : list ref_state) : list (rkind * list N) := map (fun r => (rs_kind r, rs_str r)) rs.

  Definition inv (s : pstate) : Prop :=
    wf_idx (ps_idx s) /\ index_is (stem_fixed cfg) (ps_idx s) (ps_loaded s) /\ keys (ps_refs s) = refs.

  Definition fresh_of (s : pstate) : pstate := pinit cfg cur (ps_disk s) (ps_loaded s) refs.

  Lemma first_ref_view d st k str :
    ref_view (first_ref cfg cur d st k str) = outcome_view k str (check_refer (disk_of d) cfg st cur k str).
  Proof. unfold first_ref. rewrite reanalyse_view. reflexivity. Qed.

  Lemma pinit_inv disk lua : inv (pinit cfg cur disk lua refs).
  Proof.
    unfold inv, pinit. cbn [ps_idx ps_loaded ps_refs].
    destruct (index_ok_ins (stem_fixed cfg) lua) as [Hw Hi]. split; [exact Hw|]. split; [exact Hi|].
    unfold keys. rewrite map_map. rewrite <- (map_id refs) at 2. apply map_ext.
    intros [k str]. unfold first_ref, reanalyse_ref. reflexivity.
  Qed.

  (* the refs of a state whose references were all just re-resolved against (d, st) *)
  Lemma views_of_reanalysed d st rs : keys rs = refs ->
    map ref_view (map (reanalyse_ref cfg cur d st) rs) =
    map (fun kr => outcome_view (fst kr) (snd kr) (check_refer (disk_of d) cfg st cur (fst kr) (snd kr))) refs.
  Proof.
    intros <-. unfold keys. rewrite !map_map. apply map_ext. intros r. apply reanalyse_view.
  Qed.

  Lemma views_of_fresh d lua :
    map ref_view (ps_refs (pinit cfg cur d lua refs)) =
    map (fun kr => outcome_view (fst kr) (snd kr)
                     (check_refer (disk_of d) cfg (idx_run_g (stem_fixed cfg) (map Ins lua)) cur (fst kr) (snd kr))) refs.
  Proof. unfold pinit. cbn [ps_refs]. rewrite map_map. apply map_ext. intros kr. apply first_ref_view. Qed.

  Lemma keys_reanalysed d st rs : keys (map (reanalyse_ref cfg cur d st) rs) = keys rs.
  Proof. unfold keys. rewrite map_map. apply map_ext. intros r. reflexivity. Qed.

  Lemma pstep_inv s e : inv s -> inv (pstep cfg cur true s e) /\
    idx_equiv (ps_idx (pstep cfg cur true s e)) (ps_idx (fresh_of (pstep cfg cur true s e))) /\
    map ref_view (ps_refs (pstep cfg cur true s e)) = map ref_view (ps_refs (fresh_of (pstep cfg cur true s e))).
  Proof.
    intros [Hw [Hi Hk]]. unfold pstep. rewrite Hre. cbn [orb].
    set (d := match e with Ins p => if mem_bytes p (ps_disk s) then ps_disk s else ps_disk s ++ [p]
                         | Rem p => del_bytes p (ps_disk s) end).
    set (st := match e with Ins p => idx_insert (stem_fixed cfg) p (ps_idx s)
                          | Rem p => idx_remove_fixed (stem_fixed cfg) p (ps_idx s) end).
    set (ld := match e with Ins p => if mem_bytes p (ps_loaded s) then ps_loaded s else ps_loaded s ++ [p]
                          | Rem p => del_bytes p (ps_loaded s) end).
    assert (wf_idx st) as Hw'.
    { subst st. destruct e as [p|p]; [exact (wf_step_fixed (stem_fixed cfg) (ps_idx s) (Ins p) Hw)
                                     |exact (wf_step_fixed (stem_fixed cfg) (ps_idx s) (Rem p) Hw)]. }
    assert (index_is (stem_fixed cfg) st ld) as Hi'.
    { apply index_is_iff in Hi. subst st ld. destruct e as [p|p].
      - pose proof (insert_refines (stem_fixed cfg) _ _ p Hi) as H. apply index_is_iff in H.
        intros n f. destruct (H n f) as [A B]. rewrite A, B. apply spec_ext. intros g.
        rewrite fmem_fadd. change (mem_bytes p (ps_loaded s)) with (fmem p (ps_loaded s)).
        destruct (fmem p (ps_loaded s)) eqn:Em.
        + destruct (beq_bytes g p) eqn:Eg; [|reflexivity]. apply beq_bytes_eq in Eg. subst g. rewrite Em. reflexivity.
        + rewrite fmem_app. cbn [fmem existsb]. rewrite orb_false_r. apply orb_comm.
      - pose proof (remove_fixed_refines (stem_fixed cfg) _ _ p Hi) as H. apply index_is_iff in H. exact H. }
    cbn [ps_idx ps_loaded ps_refs ps_disk fresh_of].
    split; [|split].
    - unfold inv. cbn [ps_idx ps_loaded ps_refs].
      split; [exact Hw'|]. split; [exact Hi'|]. rewrite keys_reanalysed. exact Hk.
    - unfold fresh_of, pinit. cbn [ps_idx ps_disk ps_loaded].
      destruct (index_ok_ins (stem_fixed cfg) ld) as [_ Hf].
      apply (index_is_equiv (stem_fixed cfg) _ _ ld ld Hi' Hf). reflexivity.
    - unfold fresh_of. cbn [ps_disk ps_loaded].
      rewrite (views_of_reanalysed d st (ps_refs s) Hk), views_of_fresh.
      apply map_ext. intros kr. f_equal.
      destruct (index_ok_ins (stem_fixed cfg) ld) as [Hwf Hf].
      apply check_refer_ext; [exact Hw'|exact Hwf| |exact Hfx].
      apply (index_is_equiv (stem_fixed cfg) _ _ ld ld Hi' Hf). reflexivity.
  Qed.

  Theorem events_fresh disk lua events :
    let s := fold_left (pstep cfg cur true) events (pinit cfg cur disk lua refs) in
    map ref_view (ps_refs s) = map ref_view (ps_refs (fresh_of s)) /\
    (forall items, open_outcomes cfg (ps_idx s) (fun f => mem_bytes f (ps_loaded s)) cur items =
                   open_outcomes cfg (ps_idx (fresh_of s)) (fun f => mem_bytes f (ps_loaded (fresh_of s))) cur items).
  Proof.
    cbv zeta.
    assert (forall evs s0, inv s0 ->
              idx_equiv (ps_idx s0) (ps_idx (fresh_of s0)) ->
              map ref_view (ps_refs s0) = map ref_view (ps_refs (fresh_of s0)) ->
              let s := fold_left (pstep cfg cur true) evs s0 in
              inv s /\ idx_equiv (ps_idx s) (ps_idx (fresh_of s)) /\
              map ref_view (ps_refs s) = map ref_view (ps_refs (fresh_of s))) as Hfold.
    { induction evs as [|e evs IH]; intros s0 H0 He0 Hv0; cbn [fold_left]; [split; [exact H0|split; assumption]|].
      destruct (pstep_inv s0 e H0) as [H1 [He1 Hv1]]. apply IH; assumption. }
    pose proof (pinit_inv disk lua) as H0.
    destruct (Hfold events (pinit cfg cur disk lua refs) H0) as [Hinv [Heq Hv]].
    - unfold fresh_of, pinit. cbn [ps_idx ps_disk ps_loaded]. intros n f. split; reflexivity.
    - reflexivity.
    - split; [exact Hv|]. intros items.
      destruct Hinv as [Hw _].
      unfold fresh_of at 2. unfold pinit at 2. cbn [ps_loaded].
      apply open_outcomes_ext; [exact Hw| |exact Heq|exact Hfx].
      unfold fresh_of, pinit. cbn [ps_idx]. apply wf_run.
  Qed.
End Fresh.

(* ---- hence, with the other repairs, every reference follows the documented mapping after every history ---- *)
Definition ref_outcome (r : ref_state) : routcome :=
  mk_rout (rs_valid r) (if rs_valid r then rs_vstr r else []) (rs_err r).

Lemma check_refer_invalid disk cfg st cur k refer :
  r_valid (check_refer disk cfg st cur k refer) = false -> r_resolved (check_refer disk cfg st cur k refer) = [].
Proof.
  unfold check_refer.
  destruct (mem_bytes (remove_pre_str refer) (ignore_refer cfg)); [reflexivity|].
  assert (forall l : list (list N),
            r_valid (match l with [] => not_found | c :: l' => found (c :: l') end) = false ->
            r_resolved (match l with [] => not_found | c :: l' => found (c :: l') end) = []) as Hm.
  { intros [|c l]; [reflexivity|discriminate]. }
  destruct k.
  - destruct (true && _); [reflexivity|]. destruct (disk _); [reflexivity|]. destruct (exact_mode cfg).
    + destruct (disk _); [discriminate|]. destruct (disk _); [discriminate|reflexivity].
    + destruct (best_set_fx (order_fixed cfg) cur (replace_byte dot slash (remove_pre_str refer)) st);
        [apply Hm|discriminate].
  - destruct (disk _); [discriminate|]. destruct (exact_mode cfg); [reflexivity|]. apply Hm.
  - destruct (false && _); [reflexivity|]. destruct (disk _); [reflexivity|]. destruct (exact_mode cfg).
    + destruct (disk _); [discriminate|]. destruct (disk _); [discriminate|reflexivity].
    + destruct (best_set_fx (order_fixed cfg) cur (replace_byte dot slash (remove_pre_str refer)) st);
        [apply Hm|discriminate].
Qed.

Theorem events_conform cfg cur refs disk lua events :
  order_fixed cfg = true -> reanalyse_fixed cfg = true -> stem_fixed cfg = true -> lit_fixed cfg = true ->
  let s := fold_left (pstep cfg cur true) events (pinit cfg cur disk lua refs) in
  forall r, In r (ps_refs s) ->
    (rs_kind r <> KSuffix -> all_lua (ps_loaded s) = true) ->
    conforms (ref_outcome r) (spec_refer (disk_of (ps_disk s)) cfg (ps_loaded s) (rs_kind r) (rs_str r)) = true.
Proof.
  intros Hfx Hre Hst Hlit. cbv zeta. intros r Hr Hlua.
  destruct (events_fresh cfg cur Hfx Hre refs disk lua events) as [Hv _]. cbv zeta in Hv.
  set (s := fold_left (pstep cfg cur true) events (pinit cfg cur disk lua refs)) in *.
  assert (In (ref_view r) (map ref_view (ps_refs (fresh_of cfg cur refs s)))) as Hin
    by (rewrite <- Hv; apply in_map; exact Hr).
  unfold fresh_of in Hin. rewrite views_of_fresh in Hin. apply in_map_iff in Hin as [[k str] [Hview _]]. cbn [fst snd] in Hview.
  unfold ref_view, outcome_view in Hview. injection Hview as Hk Hs Hval Hres Herr.
  unfold ref_outcome. rewrite <- Hres, <- Hval, <- Herr, <- Hk, <- Hs. rewrite <- Hk in Hlua.
  set (o := check_refer (disk_of (ps_disk s)) cfg (idx_run_g (stem_fixed cfg) (map Ins (ps_loaded s))) cur k str).
  assert (mk_rout (r_valid o) (if r_valid o then r_resolved o else []) (r_err6 o) = o) as ->.
  { pose proof (check_refer_invalid (disk_of (ps_disk s)) cfg (idx_run_g (stem_fixed cfg) (map Ins (ps_loaded s))) cur k str) as Hi.
    fold o in Hi. destruct o as [v l e]. cbn [r_valid r_resolved r_err6] in *. destruct v; [reflexivity|].
    rewrite (Hi eq_refl). reflexivity. }
  subst o. apply resolve_conforms_fixed; [|exact Hlit|exact Hlua].
  rewrite Hst. exact (index_ok_ins true (ps_loaded s)).
Qed.
