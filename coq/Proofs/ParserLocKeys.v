(* C04, Loc order: vocabulary for "every Loc of the AST starts before it ends and lies between the first and the
   last token of its construct".

   Positions are compared through an ARBITRARY key function  key line column  (e.g. line * W + column of
   Spec/LuaScope.v, or any other order embedding): lo l = key of the start of l, hi l = key of its end.
   Hypothesis on the token list (TokOrd): every token is recorded in the one-line form (lineStartPos <= tokenStartPos,
   so GetNowTokenLoc does not depend on the previous token), starts before it ends, and ends before the next one
   starts; an EOF token is empty.  Under the stream invariant Inv of ParserLocBase.v this gives, for every parser state,
       lo (now_loc st) <= hi (now_loc st),   lo (heard_loc st) <= hi (heard_loc st),   hi (now_loc st) <= hi (heard_loc st)
   and after every `next`:   now_loc (next st) = heard_loc st   and   hi (now_loc (next st)) <= lo (heard_loc (next st)). *)
From Coq Require Import List NArith ZArith Bool Arith Lia.
From LH Require Import Base.Bytes Base.Res Model.Lexer Model.Ast Model.Parser Spec.LspRange.
From LH Require Import Proofs.LexerTotalWf Proofs.ParserTotalBase Proofs.ParserLocBase.
Import ListNotations.
Local Open Scope Z_scope.

(* ------------------------------------------------------------------ all Locs of an AST (a block's own Loc only for
   the then / elseif / else blocks, whose Loc is [first token, token after the block) ) *)
Definition oloc (o : option (list N * loc)) : list loc := match o with Some (_, l) => [l] | None => [] end.

Fixpoint locs_exp (e : exp) {struct e} : list loc :=
  match e with
  | ENil l | EBad l | ETrue l | EFalse l | EVararg l | EInt _ l | EFloat _ l | EStr _ l | EName _ l => [l]
  | EUnop _ e1 l => l :: locs_exp e1
  | EBinop _ e1 e2 l => l :: locs_exp e1 ++ locs_exp e2
  | ETable ks vs l =>
    l :: flat_map (fun k => match k with Some k' => locs_exp k' | None => [] end) ks ++ flat_map locs_exp vs
  | EFunc _ _ _ plocs b l _ _ => l :: plocs ++ locs_block b
  | EParens e1 l => l :: locs_exp e1
  | EIndex p k l => l :: locs_exp p ++ locs_exp k
  | ECall p nm args l => l :: oloc nm ++ locs_exp p ++ flat_map locs_exp args
  end
with locs_stat (s : stat) {struct s} : list loc :=
  match s with
  | SBreak => []
  | SLabel _ l | SGoto _ l => [l]
  | SDo b l => l :: locs_block b
  | SCall e => locs_exp e
  | SIf es bs l => l :: flat_map locs_exp es ++ flat_map (fun b => block_loc b :: locs_block b) bs
  | SWhile e b l => l :: locs_exp e ++ locs_block b
  | SRepeat b e l => l :: locs_block b ++ locs_exp e
  | SForNum _ vl e1 e2 e3 b l => l :: vl :: locs_exp e1 ++ locs_exp e2 ++ locs_exp e3 ++ locs_block b
  | SForIn _ ls es b l => l :: ls ++ flat_map locs_exp es ++ locs_block b
  | SAssign vars es l => l :: flat_map locs_exp vars ++ flat_map locs_exp es
  | SLocal _ ls _ es l => l :: ls ++ flat_map locs_exp es
  | SLocalFunc _ nl f l => l :: nl :: locs_exp f
  end
with locs_block (b : block) {struct b} : list loc :=
  match b with
  | Block ss ret _ => flat_map locs_stat ss ++ match ret with Some es => flat_map locs_exp es | None => [] end
  end.

Definition locs_okey (k : option exp) : list loc := match k with Some k' => locs_exp k' | None => [] end.
Definition locs_ostat (s : option stat) : list loc := match s with Some s' => locs_stat s' | None => [] end.
Definition locs_xblock (b : block) : list loc := block_loc b :: locs_block b.

Lemma locs_exp_table ks vs l : locs_exp (ETable ks vs l) = l :: flat_map locs_okey ks ++ flat_map locs_exp vs.
Proof. reflexivity. Qed.
Lemma locs_stat_if es bs l : locs_stat (SIf es bs l) = l :: flat_map locs_exp es ++ flat_map locs_xblock bs.
Proof. reflexivity. Qed.
Lemma locs_set_block_loc b l : locs_block (set_block_loc b l) = locs_block b.
Proof. destruct b; reflexivity. Qed.
Lemma block_loc_set b l : block_loc (set_block_loc b l) = l.
Proof. destruct b; reflexivity. Qed.

Section Keys.
  Variable key : Z -> Z -> Z.
  Definition lo (l : loc) : Z := key (sl l) (sc l).
  Definition hi (l : loc) : Z := key (el l) (ec l).

  Lemma lo_range a b : lo (range_loc a b) = lo a.
  Proof. reflexivity. Qed.
  Lemma hi_range a b : hi (range_loc a b) = hi b.
  Proof. reflexivity. Qed.
  Lemma lo_range_excl a b : lo (range_loc_excl a b) = lo a.
  Proof. reflexivity. Qed.
  Lemma hi_range_excl a b : hi (range_loc_excl a b) = lo b.
  Proof. reflexivity. Qed.

  (* a Loc is in order and between two keys (zero_loc marks synthesized nodes: the default step of a numeric for,
     a malformed numeral) *)
  Definition within (a : Z) (l : loc) (b : Z) : Prop := l = zero_loc \/ (a <= lo l /\ lo l <= hi l /\ hi l <= b).
  Definition WithinL (a : Z) (L : list loc) (b : Z) : Prop := Forall (fun l => within a l b) L.

  Lemma within_weaken a b a' b' l : within a l b -> a' <= a -> b <= b' -> within a' l b'.
  Proof. intros [H|H] Ha Hb; [left; exact H|right; lia]. Qed.
  Lemma WithinL_weaken a b a' b' L : WithinL a L b -> a' <= a -> b <= b' -> WithinL a' L b'.
  Proof. intros H Ha Hb. eapply Forall_impl; [|exact H]. intros l Hl. exact (within_weaken a b a' b' l Hl Ha Hb). Qed.
  Lemma within_zero a b : within a zero_loc b.
  Proof. left. reflexivity. Qed.

  Lemma within_method_func a b fd colon cls fname selfloc :
    WithinL a (locs_exp fd) b -> within a selfloc b ->
    WithinL a (locs_exp (match fd with
                         | EFunc _ _ pars plocs bk l va _ =>
                           if colon : bool then EFunc cls fname (s_self :: pars) (selfloc :: plocs) bk l va true
                           else EFunc cls fname pars plocs bk l va false
                         | e => e
                         end)) b.
  Proof.
    intros H Hs. destruct fd; try exact H. destruct colon; [|exact H].
    cbn [locs_exp] in *. unfold WithinL in *. inversion H; subst. constructor; [assumption|].
    cbn [app]. constructor; assumption.
  Qed.

  (* ---------------------------------------------------------------- the hypothesis on the token list *)
  Definition SL (t : tok) : loc := mkLoc (tline t) (tfrom t - tlsp t) (tline t) (tto t - tlsp t).

  Definition tok1 (t : tok) : Prop :=
    tlsp t <= tfrom t /\ lo (SL t) <= hi (SL t) /\ (tk t = TkEOF -> hi (SL t) <= lo (SL t)).
  Fixpoint chain (l : list tok) : Prop :=
    match l with
    | t :: ((t' :: _) as r) => hi (SL t) <= lo (SL t') /\ chain r
    | _ => True
    end.
  Definition TokOrd (ts : list ltok) : Prop := Forall tok1 (map lt ts) /\ chain (map lt ts).

  Lemma tok_loc_SL p t : tlsp t <= tfrom t -> tok_loc p t = SL t.
  Proof. intros H. unfold tok_loc. replace (tlsp t >? tfrom t) with false by lia. reflexivity. Qed.

  Lemma chain_mid : forall l p t r, chain (l ++ p :: t :: r) -> hi (SL p) <= lo (SL t).
  Proof.
    induction l as [|x l IH]; intros p t r H.
    - cbn [app chain] in H. tauto.
    - cbn [app] in H. destruct (l ++ p :: t :: r) as [|y l'] eqn:E; [destruct l; discriminate|].
      change (hi (SL x) <= lo (SL y) /\ chain (y :: l')) in H. destruct H as [_ H]. rewrite <- E in H. eapply IH. exact H.
  Qed.

  (* ---------------------------------------------------------------- what the hypothesis gives for a parser state *)
  Definition ka (st : pst) : Z := lo (now_loc st).
  Definition kb (st : pst) : Z := hi (now_loc st).
  Definition kc (st : pst) : Z := lo (heard_loc st).
  Definition kd (st : pst) : Z := hi (heard_loc st).
  Definition F2 (st : pst) : Prop := kb st <= kc st.
  Definition KF (st : pst) : Prop := ka st <= kb st /\ kc st <= kd st /\ kb st <= kd st /\ ka st <= kc st.
  Definition KFN (st : pst) : Prop :=
    ka (next st) = kc st /\ kb (next st) = kd st /\ kb (next st) <= kc (next st).

  Lemma now_loc_err e st : now_loc (err e st) = now_loc st.
  Proof. reflexivity. Qed.
  Lemma heard_loc_err e st : heard_loc (err e st) = heard_loc st.
  Proof. reflexivity. Qed.
  Lemma heard_loc_expect k st : heard_loc (expect k st) = heard_loc (next st).
  Proof. unfold expect. destruct (tk_eqb _ _); reflexivity. Qed.

  Section WithStream.
    Variable ts : list ltok.
    Hypothesis Hwf : wfr ts.
    Hypothesis Hord : TokOrd ts.

    Lemma tok1_in t : In t (map lt ts) -> tok1 t.
    Proof. destruct Hord as [H _]. rewrite Forall_forall in H. apply H. Qed.

    (* now / look-ahead of a state, as tokens of the list *)
    Lemma state_toks st : Inv ts st ->
      exists h, In h (map lt ts) /\ heard_loc st = SL h /\
        match now st with
        | Some n => In n (map lt ts) /\ now_loc st = SL n /\ hi (SL n) <= lo (SL h)
        | None => now_loc st = heard_loc st
        end.
    Proof.
      intros [(dl & Hts & Hne & Hls & Hl2)|(e & Hr & Hk & Hn & Hls & Hin)].
      - destruct (rest st) as [|t r] eqn:Er; [congruence|].
        assert (Hm : map lt ts = map lt dl ++ lt t :: map lt r) by (rewrite Hts, map_app; reflexivity).
        assert (Hh : In (lt t) (map lt ts)) by (rewrite Hm; apply in_or_app; right; left; reflexivity).
        exists (lt t). split; [exact Hh|]. split.
        + unfold heard_loc, ahead_tok. rewrite Er. apply tok_loc_SL. apply (tok1_in _ Hh).
        + unfold now_loc. inversion Hl2 as [E1 E2 E3|t0 E1 E2 E3|l p t0 E1 E2 E3]; [reflexivity| |].
          * assert (Hn : In t0 (map lt ts)) by (rewrite Hm, <- E1; left; reflexivity).
            split; [exact Hn|]. split; [apply tok_loc_SL, (tok1_in _ Hn)|].
            destruct Hord as [_ Hc]. rewrite Hm, <- E1 in Hc. cbn [app chain] in Hc. tauto.
          * assert (Hn : In t0 (map lt ts)).
            { rewrite Hm, <- E1. apply in_or_app. left. apply in_or_app. right. right. left. reflexivity. }
            split; [exact Hn|]. split; [apply tok_loc_SL, (tok1_in _ Hn)|].
            destruct Hord as [_ Hc]. rewrite Hm, <- E1, <- app_assoc in Hc.
            change ([p; t0] ++ lt t :: map lt r) with ([p] ++ t0 :: lt t :: map lt r) in Hc.
            rewrite app_assoc in Hc. eapply chain_mid. exact Hc.
      - exists e. split; [exact Hin|]. pose proof (tok1_in _ Hin) as (H1 & H2 & H3). split.
        + unfold heard_loc, ahead_tok. rewrite Hr, Hn. cbn [lt otok]. apply tok_loc_SL, H1.
        + rewrite Hn. split; [exact Hin|]. split; [unfold now_loc; rewrite Hn; apply tok_loc_SL, H1|apply H3, Hk].
    Qed.

    Lemma kf_state st : Inv ts st -> KF st.
    Proof.
      intros HI. destruct (state_toks st HI) as (h & Hh & Eh & Hn). unfold KF, ka, kb, kc, kd.
      pose proof (tok1_in _ Hh) as (_ & Hh2 & _). rewrite Eh.
      destruct (now st) as [n|].
      - destruct Hn as (Hn & En & Hnh). rewrite En. pose proof (tok1_in _ Hn) as (_ & Hn2 & _). lia.
      - rewrite Hn, Eh. lia.
    Qed.

    Lemma now_loc_next st : rest st <> [] -> now_loc (next st) = heard_loc st.
    Proof.
      intros Hne. unfold next. destruct (rest st) as [|t [|t2 r]] eqn:Er; [congruence| |];
        unfold now_loc, heard_loc, ahead_tok; cbn [now pre]; rewrite Er; reflexivity.
    Qed.

    Lemma Inv_rest st : Inv ts st -> rest st <> [].
    Proof.
      intros [(dl & Hts & Hne & _)|(e & Hr & _)]; [exact Hne|rewrite Hr; discriminate].
    Qed.

    Lemma kf_next st : Inv ts st -> KFN st.
    Proof.
      intros HI. unfold KFN, ka, kb, kc, kd. rewrite (now_loc_next st (Inv_rest st HI)).
      split; [reflexivity|]. split; [reflexivity|].
      pose proof (Inv_next ts Hwf st HI) as HI'. destruct (state_toks (next st) HI') as (h & Hh & Eh & Hn).
      destruct (now_next_some st) as [n En]. rewrite En in Hn. destruct Hn as (_ & E1 & H1).
      rewrite <- (now_loc_next st (Inv_rest st HI)), E1, Eh. exact H1.
    Qed.

    Lemma k_expect k st : ka (expect k st) = ka (next st) /\ kb (expect k st) = kb (next st) /\
                          kc (expect k st) = kc (next st) /\ kd (expect k st) = kd (next st).
    Proof. unfold ka, kb, kc, kd. rewrite now_loc_expect, heard_loc_expect. repeat split. Qed.
  End WithStream.
End Keys.
