(* C19 - example programs for the guards of Properties/C19.v and the witness of the children-inside refutation. *)
From Coq Require Import List NArith ZArith Bool.
From LH Require Import Base.Bytes Base.Res Model.Lexer Model.Ast Model.Parser Model.LuaFront Model.Symbols Spec.SymbolSpec
  Proofs.SymbolsJudge Proofs.SymbolsWitness Proofs.SymbolsLocs Proofs.SymbolsOutline Proofs.SymbolsSig Proofs.SymbolsGlobals
  Proofs.SymbolsLexical Proofs.SymbolsComplete.
Import ListNotations.

(* a file with locals, globals, table constructors with function fields, function / method statements, nested blocks:
     local M = { k = 1, g = function(a, b) return a end }
     function M.f(x) local y = x; return y end
     function M:m() self.v = 1 end
     cfg = { name = "s", sub = { deep = function() end } }
     local function helper(p, ...)
       for i = 1, 10 do q = i end
       for k, v in pairs(M) do local z = k end
       while p do p = nil end
       repeat local r = 1 until r
       if p then cfg.x = 1 elseif q then cfg.y = 2 else h = function() end end
     end
     do local inner = {} ; inner.a = 1 end
     t = {}
     t.v = 1
     return M
*)
Definition w_rich : list N :=
  [108;111;99;97;108;32;77;32;61;32;123;32;107;32;61;32;49;44;32;103;32;61;32;102;117;110;99;116;105;111;110;40;
  97;44;32;98;41;32;114;101;116;117;114;110;32;97;32;101;110;100;32;125;10;102;117;110;99;116;105;111;110;32;77;
  46;102;40;120;41;32;108;111;99;97;108;32;121;32;61;32;120;59;32;114;101;116;117;114;110;32;121;32;101;110;100;
  10;102;117;110;99;116;105;111;110;32;77;58;109;40;41;32;115;101;108;102;46;118;32;61;32;49;32;101;110;100;10;
  99;102;103;32;61;32;123;32;110;97;109;101;32;61;32;34;115;34;44;32;115;117;98;32;61;32;123;32;100;101;101;112;
  32;61;32;102;117;110;99;116;105;111;110;40;41;32;101;110;100;32;125;32;125;10;108;111;99;97;108;32;102;117;110;
  99;116;105;111;110;32;104;101;108;112;101;114;40;112;44;32;46;46;46;41;10;32;32;102;111;114;32;105;32;61;32;49;
  44;32;49;48;32;100;111;32;113;32;61;32;105;32;101;110;100;10;32;32;102;111;114;32;107;44;32;118;32;105;110;32;
  112;97;105;114;115;40;77;41;32;100;111;32;108;111;99;97;108;32;122;32;61;32;107;32;101;110;100;10;32;32;119;
  104;105;108;101;32;112;32;100;111;32;112;32;61;32;110;105;108;32;101;110;100;10;32;32;114;101;112;101;97;116;
  32;108;111;99;97;108;32;114;32;61;32;49;32;117;110;116;105;108;32;114;10;32;32;105;102;32;112;32;116;104;101;
  110;32;99;102;103;46;120;32;61;32;49;32;101;108;115;101;105;102;32;113;32;116;104;101;110;32;99;102;103;46;121;
  32;61;32;50;32;101;108;115;101;32;104;32;61;32;102;117;110;99;116;105;111;110;40;41;32;101;110;100;32;101;110;
  100;10;101;110;100;10;100;111;32;108;111;99;97;108;32;105;110;110;101;114;32;61;32;123;125;32;59;32;105;110;
  110;101;114;46;97;32;61;32;49;32;101;110;100;10;116;32;61;32;123;125;10;116;46;118;32;61;32;49;10;114;101;116;
  117;114;110;32;77;10]%N.

(* function foo() <LF>   t.x = 1 <LF> end <LF> t = {} : the member is recorded on the not yet defined name `t`
   ("nodefine" variable) and merged into the global `t` after the first pass *)
Definition w_before : list N :=
  [102;117;110;99;116;105;111;110;32;102;111;111;40;41;10;32;32;116;46;120;32;61;32;49;10;101;110;100;10;116;32;
  61;32;123;125;10]%N.

Lemma layout_wf_examples :
  map (parsed_ok layout_wf) [w_local; w_global; w_assigned; w_shadow; w_rich; w_before] = [true; true; true; true; true; true].
Proof. vm_compute. reflexivity. Qed.

(* before fixes/C19-children-inside.diff the real server answered the same (leg c19.docsym): `t` 3:0-3:1 with child
   `t.x` 1:4-1:5 *)
Lemma child_before_parent_witness :
  exists ss s c, outline_of_bytes fx_round1 w_before = Some ss /\ nth_error ss 1 = Some s /\
                 nth_error (s_children s) 0 = Some c /\
                 s_key s = [116%N] /\ s_loc s = mkLoc 4 0 4 1 /\ c_loc c = mkLoc 2 4 2 5 /\
                 contains (s_loc s) (c_loc c) = false.
Proof. do 3 eexists. vm_compute. repeat split. Qed.

(* repaired: the entry of `t` is the Union of its identifier and the child *)
Lemma child_before_parent_repaired :
  exists ss s c, outline_of_bytes deployed w_before = Some ss /\ nth_error ss 1 = Some s /\
                 nth_error (s_children s) 0 = Some c /\
                 s_key s = [116%N] /\ s_decl s = mkLoc 4 0 4 1 /\ s_loc s = mkLoc 2 4 4 1 /\ c_loc c = mkLoc 2 4 2 5 /\
                 contains (s_loc s) (c_loc c) = true /\ contains (s_loc s) (s_decl s) = true.
Proof. do 3 eexists. vm_compute. repeat split. Qed.

(* the two full statements fail for the code before this round's repairs (fx_round1) *)
Lemma contains_decl_prefix_refuted :
  ~ (forall bs ss s, outline_of_bytes fx_round1 bs = Some ss -> In s ss ->
                     contains (s_loc s) (s_decl s) = true /\
                     forall c, In c (s_children s) -> contains (c_loc c) (c_decl c) = true).
Proof.
  intros H. destruct assigned_function_witness as [s [Ho [_ [_ [_ [_ [_ Hc]]]]]]].
  destruct (H w_assigned [s] s Ho (or_introl eq_refl)) as [H1 _]. rewrite Hc in H1. discriminate.
Qed.

Lemma children_inside_prefix_refuted :
  ~ (forall bs ss s c, outline_of_bytes fx_round1 bs = Some ss -> In s ss -> In c (s_children s) ->
                       contains (s_loc s) (c_loc c) = true).
Proof.
  intros H. destruct child_before_parent_witness as [ss [s [c [Ho [Hs [Hc [_ [_ [_ Hn]]]]]]]]].
  rewrite (H w_before ss s c Ho (nth_error_In _ _ Hs) (nth_error_In _ _ Hc)) in Hn. discriminate.
Qed.

(* ------------------------------------------------------------------ guards of the completeness theorem on w_rich *)
Definition n_q : bytes := [113]%N.              (* q: assigned inside a loop of a function, bound nowhere *)
Definition n_cfg : bytes := [99;102;103]%N.     (* cfg *)
Definition n_h : bytes := [104]%N.              (* h = function() end *)
Definition n_t : bytes := [116]%N.              (* t *)
Definition n_p : bytes := [112]%N.              (* p: a parameter that is also assigned - excluded by the guard *)
Definition n_helper : bytes := [104;101;108;112;101;114]%N.
Definition n_M : bytes := [77]%N.

Definition top_local_decls_of (bs : list N) (nm : bytes) : list vsig :=
  match parse_bytes no_gbk classify_tok bs with
  | Ok (PR b [] []) => top_local_decls b nm
  | _ => []
  end.

(* an instance of the predicate of the third clause: "the name is one of q, cfg, h, t, p and only h is function-valued" *)
Definition rich_targets (x : gtriple) : bool :=
  existsb (beq_bytes (fst (fst x))) [n_q; n_cfg; n_h; n_t; n_p] &&
  match snd x with Some _ => beq_bytes (fst (fst x)) n_h | None => true end.

Lemma complete_guard_examples :
  map (fun nm => parsed_ok (chk_block (not_named nm) any_target) w_rich && parsed_ok (asg_block nm) w_rich)
      [n_q; n_cfg; n_h; n_t; n_p] = [true; true; true; true; false] /\
  parsed_ok (chk_block any_name rich_targets) w_rich = true /\
  top_local_decls_of w_rich n_helper = [(mkLoc 5 15 5 21, false, Some (mkLoc 5 0 11 3))] /\
  top_local_decls_of w_rich n_M = [(mkLoc 1 6 1 7, false, None)] /\
  top_local_decls_of w_shadow [120%N] = [(mkLoc 1 6 1 7, false, None); (mkLoc 2 6 2 7, false, None)].
Proof. vm_compute. repeat split. Qed.

(* the full property (every reference declaration covered by an entry with a good range) on the witness files *)
Definition full_cover (fx : fixes) (bs : list N) : option bool :=
  match parse_bytes no_gbk classify_tok bs with
  | Ok (PR b [] []) =>
    match analyse (fuel_of_bytes bs) b with
    | Ok st => Some (covers (line_lens bs) (entries_of (find_all_symbol fx (finalize st))) (decls_spec (fuel_of_bytes bs) b))
    | _ => None
    end
  | _ => None
  end.

(* local function h() end <LF> function h.get() end : a member of a function-valued local (open class member_lost) *)
Definition w_member_lost : list N := [108;111;99;97;108;32;102;117;110;99;116;105;111;110;32;104;40;41;32;101;110;100;10;102;117;110;99;116;105;111;110;32;104;46;103;101;116;40;41;32;101;110;100;10]%N.
(* function M.f() end : a member of a name the file never defines (class member_of_undeclared, repaired) *)
Definition w_undeclared : list N := [102;117;110;99;116;105;111;110;32;77;46;102;40;41;32;101;110;100;10]%N.

(* function init() Cfg = {} end <LF> init() <LF> function Cfg.load() end : a member of a global that is defined at a
   deeper level than the member (was shape (b) of member_lost; repaired, Symbols.deep_global_fix) *)
Definition w_deep_global : list N :=
  [102;117;110;99;116;105;111;110;32;105;110;105;116;40;41;32;67;102;103;32;61;32;123;125;32;101;110;100;10;
   105;110;105;116;40;41;10;102;117;110;99;116;105;111;110;32;67;102;103;46;108;111;97;100;40;41;32;101;110;100;10]%N.
(* _G.GT = {} <LF> function _G.GT.f() end *)
Definition w_G_member : list N :=
  [95;71;46;71;84;32;61;32;123;125;10;102;117;110;99;116;105;111;110;32;95;71;46;71;84;46;102;40;41;32;101;110;100;10]%N.
(* N = { sub = { f = function() end } } <LF> function N.sub.h() end : members below the first level (open class member_depth2) *)
Definition w_depth2 : list N :=
  [78;32;61;32;123;32;115;117;98;32;61;32;123;32;102;32;61;32;102;117;110;99;116;105;111;110;40;41;32;101;110;100;32;125;32;125;10;
   102;117;110;99;116;105;111;110;32;78;46;115;117;98;46;104;40;41;32;101;110;100;10]%N.

(* before round 2b only w_global and w_before were covered; now every witness file is, except those of the open classes:
   member_lost (w_member_lost) and member_depth2 (w_depth2, and the field cfg.sub.deep of w_rich) *)
Lemma full_cover_witnesses :
  map (full_cover fx_round1) [w_global; w_rich; w_local; w_assigned; w_shadow; w_before; w_undeclared; w_member_lost] =
    [Some true; Some false; Some false; Some false; Some false; Some true; Some false; Some false] /\
  map (full_cover deployed) [w_global; w_rich; w_local; w_assigned; w_shadow; w_before; w_undeclared; w_member_lost;
                             w_deep_global; w_G_member; w_depth2] =
    [Some true; Some false; Some true; Some true; Some true; Some true; Some true; Some false; Some true; Some true; Some false].
Proof. vm_compute. split; reflexivity. Qed.

(* ------------------------------------------------------------------ the lexical guard *)
(* local function f() local x = 1; x = 2 end <LF> function g() x = 3 end : x is a local of f and a global assigned in g *)
Definition w_lex : list N :=
  [108;111;99;97;108;32;102;117;110;99;116;105;111;110;32;102;40;41;32;108;111;99;97;108;32;120;32;61;32;49;59;32;120;32;61;32;50;32;101;110;100;10;102;117;110;99;116;105;111;110;32;103;40;41;32;120;32;61;32;51;32;101;110;100;10]%N.
Definition n_x : bytes := [120]%N.

Lemma lexical_guard_examples :
  parsed_ok shp_block w_lex = true /\ parsed_ok (asgU_block n_x) w_lex = true /\
  parsed_ok (chk_block (not_named n_x) any_target) w_lex = false /\
  parsed_ok shp_block w_rich = true /\
  map (fun nm => parsed_ok (asgU_block nm) w_rich) [n_q; n_cfg; n_h; n_t; n_p; n_M] = [true; true; true; true; false; false] /\
  (exists ss, outline_of_bytes fx_all w_lex = Some ss /\ map s_key ss = [[102%N]; n_x; [103%N]]).
Proof. vm_compute. repeat split. eexists. split; reflexivity. Qed.


(* the full completeness statement still fails: the witness of the open class member_lost *)
Lemma member_lost_not_covered : full_cover deployed w_member_lost = Some false.
Proof. vm_compute. reflexivity. Qed.

Lemma full_cover_false : forall fx bs,
    full_cover fx bs = Some false ->
    ~ (forall b st, parse_bytes no_gbk classify_tok bs = Ok (PR b [] []) -> analyse (fuel_of_bytes bs) b = Ok st ->
                    covers (line_lens bs) (entries_of (find_all_symbol fx (finalize st))) (decls_spec (fuel_of_bytes bs) b) = true).
Proof.
  intros fx bs E H. unfold full_cover in E.
  destruct (parse_bytes no_gbk classify_tok bs) as [[b le pe|]| |] eqn:Ep; try discriminate E.
  destruct le; [|discriminate E]. destruct pe; [|discriminate E].
  destruct (analyse (fuel_of_bytes bs) b) as [st| |] eqn:Ea; try discriminate E.
  rewrite (H _ _ eq_refl Ea) in E. discriminate E.
Qed.

Lemma outline_complete_full_refuted :
  ~ (forall bs b st,
        parse_bytes no_gbk classify_tok bs = Ok (PR b [] []) -> analyse (fuel_of_bytes bs) b = Ok st ->
        covers (line_lens bs) (entries_of (find_all_symbol deployed (finalize st))) (decls_spec (fuel_of_bytes bs) b) = true).
Proof.
  intros H. apply (full_cover_false deployed w_member_lost member_lost_not_covered). intros b st. apply H.
Qed.

(* the outline of a file inside a workspace is the outline of the file alone (fixes/C19-foreign-member.diff): every
   theorem about `finalize st` / `outline_of_bytes` applies to each file of any workspace *)
Lemma outline_state_own_file : forall orig merged i st,
    nth_error orig i = Some st -> outline_state deployed orig merged i = Some (finalize st).
Proof. intros orig merged i st H. unfold outline_state. cbn [deployed fx_all fx_ownfile]. rewrite H. reflexivity. Qed.
