(* C19 - the per-file global table after the first pass.
   (G1) every global stems from an assignment target `name = value` of the file: for ANY boolean predicate pt that
        holds of (name, Loc of the identifier, Loc of the function literal if the value at the same index is one)
        for every assignment target of the file, pt holds of (key, VarInfo.Loc, FuncInfo.Loc) of every global;
   (G2) every name that is an assignment target somewhere in the file and that no `local`, parameter or loop
        variable of the file binds, is a key of the global table.
   Both by one induction over the analysis (no hypothesis on Locs). *)
From Coq Require Import List NArith ZArith Bool Lia ZifyBool.
From LH Require Import Base.Bytes Base.Res Model.Lexer Model.Ast Model.Symbols Spec.SymbolSpec
  Proofs.SymbolsRange Proofs.SymbolsLocs Proofs.SymbolsMerge Proofs.SymbolsSig.
Import ListNotations.

Definition gtriple : Type := (bytes * loc * option loc)%type.

Definition val_loc (oe : option exp) : option loc :=
  match oe with Some e => if is_func e then Some (exp_loc e) else None | None => None end.

(* the targets that can define a global: `nm = v`, and `_G.nm = v` / `_G["nm"] = v` (located at the key) *)
Definition tgt_sig (t : exp) (oe : option exp) : option gtriple :=
  match t with
  | EName nm l => Some (nm, l, val_loc oe)
  | EIndex p k tl =>
    if simple_str (exp_name k) && beq_bytes (exp_name p) (c_bang :: Symbols.s_G)
    then Some (exp_name k, if loc_initial (exp_loc k) then tl else exp_loc k, val_loc oe) else None
  | _ => None
  end.

(* ------------------------------------------------------------------ boolean traversals of the syntax tree *)
Section Chk.
  Variable pb : bytes -> bool.      (* what every binder name of the tree satisfies *)
  Variable pt : gtriple -> bool.    (* what every `name = value` target of the tree satisfies *)

  Fixpoint chk_targets (vars es : list exp) {struct vars} : bool :=
    match vars with
    | [] => true
    | t :: vars' => (match tgt_sig t (hd_error es) with Some x => pt x | None => true end) && chk_targets vars' (tl es)
    end.

  Fixpoint chk_exp (e : exp) {struct e} : bool :=
    match e with
    | EUnop _ e1 _ | EParens e1 _ => chk_exp e1
    | EBinop _ e1 e2 _ | EIndex e1 e2 _ => chk_exp e1 && chk_exp e2
    | ETable ks vs _ =>
      Nat.eqb (length ks) (length vs) &&
      forallb (fun k => match k with Some ke => chk_exp ke | None => true end) ks && forallb chk_exp vs
    | EFunc _ _ pars _ b _ _ _ => forallb pb pars && chk_block b
    | ECall p _ args _ => chk_exp p && forallb chk_exp args
    | _ => true
    end
  with chk_stat (s : stat) {struct s} : bool :=
    match s with
    | SBreak | SLabel _ _ | SGoto _ _ => true
    | SDo b _ => chk_block b
    | SCall e => chk_exp e
    | SIf es bs _ => Nat.eqb (length es) (length bs) && forallb chk_exp es && forallb chk_block bs
    | SWhile e b _ | SRepeat b e _ => chk_exp e && chk_block b
    | SForNum nm _ e1 e2 e3 b _ => pb nm && chk_exp e1 && chk_exp e2 && chk_exp e3 && chk_block b
    | SForIn nms _ es b _ => forallb pb nms && forallb chk_exp es && chk_block b
    | SAssign vars es _ => chk_targets vars es && forallb chk_exp vars && forallb chk_exp es
    | SLocal nms _ _ es _ => forallb pb nms && forallb chk_exp es
    | SLocalFunc nm _ f _ => pb nm && chk_exp f
    end
  with chk_block (b : block) {struct b} : bool :=
    match b with
    | Block ss ret _ => forallb chk_stat ss && match ret with Some es => forallb chk_exp es | None => true end
    end.
End Chk.

(* the target `_G.nm = ...` / `_G["nm"] = ...` (p = `_G`, k = the key): it assigns the global nm *)
Definition g_is (nm : bytes) (p k : exp) : bool :=
  simple_str (exp_name k) && beq_bytes (exp_name p) (c_bang :: Symbols.s_G) && beq_bytes nm (exp_name k).

(* nm occurs as an assignment target `nm = ...` / `function nm() ... end` / `_G.nm = ...` somewhere in the tree *)
Section Assigns.
  Variable nm : bytes.
  Fixpoint asg_exp (e : exp) {struct e} : bool :=
    match e with
    | EUnop _ e1 _ | EParens e1 _ => asg_exp e1
    | EBinop _ e1 e2 _ | EIndex e1 e2 _ => asg_exp e1 || asg_exp e2
    | ETable ks vs _ => existsb (fun k => match k with Some ke => asg_exp ke | None => false end) ks || existsb asg_exp vs
    | EFunc _ _ _ _ b _ _ _ => asg_block b
    | ECall p _ args _ => asg_exp p || existsb asg_exp args
    | _ => false
    end
  with asg_stat (s : stat) {struct s} : bool :=
    match s with
    | SBreak | SLabel _ _ | SGoto _ _ => false
    | SDo b _ => asg_block b
    | SCall e => asg_exp e
    | SIf es bs _ => existsb asg_exp es || existsb asg_block bs
    | SWhile e b _ | SRepeat b e _ => asg_exp e || asg_block b
    | SForNum _ _ e1 e2 e3 b _ => asg_exp e1 || asg_exp e2 || asg_exp e3 || asg_block b
    | SForIn _ _ es b _ => existsb asg_exp es || asg_block b
    | SAssign vars es _ =>
      existsb (fun t => match t with
                        | EName k _ => beq_bytes nm k
                        | EIndex p k _ => g_is nm p k || asg_exp p || asg_exp k
                        | _ => false
                        end) vars || existsb asg_exp es
    | SLocal _ _ _ es _ => existsb asg_exp es      (* every value is analysed (fixes/C20-local-surplus.diff; before: none
                                                      behind the first value that has no name) *)
    | SLocalFunc _ _ f _ => asg_exp f
    end
  with asg_block (b : block) {struct b} : bool :=
    match b with
    | Block ss ret _ => existsb asg_stat ss || match ret with Some es => existsb asg_exp es | None => false end
    end.

  Definition asg_target (t : exp) : bool :=
    match t with
    | EName k _ => beq_bytes nm k
    | EIndex p k _ => g_is nm p k || asg_exp p || asg_exp k
    | _ => false
    end.
End Assigns.

Lemma asg_stat_local : forall nm nms ls at_ es l,
    asg_stat nm (SLocal nms ls at_ es l) = existsb (asg_exp nm) es.
Proof. reflexivity. Qed.

Lemma asg_stat_repeat : forall nm b e l, asg_stat nm (SRepeat b e l) = asg_exp nm e || asg_block nm b.
Proof. reflexivity. Qed.
Lemma asg_stat_fornum : forall nm n vl e1 e2 e3 b l,
    asg_stat nm (SForNum n vl e1 e2 e3 b l) = asg_exp nm e1 || asg_exp nm e2 || asg_exp nm e3 || asg_block nm b.
Proof. reflexivity. Qed.
Lemma asg_block_unfold : forall nm ss ret l,
    asg_block nm (Block ss ret l) =
    existsb (asg_stat nm) ss || match ret with Some es => existsb (asg_exp nm) es | None => false end.
Proof. reflexivity. Qed.

Lemma combine_existsb : forall {A B} (f : A -> bool) (g : B -> bool) l1 l2,
    length l1 = length l2 -> existsb f l1 || existsb g l2 = true ->
    existsb (fun ab => f (fst ab) || g (snd ab)) (combine l1 l2) = true.
Proof.
  intros A B f g l1. induction l1 as [|a l1 IH]; intros [|b l2] Hlen H; cbn in *; try discriminate; try lia.
  injection Hlen as Hlen. specialize (IH l2 Hlen). lia.
Qed.

(* ------------------------------------------------------------------ association lists *)
Lemma assoc_mem_set : forall {A} k k' (a : A) l, assoc_mem k (assoc_set k' a l) = assoc_mem k l || beq_bytes k k'.
Proof.
  intros A k k' a l. unfold assoc_mem. destruct (beq_bytes k k') eqn:E.
  - apply beq_bytes_eq in E. subst k'. rewrite assoc_get_set_same. rewrite orb_true_r. reflexivity.
  - rewrite (assoc_get_set_other _ _ _ _ E). rewrite orb_false_r. reflexivity.
Qed.

Lemma assoc_set_in : forall {A} k (x : A) nm a l, In (k, x) (assoc_set nm a l) -> In (k, x) l \/ (k = nm /\ x = a).
Proof.
  intros A k x nm a l. induction l as [|[k' a'] l IH]; intros H; cbn [assoc_set] in H.
  - destruct H as [H|[]]. injection H as <- <-. right; auto.
  - destruct (beq_bytes nm k') eqn:E.
    + apply beq_bytes_eq in E. subst k'. destruct H as [H|H]; [injection H as <- <-; right; auto | left; right; exact H].
    + destruct H as [H|H]; [left; left; exact H|]. destruct (IH H) as [H1|H1]; [left; right; exact H1 | right; exact H1].
Qed.

Lemma assoc_set_keys_present : forall {A} nm (a a0 : A) l,
    assoc_get nm l = Some a0 -> map fst (assoc_set nm a l) = map fst l.
Proof.
  intros A nm a a0 l. induction l as [|[k' a'] l IH]; intros H; cbn [assoc_get] in H; [discriminate|].
  cbn [assoc_set]. destruct (beq_bytes nm k'); cbn [map fst]; [reflexivity|]. rewrite IH; auto.
Qed.

Lemma assoc_set_keys_in : forall {A} nm (a : A) l k, In k (map fst (assoc_set nm a l)) -> In k (map fst l) \/ k = nm.
Proof.
  intros A nm a l k H. apply in_map_iff in H. destruct H as [[k0 x] [<- H]]. apply assoc_set_in in H.
  destruct H as [H|[H _]]; [left; apply in_map_iff; exists (k0, x); auto | right; exact H].
Qed.

Lemma assoc_get_none_keys : forall {A} nm (l : list (bytes * A)), ~ In nm (map fst l) -> assoc_get nm l = None.
Proof.
  intros A nm l. induction l as [|[k a] l IH]; intros H; [reflexivity|]. cbn [assoc_get].
  destruct (beq_bytes nm k) eqn:E.
  - apply beq_bytes_eq in E. subst k. exfalso. apply H. left; reflexivity.
  - apply IH. intros Hin. apply H. right; exact Hin.
Qed.

Lemma skipn_nth : forall {A} (l : list A) i,
    skipn i l = match nth_error l i with Some e => e :: skipn (S i) l | None => [] end.
Proof.
  intros A l. induction l as [|a l IH]; intros i; destruct i; cbn [skipn nth_error]; try reflexivity.
  rewrite IH. destruct (nth_error l i); reflexivity.
Qed.

(* ------------------------------------------------------------------ the invariants *)
Section Inv.
  Variable pb : bytes -> bool.
  Variable pt : gtriple -> bool.

  Definition frame_keys_ok (fr : scope) : Prop := forall k, In k (map fst (s_vars fr)) -> pb k = true.
  Definition Kinv (s : state) : Prop := Forall frame_keys_ok (env s).
  Definition gtrip (kv : bytes * vinfo) : gtriple := (fst kv, v_loc (snd kv), option_map f_loc (v_func (snd kv))).
  Definition Ginv (s : state) : Prop := forall kv, In kv (globs s) -> pt (gtrip kv) = true.
  Definition pre (s : state) : Prop := Kinv s /\ Ginv s.
  Definition mono (s s' : state) : Prop := forall k, assoc_mem k (globs s) = true -> assoc_mem k (globs s') = true.
  Definition done (s' : state) (A : bytes -> bool) : Prop :=
    forall k, pb k = false -> A k = true -> assoc_mem k (globs s') = true.
  Definition post (s s' : state) (A : bytes -> bool) : Prop := pre s' /\ mono s s' /\ done s' A.

  Definition nobody : bytes -> bool := fun _ => false.

  Lemma post_refl : forall s, pre s -> post s s nobody.
  Proof. intros s H. split; [exact H|]. split; [intros k Hk; exact Hk | intros k _ Hk; discriminate]. Qed.

  Lemma post_pre : forall s s' A, post s s' A -> pre s'.
  Proof. intros s s' A [H _]. exact H. Qed.

  Lemma post_seq : forall s s1 s2 A1 A2, post s s1 A1 -> post s1 s2 A2 -> post s s2 (fun k => A1 k || A2 k).
  Proof.
    intros s s1 s2 A1 A2 [P1 [M1 D1]] [P2 [M2 D2]]. split; [exact P2|]. split.
    - intros k Hk. apply M2, M1, Hk.
    - intros k Hb Hk. apply orb_prop in Hk. destruct Hk as [Hk|Hk]; [apply M2, D1; assumption | apply D2; assumption].
  Qed.

  Lemma post_weak : forall s s' A A', post s s' A -> (forall k, A' k = true -> A k = true) -> post s s' A'.
  Proof. intros s s' A A' [P [M D]] H. split; [exact P|]. split; [exact M|]. intros k Hb Hk. apply D; auto. Qed.

  (* a step that keeps the global table *)
  Lemma post_same_globs : forall s s', pre s -> Kinv s' -> globs s' = globs s -> post s s' nobody.
  Proof.
    intros s s' [HK HG] HK' Hg. split; [split; [exact HK'|]|split].
    - unfold Ginv. rewrite Hg. exact HG.
    - unfold mono. rewrite Hg. auto.
    - intros k _ Hk. discriminate.
  Qed.

  Lemma post_iter : forall {X} (f : X -> state -> Res state) (A : X -> bytes -> bool) l s s',
      (forall x s0 s1, In x l -> pre s0 -> f x s0 = Ok s1 -> post s0 s1 (A x)) ->
      pre s -> iter_res f l s = Ok s' -> post s s' (fun k => existsb (fun x => A x k) l).
  Proof.
    intros X f A l. induction l as [|x l IH]; intros s s' Hf Hs H; cbn [iter_res] in H.
    - injection H as <-. apply post_refl. exact Hs.
    - inv_bind H. assert (H1 : post s a (A x)) by (eapply Hf; eauto; left; reflexivity).
      assert (H2 : post a s' (fun k => existsb (fun x => A x k) l)).
      { apply IH; [|exact (post_pre _ _ _ H1)|exact H]. intros; eapply Hf; eauto. right; assumption. }
      eapply post_weak; [exact (post_seq _ _ _ _ _ H1 H2)|]. intros k Hk. exact Hk.
  Qed.

  (* ---------------------------------------------------------------- primitives *)
  Lemma add_var_scope_keys : forall nm v fr, pb nm = true -> frame_keys_ok fr -> frame_keys_ok (add_var_scope nm v fr).
  Proof.
    intros nm v [f vars subs] Hnm Hfr k Hk. cbn [add_var_scope s_vars] in Hk.
    apply assoc_set_keys_in in Hk. destruct Hk as [Hk| ->]; [apply Hfr; exact Hk | exact Hnm].
  Qed.

  Lemma add_loc_var_K : forall nm v s, pb nm = true -> Kinv s -> Kinv (add_loc_var nm v s).
  Proof.
    intros nm v s Hnm HK. unfold add_loc_var, Kinv in *. destruct (env s) as [|fr rest] eqn:E; [rewrite E; exact HK|].
    inversion HK as [|? ? H1 H2]; subst. cbn [env]. constructor; [apply add_var_scope_keys; assumption | exact H2].
  Qed.

  Lemma add_loc_var_post : forall nm v s, pb nm = true -> pre s -> post s (add_loc_var nm v s) nobody.
  Proof.
    intros nm v s Hnm Hs. apply post_same_globs; [exact Hs | apply add_loc_var_K; [exact Hnm | apply Hs] |].
    unfold add_loc_var. destruct (env s); reflexivity.
  Qed.

  Definition keeps (f : vinfo -> vinfo) : Prop := forall v, v_loc (f v) = v_loc v /\ v_func (f v) = v_func v.

  Lemma update_var_post : forall r f s, keeps f -> pre s -> post s (update_var r f s) nobody.
  Proof.
    intros r f s Hf [HK HG]. destruct r as [d nm i|nm|nm]; cbn [update_var].
    - apply post_same_globs; [split; assumption | | reflexivity]. unfold Kinv in *. cbn [env].
      apply upd_nth_Forall; [|exact HK]. intros [fid vars subs] Hfr. destruct (assoc_get nm vars) as [vs|] eqn:E; [|exact Hfr].
      intros k Hk. cbn [s_vars] in Hk. rewrite (assoc_set_keys_present _ _ _ _ E) in Hk. apply Hfr. exact Hk.
    - destruct (assoc_get nm (globs s)) as [v|] eqn:E; [|apply post_same_globs; [split; assumption | exact HK | reflexivity]].
      split; [split; [exact HK|]|split].
      + intros [k x] Hin. cbn [globs] in Hin. apply assoc_set_in in Hin. destruct Hin as [Hin|[-> ->]]; [apply HG; exact Hin|].
        apply assoc_get_key in E. specialize (HG _ E). unfold gtrip in *. cbn [fst snd] in *.
        destruct (Hf v) as [-> ->]. exact HG.
      + intros k Hk. cbn [globs]. rewrite assoc_mem_set, Hk. reflexivity.
      + intros k _ Hk. discriminate.
    - apply post_same_globs; [split; assumption | exact HK | reflexivity].
  Qed.

  Lemma note_nodefine_post : forall nm l s, pre s -> post s (note_nodefine nm l s) nobody.
  Proof.
    intros nm l s Hs. apply post_same_globs; [exact Hs | |].
    - unfold Kinv. rewrite esig_note_nodefine. apply Hs.
    - unfold note_nodefine. destruct (find_loc_var (env s) nm l 0); [reflexivity|].
      destruct (assoc_mem nm (globs s) || assoc_mem nm (nodefs s)); reflexivity.
  Qed.

  Lemma note_G_post : forall p k s, pre s -> post s (note_G p k s) nobody.
  Proof.
    intros p k s Hs. unfold note_G. destruct p; try (apply post_refl; exact Hs). destruct k; try (apply post_refl; exact Hs).
    destruct (_ && _); [apply note_nodefine_post; exact Hs | apply post_refl; exact Hs].
  Qed.

  Lemma pop_scope_post : forall s s', pre s -> pop_scope s = Ok s' -> post s s' nobody.
  Proof.
    intros s s' [HK HG] H. unfold pop_scope in H. destruct (env s) as [|fr [|[fid vars subs] rest]] eqn:E; try discriminate.
    injection H as <-. apply post_same_globs; [split; assumption | | reflexivity].
    unfold Kinv in *. rewrite E in HK. cbn [env]. inversion HK as [|? ? H1 H2]; subst. inversion H2 as [|? ? H3 H4]; subst.
    constructor; [exact H3 | exact H4].
  Qed.

  Lemma push_frame_post : forall fr s, frame_keys_ok fr -> pre s ->
                                       post s (mkSt (fr :: env s) (globs s) (nodefs s) (nextf s)) nobody.
  Proof.
    intros fr s Hfr [HK HG]. apply post_same_globs; [split; assumption | | reflexivity].
    unfold Kinv. cbn [env]. constructor; assumption.
  Qed.

  (* post composed with a step that has nothing to contribute *)
  Lemma post_then : forall s s1 s2 A, post s s1 A -> post s1 s2 nobody -> post s s2 A.
  Proof.
    intros s s1 s2 A H1 H2. eapply post_weak; [exact (post_seq _ _ _ _ _ H1 H2)|]. intros k Hk. cbv beta. rewrite Hk. reflexivity.
  Qed.
  Lemma post_after : forall s s1 s2 A, post s s1 nobody -> post s1 s2 A -> post s s2 A.
  Proof.
    intros s s1 s2 A H1 H2. eapply post_weak; [exact (post_seq _ _ _ _ _ H1 H2)|]. intros k Hk. cbv beta. unfold nobody. cbn [orb]. exact Hk.
  Qed.

  Lemma scoped_post : forall f s s' A,
      (forall s0 s1, pre s0 -> f s0 = Ok s1 -> post s0 s1 A) -> pre s -> scoped f s = Ok s' -> post s s' A.
  Proof.
    intros f s s' A Hf Hs H. unfold scoped in H. inv_bind H.
    assert (H0 : post s (push_scope None [] s) nobody).
    { apply push_frame_post; [|exact Hs]. intros k Hk. destruct Hk. }
    assert (H1 : post (push_scope None [] s) a A) by (apply Hf; [exact (post_pre _ _ _ H0) | exact Hb]).
    eapply post_then; [exact (post_after _ _ _ _ H0 H1)|]. apply pop_scope_post; [exact (post_pre _ _ _ H1) | exact H].
  Qed.

  Lemma find_loc_var_none : forall e nm l d, Forall frame_keys_ok e -> pb nm = false -> find_loc_var e nm l d = None.
  Proof.
    induction e as [|fr e IH]; intros nm l d HK Hnm; [reflexivity|]. inversion HK as [|? ? H1 H2]; subst.
    cbn [find_loc_var]. rewrite (assoc_get_none_keys nm (s_vars fr)); [apply IH; assumption|].
    intros Hin. apply H1 in Hin. congruence.
  Qed.

  Lemma find_global_mem : forall nm flv slv l g v, find_global nm flv slv l g = Some v -> assoc_mem nm g = true.
  Proof.
    intros nm flv slv l g v H. unfold find_global in H. unfold assoc_mem. destruct (assoc_get nm g); [reflexivity | discriminate].
  Qed.

  Lemma member_assign_keeps : forall keys j locl l nw, keeps (member_assign keys j locl l nw).
  Proof.
    intros keys j locl l nw v. destruct keys as [|k rest]; [split; reflexivity|]. destruct v as [vl vf vs vp vg vr ve].
    cbn [member_assign]. destruct (assoc_get k vs); [split; reflexivity|]. destruct rest; split; reflexivity.
  Qed.

  Lemma param_vars_keys : forall pars plocs acc,
      forallb pb pars = true -> frame_keys_ok acc -> frame_keys_ok (param_vars pars plocs acc).
  Proof.
    induction pars as [|p pars IH]; intros plocs acc Hp Ha; cbn [param_vars]; [exact Ha|].
    destruct plocs as [|l plocs]; [exact Ha|]. cbn [forallb] in Hp. apply andb_prop in Hp. destruct Hp as [Hp1 Hp2].
    apply IH; [exact Hp2|]. apply add_var_scope_keys; assumption.
  Qed.

  (* ---------------------------------------------------------------- statements, for an abstract cgExp *)
  Definition ce_g (ce : exp -> pvar -> state -> Res r3) : Prop :=
    forall e pv s s' ofn pv', chk_exp pb pt e = true -> pre s -> ce e pv s = Ok (s', ofn, pv') ->
                              post s s' (fun k => asg_exp k e).

  Section StatG.
    Variable ce : exp -> pvar -> state -> Res r3.
    Variable flv slv : N.
    Hypothesis Hce : ce_g ce.
    Hypothesis Hsig : ce_sig ce.

    Lemma ce_nil_post : forall e s s', chk_exp pb pt e = true -> pre s -> ce_nil ce e s = Ok s' -> post s s' (fun k => asg_exp k e).
    Proof.
      intros e s s' He Hs H. unfold ce_nil in H. apply drop3_ok in H. destruct H as [f [p H]].
      eapply Hce in H; eauto.
    Qed.


    Lemma cg_table_post : forall ks vs pv s s' pv',
        length ks = length vs ->
        forallb (fun k => match k with Some ke => chk_exp pb pt ke | None => true end) ks = true ->
        forallb (chk_exp pb pt) vs = true -> pre s ->
        cg_table ce ks vs pv s = Ok (s', pv') ->
        post s s' (fun k => existsb (fun ko => match ko with Some ke => asg_exp k ke | None => false end) ks
                            || existsb (asg_exp k) vs).
    Proof.
      induction ks as [|k0 ks IH]; intros vs pv s s' pv' Hlen Hks Hvs Hs H.
      - destruct vs; [|discriminate]. cbn [cg_table] in H. injection H as <- <-.
        eapply post_weak; [apply post_refl; exact Hs|]. intros k Hk. cbn in Hk. discriminate.
      - destruct vs as [|v vs]; [discriminate|]. injection Hlen as Hlen.
        cbn [forallb] in Hks, Hvs. apply andb_prop in Hks. destruct Hks as [Hk0 Hks].
        apply andb_prop in Hvs. destruct Hvs as [Hv Hvs].
        destruct k0 as [ke|].
        + rewrite cg_table_some in H. inv_bind H. pose proof (ce_nil_post _ _ _ Hk0 Hs Hb) as P1.
          inv_bind H. destruct a0 as [[s2 ofn] sub].
          pose proof (Hce _ _ _ _ _ _ Hv (post_pre _ _ _ P1) Hb0) as P2.
          pose proof (IH _ _ _ _ _ Hlen Hks Hvs (post_pre _ _ _ P2) H) as P3.
          eapply post_weak; [exact (post_seq _ _ _ _ _ (post_seq _ _ _ _ _ P1 P2) P3)|].
          intros k Hk. cbn [existsb] in Hk. lia.
        + cbn [cg_table] in H. inv_bind H. pose proof (ce_nil_post _ _ _ Hv Hs Hb) as P1.
          pose proof (IH _ _ _ _ _ Hlen Hks Hvs (post_pre _ _ _ P1) H) as P3.
          eapply post_weak; [exact (post_seq _ _ _ _ _ P1 P3)|].
          intros k Hk. cbn [existsb] in Hk. lia.
    Qed.

    Lemma add_plain_locals_post : forall names locs r em s,
        forallb pb names = true -> pre s -> post s (add_plain_locals names locs r em s) nobody.
    Proof.
      induction names as [|nm names IH]; intros locs r em s Hn Hs; cbn [add_plain_locals]; [apply post_refl; exact Hs|].
      destruct locs as [|l locs]; [apply post_refl; exact Hs|].
      cbn [forallb] in Hn. apply andb_prop in Hn. destruct Hn as [Hn1 Hn2].
      pose proof (add_loc_var_post nm (VI l None [] false None r em) s Hn1 Hs) as P1.
      eapply post_after; [exact P1|]. apply IH; [exact Hn2 | exact (post_pre _ _ _ P1)].
    Qed.

    Lemma local_eval_post : forall es names locs s s1 rs,
        forallb (chk_exp pb pt) es = true -> pre s ->
        local_eval ce names locs es s = Ok (s1, rs) ->
        post s s1 (fun k => existsb (asg_exp k) es).
    Proof.
      induction es as [|e es IH]; intros names locs s s1 rs Hes Hs H.
      - cbn [local_eval] in H. injection H as <- <-.
        eapply post_weak; [apply post_refl; exact Hs | intros k Hk; discriminate].
      - cbn [forallb] in Hes. apply andb_prop in Hes. destruct Hes as [He Hes].
        cbn [local_eval] in H. inv_bind H. destruct a as [[s2 ofn] sub]. pose proof (Hce _ _ _ _ _ _ He Hs Hb) as P1.
        destruct names as [|nm names]; [|destruct locs as [|l locs]];
          (inv_bind H; destruct a as [s3 rs0]; injection H as <- <-;
           pose proof (IH _ _ _ _ _ Hes (post_pre _ _ _ P1) Hb0) as P2;
           eapply post_weak; [exact (post_seq _ _ _ _ _ P1 P2)|];
           intros k Hk; cbn [existsb] in Hk; exact Hk).
    Qed.

    Lemma local_adds_post : forall es names locs rs s s' rn rl flag,
        forallb pb names = true -> pre s ->
        local_adds names locs es rs s = (s', rn, rl, flag) -> post s s' nobody /\ forallb pb rn = true.
    Proof.
      induction es as [|e es IH]; intros names locs rs s s' rn rl flag Hn Hs H.
      - cbn [local_adds] in H. injection H as <- <- <- <-. split; [apply post_refl; exact Hs|exact Hn].
      - cbn [local_adds] in H.
        destruct rs as [|[ofn sub] rs']; [injection H as <- <- <- <-; split; [apply post_refl; exact Hs|reflexivity]|].
        destruct names as [|nm names]; [injection H as <- <- <- <-; split; [apply post_refl; exact Hs|reflexivity]|].
        destruct locs as [|l locs]; [injection H as <- <- <- <-; split; [apply post_refl; exact Hs|reflexivity]|].
        cbn [forallb] in Hn. apply andb_prop in Hn. destruct Hn as [Hn1 Hn2].
        match type of H with context [local_adds _ _ _ _ (add_loc_var ?n ?v _)] =>
          pose proof (add_loc_var_post n v s Hn1 Hs) as P2 end.
        destruct (local_adds names locs es rs' _) as [[[s3 rn0] rl0] flag0] eqn:E.
        injection H as <- <- <- <-.
        destruct (IH _ _ _ _ _ _ _ _ Hn2 (post_pre _ _ _ P2) E) as [P3 Hrn]. split; [|exact Hrn].
        eapply post_after; [exact P2|exact P3].
    Qed.

    Lemma local_loop_post : forall es names locs s s' rn rl flag,
        forallb pb names = true -> forallb (chk_exp pb pt) es = true -> pre s ->
        local_loop ce names locs es s = Ok (s', rn, rl, flag) ->
        post s s' (fun k => existsb (asg_exp k) es) /\ forallb pb rn = true.
    Proof.
      intros es names locs s s' rn rl flag Hn Hes Hs H. unfold local_loop in H. inv_bind H. destruct a as [s1 rs].
      injection H as H. pose proof (local_eval_post _ _ _ _ _ _ Hes Hs Hb) as P1.
      destruct (local_adds_post _ _ _ _ _ _ _ _ _ Hn (post_pre _ _ _ P1) H) as [P2 Hrn].
      split; [exact (post_then _ _ _ _ P1 P2)|exact Hrn].
    Qed.

    Lemma cg_local_post : forall names locs es s s',
        forallb pb names = true -> forallb (chk_exp pb pt) es = true -> pre s ->
        cg_local ce names locs es s = Ok s' -> post s s' (fun k => existsb (asg_exp k) es).
    Proof.
      intros names locs es s s' Hn Hes Hs H. unfold cg_local in H. inv_bind H. destruct a as [[[s1 rn] rl] flag].
      ok_inj H. destruct (local_loop_post _ _ _ _ _ _ _ _ Hn Hes Hs Hb) as [P1 Hrn].
      eapply post_then; [exact P1|]. apply add_plain_locals_post; [exact Hrn | exact (post_pre _ _ _ P1)].
    Qed.

    Lemma assign_one_post : forall t oe ofn sub lastcall s s',
        match tgt_sig t oe with Some x => pt x = true | None => True end ->
        chk_exp pb pt t = true -> option_map f_loc ofn = val_loc oe -> pre s ->
        assign_one ce flv slv t oe ofn sub lastcall s = Ok s' -> post s s' (fun k => asg_target k t).
    Proof.
      intros t oe ofn sub lastcall s s' Hpt Ht Hofn Hs H.
      assert (Hrefill : forall (r : varref) (fe : bool) (re : refk -> refk),
                 post s (update_var r (fun v0 => match v0 with VI l f _ p g r0 _ => VI l f sub p g (re r0) fe end) s) nobody).
      { intros r fe re. apply update_var_post; [|exact Hs]. intros [l f s1 p g r0 e0]. split; reflexivity. }
      destruct t; try (cbn [assign_one] in H; ok_inj H; eapply post_weak; [apply post_refl; exact Hs | intros k Hk; discriminate]).
      - (* EName *)
        cbn [assign_one] in H. cbn [tgt_sig] in Hpt. cbn [asg_target].
        assert (Hk : forall k, beq_bytes k n = true -> k = n) by (intros k Hk; apply beq_bytes_eq; exact Hk).
        destruct (find_loc_var (env s) n l 0) as [[[d i] v]|] eqn:Ef.
        + assert (P : post s s' nobody).
          { ok_inj H. destruct (v_empty v && _); [apply Hrefill | apply post_refl; exact Hs]. }
          destruct P as [P1 [P2 _]]. split; [exact P1|]. split; [exact P2|].
          intros k Hb Hkn. apply Hk in Hkn. subst k.
          rewrite (find_loc_var_none _ _ _ _ (proj1 Hs) Hb) in Ef. discriminate.
        + destruct (find_global n flv slv l (globs s)) as [v|] eqn:Eg.
          * assert (P : post s s' nobody).
            { ok_inj H. destruct (v_empty v && _); [apply Hrefill | apply post_refl; exact Hs]. }
            destruct P as [P1 [P2 _]]. split; [exact P1|]. split; [exact P2|].
            intros k Hb Hkn. apply Hk in Hkn. subst k. apply P2. eapply find_global_mem; exact Eg.
          * ok_inj H. destruct Hs as [HK HG]. split; [split; [exact HK|]|split].
            -- intros [k x] Hin. cbn [globs] in Hin. apply assoc_set_in in Hin.
               destruct Hin as [Hin|[-> ->]]; [apply HG; exact Hin|].
               unfold gtrip. cbn [fst snd v_loc v_func]. rewrite Hofn. exact Hpt.
            -- intros k Hkm. cbn [globs]. rewrite assoc_mem_set, Hkm. reflexivity.
            -- intros k Hb Hkn. cbn [globs]. rewrite assoc_mem_set, Hkn. apply orb_true_r.
      - (* EIndex *)
        cbn [assign_one] in H. cbn [chk_exp] in Ht. apply andb_prop in Ht. destruct Ht as [Hp Hk]. cbn [asg_target].
        inv_bind H. pose proof (ce_nil_post _ _ _ Hp Hs Hb) as P1.
        inv_bind H. pose proof (ce_nil_post _ _ _ Hk (post_pre _ _ _ P1) Hb0) as P2.
        pose proof (post_seq _ _ _ _ _ P1 P2) as P12.
        cbn [tgt_sig] in Hpt.
        assert (Hfin : post a0 s' (fun k => g_is k t1 t2)).
        { pose proof (post_pre _ _ _ P2) as Hs2.
          destruct (simple_str (exp_name t2)) eqn:ES; cbn [negb andb] in H, Hpt.
          2:{ ok_inj H. eapply post_weak; [apply post_refl; exact Hs2|].
              intros k Hgk. unfold g_is in Hgk. rewrite ES in Hgk. discriminate. }
          destruct (beq_bytes (exp_name t1) (c_bang :: Symbols.s_G)) eqn:EG.
          { (* _G.key = v *)
            assert (Hkey : forall k, g_is k t1 t2 = true -> k = exp_name t2).
            { intros k Hgk. unfold g_is in Hgk. rewrite ES, EG in Hgk. cbn [andb] in Hgk. apply beq_bytes_eq. exact Hgk. }
            destruct (find_global (exp_name t2) flv slv _ (globs a0)) as [v|] eqn:Eg.
            - assert (P : post a0 s' nobody).
              { ok_inj H. destruct (v_empty v && _); [|apply post_refl; exact Hs2].
                apply update_var_post; [|exact Hs2]. intros [l0 f s1 p g r0 e0]. split; reflexivity. }
              destruct P as [Q1 [Q2 _]]. split; [exact Q1|]. split; [exact Q2|].
              intros k Hpb Hkn. apply Hkey in Hkn. subst k. apply Q2. eapply find_global_mem; exact Eg.
            - ok_inj H. destruct Hs2 as [HK HG]. split; [split; [exact HK|]|split].
              + intros [k x] Hin. cbn [globs] in Hin. apply assoc_set_in in Hin.
                destruct Hin as [Hin|[-> ->]]; [apply HG; exact Hin|].
                unfold gtrip. cbn [fst snd v_loc v_func]. rewrite Hofn. exact Hpt.
              + intros k Hkm. cbn [globs]. rewrite assoc_mem_set, Hkm. reflexivity.
              + intros k _ Hk0. apply Hkey in Hk0. subst k. cbn [globs]. rewrite assoc_mem_set, bb_refl. apply orb_true_r. }
          assert (Hno : forall k, g_is k t1 t2 = true -> nobody k = true).
          { intros k Hgk. unfold g_is in Hgk. rewrite ES, EG in Hgk. discriminate. }
          destruct (split_dot (exp_name t1)) as [|p0 ps]; [ok_inj H; eapply post_weak; [apply post_refl; exact Hs2 | exact Hno]|].
          destruct (negb (forallb simple_str ps)); [ok_inj H; eapply post_weak; [apply post_refl; exact Hs2 | exact Hno]|].
          eapply post_weak; [|exact Hno].
          destruct (if beq_bytes (trim_bang p0) Symbols.s_G then ps else []) as [|g0 gs].
          + destruct (find_loc_var (env a0) (trim_bang p0) _ 0) as [[[d i] v]|].
            * ok_inj H. apply update_var_post; [apply member_assign_keeps | exact Hs2].
            * destruct (find_global (trim_bang p0) flv slv _ (globs a0)); ok_inj H;
                (apply update_var_post; [apply member_assign_keeps | exact Hs2]).
          + destruct (find_global g0 flv slv _ (globs a0)); ok_inj H;
              (apply update_var_post; [apply member_assign_keeps | exact Hs2]). }
        eapply post_weak; [exact (post_seq _ _ _ _ _ P12 Hfin)|].
        intros k Hgk. cbv beta. destruct (g_is k t1 t2); [apply orb_true_r|]. rewrite orb_false_r. exact Hgk.
    Qed.

    Lemma nth_error_none_skipn : forall {A} (l : list A) i, nth_error l i = None -> skipn (S i) l = [].
    Proof. intros A l i H. apply nth_error_None in H. apply skipn_all2. lia. Qed.

    Lemma assign_loop_post : forall vars i es lastcall s s',
        chk_targets pt vars (skipn i es) = true -> forallb (chk_exp pb pt) vars = true ->
        forallb (chk_exp pb pt) es = true -> pre s ->
        assign_loop ce flv slv i vars es lastcall s = Ok s' ->
        post s s' (fun k => existsb (asg_target k) vars || existsb (asg_exp k) (firstn (length vars) (skipn i es))).
    Proof.
      induction vars as [|t vars IH]; intros i es lastcall s s' Hct Hv Hes Hs H; cbn [assign_loop] in H.
      - injection H as <-. eapply post_weak; [apply post_refl; exact Hs | intros k Hk; cbn in Hk; discriminate].
      - cbn [forallb] in Hv. apply andb_prop in Hv. destruct Hv as [Ht Hv].
        cbn [chk_targets] in Hct. apply andb_prop in Hct. destruct Hct as [Hct1 Hct2].
        inv_bind H. destruct a as [[s1 ofn] sub]. inv_bind H. cbn [length].
        rewrite (skipn_nth es i) in Hct1, Hct2 |- *.
        destruct (nth_error es i) as [e|] eqn:En.
        + cbn [hd_error tl] in Hct1, Hct2. cbn [firstn existsb].
          assert (He : chk_exp pb pt e = true) by (eapply forallb_In; [exact Hes | eapply nth_error_In; exact En]).
          pose proof (Hce _ _ _ _ _ _ He Hs Hb) as P1.
          assert (Hofn : option_map f_loc ofn = val_loc (Some e)) by (apply Hsig in Hb; destruct Hb as [_ Hb]; exact Hb).
          assert (P2 : post s1 a (fun k => asg_target k t)).
          { eapply assign_one_post; [|exact Ht|exact Hofn|exact (post_pre _ _ _ P1)|exact Hb0].
            destruct (tgt_sig t (Some e)); [exact Hct1 | exact I]. }
          pose proof (IH _ _ _ _ _ Hct2 Hv Hes (post_pre _ _ _ P2) H) as P3.
          eapply post_weak; [exact (post_seq _ _ _ _ _ (post_seq _ _ _ _ _ P1 P2) P3)|].
          intros k Hk. cbn [existsb] in Hk. lia.
        + cbn [hd_error tl] in Hct1, Hct2. cbn [firstn existsb]. injection Hb as <- <- <-.
          assert (P2 : post s a (fun k => asg_target k t)).
          { apply (assign_one_post t None None (sub_of (Some [])) lastcall s a); [|exact Ht|reflexivity|exact Hs|exact Hb0].
            destruct (tgt_sig t None); [exact Hct1 | exact I]. }
          assert (Hct3 : chk_targets pt vars (skipn (S i) es) = true)
            by (rewrite (nth_error_none_skipn _ _ En); exact Hct2).
          pose proof (IH _ _ _ _ _ Hct3 Hv Hes (post_pre _ _ _ P2) H) as P3.
          eapply post_weak; [exact (post_seq _ _ _ _ _ P2 P3)|].
          intros k Hk. cbn [existsb] in Hk. rewrite (nth_error_none_skipn _ _ En). destruct (length vars); cbn; lia.
    Qed.

    Lemma cg_assign_post : forall vars es s s',
        chk_targets pt vars es = true -> forallb (chk_exp pb pt) vars = true ->
        forallb (chk_exp pb pt) es = true -> pre s ->
        cg_assign ce flv slv vars es s = Ok s' ->
        post s s' (fun k => existsb (asg_target k) vars || existsb (asg_exp k) es).
    Proof.
      intros vars es s s' Hct Hv Hes Hs H. unfold cg_assign in H. inv_bind H.
      pose proof (assign_loop_post vars 0 es _ _ _ Hct Hv Hes Hs Hb) as P1. cbn [skipn] in P1.
      assert (P2 : post a s' (fun k => existsb (fun e => asg_exp k e) (skipn (length vars) es))).
      { eapply (post_iter (ce_nil ce) (fun e k => asg_exp k e)); [|exact (post_pre _ _ _ P1)|exact H].
        intros e s0 s1 Hin Hs0 He. eapply ce_nil_post; [|exact Hs0|exact He].
        eapply forallb_In; [exact Hes|]. rewrite <- (firstn_skipn (length vars) es). apply in_or_app. right. exact Hin. }
      eapply post_weak; [exact (post_seq _ _ _ _ _ P1 P2)|].
      intros k Hk. cbv beta.
      assert (E : existsb (asg_exp k) es =
                  existsb (asg_exp k) (firstn (length vars) es) || existsb (asg_exp k) (skipn (length vars) es))
        by (rewrite <- existsb_app, firstn_skipn; reflexivity).
      rewrite E in Hk. change (fun e : exp => asg_exp k e) with (asg_exp k). lia.
    Qed.
  End StatG.

  (* ---------------------------------------------------------------- the whole analysis *)
  Definition exp_g (n : nat) : Prop := forall flv slv, ce_g (cg_exp n flv slv).
  Definition func_g (n : nat) : Prop :=
    forall flv e s s' fi, chk_exp pb pt e = true -> pre s -> cg_func n flv e s = Ok (s', fi) -> post s s' (fun k => asg_exp k e).
  Definition stat_g (n : nat) : Prop :=
    forall flv slv st s s', chk_stat pb pt st = true -> pre s -> cg_stat n flv slv st s = Ok s' -> post s s' (fun k => asg_stat k st).
  Definition block_g (n : nat) : Prop :=
    forall flv slv b s s', chk_block pb pt b = true -> pre s -> cg_block n flv slv b s = Ok s' -> post s s' (fun k => asg_block k b).

  Lemma all_g : forall n, exp_g n /\ func_g n /\ stat_g n /\ block_g n.
  Proof.
    induction n as [|n [IHe [IHf [IHs IHb]]]].
    - repeat split; repeat intro; cbn in *; discriminate.
    - assert (Hnil : forall flv slv e s s', chk_exp pb pt e = true -> pre s ->
                                            drop3 (cg_exp n flv slv e None s) = Ok s' -> post s s' (fun k => asg_exp k e)).
      { intros flv slv e s s' He Hs H. apply drop3_ok in H. destruct H as [f [p H]]. eapply IHe; eauto. }
      assert (Hnils : forall flv slv es s s', forallb (chk_exp pb pt) es = true -> pre s ->
                        iter_res (fun e1 s1 => drop3 (cg_exp n flv slv e1 None s1)) es s = Ok s' ->
                        post s s' (fun k => existsb (asg_exp k) es)).
      { intros flv slv es s s' Hes Hs H.
        eapply (post_iter (fun e1 s1 => drop3 (cg_exp n flv slv e1 None s1)) (fun e k => asg_exp k e)); [|exact Hs|exact H].
        intros e s0 s1 Hin Hs0 He. eapply Hnil; [|exact Hs0|exact He]. eapply forallb_In; eauto. }
      pose proof (proj1 (all_sig n)) as Hsig.
      split; [|split; [|split]].
      + (* cg_exp *)
        intros flv slv e pv s s' ofn pv' He Hs H. cbn [cg_exp] in H.
        destruct e; cbn [chk_exp] in He; cbn [asg_exp];
          try (injection H as <- <- <-; eapply post_weak; [apply post_refl; exact Hs | intros k Hk; discriminate]).
        * (* EUnop *) inv_bind H. injection H as <- <- <-. eapply Hnil; eauto.
        * (* EBinop *)
          apply andb_prop in He. destruct He as [He1 He2].
          inv_bind H. destruct a as [[s1 f1] pv1]. pose proof (IHe _ _ _ _ _ _ _ _ He1 Hs Hb) as P1.
          inv_bind H. destruct a as [[s2 f2] pv2]. pose proof (IHe _ _ _ _ _ _ _ _ He2 (post_pre _ _ _ P1) Hb0) as P2.
          injection H as <- <- <-. exact (post_seq _ _ _ _ _ P1 P2).
        * (* ETable *)
          apply andb_prop in He. destruct He as [He Hvs]. apply andb_prop in He. destruct He as [Hlen Hks].
          apply Nat.eqb_eq in Hlen.
          inv_bind H. destruct a as [s1 pv1]. injection H as <- <- <-.
          eapply (cg_table_post _ (IHe flv slv)); eauto.
        * (* EFunc *)
          inv_bind H. destruct a as [s1 fi]. injection H as <- <- <-.
          assert (He' : chk_exp pb pt (EFunc cls fname pars parlocs b l vararg colon) = true) by exact He.
          exact (IHf _ _ _ _ _ He' Hs Hb).
        * (* EName *)
          injection H as <- <- <-. eapply post_weak; [apply note_nodefine_post; exact Hs | intros k Hk; discriminate].
        * (* EParens *)
          inv_bind H. destruct a as [[s1 f1] pv1]. injection H as <- <- <-. eapply IHe; eauto.
        * (* EIndex *)
          apply andb_prop in He. destruct He as [He1 He2].
          inv_bind H. inv_bind H. injection H as <- <- <-.
          pose proof (Hnil _ _ _ _ _ He1 Hs Hb) as P1. pose proof (Hnil _ _ _ _ _ He2 (post_pre _ _ _ P1) Hb0) as P2.
          eapply post_then; [exact (post_seq _ _ _ _ _ P1 P2) | apply note_G_post; exact (post_pre _ _ _ P2)].
        * (* ECall *)
          apply andb_prop in He. destruct He as [Hp Hargs].
          inv_bind H. inv_bind H. injection H as <- <- <-.
          pose proof (Hnil _ _ _ _ _ Hp Hs Hb) as P1. pose proof (Hnils _ _ _ _ _ Hargs (post_pre _ _ _ P1) Hb0) as P2.
          exact (post_seq _ _ _ _ _ P1 P2).
      + (* cg_func *)
        intros flv e s s' fi He Hs H. cbn [cg_func] in H. destruct e; try discriminate.
        cbn [chk_exp] in He. apply andb_prop in He. destruct He as [Hpars Hblk]. cbn [asg_exp].
        destruct (negb (Nat.eqb (length pars) (length parlocs))); [discriminate|].
        inv_bind H. inv_bind H. injection H as <- <-.
        match type of Hb with cg_block _ _ _ _ (mkSt (?fr :: _) _ _ ?nf) = _ =>
          assert (P0 : post s (mkSt (fr :: env s) (globs s) (nodefs s) nf) nobody) end.
        { apply post_same_globs; [exact Hs | | reflexivity]. unfold Kinv. cbn [env]. constructor; [|apply Hs].
          apply param_vars_keys; [exact Hpars|]. intros k Hk. destruct Hk. }
        pose proof (IHb _ _ _ _ _ Hblk (post_pre _ _ _ P0) Hb) as P1.
        eapply post_then; [exact (post_after _ _ _ _ P0 P1)|]. apply pop_scope_post; [exact (post_pre _ _ _ P1) | exact Hb0].
      + (* cg_stat *)
        intros flv slv st s s' Hst Hs H. cbn [cg_stat] in H.
        assert (Hblk1 : forall b s0 s1, chk_block pb pt b = true -> pre s0 -> cg_block n flv (N.succ slv) b s0 = Ok s1 ->
                                        post s0 s1 (fun k => asg_block k b))
          by (intros; eapply IHb; eauto).
        destruct st; cbn [chk_stat] in Hst;
          try (injection H as <-; eapply post_weak; [apply post_refl; exact Hs | intros k Hk; cbn in Hk; discriminate]).
        * (* SDo *) eapply scoped_post; [|exact Hs|exact H]. intros; eapply Hblk1; eauto.
        * (* SCall *) eapply Hnil; eauto.
        * (* SIf *)
          apply andb_prop in Hst. destruct Hst as [Hst Hbs]. apply andb_prop in Hst. destruct Hst as [Hlen Hes].
          apply Nat.eqb_eq in Hlen.
          eapply post_weak.
          -- eapply (post_iter _ (fun eb k => asg_exp k (fst eb) || asg_block k (snd eb))); [|exact Hs|exact H].
             intros [e0 b0] s0 s1 Hin Hs0 H0. cbn [fst snd] in H0 |- *. inv_bind H0.
             pose proof (in_combine_l _ _ _ _ Hin) as Hin1. pose proof (in_combine_r _ _ _ _ Hin) as Hin2.
             pose proof (Hnil _ _ _ _ _ (forallb_In _ _ _ Hes Hin1) Hs0 Hb) as P1.
             assert (P2 : post a s1 (fun k => asg_block k b0)).
             { eapply scoped_post; [|exact (post_pre _ _ _ P1)|exact H0].
               intros; eapply Hblk1; eauto. eapply forallb_In; eauto. }
             exact (post_seq _ _ _ _ _ P1 P2).
          -- intros k Hk. apply (combine_existsb (asg_exp k) (asg_block k) es bs Hlen Hk).
        * (* SWhile *)
          apply andb_prop in Hst. destruct Hst as [He Hblk]. inv_bind H.
          pose proof (Hnil _ _ _ _ _ He Hs Hb) as P1.
          assert (P2 : post a s' (fun k => asg_block k b)).
          { eapply scoped_post; [|exact (post_pre _ _ _ P1)|exact H]. intros; eapply Hblk1; eauto. }
          exact (post_seq _ _ _ _ _ P1 P2).
        * (* SRepeat *)
          apply andb_prop in Hst. destruct Hst as [He Hblk].
          eapply scoped_post; [|exact Hs|exact H]. intros s0 s1 Hs0 H0. inv_bind H0.
          pose proof (Hblk1 _ _ _ Hblk Hs0 Hb) as P1.
          pose proof (Hnil _ _ _ _ _ He (post_pre _ _ _ P1) H0) as P2.
          eapply post_weak; [exact (post_seq _ _ _ _ _ P1 P2)|]. intros k Hk. rewrite asg_stat_repeat in Hk.
          cbv beta in Hk |- *. lia.
        * (* SForNum *)
          apply andb_prop in Hst. destruct Hst as [Hst Hblk]. apply andb_prop in Hst. destruct Hst as [Hst He3].
          apply andb_prop in Hst. destruct Hst as [Hst He2]. apply andb_prop in Hst. destruct Hst as [Hnm He1].
          eapply scoped_post; [|exact Hs|exact H]. intros s0 s1 Hs0 H0. inv_bind H0. inv_bind H0. inv_bind H0.
          pose proof (Hnil _ _ _ _ _ He1 Hs0 Hb) as P1.
          pose proof (Hnil _ _ _ _ _ He2 (post_pre _ _ _ P1) Hb0) as P2.
          pose proof (Hnil _ _ _ _ _ He3 (post_pre _ _ _ P2) Hb1) as P3.
          match type of H0 with cg_block _ _ _ _ (add_loc_var ?nm ?v _) = _ =>
            pose proof (add_loc_var_post nm v _ Hnm (post_pre _ _ _ P3)) as P4 end.
          pose proof (Hblk1 _ _ _ Hblk (post_pre _ _ _ P4) H0) as P5.
          eapply post_weak;
            [exact (post_seq _ _ _ _ _ (post_then _ _ _ _ (post_seq _ _ _ _ _ (post_seq _ _ _ _ _ P1 P2) P3) P4) P5)|].
          intros k Hk. rewrite asg_stat_fornum in Hk. cbv beta in Hk |- *. lia.
        * (* SForIn *)
          apply andb_prop in Hst. destruct Hst as [Hst Hblk]. apply andb_prop in Hst. destruct Hst as [Hnms Hes].
          eapply scoped_post; [|exact Hs|exact H]. intros s0 s1 Hs0 H0. inv_bind H0.
          pose proof (Hnils _ _ _ _ _ Hes Hs0 Hb) as P1.
          match type of H0 with cg_block _ _ _ _ (add_plain_locals ?a ?b ?c ?d _) = _ =>
            pose proof (add_plain_locals_post a b c d _ Hnms (post_pre _ _ _ P1)) as P2 end.
          pose proof (Hblk1 _ _ _ Hblk (post_pre _ _ _ P2) H0) as P3.
          exact (post_seq _ _ _ _ _ (post_then _ _ _ _ P1 P2) P3).
        * (* SAssign *)
          apply andb_prop in Hst. destruct Hst as [Hst Hes]. apply andb_prop in Hst. destruct Hst as [Hct Hv].
          exact (cg_assign_post _ flv slv (IHe flv slv) (Hsig flv slv) _ _ _ _ Hct Hv Hes Hs H).
        * (* SLocal *)
          apply andb_prop in Hst. destruct Hst as [Hnms Hes].
          eapply post_weak; [exact (cg_local_post _ (IHe flv slv) _ _ _ _ _ Hnms Hes Hs H)|].
          intros k Hk. rewrite asg_stat_local in Hk. exact Hk.
        * (* SLocalFunc *)
          apply andb_prop in Hst. destruct Hst as [Hnm Hf].
          destruct f; try discriminate. inv_bind H. destruct a as [s1 fi]. injection H as <-.
          match type of Hb with cg_func _ _ _ (add_loc_var ?nm ?v _) = _ =>
            pose proof (add_loc_var_post nm v _ Hnm Hs) as P1 end.
          eapply post_after; [exact P1|].
          exact (IHf flv (EFunc cls fname pars parlocs b l0 vararg colon) _ _ _ Hf (post_pre _ _ _ P1) Hb).
      + (* cg_block *)
        intros flv slv b s s' Hblk Hs H. cbn [cg_block] in H. destruct b as [stats ret l].
        cbn [chk_block] in Hblk. apply andb_prop in Hblk. destruct Hblk as [Hss Hret].
        inv_bind H.
        assert (P1 : post s a (fun k => existsb (asg_stat k) stats)).
        { eapply (post_iter (cg_stat n flv slv) (fun st k => asg_stat k st)); [|exact Hs|exact Hb].
          intros st s0 s1 Hin Hs0 H0. eapply IHs; [|exact Hs0|exact H0]. eapply forallb_In; eauto. }
        destruct ret as [es|].
        * pose proof (Hnils _ _ _ _ _ Hret (post_pre _ _ _ P1) H) as P2. exact (post_seq _ _ _ _ _ P1 P2).
        * injection H as <-. eapply post_weak; [exact P1|]. intros k Hk. rewrite asg_block_unfold in Hk.
          cbv beta in Hk |- *. lia.
  Qed.
End Inv.
