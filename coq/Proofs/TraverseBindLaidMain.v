(* Traversal resolver, layout part 3: the mutual induction and the theorem on whole chunks
     in_fragment P -> tb_shape P -> laid_b W P -> no_funcstat P n -> tr_clean P n = true. *)
From Coq Require Import List NArith ZArith Bool Lia.
From LH Require Import Base.Bytes Model.Lexer Model.Ast Model.Scope Spec.LuaScope Proofs.TraverseBindDefs
  Proofs.TraverseBindSim Proofs.TraverseBindLoops Proofs.TraverseBindLaidBase Proofs.TraverseBindLaidPieces Proofs.TraverseBindLaidLoops.
Import ListNotations.
Local Open Scope Z_scope.

Section Main.
  Variable W : Z.
  Hypothesis HW : 0 < W.
  Variable nm : list N.

  Notation Pe := (Pe W nm).
  Notation Ps := (Ps W nm).
  Notation Pb := (Pb W nm).
  Notation CE := (CE W nm).

  Ltac bs H := repeat (apply andb_true_iff in H; let H' := fresh H in destruct H as [H H']).

  Lemma Pe_atom e : (forall flv st, tr_exp flv e st = st) -> (forall flv st, cl_exp nm flv e st = true) ->
                    match e with EFunc _ _ _ _ _ _ _ _ => False | _ => True end -> Pe e.
  Proof.
    intros Ht Hc Hk. split.
    - intros _ _ _ flv a b _. eapply PieceE_ext; [| |apply PieceE_id]; intros; [apply Ht|apply Hc].
    - destruct e; try exact I. contradiction.
  Qed.

  Lemma Pe_nofunc e : CE e -> match e with EFunc _ _ _ _ _ _ _ _ => False | _ => True end -> Pe e.
  Proof. intros H Hk. split; [exact H|]. destruct e; try exact I. contradiction. Qed.

  Theorem laid_all : (forall e, Pe e) /\ (forall s, Ps s) /\ (forall b, Pb b).
  Proof.
    apply tb_ast_ind.
    - intros; apply Pe_atom; auto.
    - intros; apply Pe_atom; auto.
    - intros; apply Pe_atom; auto.
    - intros; apply Pe_atom; auto.
    - intros; apply Pe_atom; auto.
    - intros; apply Pe_atom; auto.
    - intros; apply Pe_atom; auto.
    - intros; apply Pe_atom; auto.
    - (* EName *) intros n l. apply Pe_nofunc; [|exact I]. intros _ _ _ flv a b Hch.
      cbn [m_exp] in Hch. rewrite <- (app_nil_r (id_marks l)) in Hch.
      destruct (chain_id W _ _ _ _ Hch) as [Hid [Ha Hb]]. cbn [chain] in Hb.
      eapply PieceE_ext; [| |exact (PieceE_log W HW nm OUse n l a b Hid Ha Hb)]; intros; reflexivity.
    - (* EUnop *) intros o x l [IH _]. apply Pe_nofunc; [|exact I]. intros Hf Hs Hn flv a b Hch.
      eapply PieceE_ext; [| |exact (IH Hf Hs Hn flv a b Hch)]; intros; reflexivity.
    - (* EBinop *) intros o x y l [IHx _] [IHy _]. apply Pe_nofunc; [|exact I]. intros Hf Hs Hn flv a b Hch.
      cbn [frag_exp] in Hf. cbn [nfs_exp] in Hn. cbn [tb_shp_exp] in Hs. bs Hf. bs Hn. bs Hs.
      cbn [m_exp] in Hch. destruct (chain_app W _ _ _ _ Hch) as [c [C1 C2]].
      pose proof (PieceE_seq W _ _ _ _ a c b (chain_le W _ _ _ C1) (chain_le W _ _ _ C2)
                             (IHx Hf Hs Hn flv a c C1) (IHy Hf0 Hs0 Hn0 flv c b C2)) as H.
      eapply PieceE_ext; [| |exact H]; intros; reflexivity.
    - (* EParens *) intros x l [IH _]. apply Pe_nofunc; [|exact I]. intros Hf Hs Hn flv a b Hch.
      eapply PieceE_ext; [| |exact (IH Hf Hs Hn flv a b Hch)]; intros; reflexivity.
    - (* EIndex *) intros p k l _ _. apply Pe_nofunc; [|exact I]. intros Hf; discriminate.
    - (* ECall *) intros p name args l _ IHa. apply Pe_nofunc; [|exact I]. intros Hf Hs Hn flv a b Hch.
      destruct p; try discriminate Hf. destruct name; try discriminate Hf.
      cbn [frag_exp] in Hf. cbn [nfs_exp] in Hn. cbn [tb_shp_exp] in Hs. bs Hf. bs Hn. bs Hs.
      cbn [m_exp] in Hch. rewrite app_assoc in Hch.
      destruct (chain_region W _ _ _ _ Hch) as [_ [H2 [H3 H4]]].
      destruct (chain_id W _ _ _ _ H4) as [Hid [Ha Hr]].
      pose proof (idok_lt W _ Hid) as Hlt. pose proof (chain_le W _ _ _ Hr) as Hle.
      pose proof (PieceE_log W HW nm OUse n l0 (lo W l) (hi W l0) Hid Ha (Z.le_refl _)) as P1.
      pose proof (exps_piece W nm flv args (hi W l0) (hi W l) IHa Hf0 Hs0 Hn0 Hr) as P2.
      pose proof (PieceE_seq W _ _ _ _ (lo W l) (hi W l0) (hi W l) ltac:(lia) Hle P1 P2) as H.
      eapply PieceE_sub; [|exact H2|exact H3]. eapply PieceE_ext; [| |exact H]; intros; reflexivity.
    - (* ETable *) intros ks vs l _ _. apply Pe_nofunc; [|exact I]. intros Hf; discriminate.
    - (* EFunc *) intros c f ps pl bk l va co IHb.
      assert (HF : CEF W nm (EFunc c f ps pl bk l va co)).
      { cbn [CEF]. intros Hf Hs Hn flv a b Hch. cbn [frag_exp] in Hf. cbn [nfs_exp] in Hn. cbn [tb_shp_exp] in Hs. bs Hf.
        destruct (chain_app W _ _ _ _ Hch) as [c1 [C1 C2]].
        assert (Hp : forall p, In p (combine ps pl) -> idok W (snd p) /\ hi W (snd p) <= c1).
        { intros [x y] Hin. apply in_combine_r in Hin. destruct (chain_ids W _ _ _ C1 y Hin) as [A1 [_ A3]]. auto. }
        pose proof (PieceS_seq W _ _ _ _ a c1 b (chain_le W _ _ _ C1) (chain_le W _ _ _ C2)
                               (PieceS_add_params W (combine ps pl) a c1 Hp)
                               (IHb ltac:(assumption) Hs Hn (flv + 1) 0 c1 b C2)) as H.
        eapply PieceE_ext; [| |exact (PieceE_scope W l _ _ a b H)]; intros; reflexivity. }
      split; [|exact HF].
      intros Hf Hs Hn flv a b Hch.
      cbn [m_exp] in Hch. rewrite app_assoc in Hch.
      destruct (chain_region W _ _ _ _ Hch) as [_ [H2 [H3 H4]]].
      eapply PieceE_sub; [exact (HF Hf Hs Hn flv _ _ H4)|exact H2|exact H3].
    - (* SBreak *) intros _ _ _ flv slv a b _. eapply PieceS_ext; [| |apply PieceS_id]; intros; reflexivity.
    - intros n l Hf; discriminate.
    - intros n l Hf; discriminate.
    - (* SDo *) intros bk l IHb Hf Hs Hn flv slv a b Hch. cbn [frag_stat tb_shp_stat nfs_stat m_stat] in *.
      destruct (chain_region W _ _ _ _ Hch) as [_ [H2 [H3 H4]]].
      apply PieceS_of_E. eapply PieceE_sub; [|exact H2|exact H3].
      eapply PieceE_ext; [| |exact (PieceE_scope W l _ _ _ _ (IHb Hf Hs Hn flv (slv + 1) _ _ H4))]; intros; reflexivity.
    - (* SCall *) intros e [IHe _] Hf Hs Hn flv slv a b Hch. cbn [tb_shp_stat nfs_stat m_stat] in *.
      assert (Hfe : frag_exp e = true) by (destruct e; try discriminate Hf; exact Hf).
      apply PieceS_of_E. eapply PieceE_ext; [| |exact (IHe Hfe Hs Hn flv a b Hch)]; intros; reflexivity.
    - (* SIf *) intros es bs l IHe IHb Hf Hs Hn flv slv a b Hch. rewrite m_stat_if in Hch.
      cbn [frag_stat tb_shp_stat nfs_stat] in *. bs Hf. bs Hs. bs Hn. apply Nat.eqb_eq in Hs.
      apply PieceS_of_E.
      eapply PieceE_ext; [| |exact (if_piece W nm flv slv es bs a b Hs IHe IHb Hf Hs1 Hn Hf0 Hs0 Hn0 Hch)];
        intros; reflexivity.
    - (* SWhile *) intros e bk l [IHe _] IHb Hf Hs Hn flv slv a b Hch.
      cbn [frag_stat tb_shp_stat nfs_stat m_stat] in *. bs Hf. bs Hs. bs Hn.
      rewrite app_assoc in Hch. destruct (chain_region W _ _ _ _ Hch) as [_ [H2 [H3 H4]]].
      destruct (chain_app W _ _ _ _ H4) as [c [C1 C2]].
      pose proof (PieceE_seq W _ _ _ _ _ c _ (chain_le W _ _ _ C1) (chain_le W _ _ _ C2)
                             (IHe Hf Hs Hn flv _ _ C1) (PieceE_scope W l _ _ _ _ (IHb Hf0 Hs0 Hn0 flv (slv + 1) _ _ C2))) as H.
      apply PieceS_of_E. eapply PieceE_sub; [|exact H2|exact H3].
      eapply PieceE_ext; [| |exact H]; intros; reflexivity.
    - (* SRepeat *) intros bk e l IHb [IHe _] Hf Hs Hn flv slv a b Hch.
      cbn [frag_stat tb_shp_stat nfs_stat m_stat] in *. bs Hf. bs Hs. bs Hn.
      rewrite app_assoc in Hch. destruct (chain_region W _ _ _ _ Hch) as [_ [H2 [H3 H4]]].
      destruct (chain_app W _ _ _ _ H4) as [c [C1 C2]].
      pose proof (PieceS_seq W _ _ _ _ _ c _ (chain_le W _ _ _ C1) (chain_le W _ _ _ C2)
                             (IHb Hf Hs Hn flv (slv + 1) _ _ C1)
                             (PieceS_of_E W _ _ _ _ (IHe Hf0 Hs0 Hn0 flv _ _ C2))) as H.
      apply PieceS_of_E. eapply PieceE_sub; [|exact H2|exact H3].
      eapply PieceE_ext; [| |exact (PieceE_scope W l _ _ _ _ H)]; intros; reflexivity.
    - (* SForNum *) intros n vl e1 e2 e3 bk l [IH1 _] [IH2 _] [IH3 _] IHb Hf Hs Hn flv slv a b Hch.
      cbn [frag_stat tb_shp_stat nfs_stat m_stat] in *. bs Hf. bs Hs. bs Hn.
      rewrite !app_assoc in Hch. destruct (chain_region W _ _ _ _ Hch) as [_ [H2 [H3 H4]]].
      rewrite <- !app_assoc in H4. destruct (chain_id W _ _ _ _ H4) as [Hid [Ha Hr]].
      pose proof (idok_lt W _ Hid) as Hlt.
      destruct (chain_app W _ _ _ _ Hr) as [c1 [C1 R1]]. destruct (chain_app W _ _ _ _ R1) as [c2 [C2 R2]].
      destruct (chain_app W _ _ _ _ R2) as [c3 [C3 C4]].
      pose proof (chain_le W _ _ _ C1) as L1. pose proof (chain_le W _ _ _ C2) as L2.
      pose proof (chain_le W _ _ _ C3) as L3. pose proof (chain_le W _ _ _ C4) as L4.
      pose proof (IH1 ltac:(assumption) ltac:(assumption) ltac:(assumption) flv _ _ C1) as P1.
      pose proof (IH2 ltac:(assumption) ltac:(assumption) ltac:(assumption) flv _ _ C2) as P2.
      pose proof (IH3 ltac:(assumption) ltac:(assumption) ltac:(assumption) flv _ _ C3) as P3.
      pose proof (IHb ltac:(assumption) ltac:(assumption) ltac:(assumption) flv (slv + 1) _ _ C4) as P4.
      pose proof (PieceE_seq W _ _ _ _ c1 c2 c3 L2 L3 P2 P3) as P32.
      assert (L13 : c1 <= c3) by (clear - L2 L3; lia).
      pose proof (PieceE_seq W _ _ _ _ (hi W vl) c1 c3 L1 L13 P1 P32) as P132.
      assert (Hb : Born W c3 c3 (mkV n vl RNone false)).
      { apply Born_of_InReg; [exact Hid|clear - L1 L13; lia|exact I]. }
      pose proof (PieceS_seq W _ _ _ _ (hi W vl) c3 c3 ltac:(clear - L1 L13; lia) (Z.le_refl c3)
                             (PieceS_of_E W _ _ _ _ P132) (PieceS_add W (mkV n vl RNone false) c3 c3 Hb)) as P5.
      pose proof (PieceS_seq W _ _ _ _ (hi W vl) c3 (hi W l) ltac:(clear - L1 L13; lia) L4 P5 P4) as H.
      apply PieceS_of_E. eapply PieceE_sub; [|exact H2|exact H3].
      eapply PieceE_sub; [|exact (Z.le_trans _ _ _ Ha (Z.lt_le_incl _ _ Hlt))|apply Z.le_refl].
      eapply PieceE_ext; [intros st|intros st|exact (PieceE_scope W l _ _ _ _ H)]; [reflexivity|].
      cbn [cl_stat]. cbv zeta beta. rewrite !andb_true_r, !andb_assoc. reflexivity.
    - (* SForIn *) intros ns ls es bk l IHe IHb Hf Hs Hn flv slv a b Hch.
      cbn [frag_stat tb_shp_stat nfs_stat m_stat] in *. bs Hf. bs Hs. bs Hn.
      rewrite !app_assoc in Hch. destruct (chain_region W _ _ _ _ Hch) as [_ [H2 [H3 H4]]].
      rewrite <- !app_assoc in H4.
      destruct (chain_app W _ _ _ _ H4) as [c1 [C1 R1]]. destruct (chain_app W _ _ _ _ R1) as [c2 [C2 C3]].
      pose proof (chain_le W _ _ _ C1) as L1. pose proof (chain_le W _ _ _ C2) as L2. pose proof (chain_le W _ _ _ C3) as L3.
      pose proof (exps_piece W nm flv es c1 c2 IHe ltac:(assumption) ltac:(assumption) ltac:(assumption) C2) as P1.
      assert (Hp : forall p, In p (combine ns ls) -> idok W (snd p) /\ hi W (snd p) <= c2).
      { intros [x y] Hin. apply in_combine_r in Hin. destruct (chain_ids W _ _ _ C1 y Hin) as [A1 [_ A3]].
        split; [exact A1|]. cbn [snd]. clear - A3 L2. lia. }
      pose proof (IHb ltac:(assumption) ltac:(assumption) ltac:(assumption) flv (slv + 1) _ _ C3) as P3.
      pose proof (PieceS_seq W _ _ _ _ c1 c2 c2 L2 (Z.le_refl c2) (PieceS_of_E W _ _ _ _ P1)
                             (PieceS_add_params W (combine ns ls) c2 c2 Hp)) as P12.
      pose proof (PieceS_seq W _ _ _ _ c1 c2 (hi W l) L2 L3 P12 P3) as H.
      apply PieceS_of_E. eapply PieceE_sub; [|exact H2|exact H3].
      eapply PieceE_sub; [|exact L1|apply Z.le_refl].
      eapply PieceE_ext; [intros st|intros st|exact (PieceE_scope W l _ _ _ _ H)]; [reflexivity|].
      cbn [cl_stat]. cbv zeta beta. rewrite !andb_true_r. reflexivity.
    - (* SAssign *) intros vars es l IHv IHe Hf Hs Hn flv slv a b Hch.
      cbn [frag_stat nfs_stat] in Hf, Hn. bs Hf. bs Hn.
      assert (Hvars : forall v, In v vars -> exists n l0, v = EName n l0).
      { rewrite forallb_forall in Hf. intros v Hv. specialize (Hf v Hv). destruct v; try discriminate Hf. eauto. }
      destruct (is_funcstat nm vars es) eqn:Efs; [discriminate|].
      (* which form of marks *)
      assert (Hcase : (exists n nl c f0 fn ps pls bk fl va co,
                          vars = [EName n nl] /\ es = [EFunc c (f0 :: fn) ps pls bk fl va co])
                      \/ m_stat (SAssign vars es l) = flat_map m_exp vars ++ flat_map m_exp es).
      { clear. destruct vars as [|[] [|]]; destruct es as [|[] [|]]; try (right; reflexivity);
          try (destruct fname as [|f0 fn]; right; reflexivity).
        destruct fname as [|f0 fn]; [right; reflexivity|]. left. do 11 eexists. split; reflexivity. }
      destruct Hcase as [[n [nl [c [f0 [fn [ps [pls [bk [fl [va [co [Ev Ee]]]]]]]]]]]]|Hm].
      + (* function n(...) with n <> nm *)
        subst vars es. cbn [is_funcstat] in Efs. cbn [m_stat] in Hch.
        pose proof (Forall_inv IHe) as [_ HF]. cbn [CEF] in HF.
        assert (Hfe : frag_exp (EFunc c (f0 :: fn) ps pls bk fl va co) = true).
        { cbn [forallb] in Hf0. apply andb_true_iff in Hf0. apply Hf0. }
        assert (Hnn : nfs_exp nm (EFunc c (f0 :: fn) ps pls bk fl va co) = true).
        { cbn [forallb] in Hn0. apply andb_true_iff in Hn0. apply Hn0. }
        assert (Hse : tb_shp_exp (EFunc c (f0 :: fn) ps pls bk fl va co) = true).
        { cbn [tb_shp_stat forallb] in Hs. apply andb_true_iff in Hs. destruct Hs as [_ Hs].
          apply andb_true_iff in Hs. apply Hs. }
        rewrite !app_assoc in Hch. destruct (chain_region W _ _ _ _ Hch) as [Hc [H2 [H3 H4]]].
        rewrite <- !app_assoc in H4. destruct (chain_id W _ _ _ _ H4) as [Hid [Ha Hr]].
        pose proof (idok_lt W _ Hid) as Hlt. pose proof (chain_le W _ _ _ Hr) as Hle.
        intros st Hne Hg.
        destruct (HF Hfe Hse Hnn flv (hi W nl) (hi W fl) Hr st Hne
                     (G_sub W (vss st) a b (hi W nl) (hi W fl) Hg ltac:(clear - H2 Ha Hlt; lia) H3)) as [P1 P2].
        cbn [tr_stat cl_stat map assign_loop cl_assign_loop ct_clean ct_run].
        destruct (assign_name_other W nm flv slv n nl
                     (Some (EFunc c (f0 :: fn) ps pls bk fl va co)) a b
                     (tr_exp flv (EFunc c (f0 :: fn) ps pls bk fl va co) st) Efs) as [Q1 Q2].
        { cbn [ref_of_exp InReg]. auto. }
        split.
        * rewrite P1. cbn [andb]. rewrite Q1. reflexivity.
        * destruct (vss st) as [|vs r] eqn:E; [contradiction|]. apply Evo_EvoS.
          eapply Evo_trans; [|exact Q2].
          exact (Evo_widen W (hi W nl) (hi W fl) a b _ _ P2 ltac:(clear - H2 Ha Hlt; lia) H3).
      + rewrite Hm in Hch. destruct (chain_app W _ _ _ _ Hch) as [m [C1 C2]].
        pose proof (chain_le W _ _ _ C1) as L1. pose proof (chain_le W _ _ _ C2) as L2.
        assert (Hse : forallb tb_shp_exp es = true).
        { cbn [tb_shp_stat] in Hs. apply andb_true_iff in Hs. apply Hs. }
        intros st Hne Hg.
        destruct (assign_piece W HW nm flv slv vars es a m m b st Hvars IHe Hf0 Hse Hn0 C1 C2 (Z.le_refl m) Hne
                               (G_sub W _ _ _ _ _ Hg (Z.le_refl a) L2) (G_sub W _ _ _ _ _ Hg L1 (Z.le_refl b))) as [P1 P2].
        split.
        * cbn [cl_stat]. exact P1.
        * destruct (vss st) as [|vs r] eqn:E; [contradiction|]. apply Evo_EvoS.
          cbn [tr_stat]. exact (Evo_widen W _ _ _ _ _ _ P2 L1 (Z.le_refl b)).
    - (* SLocal *) intros ns ls ats es l IHe Hf Hs Hn flv slv a b Hch.
      cbn [frag_stat nfs_stat m_stat] in *. bs Hf.
      destruct (chain_app W _ _ _ _ Hch) as [c0 [C1 C2]].
      pose proof (chain_le W _ _ _ C1) as L1. pose proof (chain_le W _ _ _ C2) as L2.
      assert (Hse : forallb tb_shp_exp es = true).
      { cbn [tb_shp_stat] in Hs. apply andb_true_iff in Hs. apply Hs. }
      intros st Hne Hg.
      destruct (local_marks_chain W ns ls es l c0 b C2) as [c1 [c2 [Lc1 [Lc2 [C3 Hil]]]]].
      pose proof (chain_le W _ _ _ C3) as L3.
      destruct (local_piece W nm flv es (combine ns ls) c0 c1 c2 RNone (init_loc ns ls es l) st IHe ltac:(assumption) Hse Hn C3)
        as [P1 P2]; auto.
      + intros [x y] Hin. apply in_combine_r in Hin. destruct (chain_ids W _ _ _ C1 y Hin) as [A1 [_ A3]].
        split; [exact A1|]. cbn [snd]. clear - A3 Lc1. lia.
      + exact I.
      + apply (G_sub W _ _ _ _ _ Hg); [clear - L1 Lc1; lia|exact Lc2].
      + split; [exact P1|]. apply (EvoS_widen W _ _ _ _ _ _ P2); [exact L1|exact Lc2].
    - (* SLocalFunc *) intros n nl f l [_ IHf] Hf Hs Hn flv slv a b Hch.
      cbn [frag_stat nfs_stat tb_shp_stat] in Hf, Hn, Hs. apply andb_true_iff in Hf. destruct Hf as [_ Hff].
      destruct f; try discriminate Hff.
      cbn [CEF m_stat] in *.
      rewrite !app_assoc in Hch. destruct (chain_region W _ _ _ _ Hch) as [Hc [H2 [H3 H4]]].
      rewrite <- !app_assoc in H4. destruct (chain_id W _ _ _ _ H4) as [Hid [Ha Hr]].
      pose proof (idok_lt W _ Hid) as Hlt. pose proof (chain_le W _ _ _ Hr) as Hle.
      assert (Hb : Born W a (hi W nl) (mkV n nl (RFunc l0) false)).
      { pose proof Hid as [_ [_ [Hcc _]]]. unfold Born. cbn [v_loc v_ref]. repeat split; try lia.
        left. apply (contains_ok W HW); [exact Hc|exact Hid|exact Ha|lia]. }
      pose proof (PieceS_seq W _ _ _ _ a (hi W nl) (hi W l0) ltac:(clear - H2 Ha Hlt; lia) Hle
                             (PieceS_add W _ a (hi W nl) Hb)
                             (PieceS_of_E W _ _ _ _ (IHf Hff Hs Hn flv _ _ Hr))) as H.
      eapply PieceS_sub; [|apply Z.le_refl|exact H3].
      eapply PieceS_ext; [| |exact H]; intros; reflexivity.
    - (* Block *) intros ss ret l IHs IHr Hf Hs Hn flv slv a b Hch.
      cbn [frag_block tb_shp_block nfs_block m_block] in *. bs Hf. bs Hs. bs Hn.
      destruct (chain_app W _ _ _ _ Hch) as [c [C1 C2]].
      pose proof (chain_le W _ _ _ C1) as L1. pose proof (chain_le W _ _ _ C2) as L2.
      pose proof (stats_piece W nm flv slv ss a c IHs Hf Hs Hn C1) as P1.
      destruct ret as [es|].
      + cbn [tb_ret] in IHr.
        pose proof (exps_piece W nm flv es c b IHr Hf0 Hs0 Hn0 C2) as P2.
        pose proof (PieceS_seq W _ _ _ _ a c b L1 L2 P1 (PieceS_of_E W _ _ _ _ P2)) as H.
        eapply PieceS_ext; [| |exact H]; intros; reflexivity.
      + eapply PieceS_sub; [|apply Z.le_refl|exact L2].
        eapply PieceS_ext; [| |exact P1]; intros; [reflexivity|]. cbn [cl_block]. apply andb_true_r.
  Qed.
End Main.

(* ------------------------------------------------------------------ whole chunks *)
Lemma steps_chain W : forall ms m,
  forallb (mark_ok W) (m :: ms) = true -> steps_ok W (m :: ms) = true ->
  exists b, chain W (mark_key W m) (m :: ms) b.
Proof.
  induction ms as [|m' r IH]; intros m Hok Hst.
  - exists (mark_key W m). cbn [forallb] in Hok. rewrite andb_true_r in Hok. cbn [chain].
    split; [lia|]. split; [exact Hok|lia].
  - cbn [forallb] in Hok. apply andb_true_iff in Hok. destruct Hok as [Hm Hok].
    cbn [steps_ok] in Hst. apply andb_true_iff in Hst. destruct Hst as [Hs Hst].
    destruct (IH m' Hok Hst) as [b Hb]. exists b.
    unfold step_ok in Hs. apply andb_true_iff in Hs. destruct Hs as [Hs _]. apply Z.leb_le in Hs.
    change (chain W (mark_key W m) (m :: m' :: r) b)
      with (mark_key W m <= mark_key W m /\ mark_ok W m = true /\ chain W (mark_key W m) (m' :: r) b).
    split; [lia|]. split; [exact Hm|]. exact (chain_widen W _ _ _ _ _ Hb Hs (Z.le_refl b)).
Qed.

Theorem laid_tr_clean W P n :
  in_fragment P = true -> tb_shape P = true -> laid_b W P = true -> no_funcstat P n = true ->
  tr_clean P n = true.
Proof.
  intros Hf Hs Hl Hn. unfold laid_b in Hl. apply andb_true_iff in Hl. destruct Hl as [Hl Hst].
  apply andb_true_iff in Hl. destruct Hl as [HW Hok]. apply Z.ltb_lt in HW.
  unfold marks in *. destruct (steps_chain W _ _ Hok Hst) as [b Hb].
  destruct Hb as [_ [_ Hb]]. destruct (chain_app W _ _ _ _ Hb) as [c [C1 _]].
  destruct (laid_all W HW n) as [_ [_ HB]].
  destruct (HB P Hf Hs Hn 0 0 _ _ C1 (st0 P)) as [H1 _].
  - discriminate.
  - constructor; [constructor|constructor].
  - exact H1.
Qed.
