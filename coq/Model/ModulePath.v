(* Model of module-path resolution:
     common/dir_manager.go : calcMatchStrScore, GetBestMatchReferFile, MatchCompleteReferFile,
                             MatchAllDirReferFile, GetCompletePath
     results/file_result.go: CheckReferFile (decision tree; type-6 "not find file" diagnostic)
     stringutil/util.go    : the tail of GetOpenFileStr (candidate list built from the string under the cursor;
                             the regular-expression extraction of that string is an oracle = an argument here)
     check_lsp_define.go   : FindOpenFileDefine; textdocument_define.go / textdocument_hover.go consumers.
   Before fixes/C09-deterministic-order.diff Go iterates the candidate map in random order and sorts with an unstable
   sort: the model returns the SET of files the code may answer (all candidates of maximal score); the repaired code
   (order_fixed cfg = true) answers the best-scored candidate with the least path: a singleton. Assumptions: one workspace root (mainDir set,
   no sub-directories, no client ext path); first analysis pass (checkTerm = first).
   The record rcfg carries, after the real settings, one boolean per repair (false = the code before it, true = the
   repaired code): order_fixed (fixes/C09-deterministic-order.diff), stem_fixed (fixes/C18-dotted-path.diff (1473636)),
   lit_fixed (fixes/C18-dofile-no-suffix.diff (526bcd1)), dotslash_fixed (fixes/C18-dot-slash-definition.diff (49c8cf0)),
   reanalyse_fixed (fixes/C18-create-not-reanalysed.diff (f48e6f9)), cursor_fixed (fixes/C18-string-cursor.diff
   (9e1e7b2): the head of GetOpenFileStr - which quoted string the cursor is in - is modelled by cursor_pick; the
   regular expressions stay an oracle: their match POSITIONS on the line are an argument).
   calcMatchStrScore's repair (fixes/C18-score-position.diff (1f59be9)) is the constant score_deployed. *)
From Coq Require Import List NArith ZArith Bool.
From LH Require Import Base.Bytes Model.FileIndex.
Import ListNotations.
Local Open Scope N_scope.

Definition is_nil {A} (l : list A) : bool := match l with [] => true | _ => false end.
Definition has_dot (s : list N) : bool := match index_byte dot s with Some _ => true | None => false end.

(* ---- calcMatchStrScore(fileName = cur, referFileName = refer, condidateStr = cand) ---- *)
Fixpoint common_len (a b : list (list N)) : nat :=
  match a, b with
  | x :: a', y :: b' => if beq_bytes x y then S (common_len a' b') else O
  | _, _ => O
  end.

(* pos = false: the code before fixes/C18-score-position.diff: strings.LastIndex(cand, refer) - any text equal to the
                 name, e.g. the module names a, l, u, lu, ua, lua inside the suffix ".lua";
   pos = true : the repaired code: strings.LastIndex(cand, "/" + refer) - the occurrence that made cand a candidate;
                preStr = cand[0 : lastIndex+1] *)
Definition calc_score_g (pos : bool) (cur refer cand : list N) : Z :=
  match (if pos then option_map S (last_index (slash :: refer) cand) else last_index refer cand) with
  | None => (-1000000)%Z
  | Some i =>
    let split_vec := split_on slash (firstn i cand) in
    let split_old := split_on slash cur in
    ((-1000) * Z.of_nat (length split_vec) + 10 * Z.of_nat (common_len split_vec split_old))%Z
  end.

(* THE constant: which calcMatchStrScore the deployed code has (shared with the C09 driver through calc_score) *)
Definition score_deployed : bool := true.
Definition calc_score : list N -> list N -> list N -> Z := calc_score_g score_deployed.

(* ---- GetBestMatchReferFile ---- *)
(* candidateVec in the iteration order of the inner map (the explicit order parameter = order of the list) *)
(* by_name = true : the reference names the file with its suffix: looked up by the full file name;
   by_name = false: looked up by the file name without suffix, compared with the path without suffix *)
Definition bm_candidates_g (by_name : bool) (refer : list N) (st : idx) : list (list N) :=
  let tmp := slash :: refer in
  if by_name
  then map fst (filter (fun e => is_suffix tmp (fst e)) (get_name_map st (last_seg refer)))
  else map fst (filter (fun e => negb (is_nil (snd e)) && is_suffix tmp (snd e)) (get_pre_map st (last_seg refer))).

(* GetBestMatchReferFile: "with suffix" iff the reference contains a '.' *)
Definition bm_candidates (refer : list N) (st : idx) : list (list N) :=
  bm_candidates_g (has_dot refer) refer st.

Definition max_score (cur refer : list N) (c0 : list N) (cs : list (list N)) : Z :=
  fold_left (fun m c => Z.max m (calc_score cur refer c)) cs (calc_score cur refer c0).

(* every candidate of maximal score: exactly the values results[0] can take after sort.Sort with
   Less(i,j) = score i > score j, whatever the iteration order and whatever the sort does with ties *)
Definition argmax_set (cur refer : list N) (cs : list (list N)) : list (list N) :=
  match cs with
  | [] => []
  | c0 :: r => let m := max_score cur refer c0 r in
               filter (fun c => Z.eqb (calc_score cur refer c) m) cs
  end.

(* for an explicit candidate order and a STABLE sort (Go's insertion sort, used up to 12 elements): first maximum *)
Definition first_max (cur refer : list N) (cs : list (list N)) : option (list N) :=
  match argmax_set cur refer cs with [] => None | c :: _ => Some c end.

Definition best_set (cur refer : list N) (st : idx) : list (list N) :=
  argmax_set cur refer (bm_candidates refer st).

(* ---- the repaired choice (fixes/C09-deterministic-order.diff): resultSorterMatch.Less breaks score ties by the
        candidate path (Go string comparison = bytewise lexicographic), so Less is a strict total order on the
        (distinct) candidates and results[0] does not depend on the iteration order or on the sort algorithm ---- *)
Fixpoint bytes_ltb (a b : list N) {struct a} : bool :=
  match a, b with
  | _, [] => false
  | [], _ :: _ => true
  | x :: a', y :: b' => if x <? y then true else if y <? x then false else bytes_ltb a' b'
  end.
Definition bytes_leb (a b : list N) : bool := negb (bytes_ltb b a).

(* Less(i, j) of the repaired sorter *)
Definition less_fx (cur refer a b : list N) : bool :=
  let sa := calc_score cur refer a in
  let sb := calc_score cur refer b in
  if Z.eqb sa sb then bytes_ltb a b else Z.ltb sb sa.

Fixpoint min_path (c0 : list N) (cs : list (list N)) {struct cs} : list N :=
  match cs with
  | [] => c0
  | c :: r => min_path (if bytes_ltb c c0 then c else c0) r
  end.
Definition least_path (cs : list (list N)) : option (list N) :=
  match cs with [] => None | c :: r => Some (min_path c r) end.

(* GetBestMatchReferFile's choice among the candidates cs (given in the order the map iteration produced them).
   fx = false: the code before the repair with a stable sort (first_max; with Go's unstable sort: any element of
               argmax_set);
   fx = true : the repaired code: the best-scored candidate with the least path *)
Definition best_match (fx : bool) (cur refer : list N) (cs : list (list N)) : option (list N) :=
  if fx then least_path (argmax_set cur refer cs) else first_max cur refer cs.

(* the set of files the code may answer among the candidates cs: a singleton (or empty) once repaired *)
Definition best_of (fx : bool) (cur refer : list N) (cs : list (list N)) : list (list N) :=
  if fx then match best_match true cur refer cs with Some c => [c] | None => [] end
  else argmax_set cur refer cs.

Definition best_set_fx (fx : bool) (cur refer : list N) (st : idx) : list (list N) :=
  best_of fx cur refer (bm_candidates refer st).

(* GetBestMatchSuffixFile (fixes/C18-dofile-no-suffix.diff): the reference of a dofile / loadfile / suffix-style import
   names the file literally - always looked up by the full file name. lit = false: the code before that repair
   (GetBestMatchReferFile: a text without '.' was looked up like a require) *)
Definition best_set_lit (lit fx : bool) (cur refer : list N) (st : idx) : list (list N) :=
  best_of fx cur refer (bm_candidates_g (lit || has_dot refer) refer st).

(* ---- CheckReferFile ---- *)
Inductive rkind := KRequire | KSuffix | KFrameNoSuffix.
(* KSuffix: dofile, loadfile, framework import with SuffixFlag<>0; KFrameNoSuffix: framework import, SuffixFlag=0 *)

Record rcfg := mk_rcfg {
  exact_mode : bool;                  (* ReferMatchPathFlag *)
  ignore_refer : list (list N);       (* IgnoreReferFileMap *)
  ignore_modules : list (list N);     (* IgnoreRequireSystemModule *)
  main_dir : list N;                  (* DirManager.mainDir, not empty *)
  order_fixed : bool;                 (* not a setting: which GetBestMatchReferFile is modelled - false: before
                                         fixes/C09-deterministic-order.diff (any best-scored candidate), true: the
                                         repaired one (the best-scored candidate with the least path) *)
  stem_fixed : bool;                  (* the file index cuts names at the Lua suffix (FileIndex.suffix_index) *)
  lit_fixed : bool;                   (* dofile / loadfile / suffix-style imports are looked up literally *)
  dotslash_fixed : bool;              (* definition / hover drop a leading "./" like the analysis *)
  reanalyse_fixed : bool;             (* every create / delete event re-resolves the references of every file *)
  cursor_fixed : bool                 (* definition / hover locate the string under the cursor by the position of the
                                         quoted literal (not by searching for its text), any quote kind, every pattern *)
}.

Record routcome := mk_rout {
  r_valid : bool;                     (* referInfo.Valid *)
  r_resolved : list (list N);         (* possible values of referInfo.ReferValidStr; [] = "" *)
  r_err6 : bool                       (* a type-6 diagnostic was inserted *)
}.

Definition mem_bytes (x : list N) (l : list (list N)) : bool := existsb (beq_bytes x) l.

(* pathpre.GetRemovePreStr *)
Definition remove_pre_str (s : list N) : list N :=
  match s with 46 :: 47 :: t => t | _ => s end.

(* DirManager.GetCompletePath *)
Definition complete_path (base file : list N) : list N :=
  if is_suffix [slash] base then base ++ file else base ++ slash :: file.

Definition system_modules : list (list N) :=
  [ [116;97;98;108;101]; [115;116;114;105;110;103]; [99;111;114;111;117;116;105;110;101]; [105;111]; [111;115];
    [109;97;116;104]; [115;111;99;107;101;116;46;99;111;114;101]; [100;101;98;117;103] ].
  (* table string coroutine io os math socket.core debug *)

Section Resolve.
  Variable disk : list N -> bool.      (* filefolder.IsFileExist behind GConfig.FileExistCache *)
  Variable cfg : rcfg.
  Variable st : idx.

  Definition not_found : routcome := mk_rout false [] true.
  Definition found (l : list (list N)) : routcome := mk_rout true l false.
  Definition skipped : routcome := mk_rout false [] false.

  Definition check_refer (cur : list N) (k : rkind) (refer : list N) : routcome :=
    let str_file := remove_pre_str refer in
    if mem_bytes str_file (ignore_refer cfg) then skipped else
    match k with
    | KSuffix =>
      let p := complete_path (main_dir cfg) str_file in
      if disk p then found [p]
      else if exact_mode cfg then not_found
      else match best_set_lit (lit_fixed cfg) (order_fixed cfg) cur str_file st with
           | [] => not_found
           | l => found l
           end
    | _ =>
      if (match k with KRequire => true | _ => false end) && mem_bytes str_file (ignore_modules cfg) then skipped else
      let str_new := replace_byte dot slash str_file in
      if disk (complete_path (main_dir cfg) (str_new ++ so_ext)) then skipped else
      if exact_mode cfg then
        if disk (complete_path (main_dir cfg) (str_new ++ lua_ext))
        then found [complete_path (main_dir cfg) (str_new ++ lua_ext)]
        else if disk (complete_path (main_dir cfg) (str_new ++ init_tail))
        then found [complete_path (main_dir cfg) (str_new ++ init_tail)]
        else not_found
      else
        match best_set_fx (order_fixed cfg) cur str_new st with
        | [] => match best_set_fx (order_fixed cfg) cur (str_new ++ init_tail) st with
                | [] => not_found
                | l => found l
                end
        | l => found l
        end
    end.

  (* ---- definition / hover on the module string ---- *)
  (* tail of GetOpenFileStr: s = text between the quotes; need_suffix = matched as dofile / *.lua import;
     is_require = matched by the require pattern *)
  Definition open_list (is_require need_suffix : bool) (s : list N) : list (list N) :=
    let s1 := if need_suffix && is_suffix lua_ext s then firstn (Nat.sub (length s) 4) s else s in
    let s1 := if dotslash_fixed cfg then remove_pre_str s1 else s1 in
    let s2 := replace_byte dot slash s1 in
    let modn := if is_suffix lua_ext s2 then firstn (Nat.sub (length s2) 4) s2 else s2 in
    if is_nil s2 then [] else
    [modn ++ lua_ext; modn ++ so_ext] ++ (if is_require then [modn ++ init_tail] else []).

  Variable loaded : list N -> bool.    (* a first-pass result exists for the file (fileStructMap) *)

  (* FindOpenFileDefine over the list, as textDocument/definition and hover do: the first candidate whose best match
     has a first-pass result wins. Possible outcomes: Some (candidate string, file) or None = nothing found
     (several outcomes only when equally scored candidates exist). Hover shows the candidate string, definition
     jumps to the file. *)
  Fixpoint open_outcomes (cur : list N) (items : list (list N)) : list (option (list N * list N)) :=
    match items with
    | [] => [None]
    | it :: rest =>
      let bs := best_set_fx (order_fixed cfg) cur it st in
      map (fun c => Some (it, c)) (filter loaded bs)
      ++ (if forallb loaded bs && negb (is_nil bs) then [] else open_outcomes cur rest)
    end.
End Resolve.

(* ---- which module string is under the cursor (head of stringutil.GetOpenFileStr) ----
   The four families of regular expressions of GetOpenFileStr, in the order the code tries them. The regular-expression
   engine is an oracle: for one line the argument `groups` lists, per pattern in that order, the matches the engine
   finds on the line (FindAllString: leftmost, non-overlapping), each with the place of the FIRST quoted literal the
   expression regFen finds inside the matched text. *)
Inductive ipat := PDofile | PRequire | PImportLua | PImport.
(* PDofile: dofile("x.lua"); PRequire: require "x"; PImportLua / PImport: a configured import function (referFiles) with
   a text ending in ?lua / any text *)
Record occ := mk_occ {
  oc_start : nat; oc_stop : nat;     (* the matched expression is line[oc_start, oc_stop) *)
  oc_qs : nat; oc_qe : nat           (* the quoted literal, quotes included, is text[oc_qs, oc_qe) of the matched text *)
}.

Definition sub_bytes (s : list N) (a b : nat) : list N := firstn (Nat.sub b a) (skipn a s).

(* strings.Index(s, sub) *)
Fixpoint first_index (sub s : list N) {struct s} : option nat :=
  if is_prefix sub s then Some O else
  match s with
  | [] => None
  | _ :: t => option_map S (first_index sub t)
  end.

Definition pat_need_suffix (p : ipat) : bool := match p with PDofile | PImportLua => true | _ => false end.
(* name/init.lua is offered for require - and since the repair for a suffix-less import, which the analysis resolves
   like a require (CheckReferFile) *)
Definition pat_init (fx : bool) (p : ipat) : bool := match p with PRequire => true | PImport => fx | _ => false end.

Definition occ_text (line : list N) (o : occ) : list N := sub_bytes line (oc_start o) (oc_stop o).
(* the text between the quotes, and its columns [lit_begin, lit_end] (the closing quote counts: cursor after the text) *)
Definition lit_begin (o : occ) : nat := oc_start o + oc_qs o + 1.
Definition lit_end (o : occ) : nat := oc_start o + oc_qe o - 1.
Definition occ_lit (line : list N) (o : occ) : list N := sub_bytes line (lit_begin o) (lit_end o).

(* the repaired code: the cursor (byte column) is inside the literal of THIS match *)
Definition hit_pos (col : nat) (o : occ) : bool :=
  Nat.leb 2 (oc_qe o - oc_qs o) && Nat.leb (lit_begin o) col && Nat.leb col (lit_end o).

(* the code before the repair: strings.Index(line, matched text) + strings.Index(matched text, literal text), compared
   with pos.Character (UTF-16 units) *)
Definition hit_search (line : list N) (ch : nat) (o : occ) : option (list N) :=
  let t := occ_text line o in
  let quoted := sub_bytes t (oc_qs o) (oc_qe o) in
  if Nat.ltb (length quoted) 2 then None else
  let lit := sub_bytes quoted 1 (length quoted - 1) in
  match first_index t line, first_index lit t with
  | Some i, Some j => if Nat.leb (i + j) ch && Nat.leb ch (i + j + length lit) then Some lit else None
  | _, _ => None
  end.

Fixpoint pick_pos (line : list N) (col : nat) (p : ipat) (os : list occ) {struct os} : option (ipat * list N) :=
  match os with
  | [] => None
  | o :: r => if hit_pos col o then Some (p, occ_lit line o) else pick_pos line col p r
  end.

Fixpoint pick_search (line : list N) (ch : nat) (p : ipat) (os : list occ) {struct os} : option (ipat * list N) :=
  match os with
  | [] => None
  | o :: r => match hit_search line ch o with Some l => Some (p, l) | None => pick_search line ch p r end
  end.

(* fx = true : every pattern in order, every match, the first one whose literal holds the cursor;
   fx = false: only the matches of the FIRST pattern that matches anywhere on the line *)
Fixpoint cursor_pick (fx : bool) (line : list N) (col ch : nat) (groups : list (ipat * list occ)) {struct groups}
  : option (ipat * list N) :=
  match groups with
  | [] => None
  | (p, os) :: rest =>
    if fx then match pick_pos line col p os with Some r => Some r | None => cursor_pick fx line col ch rest end
    else match os with [] => cursor_pick fx line col ch rest | _ => pick_search line ch p os end
  end.

(* the whole GetOpenFileStr: the candidate list for the string under the cursor *)
Definition cursor_list (cfg : rcfg) (line : list N) (col ch : nat) (groups : list (ipat * list occ)) : list (list N) :=
  match cursor_pick (cursor_fixed cfg) line col ch groups with
  | None => []
  | Some (p, s) => open_list cfg (pat_init (cursor_fixed cfg) p) (pat_need_suffix p) s
  end.

(* ---- one referencing file across create/delete events (check_lsp_filechange.go: HandleFileEventChanges with one
        event; check_all.go: RemoveFile; file_result.go: ReanalyseReferInfo / isReferFileContainFiles) ----
   The referencing file `cur` is never itself created/deleted; the other files contain no references. *)
Record ref_state := mk_ref {
  rs_kind : rkind;
  rs_str : list N;                 (* ReferInfo.ReferStr *)
  rs_valid : bool;                 (* ReferInfo.Valid *)
  rs_vstr : list (list N);         (* possible values of ReferInfo.ReferValidStr ([] = "") *)
  rs_err : bool                    (* its type-6 diagnostic is in CheckErrVec *)
}.

Record pstate := mk_pstate {
  ps_disk : list (list N);         (* regular files on disk *)
  ps_idx : idx;                    (* AllProject.fileIndexInfo *)
  ps_loaded : list (list N);       (* keys of AllProject.fileStructMap *)
  ps_refs : list ref_state;        (* cur's ReferVec *)
  ps_ambig : bool                  (* an earlier random choice among tied candidates decided the control flow *)
}.

Section Events.
  Variable cfg : rcfg.
  Variable cur : list N.
  Variable fixed : bool.           (* false: RemoveOneFile as first written; true: with work/fixes/C18-remove-key.diff (ec76861) *)

  Definition disk_of (d : list (list N)) : list N -> bool := fun p => mem_bytes p d.

  (* CheckReferFile on a ReferInfo whose Valid was just set to true; ReferValidStr is only overwritten on success *)
  Definition reanalyse_ref (d : list (list N)) (st : idx) (r : ref_state) : ref_state :=
    let o := check_refer (disk_of d) cfg st cur (rs_kind r) (rs_str r) in
    mk_ref (rs_kind r) (rs_str r) (r_valid o)
           (match r_resolved o with [] => rs_vstr r | l => l end) (r_err6 o).

  Definition first_ref (d : list (list N)) (st : idx) (k : rkind) (s : list N) : ref_state :=
    reanalyse_ref d st (mk_ref k s true [] false).

  (* isReferFileContainFiles for the single changed file f: Some b = decided, None = depends on a random choice *)
  Definition ref_touches (f : list N) (r : ref_state) : option bool :=
    let s := remove_pre_str (rs_str r) in
    if is_suffix s f || (negb (is_suffix lua_ext s) && is_suffix (s ++ lua_ext) f) then Some true
    else if mem_bytes f (rs_vstr r)
         then match rs_vstr r with [_] => Some true | _ => None end
         else Some false.

  Fixpoint any_touch (f : list N) (rs : list ref_state) : option bool :=
    match rs with
    | [] => Some false
    | r :: t => match ref_touches f r with
                | Some true => Some true
                | Some false => any_touch f t
                | None => match any_touch f t with Some true => Some true | _ => None end
                end
    end.

  Definition del_bytes (f : list N) (l : list (list N)) : list (list N) :=
    filter (fun g => negb (beq_bytes f g)) l.

  Definition pstep (s : pstate) (e : op) : pstate :=
    let f := match e with Ins p => p | Rem p => p end in
    let d := match e with Ins p => if mem_bytes p (ps_disk s) then ps_disk s else ps_disk s ++ [p]
                        | Rem p => del_bytes p (ps_disk s) end in
    let st := match e with Ins p => idx_insert (stem_fixed cfg) p (ps_idx s)
                         | Rem p => if fixed then idx_remove_fixed (stem_fixed cfg) p (ps_idx s)
                                    else idx_remove (stem_fixed cfg) p (ps_idx s) end in
    let ld := match e with Ins p => if mem_bytes p (ps_loaded s) then ps_loaded s else ps_loaded s ++ [p]
                         | Rem p => del_bytes p (ps_loaded s) end in
    (* ReanalyseReferInfo. Before fixes/C18-create-not-reanalysed.diff: only when cur has a type-6 error or one of its
       references touches the changed file; repaired: always *)
    let has_err := existsb rs_err (ps_refs s) in
    let touch := if reanalyse_fixed cfg || has_err then Some true else any_touch f (ps_refs s) in
    match touch with
    | Some true => mk_pstate d st ld (map (reanalyse_ref d st) (ps_refs s)) (ps_ambig s)
    | Some false => mk_pstate d st ld (ps_refs s) (ps_ambig s)
    | None => mk_pstate d st ld (ps_refs s) true
    end.

  Definition pinit (disk lua : list (list N)) (refs : list (rkind * list N)) : pstate :=
    let st := idx_run_g (stem_fixed cfg) (map Ins lua) in
    mk_pstate disk st lua (map (fun kr => first_ref disk st (fst kr) (snd kr)) refs) false.
End Events.
