(* Executable model of the numeral classification of LuaHelper's parser (property C03, numeral part),
   as of /repo commit 8dd49c7 (isLuajitSimpleInterger / isLuajitHexInteger repaired):
     langserver/check/compiler/parser/parser_number.go  parseInteger parseFloat parseLuajitNum parseHexFloat
                                                        isSimpleInteger isHexInteger isLuajitSimpleInterger
                                                        isLuajitHexInteger parseDigit reHexFloat
     langserver/check/compiler/parser/parse_exp.go      parseNumberExp (order: integer, float, LuaJIT, else error)
   and of the pieces of Go's library they call (go1.23 strconv/atoi.go, strconv/atof.go, strings):
     strconv.ParseUint / ParseInt (explicit base 10 or 16, 64 bits), strconv.ParseFloat as far as *acceptance* goes
     (special, readFloat, underscoreOK; a range error is accepted by parseFloat, so the value never matters),
     strings.TrimSpace / ToLower / Contains / HasPrefix / Index.
   Every Go indexing / slicing expression is an explicit bounds check (idx / slice) that yields Fault.

   Faithful domain: ASCII token texts (all bytes < 128).  For bytes >= 128 Go's TrimSpace/ToLower work on runes
   (Unicode spaces, re-encoding of invalid UTF-8); that is not modelled - the lexer's scanNumber only produces
   ASCII text.  Float VALUES are not modelled (only Int v / Float / Bad).
   reHexFloat (a fixed regexp) is modelled by the recogniser re_hex_float, not by a regexp engine. *)
From Coq Require Import List NArith ZArith Bool.
From LH Require Import Base.Bytes Base.Res.
Import ListNotations.
Local Open Scope N_scope.

Inductive num_class := NumInt (v : Z) | NumFloat | NumBad.

(* ---------- characters ---------- *)
Local Notation c_plus := 43 (only parsing).
Local Notation c_minus := 45 (only parsing).
Local Notation c_dot := 46 (only parsing).
Local Notation c_0 := 48 (only parsing).
Local Notation c_us := 95 (only parsing).      (* '_' *)
Local Notation c_e := 101 (only parsing).
Local Notation c_p := 112 (only parsing).
Local Notation c_u := 117 (only parsing).
Local Notation c_x := 120 (only parsing).
Definition s_0x : list N := [48; 120].
Definition s_p0x : list N := [43; 48; 120].          (* "+0x" *)
Definition s_m0x : list N := [45; 48; 120].          (* "-0x" *)
Definition s_nan : list N := [110; 97; 110].
Definition s_inf : list N := [105; 110; 102].
Definition s_infinity : list N := [105; 110; 102; 105; 110; 105; 116; 121].
Definition s_ll : list N := [108; 108].
Definition s_ull : list N := [117; 108; 108].

Definition is_digit (c : N) : bool := (48 <=? c) && (c <=? 57).
Definition is_hex_lc (c : N) : bool := is_digit c || ((97 <=? c) && (c <=? 102)).   (* 0-9 a-f *)
Definition is_sign (c : N) : bool := (c =? c_plus) || (c =? c_minus).

(* ---------- Go strings as byte lists; Go `int` expressions are Z ---------- *)
Definition len (s : list N) : Z := Z.of_nat (length s).

(* s[i] *)
Definition idx (s : list N) (i : Z) : Res N :=
  if ((i <? 0) || (len s <=? i))%Z then Fault IndexRange
  else match nth_error s (Z.to_nat i) with Some c => Ok c | None => Fault IndexRange end.

(* s[a:b] and s[a:] *)
Definition slice (s : list N) (a b : Z) : Res (list N) :=
  if ((a <? 0) || (b <? a) || (len s <? b))%Z then Fault SliceBounds
  else Ok (firstn (Z.to_nat (b - a)) (skipn (Z.to_nat a) s)).
Definition slice_from (s : list N) (a : Z) : Res (list N) := slice s a (len s).

(* strings.TrimSpace / strings.ToLower, ASCII *)
Definition is_space (c : N) : bool :=
  (c =? 9) || (c =? 10) || (c =? 11) || (c =? 12) || (c =? 13) || (c =? 32).
Fixpoint trim_left (s : list N) : list N :=
  match s with c :: r => if is_space c then trim_left r else s | [] => [] end.
Definition trim_space (s : list N) : list N := rev (trim_left (rev (trim_left s))).
Definition lower_byte (c : N) : N := if (65 <=? c) && (c <=? 90) then c + 32 else c.
Definition to_lower (s : list N) : list N := map lower_byte s.

Fixpoint has_prefix (p s : list N) : bool :=
  match p, s with
  | [], _ => true
  | a :: p', b :: s' => (a =? b) && has_prefix p' s'
  | _ :: _, [] => false
  end.
Fixpoint contains (p s : list N) : bool :=
  has_prefix p s || match s with [] => false | _ :: r => contains p r end.
(* strings.Index(s, string(c)); -1 when absent *)
Fixpoint index_byte (c : N) (s : list N) : Z :=
  match s with
  | [] => (-1)%Z
  | a :: r => if a =? c then 0%Z else let k := index_byte c r in if (k <? 0)%Z then (-1)%Z else (k + 1)%Z
  end.

(* the `for i, ch := range str` scans: index of the first character (counting from i) that fails p.
   (Go ranges over runes; on ASCII text runes are bytes.) *)
Fixpoint first_fail (p : N -> bool) (s : list N) (i : Z) : option Z :=
  match s with [] => None | c :: r => if p c then first_fail p r (i + 1)%Z else Some i end.

(* longest prefix satisfying p, and the rest *)
Fixpoint span (p : N -> bool) (s : list N) : list N * list N :=
  match s with
  | c :: r => if p c then let (a, b) := span p r in (c :: a, b) else ([], s)
  | [] => ([], [])
  end.
Definition nonempty (s : list N) : bool := match s with [] => false | _ => true end.

(* ---------- strconv.ParseUint / ParseInt with an explicit base in 2..36, bitSize 64 ---------- *)
Inductive pu_res := PuOk (v : N) | PuSyntax | PuRange.
(* strconv.lower: c | ('x' - 'X'), i.e. set bit 5 (written arithmetically; go_lower_is_lor in Proofs/NumberGo.v) *)
Definition go_lower (c : N) : N := if (c / 32) mod 2 =? 0 then c + 32 else c.
(* digit value of a character in ParseUint: '0'..'9' -> 0..9, letters -> 10..35 *)
Definition pu_digit (c : N) : option N :=
  if is_digit c then Some (c - 48)
  else if (97 <=? go_lower c) && (go_lower c <=? 122) then Some (go_lower c - 97 + 10)
  else None.
Definition max_u64 : N := 18446744073709551615.

(* the loop `for _, c := range []byte(s)`; n is the accumulator.  Go detects the overflow of n*base+d by
   `n1 < n || n1 > maxVal` on wrapping uint64 arithmetic; on unbounded N that is `max_u64 < n*base+d`
   (n < cutoff makes n*base fit, and a wrapped sum is < base <= n). *)
Fixpoint parse_uint_loop (base : N) (s : list N) (n : N) : pu_res :=
  match s with
  | [] => PuOk n
  | c :: r =>
    match pu_digit c with
    | None => PuSyntax
    | Some d =>
      if base <=? d then PuSyntax
      else if (max_u64 / base + 1) <=? n then PuRange          (* n >= cutoff *)
      else let n1 := n * base + d in
           if max_u64 <? n1 then PuRange else parse_uint_loop base r n1
    end
  end.
Definition parse_uint (base : N) (s : list N) : pu_res :=
  match s with [] => PuSyntax | _ => parse_uint_loop base s 0 end.

(* ParseInt(s, base, 64): None = any error *)
Definition parse_int (base : N) (s : list N) : option Z :=
  match s with
  | [] => None
  | c :: r =>
    let neg := c =? c_minus in
    let s1 := if is_sign c then r else s in
    match parse_uint base s1 with
    | PuSyntax => None
    | PuRange => None                                   (* un = maxVal >= cutoff in both sign cases *)
    | PuOk un =>
      let cutoff := 9223372036854775808 in
      if negb neg && (cutoff <=? un) then None
      else if neg && (cutoff <? un) then None
      else Some (if neg then (- Z.of_N un)%Z else Z.of_N un)
    end
  end.

(* int64(x) for any integer x: two's-complement wrap *)
Definition wrap64 (z : Z) : Z := ((z + 9223372036854775808) mod 18446744073709551616 - 9223372036854775808)%Z.

(* ---------- strconv.ParseFloat(s, 64): acceptance only ---------- *)
Fixpoint common_prefix_len_ic (s prefix : list N) : N :=     (* commonPrefixLenIgnoreCase *)
  match s, prefix with
  | c :: s', p :: prefix' => if lower_byte c =? p then 1 + common_prefix_len_ic s' prefix' else 0
  | _, _ => 0
  end.
(* special: Some n = ok with n bytes consumed *)
Definition special (s : list N) : option N :=
  match s with
  | [] => None
  | c :: r =>
    let inf_case (t : list N) (nsign : N) :=
      let n := common_prefix_len_ic t s_infinity in
      let n := if (3 <? n) && (n <? 8) then 3 else n in
      if (n =? 3) || (n =? 8) then Some (nsign + n) else None in
    if is_sign c then inf_case r 1
    else if (c =? 105) || (c =? 73) then inf_case s 0
    else if (c =? 110) || (c =? 78) then (if common_prefix_len_ic s s_nan =? 3 then Some 3 else None)
    else None
  end.

(* underscoreOK; saw is one of '^' 94, '0' 48, '_' 95, '!' 33 *)
Fixpoint uok_loop (hex : bool) (s : list N) (saw : N) : bool :=
  match s with
  | [] => negb (saw =? 95)
  | c :: r =>
    if is_digit c || (hex && (97 <=? go_lower c) && (go_lower c <=? 102)) then uok_loop hex r 48
    else if c =? c_us then (if negb (saw =? 48) then false else uok_loop hex r 95)
    else if saw =? 95 then false
    else uok_loop hex r 33
  end.
Definition underscore_ok (s : list N) : bool :=
  let s := match s with c :: r => if is_sign c then r else s | [] => s end in
  match s with
  | a :: b :: r =>
    if (a =? c_0) && ((go_lower b =? 98) || (go_lower b =? 111) || (go_lower b =? c_x))
    then uok_loop (go_lower b =? c_x) r 48
    else uok_loop false s 94
  | _ => uok_loop false s 94
  end.

(* readFloat, mantissa loop: (rest, sawdigits, underscores) *)
Fixpoint rf_mantissa (hex : bool) (s : list N) (sawdot sawdigits unders : bool) : list N * bool * bool :=
  match s with
  | [] => ([], sawdigits, unders)
  | c :: r =>
    if c =? c_us then rf_mantissa hex r sawdot sawdigits true
    else if c =? c_dot then (if sawdot then (s, sawdigits, unders) else rf_mantissa hex r true sawdigits unders)
    else if is_digit c then rf_mantissa hex r sawdot true unders
    else if hex && (97 <=? go_lower c) && (go_lower c <=? 102) then rf_mantissa hex r sawdot true unders
    else (s, sawdigits, unders)
  end.
(* readFloat, exponent digits loop: (rest, underscores) *)
Fixpoint rf_expdigits (s : list N) (unders : bool) : list N * bool :=
  match s with
  | c :: r => if c =? c_us then rf_expdigits r true
              else if is_digit c then rf_expdigits r unders else (s, unders)
  | [] => ([], unders)
  end.
(* readFloat, base detection after the sign: `if i+2 < len(s) && s[i] == '0' && lower(s[i+1]) == 'x'` *)
Definition rf_base (s1 : list N) : bool * list N :=
  match s1 with
  | a :: b :: ((_ :: _) as r) => if (a =? c_0) && (go_lower b =? c_x) then (true, r) else (false, s1)
  | _ => (false, s1)
  end.
(* readFloat, optional exponent at s3 = s[i:]; None = `return` with ok == false; Some (rest, underscores) *)
Definition rf_exponent (hex : bool) (s3 : list N) (u1 : bool) : option (list N * bool) :=
  let expc := if hex then c_p else c_e in
  match s3 with
  | c :: r =>
    if go_lower c =? expc then
      match r with
      | [] => None
      | d :: r' =>
        let r1 := if is_sign d then r' else r in
        match r1 with
        | [] => None
        | e :: _ => if is_digit e then Some (rf_expdigits r1 u1) else None
        end
      end
    else if hex then None else Some (s3, u1)          (* hex: "Must have exponent." *)
  | [] => if hex then None else Some (s3, u1)
  end.
(* readFloat: Some rest = ok, with `rest` the unread remainder s[i:] *)
Definition read_float (s : list N) : option (list N) :=
  match s with
  | [] => None
  | c0 :: r0 =>
    let s1 := if is_sign c0 then r0 else s in
    let '(hex, s2) := rf_base s1 in
    let '(s3, sawdigits, u1) := rf_mantissa hex s2 false false false in
    if negb sawdigits then None else
    match rf_exponent hex s3 u1 with
    | None => None
    | Some (s4, u2) =>
      if u2 && negb (underscore_ok (firstn (length s - length s4) s)) then None else Some s4
    end
  end.
(* ParseFloat returns err == nil or ErrRange  (n == len(s) required; decimal.set re-reads the same syntax) *)
Definition go_parse_float_ok (s : list N) : bool :=
  match special s with
  | Some n => Z.of_N n =? len s
  | None => match read_float s with Some [] => true | _ => false end
  end%Z.

(* ---------- parser_number.go ---------- *)

(* isSimpleInteger (precondition in Go: len(str) > 0; str[0] is checked here) *)
Definition is_simple_integer (str : list N) : Res bool :=
  do c0 <- idx str 0;
  if (len str =? 1)%Z && is_sign c0 then Ok false
  else Ok (forallb is_digit (if is_sign c0 then tl str else str)).

(* isLuajitSimpleInterger (after fix 8dd49c7): loc = index of the first non-digit (-1 if none), digits = number of
   digits before it; "one or more digits followed by exactly ll or ull" *)
Definition is_luajit_simple_integer (str : list N) : Res bool :=
  do c0 <- idx str 0;
  if (len str =? 1)%Z && is_sign c0 then Ok false else
  match (if is_sign c0 then first_fail is_digit (tl str) 1 else first_fail is_digit str 0) with
  | None => Ok false                                              (* loc < 0 *)
  | Some loc =>
    let digits := (loc - (if is_sign c0 then 1 else 0))%Z in
    if (digits =? 0)%Z then Ok false else
    do suffix <- slice_from str loc;
    Ok (beq_bytes suffix s_ull || beq_bytes suffix s_ll)
  end.

(* common head of isHexInteger / isLuajitHexInteger: Ok None = "return false", Ok (Some rest) = str[i:] *)
Definition hex_head (str : list N) : Res (option (list N)) :=
  let strLen := len str in
  if (strLen <=? 2)%Z then Ok None else
  do c0 <- idx str 0;
  let i := if c0 =? c_minus then 1%Z else 0%Z in
  do c1 <- idx str i;
  if negb (c1 =? c_0) then Ok None else
  let i := (i + 1)%Z in
  do c2 <- idx str i;
  if negb (c2 =? c_x) then Ok None else
  let i := (i + 1)%Z in
  if (strLen =? i)%Z then Ok None else
  do rest <- slice_from str i;
  Ok (Some rest).

Definition is_hex_integer (str : list N) : Res bool :=
  do h <- hex_head str;
  match h with None => Ok false | Some rest => Ok (forallb is_hex_lc rest) end.

(* isLuajitHexInteger (after fix 8dd49c7): "one or more hex digits followed by exactly ll or ull" *)
Definition is_luajit_hex_integer (str : list N) : Res bool :=
  do h <- hex_head str;
  match h with
  | None => Ok false
  | Some rest =>
    match first_fail is_hex_lc rest 0 with
    | None => Ok false                                            (* loc = -1 *)
    | Some loc =>
      if (loc <=? 0)%Z then Ok false else
      do suffix <- slice_from rest loc;
      Ok (beq_bytes suffix s_ull || beq_bytes suffix s_ll)
    end
  end.

(* the shared tail of parseInteger / parseLuajitNum for text containing "0x" *)
Definition hex_tail (str : list N) : Res (option Z) :=
  do c0 <- idx str 0;
  let sign := if c0 =? c_minus then (-1)%Z else 1%Z in
  do str <- slice_from str (if c0 =? c_minus then 3%Z else 2%Z);
  do str <- (if (16 <? len str)%Z then slice_from str (len str - 16)%Z else Ok str);
  match parse_uint 16 str with
  | PuOk i => Ok (Some (wrap64 (sign * wrap64 (Z.of_N i))))
  | _ => Ok None
  end.

Definition parse_integer (tok : list N) : Res (option Z) :=
  let str := to_lower (trim_space tok) in
  if (len str =? 0)%Z then Ok None else
  do simple <- is_simple_integer str;
  do hex <- (if simple then Ok true else is_hex_integer str);     (* && short-circuit; value unused when simple *)
  if negb simple && negb hex then Ok None else
  do c0 <- idx str 0;
  do str <- (if c0 =? c_plus then slice_from str 1 else Ok str);
  if negb (contains s_0x str) then Ok (parse_int 10 str)
  else hex_tail str.

Definition re_exponent (mark : N) (s : list N) : bool :=          (* (p[+\-]?[0-9]+)?$ *)
  match s with
  | [] => true
  | c :: r => (c =? mark) &&
              let ds := match r with d :: r' => if is_sign d then r' else r | [] => r end in
              nonempty ds && forallb is_digit ds
  end.
(* reHexFloat.MatchString:  ^(H+(\.H{0,})?|(H{0,}\.H+))(p[+\-]?[0-9]+)?$  with H = [0-9a-f]
   (the source writes H{0,} as a star; spelled this way to keep the Coq comment well-formed) *)
Definition re_hex_float (s : list N) : bool :=
  let (h1, r1) := span is_hex_lc s in
  match r1 with
  | c :: r => if c =? c_dot
              then let (h2, r2) := span is_hex_lc r in (nonempty h1 || nonempty h2) && re_exponent c_p r2
              else nonempty h1 && re_exponent c_p r1
  | [] => nonempty h1
  end.

(* parseHexFloat: acceptance only *)
Definition parse_hex_float (str : list N) : Res bool :=
  if negb (re_hex_float str) then Ok false else
  let idxOfP := index_byte c_p str in
  do r <- (if (0 <? idxOfP)%Z then
             do digits <- slice_from str (idxOfP + 1)%Z;
             do str <- slice str 0 idxOfP;
             do d0 <- idx digits 0;
             do digits <- (if is_sign d0 then slice_from digits 1 else Ok digits);
             if (len str =? 0)%Z || (len digits =? 0)%Z then Ok None
             else if forallb is_digit digits then Ok (Some str) else Ok None      (* parseDigit(_, 10) *)
           else Ok (Some str));
  match r with
  | None => Ok false
  | Some str =>
    let idxOfDot := index_byte c_dot str in
    do r2 <- (if (0 <=? idxOfDot)%Z then
                do digits <- slice_from str (idxOfDot + 1)%Z;
                do str <- slice str 0 idxOfDot;
                if (len str =? 0)%Z && (len digits =? 0)%Z then Ok None
                else if forallb is_hex_lc digits then Ok (Some str) else Ok None  (* parseDigit(_, 16) *)
              else Ok (Some str));
    match r2 with
    | None => Ok false
    | Some str => Ok (forallb is_hex_lc str)
    end
  end.

Definition parse_float (tok : list N) : Res bool :=
  let str := to_lower (trim_space tok) in
  if contains s_nan str || contains s_inf str then Ok false
  else if has_prefix s_0x str && (2 <? len str)%Z then do s <- slice_from str 2; parse_hex_float s
  else if has_prefix s_p0x str && (3 <? len str)%Z then do s <- slice_from str 3; parse_hex_float s
  else if has_prefix s_m0x str && (3 <? len str)%Z then do s <- slice_from str 3; parse_hex_float s
  else Ok (go_parse_float_ok str).

Definition parse_luajit_num (tok : list N) : Res (option Z) :=
  let str := to_lower (trim_space tok) in
  if (len str =? 0)%Z then Ok None else
  do simple <- is_luajit_simple_integer str;
  do hex <- (if simple then Ok true else is_luajit_hex_integer str);
  if negb simple && negb hex then Ok None else
  do c0 <- idx str 0;
  do str <- (if c0 =? c_plus then slice_from str 1 else Ok str);
  do c3 <- idx str (len str - 3);
  do str <- (if c3 =? c_u then slice str 0 (len str - 3) else slice str 0 (len str - 2));
  if negb (contains s_0x str) then
    match parse_uint 10 str with
    | PuOk i => Ok (Some (wrap64 (Z.of_N i)))
    | _ => Ok None
    end
  else hex_tail str.

(* parseNumberExp *)
Definition classify_number (tok : list N) : Res num_class :=
  do i <- parse_integer tok;
  match i with
  | Some v => Ok (NumInt v)
  | None =>
    do f <- parse_float tok;
    if f then Ok NumFloat else
    do n <- parse_luajit_num tok;
    match n with Some v => Ok (NumInt v) | None => Ok NumBad end
  end.

(* the token is accepted (no "not a number" error) *)
Definition number_accepted (tok : list N) : bool :=
  match classify_number tok with Ok (NumInt _) | Ok NumFloat => true | _ => false end.

(* ---------- guard (Proofs/NumberProofs.v, correspondence leg c03.number) ---------- *)

(* no white space, no underscore, no leading sign - true of every text cut out by the lexer's scanNumber *)
Definition num_clean (s : list N) : bool :=
  forallb (fun c => negb (is_space c) && negb (c =? c_us)) s &&
  match s with c :: _ => negb (is_sign c) | [] => true end.

(* what parseLuajitNum cuts off: three characters if the third-last is 'u', else two (for len >= 3) *)
Definition strip23 (t : list N) : list N :=
  let n := length t in
  if nth (n - 3) t 0 =? c_u then firstn (n - 3) t else firstn (n - 2) t.

(* the last n characters *)
Definition lastn (n : nat) (s : list N) : list N := skipn (length s - n) s.

(* ---------- HISTORICAL: the three classes of lower-cased texts on which the code deviated from the numeral
   grammar before fix 8dd49c7 (`loc := 0` meant both "not found" and "found at index 0" in the two
   isLuajit* tests).  The model above describes the fixed code; these predicates are used only by the
   `_repaired` examples of Proofs/NumberProofs.v (every such text is now "not a number", no panic). ---------- *)
(* short_junk: one or two characters, the first not a digit, and not '.' digit: str[len(str)-3] panicked *)
Definition dev_short_junk (t : list N) : bool :=
  match t with
  | [c] => negb (is_digit c)
  | [c; d] => negb (is_digit c) && negb ((c =? c_dot) && is_digit d)
  | _ => false
  end.
(* hex_one_junk: "0x" + one character that is not a hex digit ("0x." "0xl" "0xu" "0xp") was IntegerExp 0 *)
Definition dev_hex_one_junk (t : list N) : bool :=
  match t with [a; b; c] => (a =? c_0) && (b =? c_x) && negb (is_hex_lc c) | _ => false end.
Definition num_loc0 (t : list N) : bool :=
  match t with
  | a :: b :: c :: _ => if (a =? c_0) && (b =? c_x) then negb (is_hex_lc c) else negb (is_digit a)
  | a :: _ => negb (is_digit a)
  | [] => false
  end.
(* hex_cut: ".0x0000000000000001ll", "0x.0000000000000001ll" were IntegerExp of the last 16 hex digits *)
Definition dev_hex_cut (t : list N) : bool :=
  num_loc0 t &&
  let u := strip23 t in
  contains s_0x u && (18 <? length u)%nat && forallb is_hex_lc (lastn 16 u).
