(* C08 - file-event handling: check/check_lsp_filechange.go (HandleFileEventChanges), check_first_hanlde.go
   (unchanged-content shortcut), check_all.go (RemoveFile), check_util.go (GetAllFileErrorInfo),
   check_third_file.go (which files the third pass covers), common/file_index_info.go (index, wrong-key removal),
   results/file_result.go (ReanalyseReferInfo trigger), textdocument_file_request.go (the five handlers; analyseBufferText =
   the live analysis shared by didChange and the repaired didOpen).
   Executable model, no proofs here.

   The per-file analyses are abstract (fields of the record `analysis`):
     syn t            syntax errors (type 1) of a text  = what HandleFileChangeAnalysis returns for a buffer
     first t          first-pass output of a text: its own diagnostics and its require sites, in the order the
                      first pass appends them to CheckErrVec (a require site contributes its type-6 error only
                      when the module does not resolve)
     cross ps f       third-pass diagnostics of file f given, for every file the third pass includes, the analysed text
                      and the third pass's own resolution of its require sites
   Module names are flat: a require site names the one file it can resolve to (sub-directory matching is C18's subject).
   Everything else - event classification, which passes rerun, index and file-set maintenance, the unchanged-content
   shortcut, the re-resolution trigger, error collection and de-duplication, the handlers and their publish order - is
   concrete. *)
From Coq Require Import List NArith Bool.
From LH Require Import Model.Diag.
Import ListNotations.
Local Open Scope N_scope.

Inductive kind := KCreated | KChanged | KDeleted.        (* FileEventCreated = 1, Changed = 2, Deleted = 3 *)

Inductive item := Own (e : err) | Req (t : file) (e : err).

(* repairs (DESIGN 6 rows 12a, 12b, 12, the empty-file shortcut found in round 1, the round-2 repairs of the classes
   unhidden, watched_dirty and outside_file, and the repair of C02's finding open_text_not_disk: the text carried by
   didOpen is analysed; the round-6 repair of the class changed_unknown); all false = the code before any fix: commit *)
Record fixes := { fix12a : bool; fix12b : bool; fix_index : bool; fix_empty : bool;
                  fix_unhidden : bool;     (* fixes/C08-unhidden.diff: fileChangeCleanMap, re-hidden by pushAllDiagnosticsAgain *)
                  fix_watched : bool;      (* fixes/C08-watched-dirty.diff: a watched-file event keeps the live entries *)
                  fix_outside : bool;      (* fixes/C08-outside-file.diff: a file outside the workspace joins / leaves the
                                              project like any other file (full re-analysis on didOpen and didClose) *)
                  fix_didopen : bool;      (* fixes/C02-didopen-analysed.diff: didOpen compares the text it carries with the
                                              file and, when they differ, runs the live analysis of a didChange on it *)
                  fix_changed_unknown : bool }. (* fixes/C08-changed-unknown.diff: HandleFileEventChanges handles "changed"
                                              said of a path that is not a file of the project like "created" *)
Definition no_fix : fixes := {| fix12a := false; fix12b := false; fix_index := false; fix_empty := false;
                                fix_unhidden := false; fix_watched := false; fix_outside := false; fix_didopen := false; fix_changed_unknown := false |}.
Definition all_fix : fixes := {| fix12a := true; fix12b := true; fix_index := true; fix_empty := true;
                                 fix_unhidden := true; fix_watched := true; fix_outside := true; fix_didopen := true; fix_changed_unknown := true |}.
(* the code of round 1: fix: commits 0734f52 12a, af1552a 12b, 85b8991 empty shortcut, ec76861 index *)
Definition round1 : fixes := {| fix12a := true; fix12b := true; fix_index := true; fix_empty := true;
                                fix_unhidden := false; fix_watched := false; fix_outside := false; fix_didopen := false; fix_changed_unknown := false |}.
(* round 1 + fixes/C08-unhidden.diff + fixes/C08-watched-dirty.diff *)
Definition round2 : fixes := {| fix12a := true; fix12b := true; fix_index := true; fix_empty := true;
                                fix_unhidden := true; fix_watched := true; fix_outside := false; fix_didopen := false; fix_changed_unknown := false |}.
(* round 2 + fixes/C08-outside-file.diff: the seven repairs of C08's own findings, didOpen still not analysed *)
Definition round3 : fixes := {| fix12a := true; fix12b := true; fix_index := true; fix_empty := true;
                                fix_unhidden := true; fix_watched := true; fix_outside := true; fix_didopen := false; fix_changed_unknown := false |}.
(* round 3 + fixes/C02-didopen-analysed.diff: the code before the changed-unknown repair *)
Definition round4 : fixes := {| fix12a := true; fix12b := true; fix_index := true; fix_empty := true;
                                fix_unhidden := true; fix_watched := true; fix_outside := true; fix_didopen := true;
                                fix_changed_unknown := false |}.
(* the repairs that are in /repo now: all nine *)
Definition deployed : fixes := {| fix12a := true; fix12b := true; fix_index := true; fix_empty := true;
                                  fix_unhidden := true; fix_watched := true; fix_outside := true; fix_didopen := true;
                                  fix_changed_unknown := true |}.

(* file sets: fmem / fadd / frem are in Model/Diag.v *)
Definition fset_of (l : list file) : list file := fold_right fadd [] l.

Definition non6 (e : err) : bool := negb (etype e =? 6).      (* common.CheckErrorNoFile *)
Definition has6 (l : list err) : bool := existsb (fun e => etype e =? 6) l.

(* copyFileErr: drop an error whose ToString() was already seen for this file *)
Fixpoint dedupe (seen l : list err) : list err :=
  match l with
  | [] => []
  | e :: r => if existsb (err_eqb e) seen then dedupe seen r else e :: dedupe (e :: seen) r
  end.

(* the abstract per-file analyses (validated against the real analyses by the correspondence check) *)
Record analysis := {
  text : Type;
  teqb : text -> text -> bool;                  (* bytes.Equal *)
  tempty : text -> bool;                        (* len(data) == 0 *)
  syn : text -> list err;
  first : text -> list item;
  cross : list (file * text * list (option file)) -> file -> list err;
  in_dir : file -> bool                         (* DirManager.IsInDir *)
}.

Section Model.
  Variable A : analysis.
  Variable fx : fixes.
  Local Notation txt := (text A).

  (* results.FileResult as far as diagnostics go *)
  Record fres := { r_text : txt;                        (* the text that was analysed (ghost: Go keeps the AST) *)
                   r_refs : list (option file);          (* per require site: ReferInfo.Valid / ReferValidStr *)
                   r_errs : list err }.                  (* CheckErrVec of the first pass *)
  (* results.FileStruct: Contents is kept only by analyses run with saveFlag; s_res = None is HandleResult = ReadErr *)
  Record fstruct := { s_contents : option txt; s_res : option fres }.

  Record proj := { p_files : list file;                  (* allFilesMap (keys) *)
                   p_index : list file;                  (* fileIndexInfo: files it still maps *)
                   p_fsm : amap fstruct;                 (* fileStructMap *)
                   p_lru : list file;                    (* fileLRUMap (keys; capacity 20 not modelled) *)
                   p_tincl : list file;                  (* thirdStruct.AllIncludeFile *)
                   p_terrs : emap }.                     (* thirdStruct.FileErrorMap *)

  Definition set_fsm p m := {| p_files := p_files p; p_index := p_index p; p_fsm := m; p_lru := p_lru p;
                               p_tincl := p_tincl p; p_terrs := p_terrs p |}.
  Definition set_lru p l := {| p_files := p_files p; p_index := p_index p; p_fsm := p_fsm p; p_lru := l;
                               p_tincl := p_tincl p; p_terrs := p_terrs p |}.

  (* ---- reference resolution (FileResult.CheckReferFile -> GetBestMatchReferFile: consults the index only) ---- *)
  Definition resolve (idx : list file) (t : file) : option file := if fmem t idx then Some t else None.
  Definition reqs_of (its : list item) : list (file * err) :=
    flat_map (fun i => match i with Req t e => [(t, e)] | Own _ => [] end) its.
  Definition refs_of (idx : list file) (its : list item) : list (option file) :=
    map (fun te => resolve idx (fst te)) (reqs_of its).
  Definition ferrs (idx : list file) (its : list item) : list err :=
    flat_map (fun i => match i with
                       | Own e => [e]
                       | Req t e => match resolve idx t with Some _ => [] | None => [e] end
                       end) its.
  Definition errs6 (idx : list file) (its : list item) : list err :=
    flat_map (fun te => match resolve idx (fst te) with Some _ => [] | None => [snd te] end) (reqs_of its).

  Definition analyse (idx : list file) (t : txt) : fres :=
    {| r_text := t; r_refs := refs_of idx ((first A) t); r_errs := ferrs idx ((first A) t) |}.

  (* ---- analysisFirstLuaFile(content = nil) + recvWorkChann ---- *)
  (* bytes.Equal(beforeStruct.Contents, data): a nil Contents equals an EMPTY file *)
  Definition contents_same (c : option txt) (data : txt) : bool :=
    match c with
    | None => if fix_empty fx then false else (tempty A) data
    | Some t => (teqb A) t data
    end.

  (* returns the new project and changeFlag; save = saveContentFlag *)
  Definition first_one (save : bool) (dk : amap txt) (p : proj) (f : file) : proj * bool :=
    match aget dk f with
    | None => (set_fsm p (aset (p_fsm p) f {| s_contents := None; s_res := None |}), true)    (* FileHandleReadErr *)
    | Some data =>
      let fresh_struct := {| s_contents := if save then Some data else None;
                             s_res := Some (analyse (p_index p) data) |} in
      match aget (p_fsm p) f with
      | Some s => if contents_same (s_contents s) data then (p, false)
                  else (set_fsm p (aset (p_fsm p) f fresh_struct), true)
      | None => (set_fsm p (aset (p_fsm p) f fresh_struct), true)
      end
    end.

  Definition first_many (save : bool) (dk : amap txt) (p : proj) (l : list file) : proj * bool :=
    fold_left (fun pc f => let '(p', c) := first_one save dk (fst pc) f in (p', snd pc || c)) l (p, false).

  (* ---- AllProject.RemoveFile (FileIndexInfo.RemoveOneFile deletes by the wrong key: the index keeps the file) ---- *)
  Definition remove_file (p : proj) (f : file) : proj :=
    {| p_files := frem f (p_files p);
       p_index := if fix_index fx then frem f (p_index p) else p_index p;
       p_fsm := adel (p_fsm p) f;
       p_lru := frem f (p_lru p);
       p_tincl := p_tincl p; p_terrs := p_terrs p |}.

  (* ---- FileResult.ReanalyseReferInfo ---- *)
  Definition refer_hit (need : list file) (its : list item) : bool :=
    existsb (fun te => fmem (fst te) need) (reqs_of its).
  Definition reanalyse_one (idx need : list file) (s : fstruct) : fstruct :=
    match s_res s with
    | None => s
    | Some r =>
      let its := (first A) (r_text r) in
      if has6 (r_errs r) || refer_hit need its then
        {| s_contents := s_contents s;
           s_res := Some {| r_text := r_text r; r_refs := refs_of idx its;
                            r_errs := filter non6 (r_errs r) ++ errs6 idx its |} |}
      else s
    end.
  Definition reanalyse_all (p : proj) (need : list file) : proj :=
    set_fsm p (map (fun kv => (fst kv, reanalyse_one (p_index p) need (snd kv))) (p_fsm p)).

  (* ---- HandleAllThirdFile ---- *)
  Definition res_of (p : proj) (f : file) : option fres :=
    match aget (p_fsm p) f with Some s => s_res s | None => None end.

  (* scanFileIncludeAllFiles: closure of the file set under the valid references of the first pass
     (computed by repeated one-step expansion; #analysed files + 1 rounds reach the fixed point) *)
  Definition add_targets (a : list file) (refs : list (option file)) : list file :=
    fold_left (fun a ot => match ot with Some t => fadd t a | None => a end) refs a.
  Definition expand (p : proj) (l : list file) : list file :=
    fold_left (fun a f => match res_of p f with Some r => add_targets a (r_refs r) | None => a end) l l.
  Fixpoint iterate {X} (n : nat) (g : X -> X) (x : X) : X :=
    match n with O => x | S k => iterate k g (g x) end.
  Definition third_incl (p : proj) : list file := iterate (S (length (p_fsm p))) (expand p) (p_files p).

  (* what the third pass sees of an included file: its text and its own resolution of the require sites
     (GetImportReferByCallExp runs CheckReferFile again with the index as it is now) *)
  Definition psums (p : proj) (incl : list file) : list (file * txt * list (option file)) :=
    flat_map (fun f => match res_of p f with
                       | Some r => [(f, r_text r, refs_of (p_index p) ((first A) (r_text r)))]
                       | None => []
                       end) incl.

  Definition recompute_third (p : proj) : proj :=
    let incl := third_incl p in
    let ps := psums p incl in
    {| p_files := p_files p; p_index := p_index p; p_fsm := p_fsm p; p_lru := p_lru p;
       p_tincl := incl;
       p_terrs := flat_map (fun f => match res_of p f with
                                     | Some _ => match (cross A) ps f with [] => [] | l => [(f, l)] end
                                     | None => []
                                     end) (p_files p) |}.

  (* ---- HandleFileEventChanges ---- *)
  Record hflags := { h_again : list file; h_refer : list file; h_all : bool; h_third : bool }.

  (* the kind an event is handled as. [fix_changed_unknown] = repair: "changed" said of a path that is not a file of the
     project when the loop comes to that event (allFilesMap; an earlier event of the same notification may have removed
     it) is handled like "created": the file joins allFilesMap and the index *)
  Definition eff_kind (p : proj) (ev : file * kind) : kind :=
    match snd ev with
    | KChanged => if fix_changed_unknown fx && negb (fmem (fst ev) (p_files p)) then KCreated else KChanged
    | k => k
    end.

  Definition classify_base (tincl0 : list file) (ph : proj * hflags) (ev : file * kind) : proj * hflags :=
    let '(p, h) := ph in
    let f := fst ev in
    let '(p1, h1) :=
      match snd ev with
      | KCreated =>
        let p' := {| p_files := fadd f (p_files p); p_index := fadd f (p_index p); p_fsm := p_fsm p;
                     p_lru := p_lru p; p_tincl := p_tincl p; p_terrs := p_terrs p |} in
        if (in_dir A) f || fix_outside fx
        then (p', {| h_again := h_again h ++ [f]; h_refer := fadd f (h_refer h); h_all := true; h_third := true |})
        else (p', {| h_again := h_again h ++ [f]; h_refer := h_refer h; h_all := h_all h; h_third := h_third h |})
      | KChanged =>
        (p, {| h_again := h_again h ++ [f]; h_refer := h_refer h; h_all := h_all h; h_third := h_third h |})
      | KDeleted =>
        let p' := remove_file p f in
        if (in_dir A) f || fix_outside fx
        then (p', {| h_again := h_again h; h_refer := fadd f (h_refer h); h_all := true; h_third := true |})
        else (p', h)
      end in
    (p1, {| h_again := h_again h1; h_refer := h_refer h1; h_all := h_all h1;
            h_third := h_third h1 || fmem f tincl0 |}).

  Definition classify_one (tincl0 : list file) (ph : proj * hflags) (ev : file * kind) : proj * hflags :=
    classify_base tincl0 ph (fst ev, eff_kind (fst ph) ev).

  (* returns the new project and changeDiagnostic *)
  Definition handle_events (dk : amap txt) (p : proj) (evs : list (file * kind)) : proj * bool :=
    let '(p1, h) := fold_left (classify_one (p_tincl p)) evs
                              (p, {| h_again := []; h_refer := []; h_all := false; h_third := false |}) in
    let '(p2, change) := first_many true dk p1 (h_again h) in
    (* "analysed successfully: drop the cache entry" *)
    let p3 := set_lru p2 (fold_left (fun l f => match res_of p2 f with Some _ => frem f l | None => l end)
                                    (h_again h) (p_lru p2)) in
    let p4 := if is_nil (h_refer h) then p3 else reanalyse_all p3 (h_refer h) in
    if negb change && negb (h_all h) then (p4, negb (is_nil (h_refer h)))
    else ((if h_third h then recompute_third p4 else p4), true).

  (* ---- GetAllFileErrorInfo ---- *)
  Definition first_errs (p : proj) (f : file) : list err :=
    match res_of p f with Some r => r_errs r | None => [] end.
  Definition errs_of (p : proj) (f : file) : list err := dedupe [] (first_errs p f ++ vget (p_terrs p) f).
  Definition all_errs (p : proj) : emap :=
    flat_map (fun f => match errs_of p f with [] => [] | l => [(f, l)] end)
             (fset_of (akeys (p_fsm p) ++ akeys (p_terrs p))).

  (* ---- the LSP server ---- *)
  Record server := { pj : proj; cache : amap txt; ds : dstate }.

  Definition push_again (s : server) (p : proj) : server * list publish :=
    let '(d, ps) := push_all_again (fix12a fx) (fix_unhidden fx) (ds s) (all_errs p) in
    ({| pj := p; cache := cache s; ds := d |}, ps).

  (* analyseBufferText (the body shared by TextDocumentDidChange and the repaired TextDocumentDidOpen):
     HandleFileChangeAnalysis on the text of an open document, then publish or clear its live syntax errors *)
  Definition analyse_buffer (s : server) (f : file) (t : txt) : server * list publish :=
    let p1 := set_lru (pj s) (fadd f (p_lru (pj s))) in
    let el := (syn A) t in
    if is_nil el then
      let '(d1, ps1) := clear_change (ds s) f in
      ({| pj := p1; cache := aset (cache s) f t; ds := mark_clean d1 f |}, ps1 ++ clear_syntax d1 f)
    else
      let '(d1, ps1) := insert_change (ds s) f el in
      ({| pj := p1; cache := aset (cache s) f t; ds := d1 |}, ps1).

  (* ioutil.ReadFile(strFile) failed, or the file's text is not the text the notification carries *)
  Definition open_differs (dk : amap txt) (f : file) (t : txt) : bool :=
    match aget dk f with Some d => negb ((teqb A) d t) | None => true end.

  (* TextDocumentDidOpen up to (not including) the comparison of the carried text with the file *)
  Definition did_open_base (dk : amap txt) (s : server) (f : file) (t : txt) : server * list publish :=
    let p0 := set_lru (pj s) (frem f (p_lru (pj s))) in
    let s0 := {| pj := p0; cache := aset (cache s) f t; ds := unmark_clean (ds s) f |} in
    let '(s1, ps1) :=
      if fmem f (p_files p0) then (s0, [])
      else let '(p1, chg) := handle_events dk p0 [(f, KCreated)] in
           if chg then push_again s0 p1 else ({| pj := p1; cache := cache s0; ds := ds s0 |}, []) in
    let '(d2, ps2) := clear_change (ds s1) f in
    ({| pj := pj s1; cache := cache s1; ds := d2 |}, ps1 ++ ps2).

  (* TextDocumentDidOpen. [fix_didopen] = repair: from now on the carried text is the truth for the document; when it is
     not the file's text it is analysed right away, exactly as the first didChange would *)
  Definition did_open (dk : amap txt) (s : server) (f : file) (t : txt) : server * list publish :=
    let '(s2, ps) := did_open_base dk s f t in
    if fix_didopen fx && open_differs dk f t
    then let '(s3, ps3) := analyse_buffer s2 f t in (s3, ps ++ ps3)
    else (s2, ps).

  (* TextDocumentDidChange (full-text change) + HandleFileChangeAnalysis *)
  Definition did_change (s : server) (f : file) (t : txt) : server * list publish :=
    match aget (cache s) f with
    | None => (s, [])
    | Some _ => analyse_buffer s f t
    end.

  (* TextDocumentDidSave *)
  Definition did_save (dk : amap txt) (s : server) (f : file) (t : txt) : server * list publish :=
    let s0 := {| pj := pj s; cache := aset (cache s) f t; ds := ds s |} in
    let '(p1, chg) := handle_events dk (pj s0) [(f, KChanged)] in
    let '(s1, ps1) := if chg then push_again s0 p1 else ({| pj := p1; cache := cache s0; ds := ds s0 |}, []) in
    let '(d2, ps2) := save_push_again (ds s1) f in
    ({| pj := pj s1; cache := cache s1; ds := d2 |}, ps1 ++ ps2).

  (* TextDocumentDidClose. [fix12b] = repair: re-push the full saved list of the closed file. [fix_outside] = repair:
     a file outside the workspace leaves the project through HandleFileEventChanges (Deleted), then pushAllDiagnosticsAgain. *)
  Definition did_close (dk : amap txt) (s : server) (f : file) : server * list publish :=
    let p0 := set_lru (pj s) (frem f (p_lru (pj s))) in
    let '(d0, ps1) := clear_change (ds s) f in
    let d1 := unmark_clean d0 f in
    let ps1b := if fix12b fx then push_file_diag d1 f false else [] in
    if (in_dir A) f then ({| pj := p0; cache := adel (cache s) f; ds := d1 |}, ps1 ++ ps1b)
    else if fix_outside fx then
      let s2 := {| pj := p0; cache := adel (cache s) f; ds := remove_saved d1 f |} in
      let '(p1, chg) := handle_events dk p0 [(f, KDeleted)] in
      if chg then let '(s3, ps3) := push_again s2 p1 in (s3, ps1 ++ ps1b ++ clear_one f ++ ps3)
      else ({| pj := p1; cache := cache s2; ds := ds s2 |}, ps1 ++ ps1b ++ clear_one f)
    else ({| pj := remove_file p0 f; cache := adel (cache s) f; ds := remove_saved d1 f |},
          ps1 ++ ps1b ++ clear_one f).

  (* WorkspaceChangeWatchedFiles. [fix_watched] = repair: the ClearChangeFileErr call per named file is gone. *)
  Definition did_watched (dk : amap txt) (s : server) (evs : list (file * kind)) : server * list publish :=
    let '(d1, ps1) :=
      if fix_watched fx then (ds s, [])
      else fold_left (fun dp ev => let '(d', ps') := clear_change (fst dp) (fst ev) in (d', snd dp ++ ps'))
                     evs (ds s, []) in
    let s1 := {| pj := pj s; cache := cache s; ds := d1 |} in
    if is_nil evs then (s1, ps1)
    else
      let '(p1, chg) := handle_events dk (pj s1) evs in
      if chg then let '(s2, ps2) := push_again s1 p1 in (s2, ps1 ++ ps2)
      else ({| pj := p1; cache := cache s1; ds := d1 |}, ps1).

  (* ---- server start: CreateAllProject + HandleCheck, then Initialized -> GetAllDiagnostics ---- *)
  Definition init_proj (dk : amap txt) : proj :=
    let fl := fset_of (filter (in_dir A) (akeys dk)) in
    let p0 := {| p_files := fl; p_index := fl; p_fsm := []; p_lru := []; p_tincl := []; p_terrs := [] |} in
    recompute_third (fst (first_many false dk p0 fl)).

  Definition init_server (dk : amap txt) : server * list publish :=
    let p := init_proj dk in
    let e := all_errs p in
    ({| pj := p; cache := []; ds := {| saved := e; live := []; clean := [] |} |}, push_all_init e).

  (* ---- the world: disk + server + what the editor knows (its buffers, which of them have unsaved edits) ---- *)
  Inductive event :=
  | EDiskWrite (f : file) (t : txt) | EDiskRemove (f : file)
  | EOpen (f : file) (t : txt) | EChange (f : file) (t : txt) | ESave (f : file) (t : txt) | EClose (f : file)
  | EWatched (l : list (file * kind)).

  Record world := { disk : amap txt; sv : server; ebuf : amap txt; dirty : list file }.

  Definition step (w : world) (e : event) : world * list publish :=
    let mk d s := {| disk := d; sv := s; ebuf := ebuf w; dirty := dirty w |} in
    match e with
    | EDiskWrite f t => (mk (aset (disk w) f t) (sv w), [])
    | EDiskRemove f => (mk (adel (disk w) f) (sv w), [])
    | EOpen f t => let '(s, ps) := did_open (disk w) (sv w) f t in (mk (disk w) s, ps)
    | EChange f t => let '(s, ps) := did_change (sv w) f t in (mk (disk w) s, ps)
    | ESave f t => let '(s, ps) := did_save (disk w) (sv w) f t in (mk (disk w) s, ps)
    | EClose f => let '(s, ps) := did_close (disk w) (sv w) f in (mk (disk w) s, ps)
    | EWatched l => let '(s, ps) := did_watched (disk w) (sv w) l in (mk (disk w) s, ps)
    end.

  Definition steps (w : world) (es : list event) : world * list publish :=
    fold_left (fun wp e => let '(w', ps) := step (fst wp) e in (w', snd wp ++ ps)) es (w, []).

  (* editor actions: the disk write happens BEFORE the notification *)
  Inductive witem := WC (f : file) (t : txt) | WM (f : file) (t : txt) | WD (f : file).
  Inductive action :=
  | AOpen (f : file) | AChange (f : file) (t : txt) | ASave (f : file) | AClose (f : file)
  | AWatched (l : list witem)
  | ARaw (e : event)
  (* the editor opens f with a buffer that need not be the file's text (an unsaved buffer restored at start-up, "hot
     exit"; a file changed behind the editor's back): when it differs the document has unsaved edits from the start *)
  | AOpenWith (f : file) (t : txt).

  Definition witem_file (i : witem) : file := match i with WC f _ | WM f _ | WD f => f end.
  Definition witem_disk (i : witem) : event :=
    match i with WC f t | WM f t => EDiskWrite f t | WD f => EDiskRemove f end.
  Definition witem_ev (i : witem) : file * kind :=
    match i with WC f _ => (f, KCreated) | WM f _ => (f, KChanged) | WD f => (f, KDeleted) end.

  Definition set_editor (w : world) (b : amap txt) (d : list file) : world :=
    {| disk := disk w; sv := sv w; ebuf := b; dirty := d |}.

  Definition act (w : world) (a : action) : world * list publish :=
    match a with
    | AOpen f =>
      match aget (disk w) f, aget (ebuf w) f with
      | Some t, None => steps (set_editor w (aset (ebuf w) f t) (frem f (dirty w))) [EOpen f t]
      | _, _ => (w, [])
      end
    | AChange f t =>
      match aget (ebuf w) f with
      | Some _ => steps (set_editor w (aset (ebuf w) f t) (fadd f (dirty w))) [EChange f t]
      | None => (w, [])
      end
    | ASave f =>
      match aget (ebuf w) f with
      | Some t => steps (set_editor w (ebuf w) (frem f (dirty w))) [EDiskWrite f t; ESave f t]
      | None => (w, [])
      end
    | AClose f =>
      match aget (ebuf w) f with
      | Some _ => steps (set_editor w (adel (ebuf w) f) (frem f (dirty w))) [EClose f]
      | None => (w, [])
      end
    | AWatched l => steps w (map witem_disk l ++ [EWatched (map witem_ev l)])
    | ARaw e => step w e
    | AOpenWith f t =>
      match aget (disk w) f, aget (ebuf w) f with
      | Some d, None =>
        steps (set_editor w (aset (ebuf w) f t) (if (teqb A) d t then frem f (dirty w) else fadd f (dirty w))) [EOpen f t]
      | _, _ => (w, [])
      end
    end.

  Definition init_world (dk : amap txt) : world * list publish :=
    let '(s, ps) := init_server dk in
    ({| disk := dk; sv := s; ebuf := []; dirty := [] |}, ps).

  (* run: server start on the initial disk, then the history; result = final world and the whole notification stream *)
  Definition run_from (wp : world * list publish) (h : list action) : world * list publish :=
    fold_left (fun wp a => let '(w', ps) := act (fst wp) a in (w', snd wp ++ ps)) h wp.
  Definition run (dk : amap txt) (h : list action) : world * list publish := run_from (init_world dk) h.

End Model.

Arguments r_text {A} f. Arguments r_refs {A} f. Arguments r_errs {A} f.
Arguments s_contents {A} f. Arguments s_res {A} f.
Arguments p_files {A} p. Arguments p_index {A} p. Arguments p_fsm {A} p. Arguments p_lru {A} p.
Arguments p_tincl {A} p. Arguments p_terrs {A} p.
Arguments pj {A} s. Arguments cache {A} s. Arguments ds {A} s.
Arguments disk {A} w. Arguments sv {A} w. Arguments ebuf {A} w. Arguments dirty {A} w.
Arguments EDiskWrite {A} f t. Arguments EDiskRemove {A} f. Arguments EOpen {A} f t. Arguments EChange {A} f t.
Arguments ESave {A} f t. Arguments EClose {A} f. Arguments EWatched {A} l.
Arguments WC {A} f t. Arguments WM {A} f t. Arguments WD {A} f.
Arguments AOpen {A} f. Arguments AChange {A} f t. Arguments ASave {A} f. Arguments AClose {A} f.
Arguments AWatched {A} l. Arguments ARaw {A} e. Arguments AOpenWith {A} f t.
