(* The annotation AST of langserver/check/annotation/annotateast (annotate_type.go, annotate_state.go),
   location fields erased.  Parallel Go slices that are always appended in lock step
   (FuncType.ParamNameList/ParamOptionList/ParamTypeList, AnnotateTypeState.ListType/ListConst/ListEnum,
   AnnotateReturnState.ReturnTypeList/ReturnOptionList, AnnotateGenericState.NameList/ParentNameList)
   are lists of tuples. *)
From Coq Require Import List NArith Bool.
From LH Require Import Base.Bytes Base.Res Model.AnnLexer.
Import ListNotations.
Local Open Scope N_scope.

Definition is_nil {A} (l : list A) : bool := match l with [] => true | _ => false end.

(* Which of the repairs fixes/C16-<slug>.diff of the last round are in the code.  The model of TypeConvertStr
   (Model/AnnPrint.v) and of ParseCommentFragment (Model/AnnParser.v) is parametrised by them; `deployed` is the
   code now in /repo (the legs of checks/c16.py compare the implementation with the model at `deployed`), the
   other variants are kept so that the theorems say what each repair buys.
     fx_const   printer-const          string constants are printed with their quotes ('abc', '"r"')
     fx_union   printer-nested-union   a union directly inside a union keeps its parentheses ((a | b) | c)
     fx_fun     printer-fun            fun types are printed in the annotation syntax (fun(a: T, b?, ...): R)
     fx_cont    cont-after-bad         a continuation line (-| 'x') is appended only to the alias of the line
                                       directly above it *)
Record ann_fixes := mkFixes { fx_const : bool; fx_union : bool; fx_fun : bool; fx_cont : bool }.
Definition no_fixes : ann_fixes := mkFixes false false false false.
Definition all_fixes : ann_fixes := mkFixes true true true true.
Definition deployed : ann_fixes := mkFixes true true false true.

Inductive atype :=
| ANormal (name : bytes) (show_color : bool)                  (* NormalType *)
| AMulti (ts : list atype)                                    (* MultiType *)
| AArray (item : atype)                                       (* ArrayType *)
| ATableEmpty                                                 (* TableType{EmptyFlag: true} *)
| ATable (k v : atype)                                        (* TableType *)
| AFun (params : list (bytes * bool * atype)) (rets : list atype)   (* FuncType: (name, optional, type) *)
| AConst (name : bytes) (quotes : bool) (comment : bytes).    (* ConstType *)

Inductive astat :=
| SType (items : list (bool * bool * atype)) (c : bytes)      (* (const, enum, type) *)
| SAlias (name : bytes) (t : option atype) (c : bytes)        (* AliasType may be nil *)
| SClass (name : bytes) (parents : list bytes) (c : bytes)
| SOverload (f : atype) (c : bytes)
| SField (scope colon : N) (name : bytes) (t : atype) (c : bytes)
| SParam (is_const is_opt : bool) (name : bytes) (t : atype) (c : bytes)
| SReturn (items : list (atype * bool)) (c : bytes)           (* (type, optional) *)
| SGeneric (items : list (bytes * bytes)) (c : bytes)         (* (name, parent or "") *)
| SVararg (t : atype) (c : bytes)
| SEnum (ty : N) (c : bytes)                                  (* 0 none, 1 start, 2 end *)
| SNotValid.

(* ParseAnnotateErr: ErrType, NeedKind, ErrStr; ErrLoc = (line, len(line)-e_rest .. len(line)) *)
Record aerr := mkErr { e_type : N; e_need : akind; e_msg : bytes; e_rest : nat }.

(* result of a parser function: value and new lexer state | a ParseAnnotateErr panic (recovered by ParserLine)
   | a Go runtime panic | out of fuel *)
Inductive PR (A : Type) : Type :=
| POk (a : A) (l : lx)
| PErr (e : aerr)
| PFault (k : fault_kind)
| PFuel.
Arguments POk {A} a l.
Arguments PErr {A} e.
Arguments PFault {A} k.
Arguments PFuel {A}.

Definition pbind {A B} (r : PR A) (f : A -> lx -> PR B) : PR B :=
  match r with
  | POk a l => f a l
  | PErr e => PErr e
  | PFault k => PFault k
  | PFuel => PFuel
  end.

Notation "'let*' ( x , l ) := e 'in' k" := (pbind e (fun x l => k))
  (at level 200, x pattern, l name, e at level 100, k at level 200, right associativity).

(* a lexer primitive (Res) used inside the parser *)
Definition lift {A} (r : Res (A * lx)) : PR A :=
  match r with
  | Ok (a, l) => POk a l
  | Fault k => PFault k
  | OutOfFuel => PFuel
  end.
