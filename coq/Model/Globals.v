(* Workspace view of the globals (binder family): what check_third_file.go:generateAllGlobalMaps puts into
   AnalysisThird.GlobalVarMaps and what FindThirdGlobalGInfo returns, as far as the position resolver needs it.
   Every file contributes FileResult.GlobalMaps[name], i.e. the NEWEST entry of its own chain.  When exactly one file
   defines the name that entry is the answer; when several files do, the winner depends on Go map iteration order
   (Model/Merge.v, property C09): WAmbig - the binder legs never ask for it. *)
From Coq Require Import List NArith ZArith Bool.
From LH Require Import Base.Bytes Model.Lexer Model.Ast Model.Scope.
Import ListNotations.

Definition mws := list (list N * fileinfo).        (* file name (relative), first-pass result *)

Inductive wsres := WNone | WOne (f : list N) (g : gentry) | WAmbig.

Definition owners (w : mws) (name : list N) : list (list N * gentry) :=
  flat_map (fun x => match find_global_var (fi_globals (snd x)) name with
                     | Some g => [(fst x, g)]
                     | None => []
                     end) w.

Definition ws_global (w : mws) (name : list N) : wsres :=
  match owners w name with
  | [] => WNone
  | [(f, g)] => WOne f g
  | _ => WAmbig
  end.

(* every global name defined by some file (completion: GlobalMaps of the file + GlobalVarMaps of the workspace) *)
Definition ws_global_names (w : mws) : list (list N) :=
  flat_map (fun x => map g_name (fi_globals (snd x))) w.

Definition ws_file (w : mws) (f : list N) : option fileinfo :=
  match find (fun x => beq_bytes (fst x) f) w with Some (_, fi) => Some fi | None => None end.
