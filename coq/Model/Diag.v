(* C08 - diagnostics bookkeeping of the LSP layer (langserver/diagnostics_manager.go).
   Executable model, no proofs here.

   Go state mirrored:   LspServer.fileErrorMap        ("saved": what the last full analysis says, per file, never an empty list)
                        LspServer.fileChangeErrorMap  ("live": syntax errors of an unsaved buffer)
                        LspServer.fileChangeCleanMap  ("clean": files whose unsaved buffer has no syntax error)
   Go output mirrored:  the stream of textDocument/publishDiagnostics notifications (file, list).
   An error is projected to (type, line, tag); tag stands for the rest of CheckError.ToString() (columns, message). *)
From Coq Require Import List NArith Bool.
Import ListNotations.
Local Open Scope N_scope.

Definition file := N.
Definition err := (N * N * N)%type.            (* (ErrType, start line, tag) *)
Definition etype (e : err) : N := fst (fst e).
Definition eline (e : err) : N := snd (fst e).
Definition err_eqb (a b : err) : bool :=
  (etype a =? etype b) && (eline a =? eline b) && (snd a =? snd b).

(* lspcommon.IsSameErrList: same length, pairwise equal ToString, order sensitive *)
Fixpoint errs_eqb (a b : list err) : bool :=
  match a, b with
  | [], [] => true
  | x :: a', y :: b' => err_eqb x y && errs_eqb a' b'
  | _, _ => false
  end.

Definition is_syn (e : err) : bool := etype e =? 1.          (* common.CheckErrorSyntax *)
Definition nonsyn (l : list err) : list err := filter (fun e => negb (is_syn e)) l.
Definition synpart (l : list err) : list err := filter is_syn l.
Definition is_nil {A} (l : list A) : bool := match l with [] => true | _ => false end.

(* ---- Go maps keyed by file name: association lists, first binding wins, aset keeps keys unique ---- *)
Section AMap.
  Context {V : Type}.
  Definition amap := list (file * V).
  Fixpoint aget (m : amap) (k : file) : option V :=
    match m with
    | [] => None
    | (k', v) :: m' => if k' =? k then Some v else aget m' k
    end.
  Fixpoint adel (m : amap) (k : file) : amap :=
    match m with
    | [] => []
    | (k', v) :: m' => if k' =? k then adel m' k else (k', v) :: adel m' k
    end.
  Definition aset (m : amap) (k : file) (v : V) : amap := (k, v) :: adel m k.
  Definition ahas (m : amap) (k : file) : bool := match aget m k with Some _ => true | None => false end.
  Definition akeys (m : amap) : list file := map fst m.
End AMap.
Arguments amap V : clear implicits.

Definition emap := amap (list err).
Definition vget (m : emap) (f : file) : list err := match aget m f with Some l => l | None => [] end.

Definition publish := (file * list err)%type.

(* the client: folds the notification stream into "last list per file" *)
Definition vapply (v : emap) (ps : list publish) : emap :=
  fold_left (fun v p => aset v (fst p) (snd p)) ps v.
Definition view (ps : list publish) (f : file) : list err := vget (vapply [] ps) f.

(* file sets as strictly increasing lists (canonical: equal sets are equal lists) *)
Definition fmem (f : file) (l : list file) : bool := existsb (N.eqb f) l.
Fixpoint fadd (f : file) (l : list file) : list file :=
  match l with
  | [] => [f]
  | x :: r => if f <? x then f :: l else if f =? x then l else x :: fadd f r
  end.
Fixpoint frem (f : file) (l : list file) : list file :=
  match l with
  | [] => []
  | x :: r => if f =? x then frem f r else x :: frem f r
  end.

(* clean = LspServer.fileChangeCleanMap (added by the repair C08-unhidden): the files whose unsaved buffer has no syntax
   error. The model keeps the set under every flag value; only the repaired pushAllDiagnosticsAgain reads it. *)
Record dstate := { saved : emap; live : emap; clean : list file }.
Definition set_clean (d : dstate) (c : list file) : dstate := {| saved := saved d; live := live d; clean := c |}.
Definition mark_clean (d : dstate) (f : file) : dstate := set_clean d (fadd f (clean d)).
Definition unmark_clean (d : dstate) (f : file) : dstate := set_clean d (frem f (clean d)).

(* ClearOneFileDiagnostic *)
Definition clear_one (f : file) : list publish := [(f, [])].

(* pushFileChangeDiagnostic *)
Definition push_file_change (d : dstate) (f : file) : list publish :=
  match aget (live d) f with Some l => [(f, l)] | None => [] end.

(* pushFileDiagnostic(strFile, ignoreSyntax) *)
Definition push_file_diag (d : dstate) (f : file) (ignore_syntax : bool) : list publish :=
  match aget (saved d) f with
  | None => []
  | Some l => [(f, if ignore_syntax then nonsyn l else l)]
  end.

(* InsertChangeFileErr *)
Definition insert_change (d : dstate) (f : file) (l : list err) : dstate * list publish :=
  let d' := {| saved := saved d; live := aset (live d) f l; clean := frem f (clean d) |} in
  (d', push_file_change d' f).

(* ClearChangeFileErr *)
Definition clear_change (d : dstate) (f : file) : dstate * list publish :=
  if ahas (live d) f then
    let d' := {| saved := saved d; live := adel (live d) f; clean := clean d |} in
    (d', clear_one f ++ push_file_diag d' f true)
  else (d, []).

(* ClearFileSyntaxErr *)
Definition clear_syntax (d : dstate) (f : file) : list publish :=
  if ahas (saved d) f then clear_one f ++ push_file_diag d f true else [].

(* SaveOneFilePushAgain *)
Definition save_push_again (d : dstate) (f : file) : dstate * list publish :=
  let d' := {| saved := saved d; live := adel (live d) f; clean := frem f (clean d) |} in
  (d', if ahas (saved d') f then push_file_diag d' f false else clear_one f).

(* pushAllChangeFileDiagnosticErr (Go maps have unique keys: iterate over the keys, read through the lookup) *)
Definition push_all_change (d : dstate) : list publish :=
  flat_map (fun k => match aget (live d) k with Some l => clear_one k ++ [(k, l)] | None => [] end) (akeys (live d)).

(* pushAllDiagnosticsAgain: diff old/new saved maps, clear vanished files, push new or changed lists.
   The live map is consulted only when the NEW map is empty (finding 12a). [fix12a] = repair: re-push the live entries
   after every diff. [fixun] = repair C08-unhidden: the files with a clean unsaved buffer get ClearFileSyntaxErr again. *)
Definition push_all_again (fix12a fixun : bool) (d : dstate) (new : emap) : dstate * list publish :=
  let clears := flat_map (fun k => if ahas new k then [] else clear_one k) (akeys (saved d)) in
  let pushes := flat_map (fun k => match aget new k with
                                   | None => []
                                   | Some l => match aget (saved d) k with
                                               | None => [(k, l)]
                                               | Some old => if errs_eqb old l then [] else [(k, l)]
                                               end
                                   end) (akeys new) in
  let d' := {| saved := new; live := live d; clean := clean d |} in
  (d', clears ++ pushes ++ (if is_nil new || fix12a then push_all_change d' else []) ++
       (if fixun then flat_map (clear_syntax d') (clean d) else [])).

(* GetAllDiagnostics (after `initialized`): push every entry of the saved map *)
Definition push_all_init (e : emap) : list publish :=
  flat_map (fun k => match aget e k with Some l => [(k, l)] | None => [] end) (akeys e).

(* LspServer.RemoveFile *)
Definition remove_saved (d : dstate) (f : file) : dstate := {| saved := adel (saved d) f; live := live d; clean := clean d |}.
