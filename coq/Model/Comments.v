(* C13 - model of the comment map and of the comment lookup / clean-up used by hover.

   Go code:  lexer.go skipWhiteSpaces (comment grouping; modelled in Model/Lexer.v: skip_ws, lcomments)
             parser.BeginAnalyze -> FileResult.CommentMap (a Go map: a later write to the same key wins)
             check_util.go getSpecialLineComment / GetLineComment, getFinalStrComment
             check_lsp_hover_complete_util.go GetStrComment (the clean-up applied by hover)
   The pipeline starts from the file BYTES (lex_all of the shared front end). No proofs here. *)
From Coq Require Import List NArith ZArith Bool.
From LH Require Import Base.Bytes Base.Res Model.Codec Model.Lexer Model.Ast Model.Parser Model.LuaFront.
Import ListNotations.
Local Open Scope N_scope.

(* ------------------------------------------------------------------ the comment map *)
(* all writes l.commentMap[k] = v in program order *)
Definition cm_writes (ts : list ltok) : list (Z * cinfo) := flat_map lcomments ts.

(* Go map read after the writes `es` (in order): the last write to the key wins *)
Fixpoint cm_find (line : Z) (es : list (Z * cinfo)) (acc : option cinfo) : option cinfo :=
  match es with
  | [] => acc
  | (k, ci) :: t => cm_find line t (if (k =? line)%Z then Some ci else acc)
  end.

(* FileResult.GetFileLineComment *)
Definition cm_lookup (es : list (Z * cinfo)) (line : Z) : option cinfo :=
  if (line <=? 0)%Z then None else cm_find line es None.

(* the loop of getSpecialLineComment (after fix 699f51d): `if index == 0 { = } else { + "\n" + }` -
   a plain join with "\n". (Before the fix the test was `strComment == ""`: an empty accumulated text was overwritten,
   so leading empty lines of a block vanished.) *)
Definition join_step (acc : list N) (l : cline) : list N := acc ++ 10 :: cl_str l.
Definition join_lines (ls : list cline) : list N :=
  match ls with [] => [] | a :: t => fold_left join_step t (cl_str a) end.

Definition special_line_comment (es : list (Z * cinfo)) (line : Z) (head : bool) : list N :=
  match cm_lookup es line with
  | None => []
  | Some ci => if Bool.eqb (ci_head ci) head then join_lines (ci_lines ci) else []
  end.

(* GetLineComment: the same-line (tail) comment first; if that text is empty, the head comment keyed on the line above *)
Definition get_line_comment (es : list (Z * cinfo)) (line : Z) : list N :=
  match special_line_comment es line false with
  | [] => special_line_comment es (line - 1) true
  | s => s
  end.

(* ------------------------------------------------------------------ which comments the map holds *)
(* The Go lexer is driven lazily by the parser: the map holds the comments in front of the tokens the parser pulled.
   The parser pulls every token up to EOF unless a stray block-end token stops parseBlock at top level (then one more
   token is pulled by NextTokenKind(EOF)); with the 31st error the parser panics (map contents not modelled: None). *)
Section Consumed.
  Variable gbk_runes : list N -> Z.
  Variable classify : list N -> numcls.

  Definition consumed_tokens (ts' : list ltok) : Res (option (list ltok)) :=
    match p_block_loc classify (fuel_of_tokens ts') (init_pst ts') with
    | Ok (_, st1) =>
      let st2 := expect TkEOF st1 in
      if Nat.leb 31 (length (perrs st2) + length (lseen st2)) then Ok None
      else if tk_eqb (now_kind st2) TkEOF then Ok (Some ts')
      else Ok (Some (firstn (length ts' - length (rest st2)) ts'))
    | Fault k => Fault k
    | OutOfFuel => OutOfFuel
    end.

  Definition comment_writes (bs : list N) : Res (option (list (Z * cinfo))) :=
    match lex_all gbk_runes bs with
    | Ok ts =>
      match consumed_tokens (parser_view ts) with
      | Ok (Some c) => Ok (Some (cm_writes c))
      | Ok None => Ok None
      | Fault k => Fault k
      | OutOfFuel => OutOfFuel
      end
    | Fault k => Fault k
    | OutOfFuel => OutOfFuel
    end.

  (* "the parser reads the file to its end": no stray block-end token stops it at top level and it does not give up
     with the 31st error - then the map holds the comments of every gap of the file *)
  Definition parser_reads_all (bs : list N) : bool :=
    match lex_all gbk_runes bs with
    | Ok ts =>
      let ts' := parser_view ts in
      match consumed_tokens ts' with
      | Ok (Some c) => Nat.eqb (length c) (length ts')
      | _ => false
      end
    | _ => false
    end.

  (* the comment the server attaches to a declaration whose name ends on `line` (1-based) *)
  Definition doc_comment (bs : list N) (line : Z) : Res (option (list N)) :=
    match comment_writes bs with
    | Ok (Some es) => Ok (Some (get_line_comment es line))
    | Ok None => Ok None
    | Fault k => Fault k
    | OutOfFuel => OutOfFuel
    end.
End Consumed.

(* ------------------------------------------------------------------ string helpers (Go strings package) *)
(* strings.Split(s, "\n"): always at least one piece *)
Fixpoint split_nl_aux (l cur : list N) : list (list N) :=
  match l with
  | [] => [rev cur]
  | c :: t => if c =? 10 then rev cur :: split_nl_aux t [] else split_nl_aux t (c :: cur)
  end.
Definition split_nl (l : list N) : list (list N) := split_nl_aux l [].

(* strings.Join(ls, "\n") *)
Fixpoint join_nl (ls : list (list N)) : list N :=
  match ls with
  | [] => []
  | [a] => a
  | a :: t => a ++ 10 :: join_nl t
  end.

Fixpoint trim_left_sp (l : list N) : list N :=            (* strings.TrimLeft(s, " ") *)
  match l with 32 :: t => trim_left_sp t | _ => l end.

Definition trim_prefix (p l : list N) : list N :=            (* strings.TrimPrefix(l, p) *)
  if test p l then skipn (length p) l else l.

Definition has_prefix (p l : list N) : bool := test p l.

(* ------------------------------------------------------------------ getFinalStrComment(s, false) *)
(* one line: TrimPrefix "-*", TrimPrefix "*", TrimPrefix "-", TrimLeft " " *)
Definition final_line (l : list N) : list N :=
  trim_left_sp (trim_prefix [45] (trim_prefix [42] (trim_prefix [45; 42] l))).

(* the loop rewrites every line; when the LAST line becomes empty it is cut off *)
Fixpoint final_lines (ls : list (list N)) : list (list N) :=
  match ls with
  | [] => []
  | [a] => match final_line a with [] => [] | a' => [a'] end
  | a :: t => final_line a :: final_lines t
  end.

Definition final_comment (s : list N) : list N :=
  match s with [] => [] | _ => join_nl (final_lines (split_nl s)) end.

(* ------------------------------------------------------------------ GetStrComment (used by hover) *)
(* one line: TrimLeft " ", TrimPrefix "-*", TrimPrefix "-", TrimLeft " " *)
Definition hover_line (l : list N) : list N :=
  trim_left_sp (trim_prefix [45] (trim_prefix [45; 42] (trim_left_sp l))).

Definition s_class : list N := [64; 99; 108; 97; 115; 115].
Definition s_alias : list N := [64; 97; 108; 105; 97; 115].
Definition s_param : list N := [64; 112; 97; 114; 97; 109].
Definition s_return : list N := [64; 114; 101; 116; 117; 114; 110].
Definition s_type : list N := [64; 116; 121; 112; 101].
Definition s_overload : list N := [64; 111; 118; 101; 114; 108; 111; 97; 100].
Definition s_generic : list N := [64; 103; 101; 110; 101; 114; 105; 99].
Definition s_vararg : list N := [64; 118; 97; 114; 97; 114; 103].
Definition s_version : list N := [64; 118; 101; 114; 115; 105; 111; 110].
Definition is_annot_line (l : list N) : bool :=
  existsb (fun p => has_prefix p l) [s_class; s_alias; s_param; s_return; s_type; s_overload; s_generic; s_vararg; s_version].

Definition s_fence : list N := [96; 96; 96].                       (* ``` *)
Definition s_fence_lua : list N := [10; 96; 96; 96; 108; 117; 97; 10].   (* \n```lua\n *)
Definition s_br : list N := [32; 32; 10].                          (* two spaces + \n *)

(* state: (str, preLuaStr) *)
Fixpoint hover_lines (ls : list (list N)) (str pre : list N) : list N :=
  match ls with
  | [] => str
  | a :: t =>
    let one := hover_line a in
    if is_annot_line one then
      let pre' := match pre with [] => s_fence_lua ++ one ++ [10] | _ => pre ++ one ++ [10] end in
      match t with
      | [] => str ++ pre' ++ s_fence          (* index == len-1 *)
      | _ => hover_lines t str pre'
      end
    else
      match pre with
      | [] => hover_lines t (str ++ s_br ++ one) []
      | _ => hover_lines t (str ++ pre ++ s_fence ++ s_br ++ one) []
      end
  end.

Definition get_str_comment (s : list N) : list N :=
  match s with [] => [] | _ => hover_lines (split_nl s) [] [] end.

(* ------------------------------------------------------------------ documentation text of a hover *)
Section Doc.
  Variable gbk_decode : list N -> option (list N).
  (* textdocument_hover.go getHoverStr: codingconv.ConvertStrToUtf8(GetStrComment(GetLineComment(file, line))) *)
  Definition hover_doc (es : list (Z * cinfo)) (line : Z) : list N :=
    convert gbk_decode (get_str_comment (get_line_comment es line)).
End Doc.

(* annotation lines ("---@...": the comment text starts with "-@") switch hover to the annotation machinery, which is
   outside this model *)
Definition is_annotation_text (l : list N) : bool := test [45; 64] l.
Definition has_annotation (es : list (Z * cinfo)) : bool :=
  existsb (fun e => existsb (fun c => is_annotation_text (cl_str c)) (ci_lines (snd e))) es.
