(* C13 - model of the comment map and of the comment lookup / clean-up used by hover.

   Go code:  lexer.go skipWhiteSpaces (comment grouping; modelled in Model/Lexer.v: skip_ws, lcomments)
             parser.BeginAnalyze -> FileResult.CommentMap (a Go map: a later write to the same key wins)
             check_util.go getSpecialLineComment / GetLineComment, getFinalStrComment
             check_lsp_hover_complete_util.go GetStrComment (the clean-up applied by hover)
   The pipeline starts from the file BYTES (lex_all of the shared front end). No proofs here. *)
From Coq Require Import List NArith ZArith Bool.
From LH Require Import Base.Bytes Base.Res Model.Codec Model.Lexer Model.Ast Model.Parser Model.LuaFront.
Import ListNotations.
Local Open Scope N_scope.

(* ------------------------------------------------------------------ the comment map *)
(* all writes l.commentMap[k] = v in program order *)
Definition cm_writes (ts : list ltok) : list (Z * cinfo) := flat_map lcomments ts.

(* Go map read after the writes `es` (in order): the last write to the key wins *)
Fixpoint cm_find (line : Z) (es : list (Z * cinfo)) (acc : option cinfo) : option cinfo :=
  match es with
  | [] => acc
  | (k, ci) :: t => cm_find line t (if (k =? line)%Z then Some ci else acc)
  end.

(* FileResult.GetFileLineComment *)
Definition cm_lookup (es : list (Z * cinfo)) (line : Z) : option cinfo :=
  if (line <=? 0)%Z then None else cm_find line es None.

(* the loop of getSpecialLineComment (after fix 699f51d): `if index == 0 { = } else { + "\n" + }` -
   a plain join with "\n". (Before the fix the test was `strComment == ""`: an empty accumulated text was overwritten,
   so leading empty lines of a block vanished.) *)
Definition join_step (acc : list N) (l : cline) : list N := acc ++ 10 :: cl_str l.
Definition join_lines (ls : list cline) : list N :=
  match ls with [] => [] | a :: t => fold_left join_step t (cl_str a) end.

Definition special_line_comment (es : list (Z * cinfo)) (line : Z) (head : bool) : list N :=
  match cm_lookup es line with
  | None => []
  | Some ci => if Bool.eqb (ci_head ci) head then join_lines (ci_lines ci) else []
  end.

(* GetLineComment: the same-line (tail) comment first; if that text is empty, the head comment keyed on the line above *)
Definition get_line_comment (es : list (Z * cinfo)) (line : Z) : list N :=
  match special_line_comment es line false with
  | [] => special_line_comment es (line - 1) true
  | s => s
  end.

(* ------------------------------------------------------------------ which comments the map holds *)
(* The Go lexer is driven lazily by the parser: the map holds the comments in front of the tokens the parser pulled.
   The parser pulls every token up to EOF unless a stray block-end token stops parseBlock at top level (then one more
   token is pulled by NextTokenKind(EOF)); with the 31st error the parser panics (map contents not modelled: None). *)
Section Consumed.
  Variable gbk_runes : list N -> Z.
  Variable classify : list N -> numcls.

  Definition consumed_tokens (ts' : list ltok) : Res (option (list ltok)) :=
    match p_block_loc classify (fuel_of_tokens ts') (init_pst ts') with
    | Ok (_, st1) =>
      let st2 := expect TkEOF st1 in
      if Nat.leb 31 (length (perrs st2) + length (lseen st2)) then Ok None
      else if tk_eqb (now_kind st2) TkEOF then Ok (Some ts')
      else Ok (Some (firstn (length ts' - length (rest st2)) ts'))
    | Fault k => Fault k
    | OutOfFuel => OutOfFuel
    end.

  Definition comment_writes (bs : list N) : Res (option (list (Z * cinfo))) :=
    match lex_all gbk_runes bs with
    | Ok ts =>
      match consumed_tokens (parser_view ts) with
      | Ok (Some c) => Ok (Some (cm_writes c))
      | Ok None => Ok None
      | Fault k => Fault k
      | OutOfFuel => OutOfFuel
      end
    | Fault k => Fault k
    | OutOfFuel => OutOfFuel
    end.

  (* "the parser reads the file to its end": no stray block-end token stops it at top level and it does not give up
     with the 31st error - then the map holds the comments of every gap of the file *)
  Definition parser_reads_all (bs : list N) : bool :=
    match lex_all gbk_runes bs with
    | Ok ts =>
      let ts' := parser_view ts in
      match consumed_tokens ts' with
      | Ok (Some c) => Nat.eqb (length c) (length ts')
      | _ => false
      end
    | _ => false
    end.

  (* the comment the server attaches to a declaration whose name ends on `line` (1-based) *)
  Definition doc_comment (bs : list N) (line : Z) : Res (option (list N)) :=
    match comment_writes bs with
    | Ok (Some es) => Ok (Some (get_line_comment es line))
    | Ok None => Ok None
    | Fault k => Fault k
    | OutOfFuel => OutOfFuel
    end.
End Consumed.

(* ------------------------------------------------------------------ string helpers (Go strings package) *)
(* strings.Split(s, "\n"): always at least one piece *)
Fixpoint split_nl_aux (l cur : list N) : list (list N) :=
  match l with
  | [] => [rev cur]
  | c :: t => if c =? 10 then rev cur :: split_nl_aux t [] else split_nl_aux t (c :: cur)
  end.
Definition split_nl (l : list N) : list (list N) := split_nl_aux l [].

(* strings.Join(ls, "\n") *)
Fixpoint join_nl (ls : list (list N)) : list N :=
  match ls with
  | [] => []
  | [a] => a
  | a :: t => a ++ 10 :: join_nl t
  end.

Fixpoint trim_left_sp (l : list N) : list N :=            (* strings.TrimLeft(s, " ") *)
  match l with 32 :: t => trim_left_sp t | _ => l end.

Definition trim_prefix (p l : list N) : list N :=            (* strings.TrimPrefix(l, p) *)
  if test p l then skipn (length p) l else l.

Definition has_prefix (p l : list N) : bool := test p l.

(* ------------------------------------------------------------------ getFinalStrComment(s, false) *)
(* one line: TrimPrefix "-*", TrimPrefix "*", TrimPrefix "-", TrimLeft " " *)
Definition final_line (l : list N) : list N :=
  trim_left_sp (trim_prefix [45] (trim_prefix [42] (trim_prefix [45; 42] l))).

(* the loop rewrites every line; when the LAST line becomes empty it is cut off *)
Fixpoint final_lines (ls : list (list N)) : list (list N) :=
  match ls with
  | [] => []
  | [a] => match final_line a with [] => [] | a' => [a'] end
  | a :: t => final_line a :: final_lines t
  end.

Definition final_comment (s : list N) : list N :=
  match s with [] => [] | _ => join_nl (final_lines (split_nl s)) end.

(* ------------------------------------------------------------------ GetStrComment (used by hover) *)
(* one line: TrimLeft " ", TrimPrefix "-*", TrimPrefix "-", TrimLeft " " *)
Definition hover_line (l : list N) : list N :=
  trim_left_sp (trim_prefix [45] (trim_prefix [45; 42] (trim_left_sp l))).

Definition s_class : list N := [64; 99; 108; 97; 115; 115].
Definition s_alias : list N := [64; 97; 108; 105; 97; 115].
Definition s_param : list N := [64; 112; 97; 114; 97; 109].
Definition s_return : list N := [64; 114; 101; 116; 117; 114; 110].
Definition s_type : list N := [64; 116; 121; 112; 101].
Definition s_overload : list N := [64; 111; 118; 101; 114; 108; 111; 97; 100].
Definition s_generic : list N := [64; 103; 101; 110; 101; 114; 105; 99].
Definition s_vararg : list N := [64; 118; 97; 114; 97; 114; 103].
Definition s_version : list N := [64; 118; 101; 114; 115; 105; 111; 110].
Definition is_annot_line (l : list N) : bool :=
  existsb (fun p => has_prefix p l) [s_class; s_alias; s_param; s_return; s_type; s_overload; s_generic; s_vararg; s_version].

Definition s_fence : list N := [96; 96; 96].                       (* ``` *)
Definition s_fence_lua : list N := [10; 96; 96; 96; 108; 117; 97; 10].   (* \n```lua\n *)
Definition s_br : list N := [32; 32; 10].                          (* two spaces + \n *)

(* state: (str, preLuaStr) *)
Fixpoint hover_lines (ls : list (list N)) (str pre : list N) : list N :=
  match ls with
  | [] => str
  | a :: t =>
    let one := hover_line a in
    if is_annot_line one then
      let pre' := match pre with [] => s_fence_lua ++ one ++ [10] | _ => pre ++ one ++ [10] end in
      match t with
      | [] => str ++ pre' ++ s_fence          (* index == len-1 *)
      | _ => hover_lines t str pre'
      end
    else
      match pre with
      | [] => hover_lines t (str ++ s_br ++ one) []
      | _ => hover_lines t (str ++ pre ++ s_fence ++ s_br ++ one) []
      end
  end.

Definition get_str_comment (s : list N) : list N :=
  match s with [] => [] | _ => hover_lines (split_nl s) [] [] end.

(* ------------------------------------------------------------------ documentation text of a hover *)
Section Doc.
  Variable gbk_decode : list N -> option (list N).
  (* textdocument_hover.go getHoverStr: codingconv.ConvertStrToUtf8(GetStrComment(GetLineComment(file, line))) *)
  Definition hover_doc (es : list (Z * cinfo)) (line : Z) : list N :=
    convert gbk_decode (get_str_comment (get_line_comment es line)).
End Doc.

(* annotation lines ("---@...": the comment text starts with "-@") switch hover to the annotation machinery, which is
   outside this model *)
Definition is_annotation_text (l : list N) : bool := test [45; 64] l.
Definition has_annotation (es : list (Z * cinfo)) : bool :=
  existsb (fun e => existsb (fun c => is_annotation_text (cl_str c)) (ci_lines (snd e))) es.

(* ================================================================================================================
   Fix C13-long-comment-doc (fixes/C13-long-comment-doc.diff): a long-bracket comment `--[[ text ]]` keeps its text.
   Before the fix skipWhiteSpaces stored a CommentInfo WITHOUT any text for a long-bracket comment (`if shortFlag { append }`),
   so a `--[[ doc ]]` block directly above a declaration - or trailing on its line - was never shown. After the fix the
   text (as scanLongString returns it: line breaks normalised to "\n", a first line break dropped, a closing "\n--"
   trimmed) is kept in CommentInfo.LongStr and getSpecialLineComment starts from it. The grouping is unchanged: a
   long-bracket comment never joins a neighbouring comment, it is a block of its own, keyed by its last line.
   Model: the comment bookkeeping of Model/Lexer.v (comment_step / skip_ws / next_token / lex_loop, shared and frozen)
   is repeated here with the flag `fx`; LongStr is represented as the single `cline` of a cinfo with ci_short = false
   (cl_line = the comment's last line, cl_col = its start column + 2). `fx = false` is literally the shared model
   (Proofs/CommentsLong.v lex_all_v_false); `long_fix_deployed` says which variant the code has.
   ================================================================================================================ *)
Definition long_fix_deployed : bool := true.

Section LongFix.
  Variable fx : bool.

  Definition add_line_v (ci : cinfo) (short : bool) (txt : list N) (ln col : Z) : cinfo :=
    if short || fx then mkCinfo (ci_lines ci ++ [mkCline txt ln col]) (ci_short ci) (ci_head ci) else ci.

  Definition comment_step_v (cs : cstate) (short head : bool) (txt : list N) (ln col : Z) : cstate :=
    match cur cs with
    | None =>
      let ci := add_line_v (mkCinfo [] short head) short txt ln col in
      if negb head then mkCst None ln (emitted cs ++ [(ln, ci)])
      else mkCst (Some ci) ln (emitted cs)
    | Some ci =>
      let split := negb (Bool.eqb (ci_short ci) short) || (negb (ci_short ci) && negb short)
                   || negb (ln =? last_line cs + 1)%Z in
      let '(ci1, em) := if split then (mkCinfo [] short head, emitted cs ++ [(last_line cs, ci)])
                        else (ci, emitted cs) in
      mkCst (Some (add_line_v ci1 short txt ln col)) ln em
    end.

  Fixpoint skip_ws_f_v (fuel : nat) (prev2 prev1 : option tok) (s : lst) (cs : cstate) (errs : list lexerr) {struct fuel}
    : lst * cstate * list lexerr :=
    match fuel with
    | O => (s, cs, errs)
    | S f =>
      match chunk s with
      | [] => (s, cs, errs)
      | c0 :: rest =>
        let wrap := match rest with
                    | c1 :: _ => ((c0 =? 13) && (c1 =? 10)) || ((c0 =? 10) && (c1 =? 13))
                    | [] => false end in
        if wrap then
          let s1 := adv s 2 in skip_ws_f_v f prev2 prev1 (mkLst (chunk s1) (line s1 + 1)%Z (pos s1) (pos s1)) cs errs
        else if is_newline c0 then
          let s1 := adv s 1 in skip_ws_f_v f prev2 prev1 (mkLst (chunk s1) (line s1 + 1)%Z (pos s1) (pos s1)) cs errs
        else if is_white c0 then skip_ws_f_v f prev2 prev1 (adv s 1) cs errs
        else
          let pre_comment := match rest with c1 :: _ => (c0 =? 45) && (c1 =? 45) | [] => false end in
          if negb pre_comment then (s, cs, errs)
          else
            let lc := match prev1 with
                      | Some t => tok_loc (match prev2 with Some p => p | None => zero_tok end) t
                      | None => zero_loc end in
            let head := negb (el lc =? line s)%Z in
            let col := (pos s - lsp s + 2)%Z in
            let '(short, txt, s1, es) := skip_comment s in
            let txt' := trim_suffix_nl_dashes txt in
            skip_ws_f_v f prev2 prev1 s1 (comment_step_v cs short head txt' (line s1) col) (errs ++ es)
      end
    end.

  Definition skip_ws_v (prev2 prev1 : option tok) (s : lst) : lst * list (Z * cinfo) * list lexerr :=
    let '(s1, cs, errs) := skip_ws_f_v (S (length (chunk s))) prev2 prev1 s (mkCst None 0 []) [] in
    let em := match cur cs with Some ci => emitted cs ++ [(last_line cs, ci)] | None => emitted cs end in
    (s1, em, errs).

  Section LexV.
    Variable gbk_runes : list N -> Z.

    Definition next_token_v (prev2 prev1 : option tok) (s : lst) : ltok * lst :=
      let '(s1, cms, es1) := skip_ws_v prev2 prev1 s in
      let '(t, s2, es2) := scan_token gbk_runes s1 in
      (mkLtok t (es1 ++ es2) cms, s2).

    Fixpoint lex_loop_v (fuel : nat) (prev2 prev1 : option tok) (s : lst) (acc : list ltok) {struct fuel} : Res (list ltok) :=
      match fuel with
      | O => OutOfFuel
      | S f =>
        let '(lt1, s1) := next_token_v prev2 prev1 s in
        match tk (lt lt1) with
        | TkEOF => Ok (rev (lt1 :: acc))
        | _ => lex_loop_v f prev1 (Some (lt lt1)) s1 (lt1 :: acc)
        end
      end.

    Definition lex_all_v (bs : list N) : Res (list ltok) :=
      lex_loop_v (S (S (length bs))) None None (skip_first_line bs) [].

    Variable classify : list N -> numcls.

    (* the comment map the analysis gets / "the parser reads the file to its end" / the documentation of a line, for the
       variant fx (the Go parser never looks at comments: it is run on the same tokens) *)
    Definition comment_writes_v (bs : list N) : Res (option (list (Z * cinfo))) :=
      match lex_all_v bs with
      | Ok ts =>
        match consumed_tokens classify (parser_view ts) with
        | Ok (Some c) => Ok (Some (cm_writes c))
        | Ok None => Ok None
        | Fault k => Fault k
        | OutOfFuel => OutOfFuel
        end
      | Fault k => Fault k
      | OutOfFuel => OutOfFuel
      end.

    Definition parser_reads_all_v (bs : list N) : bool :=
      match lex_all_v bs with
      | Ok ts =>
        let ts' := parser_view ts in
        match consumed_tokens classify ts' with
        | Ok (Some c) => Nat.eqb (length c) (length ts')
        | _ => false
        end
      | _ => false
      end.

    Definition doc_comment_v (bs : list N) (line : Z) : Res (option (list N)) :=
      match comment_writes_v bs with
      | Ok (Some es) => Ok (Some (get_line_comment es line))
      | Ok None => Ok None
      | Fault k => Fault k
      | OutOfFuel => OutOfFuel
      end.
  End LexV.
End LongFix.
