(* Model of langserver/check/compiler/lexer/lexer.go (after the two `fix:` commits on consumeEOL and the
   long-bracket clamp, and - under the flag fx_escape, see FxEscape below - the repair of readEscapeSequence).
   Eager: the whole token list is produced up front; DESIGN/C01 explains why this is
   observationally equal to the lazy Go lexer (tokens do not depend on the parser; lexical errors are attached
   to the token during whose scan they are raised, and the parser model counts those of the tokens it consumed).

   Positions are Z (Go ints; columns can go negative, which is one of the C04 findings).  *)
From Coq Require Import List NArith ZArith Bool.
From LH Require Import Base.Bytes Base.Res Model.Codec.
Import ListNotations.
Local Open Scope N_scope.

(* ------------------------------------------------------------------ token kinds (lexer/token.go) *)
Inductive tkind :=
| IKIllegal | TkEOF | TkVararg | TkSepSemi | TkSepComma | TkSepDot | TkSepColon | TkSepLabel
| TkSepLparen | TkSepRparen | TkSepLbrack | TkSepRbrack | TkSepLcurly | TkSepRcurly
| TkOpAssign | TkOpMinus | TkOpWave | TkOpAdd | TkOpMul | TkOpDiv | TkOpIdiv | TkOpPow | TkOpMod
| TkOpBand | TkOpBor | TkOpShr | TkOpShl | TkOpConcat | TkOpLt | TkOpLe | TkOpGt | TkOpGe | TkOpEq | TkOpNe
| TkOpNen | TkOpAnd | TkOpOr | TkOpNot
| TkKwBreak | TkKwDo | TkKwElse | TkKwElseif | TkKwEnd | TkKwFalse | TkKwFor | TkKwFunction | TkKwGoto
| TkKwIf | TkKwIn | TkKwLocal | TkKwNil | TkKwRepeat | TkKwReturn | TkKwThen | TkKwTrue | TkKwUntil | TkKwWhile
| TkIdentifier | TkNumber | TkString.

Definition all_kinds : list tkind :=
  [IKIllegal; TkEOF; TkVararg; TkSepSemi; TkSepComma; TkSepDot; TkSepColon; TkSepLabel;
   TkSepLparen; TkSepRparen; TkSepLbrack; TkSepRbrack; TkSepLcurly; TkSepRcurly;
   TkOpAssign; TkOpMinus; TkOpWave; TkOpAdd; TkOpMul; TkOpDiv; TkOpIdiv; TkOpPow; TkOpMod;
   TkOpBand; TkOpBor; TkOpShr; TkOpShl; TkOpConcat; TkOpLt; TkOpLe; TkOpGt; TkOpGe; TkOpEq; TkOpNe;
   TkOpNen; TkOpAnd; TkOpOr; TkOpNot;
   TkKwBreak; TkKwDo; TkKwElse; TkKwElseif; TkKwEnd; TkKwFalse; TkKwFor; TkKwFunction; TkKwGoto;
   TkKwIf; TkKwIn; TkKwLocal; TkKwNil; TkKwRepeat; TkKwReturn; TkKwThen; TkKwTrue; TkKwUntil; TkKwWhile;
   TkIdentifier; TkNumber; TkString].

Definition tkind_eq_dec (a b : tkind) : {a = b} + {a <> b}.
Proof. decide equality. Defined.
Definition tk_eqb (a b : tkind) : bool := if tkind_eq_dec a b then true else false.

(* index in the Go const block (iota) *)
Fixpoint index_of (k : tkind) (l : list tkind) (i : N) : N :=
  match l with [] => i | x :: t => if tk_eqb k x then i else index_of k t (i + 1) end.
Definition tk_code (k : tkind) : N := index_of k all_kinds 0.

(* ------------------------------------------------------------------ byte classes *)
Definition c_of (s : N) := s.
Definition is_white (c : N) : bool := (c =? 32) || (c =? 9) || (c =? 11) || (c =? 12).   (* ' ' \t \v \f *)
Definition is_newline (c : N) : bool := (c =? 13) || (c =? 10).
Definition is_digit (c : N) : bool := (48 <=? c) && (c <=? 57).
Definition is_letter (c : N) : bool := ((97 <=? c) && (c <=? 122)) || ((65 <=? c) && (c <=? 90)).
Definition is_hex_digit (c : N) : bool :=
  ((48 <=? c) && (c <=? 57)) || ((97 <=? c) && (c <=? 102)) || ((65 <=? c) && (c <=? 70)).
Definition is_ident_char (c : N) : bool := is_letter c || is_digit c || (c =? 95).

(* keywords map; the string constants are spelled as byte lists *)
Definition kw (s : list N) (k : tkind) := (s, k).
Definition keywords : list (list N * tkind) :=
  [ kw [97;110;100] TkOpAnd; kw [98;114;101;97;107] TkKwBreak; kw [100;111] TkKwDo; kw [101;108;115;101] TkKwElse;
    kw [101;108;115;101;105;102] TkKwElseif; kw [101;110;100] TkKwEnd; kw [102;97;108;115;101] TkKwFalse;
    kw [102;111;114] TkKwFor; kw [102;117;110;99;116;105;111;110] TkKwFunction; kw [103;111;116;111] TkKwGoto;
    kw [105;102] TkKwIf; kw [105;110] TkKwIn; kw [108;111;99;97;108] TkKwLocal; kw [110;105;108] TkKwNil;
    kw [110;111;116] TkOpNot; kw [111;114] TkOpOr; kw [114;101;112;101;97;116] TkKwRepeat;
    kw [114;101;116;117;114;110] TkKwReturn; kw [116;104;101;110] TkKwThen; kw [116;114;117;101] TkKwTrue;
    kw [117;110;116;105;108] TkKwUntil; kw [119;104;105;108;101] TkKwWhile ].

Fixpoint lookup_kw (s : list N) (l : list (list N * tkind)) : option tkind :=
  match l with [] => None | (w, k) :: t => if beq_bytes s w then Some k else lookup_kw s t end.

(* ------------------------------------------------------------------ Go's utf8.RuneCountInString *)
Definition in_rng (lo hi c : N) : bool := (lo <=? c) && (c <=? hi).
Definition cont (c : N) : bool := in_rng 128 191 c.

(* number of bytes of the valid encoding starting the list, 1 for an invalid byte (counted as one rune) *)
Definition rune_len (l : list N) : nat :=
  match l with
  | [] => 0%nat
  | b0 :: t =>
    if b0 <? 128 then 1%nat
    else if in_rng 194 223 b0 then
      match t with b1 :: _ => if cont b1 then 2%nat else 1%nat | _ => 1%nat end
    else if in_rng 224 239 b0 then
      match t with
      | b1 :: b2 :: _ =>
        let lo := if b0 =? 224 then 160 else 128 in
        let hi := if b0 =? 237 then 159 else 191 in
        if in_rng lo hi b1 && cont b2 then 3%nat else 1%nat
      | _ => 1%nat
      end
    else if in_rng 240 244 b0 then
      match t with
      | b1 :: b2 :: b3 :: _ =>
        let lo := if b0 =? 240 then 144 else 128 in
        let hi := if b0 =? 244 then 143 else 191 in
        if in_rng lo hi b1 && cont b2 && cont b3 then 4%nat else 1%nat
      | _ => 1%nat
      end
    else 1%nat
  end.

Fixpoint rune_count_f (fuel : nat) (l : list N) (acc : Z) : Z :=
  match fuel with
  | O => acc
  | S f => match l with
           | [] => acc
           | _ => rune_count_f f (skipn (rune_len l) l) (acc + 1)%Z
           end
  end.
Definition rune_count (l : list N) : Z := rune_count_f (length l) l 0%Z.

(* ------------------------------------------------------------------ tokens, locations, errors, comments *)
Record tok := mkTok { tk : tkind; tstr : list N; tline : Z; tlsp : Z; tfrom : Z; tto : Z }.
Definition zero_tok : tok := mkTok IKIllegal [] 0 0 0 0.     (* Go zero value of an invalid Token *)

Record loc := mkLoc { sl : Z; sc : Z; el : Z; ec : Z }.
Definition zero_loc : loc := mkLoc 0 0 0 0.

(* body shared by GetNowTokenLoc / GetHeardTokenLoc: t with the token before it *)
Definition tok_loc (prev : tok) (t : tok) : loc :=
  if (tlsp t >? tfrom t)%Z
  then mkLoc (tline prev) (tto prev - tlsp prev + 1)%Z (tline t) (tto t - tlsp t)%Z
  else mkLoc (tline t) (tfrom t - tlsp t)%Z (tline t) (tto t - tlsp t)%Z.

Inductive lexerr :=
| LeIllegal          (* unexpected Unicode-name *)
| LeUnfinishedStr    (* unfinished string *)
| LeMissingClose     (* missing `]]` *)
| LeBadLongDelim     (* invalid long string delimiter *)
| LeMalformedNumber
| LeBadEscape.       (* invalid escape sequence (raised by the repaired readEscapeSequence only) *)

Record cline := mkCline { cl_str : list N; cl_line : Z; cl_col : Z }.
Record cinfo := mkCinfo { ci_lines : list cline; ci_short : bool; ci_head : bool }.

Record lst := mkLst { chunk : list N; line : Z; lsp : Z; pos : Z }.

Definition adv (s : lst) (n : nat) : lst :=
  mkLst (skipn n (chunk s)) (line s) (lsp s) (pos s + Z.of_nat n)%Z.

Fixpoint test (s : list N) (l : list N) : bool :=   (* l.test(s) *)
  match s with
  | [] => true
  | c :: s' => match l with [] => false | x :: l' => (x =? c) && test s' l' end
  end.

(* ------------------------------------------------------------------ long brackets *)
(* matchLongStringBacket: (opener as byte list or [] , count) *)
Fixpoint match_lb_loop (l : list N) (idx : nat) (count : nat) (orig : list N) : list N * nat :=
  match l with
  | [] => ([], (count + 2)%nat)
  | c :: t => if c =? 61 then match_lb_loop t (S idx) (S count) orig
              else if c =? 91 then (firstn (S idx) orig, (count + 2)%nat)
              else ([], (count + 2)%nat)
  end.
Definition match_long_bracket (l : list N) : list N * nat :=
  match l with
  | 91 :: 91 :: _ => ([91; 91], 0%nat)
  | 91 :: t => match_lb_loop t 1 0 l
  | _ => ([], 0%nat)
  end.

(* strings.Index *)
Fixpoint index_of_sub_f (fuel : nat) (needle l : list N) (i : nat) : option nat :=
  match fuel with
  | O => None
  | S f => if test needle l then Some i
           else match l with [] => None | _ :: t => index_of_sub_f f needle t (S i) end
  end.
Definition index_of_sub (needle l : list N) : option nat := index_of_sub_f (S (length l)) needle l 0.

(* newLineReplacer.Replace *)
Fixpoint nl_norm_f (fuel : nat) (l : list N) : list N :=
  match fuel with
  | O => []
  | S f => match l with
           | [] => []
           | 13 :: 10 :: t => 10 :: nl_norm_f f t
           | 10 :: 13 :: t => 10 :: nl_norm_f f t
           | 13 :: t => 10 :: nl_norm_f f t
           | c :: t => c :: nl_norm_f f t
           end
  end.
Definition nl_norm (l : list N) : list N := nl_norm_f (length l) l.

Definition count_nl (l : list N) : Z := Z.of_nat (length (filter (fun c => c =? 10) l)).
(* length of the part after the last \n *)
Fixpoint last_seg_len (l : list N) (acc : nat) : nat :=
  match l with [] => acc | c :: t => if c =? 10 then last_seg_len t 0 else last_seg_len t (S acc) end.

(* scanLongString; returns (string, new state, errors, token start override) ; the override models the nested
   look-ahead of the "missing ]]" error site, which overwrites l.tokenStartPos with the end position *)
Definition scan_long_string (s : lst) : list N * lst * list lexerr * option Z :=
  let '(lb, count) := match_long_bracket (chunk s) in
  match lb with
  | [] =>
    let n := Nat.min count (length (chunk s)) in
    ([], adv s n, [LeBadLongDelim], None)
  | _ =>
    let lbe := map (fun c => if c =? 91 then 93 else c) lb in
    match index_of_sub lbe (chunk s) with
    | None =>
      let str := nl_norm (skipn (length lb) (chunk s)) in
      let s1 := adv s (length (chunk s)) in
      let nl := count_nl str in
      let s2 := if (nl >? 0)%Z
                then mkLst (chunk s1) (line s1 + nl)%Z (pos s1 - Z.of_nat (last_seg_len str 0))%Z (pos s1)
                else s1 in
      ([], s2, [LeMissingClose], Some (pos s2))
    | Some idx =>
      let str := nl_norm (firstn (idx - length lb) (skipn (length lb) (chunk s))) in
      let s1 := adv s (idx + length lbe) in
      let s2 := mkLst (chunk s1) (line s1 + count_nl str)%Z (pos s1) (pos s1) in
      let str' := match str with 10 :: t => t | _ => str end in
      (str', s2, [], None)
    end
  end.

(* ------------------------------------------------------------------ short strings *)
Definition nth_byte (l : list N) (i : nat) : option N := nth_error l i.

(* consumeEOL (after the fix): at index i of the chunk; returns (consumed?, new i, new line, new lsp) *)
Definition consume_eol (ch : list N) (i : nat) (ln ls p0 : Z) : bool * nat * Z * Z :=
  match nth_byte ch i with
  | None => (false, i, ln, ls)      (* not reachable from the callers; Go would index out of range *)
  | Some c =>
    let peek := match nth_byte ch (S i) with Some x => x | None => 32 end in
    if is_newline c then
      let i1 := if ((c =? 13) && (peek =? 10)) || ((peek =? 13) && (c =? 10)) then S i else i in
      let i2 := S i1 in
      (true, i2, (ln + 1)%Z, (p0 + Z.of_nat i2)%Z)
    else (false, i, ln, ls)
  end.

Definition is_new_white (c : N) : bool := (c =? 9) || (c =? 11) || (c =? 12) || (c =? 32).

Fixpoint skip_z_f (fuel : nat) (ch : list N) (i : nat) (ln ls p0 : Z) : nat * Z * Z :=
  match fuel with
  | O => (i, ln, ls)
  | S f =>
    match nth_byte ch i with
    | None => (i, ln, ls)
    | Some c =>
      if is_new_white c then skip_z_f f ch (S i) ln ls p0
      else let '(ok, i', ln', ls') := consume_eol ch i ln ls p0 in
           if ok then skip_z_f f ch i' ln' ls' p0 else (i, ln, ls)
    end
  end.

Fixpoint skip_digits_f (fuel : nat) (ch : list N) (i : nat) : nat :=
  match fuel with
  | O => i
  | S f => match nth_byte ch i with
           | Some c => if is_digit c then skip_digits_f f ch (S i) else i
           | None => i
           end
  end.

(* Go's string(b) for a byte b: the UTF-8 encoding of the code point U+00bb *)
Definition go_string_of_byte (c : N) : list N :=
  if c <? 128 then [c] else [192 + c / 64; 128 + c mod 64].

(* ------------------------------------------------------------------ the repair of readEscapeSequence (C03)
   fx_escape = false : readEscapeSequence as it was (`\x` without two hex digits, a decimal escape above 255, `\u...`
                       and any other character after a backslash are taken as they come, no error);
   fx_escape = true  : the repaired function (fixes/C03-invalid-escape.diff): the same pieces, the same positions,
                       plus the error "invalid escape sequence" (LeBadEscape) in exactly those cases; `\u{XXX}` is
                       checked (at least one hex digit, closing brace, value below 2^31).
   The flag is an implicit argument (a class with one field) of every function from read_escape up to lex_all:
   existing statements `lex_all gbk_runes bs` read `@lex_all fx_deployed gbk_runes bs` (the instance below, = the
   code in /repo); a lemma proved in a section with `Context {fx : FxEscape}` holds for both variants;
   `lex_all (fx := false)` is the code before the repair. *)
Class FxEscape := fx_escape : bool.

(* escapeError is raised (repaired code only) when [bad] *)
Definition esc_err {fx : FxEscape} (bad : bool) : list lexerr := if fx_escape && bad then [LeBadEscape] else [].

(* the decimal branch's `value`: the first n (= 3) digits at most *)
Fixpoint dec_value (n : nat) (l : list N) (acc : N) : N :=
  match n, l with
  | S n', c :: t => if is_digit c then dec_value n' t (acc * 10 + (c - 48)) else acc
  | _, _ => acc
  end.

(* isUtf8Escape: `{`, one or more hex digits with value below 2^31, `}` *)
Definition hex_digit_value (c : N) : N :=
  if 97 <=? c then c - 97 + 10 else if 65 <=? c then c - 65 + 10 else c - 48.
Fixpoint utf8_esc_loop (l : list N) (value : N) (digits : bool) : bool :=
  match l with
  | [] => false
  | c :: t =>
    if is_hex_digit c then
      let v := value * 16 + hex_digit_value c in
      if 2147483648 <=? v then false else utf8_esc_loop t v true
    else (c =? 125) && digits
  end.
Definition is_utf8_escape (l : list N) : bool :=
  match l with c :: t => (c =? 123) && utf8_esc_loop t 0 false | [] => false end.

(* readEscapeSequence at index i (the byte after the backslash); Fault IndexRange mirrors l.chunk[*i] in consumeEOL *)
Definition read_escape {fx : FxEscape} (ch : list N) (i : nat) (ln ls p0 : Z) : list N * nat * Z * Z * list lexerr :=
  match nth_byte ch i with
  | None => ([], i, ln, ls, [LeUnfinishedStr])       (* unreachable from scan_short_string (guarded by i < len) *)
  | Some c =>
    if c =? 97 then ([7], S i, ln, ls, [])            (* a *)
    else if c =? 98 then ([8], S i, ln, ls, [])       (* b *)
    else if c =? 102 then ([12], S i, ln, ls, [])     (* f *)
    else if c =? 110 then ([10], S i, ln, ls, [])     (* n *)
    else if c =? 114 then ([13], S i, ln, ls, [])     (* r *)
    else if c =? 116 then ([9], S i, ln, ls, [])      (* t *)
    else if c =? 118 then ([11], S i, ln, ls, [])     (* v *)
    else if c =? 120 then                             (* x *)
      match nth_byte ch (S i), nth_byte ch (S (S i)) with
      | Some h1, Some h2 =>
        if is_hex_digit h1 && is_hex_digit h2 then (92 :: [c; h1; h2], (i + 3)%nat, ln, ls, [])
        else ([92; 120], S i, ln, ls, esc_err true)
      | _, _ => ([92; 120], S i, ln, ls, esc_err true)
      end
    else if c =? 117 then                             (* u : `case 'u'` of the repaired code; before the repair the
                                                         default branch returned the same piece string(oneChar) = "u" *)
      ([c], S i, ln, ls, esc_err (negb (is_utf8_escape (skipn (S i) ch))))
    else if is_newline c then
      let '(ok, i', ln', ls') := consume_eol ch i ln ls p0 in
      ([10], i', ln', ls', if ok then [] else [LeUnfinishedStr])
    else if (c =? 92) || (c =? 39) || (c =? 34) then ([c], S i, ln, ls, [])
    else if c =? 122 then                             (* z *)
      let '(i', ln', ls') := skip_z_f (S (length ch)) ch (S i) ln ls p0 in
      ([], i', ln', ls', [])
    else if is_digit c then
      let j := skip_digits_f (S (length ch)) ch (S i) in
      (92 :: firstn (j - i) (skipn i ch), j, ln, ls, esc_err (255 <? dec_value 3 (skipn i ch) 0))
    else (go_string_of_byte c, S i, ln, ls, esc_err true)      (* string(oneChar): the byte is converted as a rune *)
  end.

Section WithOracle.
  Context {fx : FxEscape}.
  (* rune count of the GBK-decoded text: only consulted when the UTF-8 detector rejects the string *)
  Variable gbk_runes : list N -> Z.

  Definition conv_rune_count (s : list N) : Z :=
    match s with
    | [] => 0%Z
    | _ => if is_utf8 s then rune_count s else gbk_runes s
    end.

  (* scanShortString. Result: (token string, state after, errors, token-start override) *)
  Fixpoint scan_short_f (fuel : nat) (delim : N) (ch : list N) (i stringStart : nat) (acc : list N)
           (ln ls p0 : Z) (errs : list lexerr) : list N * lst * list lexerr * option Z :=
    let len := length ch in
    let finish_noclose :=      (* loop left without break: stringStart >= len *)
        let s1 := mkLst (skipn i ch) ln ls (p0 + Z.of_nat i)%Z in
        ([], s1, errs ++ [LeUnfinishedStr], Some (pos s1)) in
    match fuel with
    | O => finish_noclose
    | S f =>
      if (i <? len)%nat then
        match nth_byte ch i with
        | None => finish_noclose
        | Some c =>
          let i1 := S i in
          if c =? delim then
            (* closing delimiter found *)
            let str := acc ++ firstn (i1 - 1 - stringStart) (skipn stringStart ch) in
            let s1 := mkLst (skipn i1 ch) ln ls (p0 + conv_rune_count str + 2)%Z in
            (str, s1, errs, None)
          else if (len <=? i1)%nat || is_newline c then
            let n := if (len <=? i1)%nat then i1 else (i1 - 1)%nat in
            ([], mkLst (skipn n ch) ln ls (p0 + Z.of_nat n)%Z, errs ++ [LeUnfinishedStr], None)
          else if negb (c =? 92) then scan_short_f f delim ch i1 stringStart acc ln ls p0 errs
          else
            let acc1 := acc ++ firstn (i1 - 1 - stringStart) (skipn stringStart ch) in
            let '(piece, i2, ln', ls', es) := read_escape ch i1 ln ls p0 in
            scan_short_f f delim ch i2 i2 (acc1 ++ piece) ln' ls' p0 (errs ++ es)
        end
      else finish_noclose
    end.

  Definition scan_short_string (s : lst) : list N * lst * list lexerr * option Z :=
    match chunk s with
    | [] => ([], s, [], None)
    | d :: _ => scan_short_f (S (length (chunk s))) d (chunk s) 1 1 [] (line s) (lsp s) (pos s) []
    end.

  (* ---------------------------------------------------------------- numbers, identifiers, illegal tokens *)
  Definition has_char (c : N) (set : list N) : bool := existsb (fun x => x =? c) set.

  Fixpoint scan_number_loop (fuel : nat) (ch : list N) (i : nat) (expo : list N) : nat :=
    match fuel with
    | O => i
    | S f =>
      match nth_byte ch i with
      | None => i
      | Some c2 =>
        let i1 := if has_char c2 expo
                  then match nth_byte ch (S i) with
                       | Some c3 => if has_char c3 [45; 43] then S (S i) else S i
                       | None => S i
                       end
                  else i in
        match nth_byte ch i1 with
        | None => i1
        | Some c4 =>
          if is_digit c4 || in_rng 97 102 c4 || in_rng 65 70 c4 || has_char c4 [117; 85; 108; 76] || (c4 =? 46)
          then scan_number_loop f ch (S i1) expo
          else i1
        end
      end
    end.

  Definition scan_number (s : lst) : list N * lst * list lexerr :=
    let ch := chunk s in
    match ch with
    | [] => ([], s, [])
    | b0 :: _ =>
      let '(beginCh, i, errs) :=
          if b0 =? 46 then
            match nth_byte ch 1 with
            | Some c => (c, 2%nat, [])
            | None => (32, 2%nat, [LeMalformedNumber])
            end
          else (b0, 1%nat, []) in
      let j :=
          match nth_byte ch i with
          | None => i
          | Some nx =>
            let '(expo, i1) := if (beginCh =? 48) && has_char nx [120; 88] then ([80; 112], S i) else ([69; 101], i) in
            scan_number_loop (S (length ch)) ch i1 expo
          end in
      (firstn j ch, adv s j, errs)
    end.

  Fixpoint ident_len (l : list N) : nat :=
    match l with c :: t => if is_ident_char c then S (ident_len t) else 0%nat | [] => 0%nat end.
  Definition scan_identifier (s : lst) : list N * lst :=
    let n := S (ident_len (tl (chunk s))) in (firstn n (chunk s), adv s n).

  (* scanIllegalToken: returns (lineFlag, str, state) ; the caller bumps the line afterwards *)
  Fixpoint illegal_len (l : list N) (i : nat) : nat * bool * bool :=   (* (i after loop, lineFlag, broke) *)
    match l with
    | [] => (i, false, false)
    | c :: t => if (c =? 32) || (c =? 13) then (S i, false, true)
                else if c =? 10 then (S i, true, true)
                else illegal_len t (S i)
    end.
  Definition scan_illegal (s : lst) : bool * list N * lst :=
    let '(i, lf, _) := illegal_len (chunk s) 0 in
    let str := firstn (i - 1) (chunk s) in
    (lf, str, mkLst (skipn i (chunk s)) (line s) (lsp s) (pos s + conv_rune_count str)%Z).

  (* ---------------------------------------------------------------- white space and comments *)
  (* skipComment: (shortFlag, text, state, errs) *)
  Fixpoint until_newline (l : list N) : nat :=
    match l with c :: t => if is_newline c then 0%nat else S (until_newline t) | [] => 0%nat end.

  Definition skip_comment (s : lst) : bool * list N * lst * list lexerr :=
    let s1 := adv s 2 in
    let long :=
        match chunk s1 with
        | 91 :: _ => match fst (match_long_bracket (chunk s1)) with [] => false | _ => true end
        | _ => false
        end in
    if long then
      let '(str, s2, es, _) := scan_long_string s1 in (false, str, s2, es)
    else
      let n := until_newline (chunk s1) in
      (true, firstn n (chunk s1), adv s1 n, []).

  Fixpoint trim_suffix_nl_dashes (l : list N) : list N :=   (* strings.TrimSuffix(s, "\n--") *)
    match l with
    | [10; 45; 45] => []
    | c :: t => c :: trim_suffix_nl_dashes t
    | [] => []
    end.

  (* the state of the grouping logic inside one call of skipWhiteSpaces *)
  Record cstate := mkCst { cur : option cinfo; last_line : Z; emitted : list (Z * cinfo) }.

  Definition add_line (ci : cinfo) (short : bool) (txt : list N) (ln col : Z) : cinfo :=
    if short then mkCinfo (ci_lines ci ++ [mkCline txt ln col]) (ci_short ci) (ci_head ci) else ci.

  Definition comment_step (cs : cstate) (short head : bool) (txt : list N) (ln col : Z) : cstate :=
    match cur cs with
    | None =>
      let ci := add_line (mkCinfo [] short head) short txt ln col in
      if negb head then mkCst None ln (emitted cs ++ [(ln, ci)])
      else mkCst (Some ci) ln (emitted cs)
    | Some ci =>
      let split := negb (Bool.eqb (ci_short ci) short) || (negb (ci_short ci) && negb short)
                   || negb (ln =? last_line cs + 1)%Z in
      let '(ci1, em) := if split then (mkCinfo [] short head, emitted cs ++ [(last_line cs, ci)])
                        else (ci, emitted cs) in
      mkCst (Some (add_line ci1 short txt ln col)) ln em
    end.

  (* prev2 prev1 = preToken / nowToken during the scan (the two tokens before the one being scanned) *)
  Fixpoint skip_ws_f (fuel : nat) (prev2 prev1 : option tok) (s : lst) (cs : cstate) (errs : list lexerr)
    : lst * cstate * list lexerr :=
    match fuel with
    | O => (s, cs, errs)
    | S f =>
      match chunk s with
      | [] => (s, cs, errs)
      | c0 :: rest =>
        let wrap := match rest with
                    | c1 :: _ => ((c0 =? 13) && (c1 =? 10)) || ((c0 =? 10) && (c1 =? 13))
                    | [] => false end in
        if wrap then
          let s1 := adv s 2 in skip_ws_f f prev2 prev1 (mkLst (chunk s1) (line s1 + 1)%Z (pos s1) (pos s1)) cs errs
        else if is_newline c0 then
          let s1 := adv s 1 in skip_ws_f f prev2 prev1 (mkLst (chunk s1) (line s1 + 1)%Z (pos s1) (pos s1)) cs errs
        else if is_white c0 then skip_ws_f f prev2 prev1 (adv s 1) cs errs
        else
          let pre_comment := match rest with c1 :: _ => (c0 =? 45) && (c1 =? 45) | [] => false end in
          if negb pre_comment then (s, cs, errs)
          else
            let lc := match prev1 with
                      | Some t => tok_loc (match prev2 with Some p => p | None => zero_tok end) t
                      | None => zero_loc end in
            let head := negb (el lc =? line s)%Z in
            let col := (pos s - lsp s + 2)%Z in
            let '(short, txt, s1, es) := skip_comment s in
            let txt' := trim_suffix_nl_dashes txt in
            skip_ws_f f prev2 prev1 s1 (comment_step cs short head txt' (line s1) col) (errs ++ es)
      end
    end.

  Definition skip_ws (prev2 prev1 : option tok) (s : lst) : lst * list (Z * cinfo) * list lexerr :=
    let '(s1, cs, errs) := skip_ws_f (S (length (chunk s))) prev2 prev1 s (mkCst None 0 []) [] in
    let em := match cur cs with Some ci => emitted cs ++ [(last_line cs, ci)] | None => emitted cs end in
    (s1, em, errs).

  (* ---------------------------------------------------------------- NextTokenStruct *)
  Definition mk (k : tkind) (str : list N) (start : Z) (s : lst) : tok :=
    mkTok k str (line s) (lsp s) start (pos s).

  Definition simple (k : tkind) (n : nat) (s : lst) (start : Z) : tok * lst * list lexerr :=
    let s1 := adv s n in (mk k (firstn n (chunk s)) start s1, s1, []).

  (* one token from a state whose white space has been skipped; chunk non-empty *)
  Definition scan_token (s : lst) : tok * lst * list lexerr :=
    let start := pos s in
    let ch := chunk s in
    match ch with
    | [] => (mkTok TkEOF [69; 79; 70] (line s) (lsp s) start (pos s), s, [])
    | c :: rest =>
      let two (a b : N) := test [a; b] ch in
      let number_or_rest :=
          if (c =? 46) || is_digit c then
            let '(str, s1, es) := scan_number s in (mk TkNumber str start s1, s1, es)
          else if (c =? 95) || is_letter c then
            let '(str, s1) := scan_identifier s in
            (mk (match lookup_kw str keywords with Some k => k | None => TkIdentifier end) str start s1, s1, [])
          else
            let '(lf, str, s1) := scan_illegal s in
            let t := mk IKIllegal str start s1 in
            let s2 := if lf then mkLst (chunk s1) (line s1 + 1)%Z (pos s1) (pos s1) else s1 in
            (t, s2, [LeIllegal]) in
      if c =? 59 then simple TkSepSemi 1 s start
      else if c =? 44 then simple TkSepComma 1 s start
      else if c =? 40 then simple TkSepLparen 1 s start
      else if c =? 41 then simple TkSepRparen 1 s start
      else if c =? 93 then simple TkSepRbrack 1 s start
      else if c =? 123 then simple TkSepLcurly 1 s start
      else if c =? 125 then simple TkSepRcurly 1 s start
      else if c =? 43 then simple TkOpAdd 1 s start
      else if c =? 45 then simple TkOpMinus 1 s start
      else if c =? 42 then simple TkOpMul 1 s start
      else if c =? 94 then simple TkOpPow 1 s start
      else if c =? 37 then simple TkOpMod 1 s start
      else if c =? 38 then simple TkOpBand 1 s start
      else if c =? 124 then simple TkOpBor 1 s start
      else if c =? 35 then simple TkOpNen 1 s start
      else if c =? 58 then if two 58 58 then simple TkSepLabel 2 s start else simple TkSepColon 1 s start
      else if c =? 47 then if two 47 47 then simple TkOpIdiv 2 s start else simple TkOpDiv 1 s start
      else if c =? 126 then if two 126 61 then simple TkOpNe 2 s start else simple TkOpWave 1 s start
      else if c =? 61 then if two 61 61 then simple TkOpEq 2 s start else simple TkOpAssign 1 s start
      else if c =? 60 then
        if two 60 60 then simple TkOpShl 2 s start
        else if two 60 61 then simple TkOpLe 2 s start else simple TkOpLt 1 s start
      else if c =? 62 then
        if two 62 62 then simple TkOpShr 2 s start
        else if two 62 61 then simple TkOpGe 2 s start else simple TkOpGt 1 s start
      else if c =? 46 then
        if test [46; 46; 46] ch then simple TkVararg 3 s start
        else if two 46 46 then simple TkOpConcat 2 s start
        else match rest with
             | [] => simple TkSepDot 1 s start
             | c1 :: _ => if negb (is_digit c1) then simple TkSepDot 1 s start else number_or_rest
             end
      else if c =? 91 then
        if two 91 91 || two 91 61 then
          let '(str, s1, es, ov) := scan_long_string s in
          (mk TkString str (match ov with Some p => p | None => start end) s1, s1, es)
        else simple TkSepLbrack 1 s start
      else if (c =? 39) || (c =? 34) then
        let '(str, s1, es, ov) := scan_short_string s in
        (mk TkString str (match ov with Some p => p | None => start end) s1, s1, es)
      else number_or_rest
    end.

  (* a lexed token with what was raised / collected while producing it *)
  Record ltok := mkLtok { lt : tok; lerrs : list lexerr; lcomments : list (Z * cinfo) }.

  Definition next_token (prev2 prev1 : option tok) (s : lst) : ltok * lst :=
    let '(s1, cms, es1) := skip_ws prev2 prev1 s in
    let '(t, s2, es2) := scan_token s1 in
    (mkLtok t (es1 ++ es2) cms, s2).

  Fixpoint lex_loop (fuel : nat) (prev2 prev1 : option tok) (s : lst) (acc : list ltok) : Res (list ltok) :=
    match fuel with
    | O => OutOfFuel
    | S f =>
      let '(lt1, s1) := next_token prev2 prev1 s in
      match tk (lt lt1) with
      | TkEOF => Ok (rev (lt1 :: acc))
      | _ => lex_loop f prev1 (Some (lt lt1)) s1 (lt1 :: acc)
      end
    end.

  (* SkipFirstLineComment *)
  Definition skip_first_line (bs : list N) : lst :=
    let bs1 := match bs with 239 :: 187 :: 191 :: t => t | _ => bs end in
    let s0 := mkLst bs1 1 0 0 in
    match bs1 with
    | 35 :: _ => let s1 := adv s0 1 in adv s1 (until_newline (chunk s1))
    | _ => s0
    end.

  Definition lex_all (bs : list N) : Res (list ltok) :=
    lex_loop (S (S (length bs))) None None (skip_first_line bs) [].
End WithOracle.

(* the code in /repo: repaired (fix d2887af). Every use of the lexer that does not name a variant means this one. *)
#[global] Instance fx_deployed : FxEscape := true.
