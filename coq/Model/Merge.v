(* Model of the order-sensitive merges (C09):
     results/third_result.go : JudgeShouldInsertGlobalInfo, InsertThirdGlobalGMaps, FindThirdGlobalGInfo
     check_third_file.go     : generateAllGlobalMaps (before fixes/C09-deterministic-order.diff files and, inside a
                               file, globals are visited in Go map order: the order is the explicit order of the
                               lists here; since the repair the files are visited in sorted name order: merge_ws true)
     common/dir_manager.go   : GetBestMatchReferFile's choice among candidates (Model/ModulePath.v: argmax_set = what any
                               sort consistent with the old Less can put first; first_max = a stable sort on an explicit
                               order; best_match true = the repaired Less, score then path)
     check_first_hanlde.go / check_third_file.go worker pools: results arrive in completion order and are stored in
                               maps keyed by file (collect)
     analysis_check_loc_var.go: one scope's unused-local diagnostics are produced while ranging over a map.
     check_second_project.go : project mode: generateAllFristGlobalGMaps / generateRequireFileGlobalGmaps (project_merge_ws),
                               handleOtherFileInsertSub (member_provider); check_lsp_define.go findMaxSecondProject
                               (pick_project); fx = true: fixes/C09-project-order.diff
   Assumption: no protocol-prefix configuration (ExtraGlobal.StrProPre = "" everywhere). *)
From Coq Require Import List NArith Bool.
From LH Require Import Base.Bytes Model.FileIndex Model.ModulePath.
Import ListNotations.
Local Open Scope N_scope.

(* the fields of common.VarInfo the merge looks at *)
Record gvar := mk_gvar {
  gv_file : list N;      (* FileName *)
  gv_funclv : N;         (* ExtraGlobal.FuncLv *)
  gv_scopelv : N;        (* ExtraGlobal.ScopeLv *)
  gv_line : N            (* Loc.StartLine *)
}.

(* the three comparisons of JudgeShouldInsertGlobalInfo all pass: the new one is at most as deep and strictly earlier *)
Definition beats (v old : gvar) : bool :=
  (gv_funclv v <=? gv_funclv old) && (gv_scopelv v <=? gv_scopelv old) && (gv_line v <? gv_line old).

(* JudgeShouldInsertGlobalInfo on the vector already stored for the name *)
Definition judge (vec : list gvar) (v : gvar) : bool :=
  forallb (fun old => beq_bytes (gv_file old) (gv_file v) || beats v old) vec.

Definition vec_step (vec : list gvar) (v : gvar) : list gvar :=
  if judge vec v then vec ++ [v] else vec.

Definition gtable := amap (list gvar).       (* GlobalVarMaps: name -> VarVec *)

(* one iteration of the inner loop of generateAllGlobalMaps *)
Definition merge_step (t : gtable) (it : list N * gvar) : gtable :=
  let (name, v) := it in
  match aget name t with
  | None => aset name [v] t                                        (* Judge: no list yet -> insert *)
  | Some vec => if judge vec v then aset name (vec ++ [v]) t else t
  end.

(* the globals of all files, flattened in visiting order *)
Definition merge (items : list (list N * gvar)) : gtable := fold_left merge_step items [].

Definition flatten (fs : list (list N * list (list N * gvar))) : list (list N * gvar) :=
  flat_map snd fs.
Definition merge_files (fs : list (list N * list (list N * gvar))) : gtable := merge (flatten fs).

(* ---- generateAllGlobalMaps as a whole: `for strFile := range third.AllIncludeFile` (the keys `files` in the order
        the iteration produced them), `fileStruct := a.fileStructMap[strFile]` (globals_of), `for strName, oneVar :=
        range fileResult.GlobalMaps` (the list globals_of strFile in the order that iteration produced).
        fx = false: the code before the repair: the files are visited in map order;
        fx = true : fixes/C09-deterministic-order.diff: the keys are collected and sorted (sort.Strings = bytewise
                    lexicographic) before they are visited ---- *)
Fixpoint insert_path (p : list N) (l : list (list N)) {struct l} : list (list N) :=
  match l with
  | [] => [p]
  | h :: t => if bytes_ltb h p then h :: insert_path p t else p :: l
  end.
Definition sort_paths (l : list (list N)) : list (list N) := fold_right insert_path [] l.

Definition visit_order (fx : bool) (files : list (list N)) : list (list N) :=
  if fx then sort_paths files else files.

Definition merge_ws (fx : bool) (globals_of : list N -> list (list N * gvar)) (files : list (list N)) : gtable :=
  merge (flat_map globals_of (visit_order fx files)).

(* the representation invariant of the inner Go map (GlobalMaps is keyed by the global's name): boolean *)
Fixpoint names_distinct (l : list (list N * gvar)) {struct l} : bool :=
  match l with
  | [] => true
  | it :: t => negb (existsb (fun o => beq_bytes (fst it) (fst o)) t) && names_distinct t
  end.
Definition map_shaped (globals_of : list N -> list (list N * gvar)) (files : list (list N)) : bool :=
  forallb (fun k => names_distinct (globals_of k)) files.

(* FindThirdGlobalGInfo(false, name, ""): the last element of the vector *)
Definition winner (t : gtable) (name : list N) : option gvar :=
  match aget name t with
  | Some vec => match vec with [] => None | _ => Some (last vec (mk_gvar [] 0 0 0)) end
  | None => None
  end.

(* ---- order-free description ---- *)
Definition gvar_eqb (a b : gvar) : bool :=
  beq_bytes (gv_file a) (gv_file b) && (gv_funclv a =? gv_funclv b) && (gv_scopelv a =? gv_scopelv b)
  && (gv_line a =? gv_line b).

Definition vars_of (name : list N) (items : list (list N * gvar)) : list gvar :=
  map snd (filter (fun it => beq_bytes (fst it) name) items).

(* x is the least owner: it beats the definition of every other file *)
Definition is_least (l : list gvar) (x : gvar) : bool :=
  forallb (fun w => gvar_eqb w x || beats x w) l.
Definition least_of (l : list gvar) : option gvar := find (is_least l) l.
(* nobody beats x *)
Definition is_minimal (l : list gvar) (x : gvar) : bool := forallb (fun w => negb (beats w x)) l.
Definition minimal_set (l : list gvar) : list gvar := filter (is_minimal l) l.

(* class predicates *)
Definition multi_owner (name : list N) (items : list (list N * gvar)) : bool :=
  match vars_of name items with _ :: _ :: _ => true | _ => false end.
Definition no_least (name : list N) (items : list (list N * gvar)) : bool :=
  match vars_of name items with
  | [] => false
  | l => match least_of l with Some _ => false | None => true end
  end.

(* ---- project mode (luahelper.json with ProjectFiles: one SingleProjectResult per entry file), check_second_project.go.
        The first-phase _G table of a project, results/single_project_result.go:
          InsertGlobalGMaps(name, v, CheckTermFirst)  appends v to FirstGlobalGMaps[name] unconditionally (there is
                                                      NO JudgeShouldInsertGlobalInfo here: this is not `merge`)
          FindGlobalGInfo(name, CheckTermFirst, "")   answers the LAST element of the vector (= `winner`)
        It is filled by checkOneProject in two loops over the project's file set second.AllFiles (a Go map):
          generateAllFristGlobalGMaps     every file's globals that carry GFlag (`_G.x = ...`): g_of
          generateRequireFileGlobalGmaps  for every file, for every entry of its ReferVec (a slice: source order) that
                                          is valid and not an import: the globals WITHOUT GFlag of the referenced file
                                          (plain_of) - a require'd file once per project (FirstRequireFileMap), a
                                          dofile'd one at every occurrence
        fx = false: both loops `range second.AllFiles` (map order = the explicit order of `files`);
        fx = true : fixes/C09-project-order.diff: both loops visit sortedFileList(second.AllFiles). ---- *)
Definition project_step (t : gtable) (it : list N * gvar) : gtable :=
  let (name, v) := it in
  match aget name t with
  | None => aset name [v] t
  | Some vec => aset name (vec ++ [v]) t
  end.
Definition project_merge (items : list (list N * gvar)) : gtable := fold_left project_step items [].

(* one ReferVec entry as far as InsertRequireInfoGlobalVars looks at it: true = require, false = dofile / loadfile;
   the file the reference resolves to (ReferValidStr) *)
Definition refer := (bool * list N)%type.
Definition mem_path (p : list N) (l : list (list N)) : bool := existsb (beq_bytes p) l.

(* state: FirstRequireFileMap (as the list of its keys) and the insertions made so far *)
Definition require_step (plain_of : list N -> list (list N * gvar))
    (st : list (list N) * list (list N * gvar)) (r : refer) : list (list N) * list (list N * gvar) :=
  let (seen, acc) := st in
  let (isreq, f) := r in
  if isreq then (if mem_path f seen then st else (f :: seen, acc ++ plain_of f))
  else (seen, acc ++ plain_of f).

Definition require_items (plain_of : list N -> list (list N * gvar)) (refers_of : list N -> list refer)
    (order : list (list N)) : list (list N * gvar) :=
  snd (fold_left (require_step plain_of) (flat_map refers_of order) ([], [])).

(* every insertion into FirstGlobalGMaps, in the order it is made *)
Definition project_items (fx : bool) (g_of plain_of : list N -> list (list N * gvar)) (refers_of : list N -> list refer)
    (files : list (list N)) : list (list N * gvar) :=
  flat_map g_of (visit_order fx files) ++ require_items plain_of refers_of (visit_order fx files).

Definition project_merge_ws (fx : bool) (g_of plain_of : list N -> list (list N * gvar))
    (refers_of : list N -> list refer) (files : list (list N)) : gtable :=
  project_merge (project_items fx g_of plain_of refers_of files).

(* handleOtherFileInsertSub (third loop over second.AllFiles, after the table is complete): a member `T.x` that files
   add to a global they do not define (NodefineMaps[T].SubMaps[x]) and that the global's own definition lacks is taken
   from the FIRST file visited that adds it (IsExistMember guards InsertSubMember). adds f key: file f adds the member
   `key` (= global name and member name). The same shape as the second loop of generateAllGlobalMaps. *)
Definition member_provider (fx : bool) (adds : list N -> list N -> bool) (files : list (list N)) (key : list N)
    : option (list N) :=
  find (fun f => adds f key) (visit_order fx files).

(* findMaxSecondProject (check_lsp_define.go): a file that belongs to several projects is answered from the project
   with the most files; `ps` = (entry file, number of files) of the projects that contain the file, in the order
   `range a.analysisSecondMap` hands them out. State: the entry chosen so far and maxFileNum (initially none, 0).
   fx = false: taken iff strictly more files (among equally large projects the first visited stays);
   fx = true : fixes/C09-project-order.diff: ... or equally many files and a smaller entry name. *)
Definition pick_step (fx : bool) (st : option (list N) * N) (c : list N * N) : option (list N) * N :=
  let (best, mx) := st in
  let (e, n) := c in
  if (mx <? n) || (fx && (n =? mx) && match best with Some b => bytes_ltb e b | None => false end)
  then (Some e, n) else st.
Definition pick_project (fx : bool) (ps : list (list N * N)) : option (list N) :=
  fst (fold_left (pick_step fx) ps (None, 0)).

(* ---- worker pools: results arrive in completion order and are stored under the file's key ---- *)
Definition collect {R} (arrivals : list (list N * R)) : amap R :=
  fold_left (fun m a => aset (fst a) (snd a) m) arrivals [].

(* ---- one scope's unused-local diagnostics, produced while ranging over LocVarMap ---- *)
Section ScopeErrors.
  Variable var : Type.
  Variable err : Type.
  Variable errs_of : list N -> var -> list err.     (* the diagnostics one variable of that name yields (maybe none) *)
  Definition scope_errors (loc_var_map : list (list N * list var)) : list err :=
    flat_map (fun e => flat_map (errs_of (fst e)) (snd e)) loc_var_map.
End ScopeErrors.
