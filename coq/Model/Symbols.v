(* C19 - model of the symbol collection of LuaHelper.

   Pipeline: file bytes -> LuaFront.parse_bytes -> first-pass analysis (analysis_stat.go / analysis_exp.go, as far as
   the symbol tables observe it: scopes with their local lists, the per-file global map, member maps "SubMaps",
   function infos) -> textDocument/documentSymbol (file_result.go:FindAllSymbol, scope_info.go:FindAllLocalVal,
   var_info.go:FindAllVar, textdocument_symbol.go:transferSymbolVec) and workspace/symbol
   (check_lsp_symbol.go:getQuerySymbols; the fuzzy matcher is an oracle `score`).

   `fx : fixes` selects which repairs of the outline code are in effect, one flag per fix: commit (fx_none = the code
   before any repair: start column overwritten by the largest child end column, ...; fx_all = every repair). *)
From Coq Require Import List NArith ZArith Bool.
From LH Require Import Base.Bytes Base.Res Model.Lexer Model.Ast Model.Parser Model.LuaFront.
Import ListNotations.

(* ------------------------------------------------------------------ locations (lexer/common.go) *)
Definition loc_before (a b : loc) : bool :=                 (* a.IsBeforeLoc(b) *)
  (sl a <? sl b)%Z || ((sl a =? sl b)%Z && (sc a <=? sc b)%Z).

Definition loc_contains (a b : loc) : bool :=               (* a.IsContainLoc(b) *)
  if (sl a >? sl b)%Z || (el a <? el b)%Z then false
  else if (sl a =? sl b)%Z && (sc a >? sc b)%Z then false
  else if (el a =? el b)%Z && (ec a <? ec b)%Z then false
  else true.

Definition loc_initial (a : loc) : bool :=
  (sl a =? 0)%Z && (sc a =? 0)%Z && (el a =? 0)%Z && (ec a =? 0)%Z.

(* ------------------------------------------------------------------ small string helpers *)
Definition c_bang : N := 33.  Definition c_hash : N := 35.  Definition c_dot : N := 46.
Definition has_char (c : N) (s : bytes) : bool := existsb (N.eqb c) s.

(* common.JudgeSimpleStr *)
Definition simple_str (s : bytes) : bool := negb (has_char c_bang s || has_char c_hash s || has_char c_dot s).

(* strings.Split(s, ".") *)
Fixpoint split_dot_aux (s : bytes) (cur : bytes) : list bytes :=
  match s with
  | [] => [rev cur]
  | c :: s' => if N.eqb c c_dot then rev cur :: split_dot_aux s' [] else split_dot_aux s' (c :: cur)
  end.
Definition split_dot (s : bytes) : list bytes := split_dot_aux s [].

Definition trim_bang (s : bytes) : bytes :=                 (* strings.TrimPrefix(s, "!") *)
  match s with c :: s' => if N.eqb c c_bang then s' else s | [] => [] end.

Definition s_G : bytes := [95; 71]%N.                        (* _G *)
Definition s_self : bytes := [115; 101; 108; 102]%N.         (* self *)

(* common.GetExpName *)
Fixpoint exp_name (e : exp) : bytes :=
  match e with
  | ENil _ => [35;110;105;108]%N                                        (* #nil *)
  | EFalse _ => [35;102;108;97;115;101]%N                               (* #flase *)
  | ETrue _ => [35;116;114;117;101]%N                                   (* #true *)
  | EInt _ _ => [35;105;110;116]%N                                      (* #int *)
  | EFloat _ _ => [35;102;108;111;97;116]%N                             (* #float *)
  | EStr s _ => s
  | EParens e1 _ => exp_name e1
  | EVararg _ => [35;118;97;114;97;114;103]%N                           (* #vararg *)
  | EName n _ => c_bang :: n
  | EFunc _ _ _ _ _ _ _ _ => [35;101;114;114;114;111;114]%N             (* #errror *)
  | ETable _ _ _ => [35;116;97;98;108;101]%N                            (* #table *)
  | EUnop _ _ _ => [35;97;115;116;85;110;111;112;69;120;112]%N          (* #astUnopExp *)
  | EBinop _ _ _ _ => [35;97;115;116;66;105;110;111;112;69;120;112]%N   (* #astBinopExp *)
  | EIndex p k _ => exp_name p ++ [c_dot] ++ exp_name k
  | ECall _ _ _ _ => [35;102;117;110;99;97;108;108]%N                   (* #funcall *)
  | EBad _ => [35;111;116;104;101;114]%N                                (* #other *)
  end.

(* common.GetExpLoc (NilExp is not in its switch: zero Location) *)
Definition exp_loc (e : exp) : loc :=
  match e with
  | ENil _ | EBad _ => zero_loc
  | ETrue l | EFalse l | EVararg l | EInt _ l | EFloat _ l | EStr _ l | EUnop _ _ l | EBinop _ _ _ l | ETable _ _ l
  | EFunc _ _ _ _ _ l _ _ | EName _ l | EParens _ l | EIndex _ _ l | ECall _ _ _ l => l
  end.

(* common.GetTableLocList *)
Fixpoint table_loc_list (e : exp) : list loc :=
  match e with
  | EStr _ l => [l]
  | EName _ l => [l]
  | EParens e1 _ => table_loc_list e1
  | EIndex p k _ => table_loc_list p ++ table_loc_list k
  | _ => [zero_loc]
  end.

Definition is_func (e : exp) : bool := match e with EFunc _ _ _ _ _ _ _ _ => true | _ => false end.
Definition is_call (e : exp) : bool := match e with ECall _ _ _ _ => true | _ => false end.
Definition is_or (k : tkind) : bool := match k with TkOpOr => true | _ => false end.
Definition nil_or_empty_table (e : exp) : bool :=
  match e with ENil _ => true | ETable [] [] _ => true | _ => false end.

(* ------------------------------------------------------------------ symbol tables *)
(* what IsCorrectPosition / IsReferExpEmpty look at in VarInfo.ReferExp *)
Inductive refk :=
| RkNone                       (* nil interface *)
| RkNil | RkEmptyTable
| RkFunc (l : loc) | RkName (l : loc) | RkCall (l : loc)
| RkOrEmpty (n : bytes)        (* e1 or nil / e1 or {} ; n = GetExpName e1 *)
| RkOther.

Definition refk_of (e : exp) : refk :=
  match e with
  | ENil _ => RkNil
  | ETable [] [] _ => RkEmptyTable
  | EFunc _ _ _ _ _ l _ _ => RkFunc l
  | EName _ l => RkName l
  | ECall _ _ _ l => RkCall l
  | EBinop op e1 e2 _ => if is_or op && nil_or_empty_table e2 then RkOrEmpty (exp_name e1) else RkOther
  | _ => RkOther
  end.

Record finfo := mkF { f_id : N; f_loc : loc; f_params : list bytes; f_colon : bool }.   (* common.FuncInfo *)
Record ginfo := mkG { g_flv : N; g_slv : N; g_flag : bool }.                          (* common.ExtraGlobal *)

Inductive vinfo :=                                                                       (* common.VarInfo *)
| VI (vloc : loc) (vfunc : option finfo) (vsub : list (bytes * vinfo)) (vparam : bool) (vglob : option ginfo)
     (vref : refk) (vempty : bool).

Definition v_loc (v : vinfo) := match v with VI l _ _ _ _ _ _ => l end.
Definition v_func (v : vinfo) := match v with VI _ f _ _ _ _ _ => f end.
Definition v_sub (v : vinfo) := match v with VI _ _ s _ _ _ _ => s end.
Definition v_param (v : vinfo) := match v with VI _ _ _ p _ _ _ => p end.
Definition v_glob (v : vinfo) := match v with VI _ _ _ _ g _ _ => g end.
Definition v_ref (v : vinfo) := match v with VI _ _ _ _ _ r _ => r end.
Definition v_empty (v : vinfo) := match v with VI _ _ _ _ _ _ e => e end.
Definition set_sub (v : vinfo) (s : list (bytes * vinfo)) := match v with VI l f _ p g r e => VI l f s p g r e end.

(* common.ScopeInfo: sfid = id of the function whose MainScope this is; svars = LocVarMap (keys in first-insertion
   order, values = VarVec); ssubs = SubScopes *)
Inductive scope := Scope (sfid : option N) (svars : list (bytes * list vinfo)) (ssubs : list scope).
Definition s_fid (s : scope) := match s with Scope f _ _ => f end.
Definition s_vars (s : scope) := match s with Scope _ v _ => v end.
Definition s_subs (s : scope) := match s with Scope _ _ b => b end.

(* env = the chain curScope :: Parent :: ... ; globs = FileResult.GlobalMaps (latest VarInfo per name: the Prev chain
   is invisible to both symbol requests and FindGlobalLimitVar never walks past the head when gFlag = false);
   nodefs = FileResult.NodefineMaps (names read or indexed before any definition: their members are merged into
   the workspace's global of that name after the first pass, see merge_ws) *)
Record state := mkSt { env : list scope; globs : list (bytes * vinfo); nodefs : list (bytes * vinfo); nextf : N }.

Fixpoint assoc_get {A} (k : bytes) (l : list (bytes * A)) : option A :=
  match l with
  | [] => None
  | (k', a) :: l' => if beq_bytes k k' then Some a else assoc_get k l'
  end.

Fixpoint assoc_set {A} (k : bytes) (a : A) (l : list (bytes * A)) : list (bytes * A) :=
  match l with
  | [] => [(k, a)]
  | (k', a') :: l' => if beq_bytes k k' then (k', a) :: l' else (k', a') :: assoc_set k a l'
  end.

Definition assoc_mem {A} (k : bytes) (l : list (bytes * A)) : bool :=
  match assoc_get k l with Some _ => true | None => false end.

(* ScopeInfo.AddLocVar on the current scope *)
Definition add_var_scope (nm : bytes) (v : vinfo) (s : scope) : scope :=
  match s with Scope f vars subs =>
    Scope f (assoc_set nm (match assoc_get nm vars with Some vs => vs ++ [v] | None => [v] end) vars) subs
  end.

Definition add_loc_var (nm : bytes) (v : vinfo) (s : state) : state :=
  match env s with
  | fr :: rest => mkSt (add_var_scope nm v fr :: rest) (globs s) (nodefs s) (nextf s)
  | [] => s
  end.

(* VarInfo.IsCorrectPosition *)
Definition correct_position (v : vinfo) (l : loc) : bool :=
  if negb (loc_before (v_loc v) l) then false else
  match v_ref v with
  | RkFunc fl => if loc_contains fl (v_loc v) then true else negb (loc_contains fl l)
  | RkName nl => negb (loc_contains nl l)
  | RkCall cl => negb (loc_contains cl l)
  | _ => true
  end.

(* the reverse scan of VarVec: index and value of the last element in a correct position *)
Fixpoint last_match (vs : list vinfo) (l : loc) (i : nat) (acc : option (nat * vinfo)) : option (nat * vinfo) :=
  match vs with
  | [] => acc
  | v :: vs' => last_match vs' l (S i) (if correct_position v l then Some (i, v) else acc)
  end.

(* ScopeInfo.FindLocVar: (frame depth, index in VarVec, VarInfo) *)
Fixpoint find_loc_var (e : list scope) (nm : bytes) (l : loc) (d : nat) : option (nat * nat * vinfo) :=
  match e with
  | [] => None
  | fr :: e' =>
    match assoc_get nm (s_vars fr) with
    | Some vs => match last_match vs l 0 None with
                 | Some (i, v) => Some (d, i, v)
                 | None => find_loc_var e' nm l (S d)
                 end
    | None => find_loc_var e' nm l (S d)
    end
  end.

(* FileResult.FindGlobalLimitVar(name, funcLv, scopeLv, loc, "", false) *)
Definition find_global (nm : bytes) (flv slv : N) (l : loc) (g : list (bytes * vinfo)) : option vinfo :=
  match assoc_get nm g with
  | None => None
  | Some v =>
    match v_glob v with
    | None => None
    | Some gi =>
      if (flv <? g_flv gi)%N then None else if (g_flv gi <? flv)%N then Some v
      else if (slv <? g_slv gi)%N then None else if (g_slv gi <? slv)%N then Some v
      else if (sl (v_loc v) >? sl l)%Z then None else if (sl (v_loc v) <? sl l)%Z then Some v
      else if (sc (v_loc v) >? sc l)%Z then None else Some v
    end
  end.

Fixpoint upd_nth {A} (i : nat) (f : A -> A) (l : list A) : list A :=
  match l, i with
  | [], _ => []
  | a :: l', O => f a :: l'
  | a :: l', S i' => a :: upd_nth i' f l'
  end.

Inductive varref := VRloc (d : nat) (nm : bytes) (i : nat) | VRglob (nm : bytes) | VRnodef (nm : bytes).

Definition update_var (r : varref) (f : vinfo -> vinfo) (s : state) : state :=
  match r with
  | VRloc d nm i =>
    mkSt (upd_nth d (fun fr => match fr with Scope fid vars subs =>
                                 Scope fid (match assoc_get nm vars with
                                            | Some vs => assoc_set nm (upd_nth i f vs) vars
                                            | None => vars end) subs end) (env s))
         (globs s) (nodefs s) (nextf s)
  | VRglob nm =>
    mkSt (env s) (match assoc_get nm (globs s) with Some v => assoc_set nm (f v) (globs s) | None => globs s end)
         (nodefs s) (nextf s)
  | VRnodef nm =>
    mkSt (env s) (globs s)
         (match assoc_get nm (nodefs s) with Some v => assoc_set nm (f v) (nodefs s) | None => nodefs s end) (nextf s)
  end.

(* analysisNoDefineName (cgNameExp, first pass): a name that is read while it is neither a visible local, nor a
   global of the file (any level), nor already recorded *)
Definition note_nodefine (nm : bytes) (l : loc) (s : state) : state :=
  match find_loc_var (env s) nm l 0 with
  | Some _ => s
  | None =>
    if assoc_mem nm (globs s) || assoc_mem nm (nodefs s) then s
    else mkSt (env s) (globs s) (nodefs s ++ [(nm, VI l None [] false None RkNone false)]) (nextf s)
  end.

(* cgTableAccessExp, first pass: `_G.name` / `_G["name"]` is a use of the global `name` (analysisNoDefineStr) *)
Definition note_G (p k : exp) (s : state) : state :=
  match p, k with
  | EName n _, EStr str l => if beq_bytes n s_G && negb (beq_bytes str [32%N]) then note_nodefine str l s else s
  | _, _ => s
  end.

(* GetExpSubKey(s) <> "" *)
Definition count_dots (s : bytes) : nat := length (filter (N.eqb c_dot) s).
Definition sub_key_nonempty (s : bytes) : bool :=
  if has_char c_hash s then false else
  match split_dot s with
  | [one] => match one with c :: r => N.eqb c c_bang && negb (match r with [] => true | _ => false end) | [] => false end
  | [one; two] => beq_bytes one (c_bang :: s_G) && negb (match two with [] => true | _ => false end)
  | _ => false
  end.

(* common.IsReferExpEmpty(left, right, false) *)
Definition ref_empty_assign (left : exp) (right : exp) : bool :=
  let ls := exp_name left in
  if negb (sub_key_nonempty ls) then false else
  match right with
  | ENil _ => true
  | ETable [] [] _ => true
  | EBinop op e1 e2 _ => is_or op && beq_bytes ls (exp_name e1) && nil_or_empty_table e2
  | _ => false
  end.

(* common.GetSimpleValue *)
Definition simple_value (s : bytes) : bytes :=
  match s with
  | c :: r => if negb (N.eqb c c_bang) then [] else
              match r with [] => [] | _ => if beq_bytes r s_G then [] else if simple_str r then r else [] end
  | [] => []
  end.

(* common.IsLocalReferExpEmpty(name, right) *)
Definition local_ref_empty (nm : bytes) (right : exp) : bool :=
  match right with
  | ENil _ => true
  | ETable [] [] _ => true
  | EBinop op e1 e2 _ => is_or op && beq_bytes (simple_value (exp_name e1)) nm && nil_or_empty_table e2
  | _ => false
  end.

(* common.IsReferExpEmpty(newValue, member.ReferExp, true) *)
Definition ref_empty_member (newval : exp) (old : refk) : bool :=
  match old with
  | RkNil | RkEmptyTable => true
  | RkOrEmpty n => beq_bytes (exp_name newval) n
  | _ => false
  end.

(* what handleNotNeedDefine binds to a newly created last member *)
Record newmem := mkNM { nm_func : option finfo; nm_sub : list (bytes * vinfo); nm_exp : option exp }.

(* analysis_stat.go:handleNotNeedDefine, keys = strVec[j..] *)
Fixpoint member_assign (keys : list bytes) (j : nat) (locl : list loc) (l : loc) (nw : newmem) (v : vinfo)
  {struct keys} : vinfo :=
  match keys with
  | [] => v
  | k :: rest =>
    match v with VI vl vf vs vp vg vr ve =>
      match assoc_get k vs with
      | Some sv =>
        let sv1 :=
          match rest, nm_exp nw with
          | [], Some e =>
            match sv with VI l1 f1 s1 p1 g1 r1 _ =>
              if ref_empty_member e r1
              then VI l1 (match nm_func nw with Some fi => if f_colon fi then Some fi else f1 | None => f1 end)
                      s1 p1 g1 (refk_of e) false
              else sv
            end
          | _, _ => sv
          end in
        VI vl vf (assoc_set k (member_assign rest (S j) locl l nw sv1) vs) vp vg vr ve
      | None =>
        let subloc := nth j locl l in
        match rest with
        | [] =>
          VI vl vf (vs ++ [(k, VI subloc (nm_func nw) (nm_sub nw) false None
                                (match nm_exp nw with Some e => refk_of e | None => RkNone end) false)]) vp vg vr ve
        | _ =>
          VI vl vf (vs ++ [(k, member_assign rest (S j) locl l nw (VI subloc None [] false None RkNone false))])
             vp vg vr ve
        end
      end
    end
  end.

(* fixes/C19-member-of-deeper-global.diff (checkLeftAssign; ONE-LINE SWITCH, false = the code before the repair):
   `function init() Cfg = {} end  function Cfg.load() end` - the member definition sits at an outer level than the
   definition of the global, FindGlobalLimitVar fails, and the member was recorded nowhere *)
Definition deep_global_fix : bool := true.

Definition pvar := option (list (bytes * vinfo)).      (* parentVar of cgExp: None = nil, Some m = its SubMaps *)
Definition sub_of (p : pvar) : list (bytes * vinfo) := match p with Some m => m | None => [] end.

Definition push_scope (fid : option N) (vars : list (bytes * list vinfo)) (s : state) : state :=
  mkSt (Scope fid vars [] :: env s) (globs s) (nodefs s) (nextf s).

(* leave the current scope: it becomes the next entry of the parent's SubScopes (Go appends at creation; a scope's
   own analysis never adds siblings, so the order of SubScopes is the same) *)
Definition pop_scope (s : state) : Res state :=
  match env s with
  | fr :: Scope fid vars subs :: rest => Ok (mkSt (Scope fid vars (subs ++ [fr]) :: rest) (globs s) (nodefs s) (nextf s))
  | _ => Fault NilDeref
  end.

Fixpoint iter_res {A S : Type} (f : A -> S -> Res S) (l : list A) (s : S) : Res S :=
  match l with
  | [] => Ok s
  | a :: l' => do s1 <- f a s ; iter_res f l' s1
  end.

Definition r3 := (state * option finfo * pvar)%type.
Definition drop3 (r : Res r3) : Res state :=
  match r with Ok (s, _, _) => Ok s | Fault k => Fault k | OutOfFuel => OutOfFuel end.

Section Stat.
  Variable ce : exp -> pvar -> state -> Res r3.      (* cgExp at the current function / scope level *)
  Variable flv slv : N.                               (* FuncLv of curFunc, its current ScopeLv *)

  Definition ce_nil (e : exp) (s : state) : Res state := drop3 (ce e None s).

  (* cgTableConstructorExp *)
  Fixpoint cg_table (ks : list (option exp)) (vs : list exp) (pv : pvar) (s : state) : Res (state * pvar) :=
    match ks, vs with
    | k :: ks', v :: vs' =>
      match k with
      | None => do s1 <- ce_nil v s ; cg_table ks' vs' pv s1
      | Some ke =>
        let mk := match pv, ke with
                  | Some _, EStr str l => match str with [] => None | _ => Some (str, l) end
                  | _, _ => None
                  end in
        do s1 <- ce_nil ke s ;
        do (s2, ofn, sub) <- ce v (match mk with Some _ => Some [] | None => None end) s1 ;
        let pv' := match mk, pv with
                   | Some (str, l), Some m =>
                     if assoc_mem str m then pv
                     else Some (m ++ [(str, VI l ofn (sub_of sub) false None (refk_of v) false)])
                   | _, _ => pv
                   end in
        cg_table ks' vs' pv' s2
      end
    | _, _ => Ok (s, pv)
    end.

  (* first loop of cgLocalVarDeclStat (since fixes/C07-multi-local-order.diff in two steps, as Lua evaluates a local
     statement): local_eval analyses ALL the expressions (those beyond the names too: fixes/C20-local-surplus.diff) and keeps
     what the second step needs (the FuncInfo of a function literal, the members of a table literal); local_adds then
     adds the names; returns the names without a value and lastExpFuncFlag.  Before the repair name i was added right
     after expression i, so a later expression saw the earlier names of the statement. *)
  Fixpoint local_eval (names : list bytes) (locs : list loc) (es : list exp) (s : state) {struct es}
    : Res (state * list (option finfo * pvar)) :=
    match es with
    | [] => Ok (s, [])
    | e :: es' =>
      do (s1, ofn, sub) <- ce e (Some []) s ;
      match names, locs with
      | _ :: names', _ :: locs' => do (s2, rs) <- local_eval names' locs' es' s1 ; Ok (s2, (ofn, sub) :: rs)
      | _, _ => do (s2, _) <- local_eval [] [] es' s1 ; Ok (s2, [])   (* i >= nNames: continue (fixes/C20-local-surplus.diff;
                                                                         before: break, the later values were never analysed) *)
      end
    end.

  Fixpoint local_adds (names : list bytes) (locs : list loc) (es : list exp)
           (rs : list (option finfo * pvar)) (s : state) {struct es}
    : state * list bytes * list loc * bool :=
    match es with
    | [] => (s, names, locs, false)
    | e :: es' =>
      match rs, names, locs with
      | (ofn, sub) :: rs', nm :: names', l :: locs' =>
        let v := VI l (if is_func e then ofn else None) (sub_of sub) false None (refk_of e) (local_ref_empty nm e) in
        match local_adds names' locs' es' rs' (add_loc_var nm v s) with
        | (s3, rn, rl, flag) => (s3, rn, rl, match es' with [] => is_call e | _ => flag end)
        end
      | _, _, _ => (s, [], [], false)
      end
    end.

  Definition local_loop (names : list bytes) (locs : list loc) (es : list exp) (s : state)
    : Res (state * list bytes * list loc * bool) :=
    do (s1, rs) <- local_eval names locs es s ; Ok (local_adds names locs es rs s1).

  Fixpoint add_plain_locals (names : list bytes) (locs : list loc) (r : refk) (em : bool) (s : state) : state :=
    match names, locs with
    | nm :: names', l :: locs' => add_plain_locals names' locs' r em (add_loc_var nm (VI l None [] false None r em) s)
    | _, _ => s
    end.

  Definition cg_local (names : list bytes) (locs : list loc) (es : list exp) (s : state) : Res state :=
    do (s1, rn, rl, flag) <- local_loop names locs es s ;
    let r := if flag then match last es (ENil zero_loc) with ECall _ _ _ l => RkCall l | _ => RkOther end else RkNone in
    Ok (add_plain_locals rn rl r (negb flag) s1).

  (* checkLeftAssign + the body of the loop of cgAssignStat for one target; oe = the value expression at the same
     index (already analysed: ofn = its FuncInfo if it is a function literal, sub = the members of a table literal) *)
  Definition assign_one (t : exp) (oe : option exp) (ofn : option finfo) (sub : list (bytes * vinfo))
             (lastcall : option loc) (s : state) : Res state :=
    let newref := match oe with Some e => refk_of e
                           | None => match lastcall with Some l => RkCall l | None => RkNone end end in
    (* the branch "findVar.IsExpEmpty && strVecLen == 0 && no members" *)
    let refill (r : varref) (v : vinfo) (s : state) : state :=
      if v_empty v && (match v_sub v with [] => true | _ => false end) then
        update_var r (fun v0 => match v0 with VI l f _ p g r0 _ =>
                        VI l f sub p g (match oe with Some e => refk_of e | None => r0 end)
                           (match oe with Some e => ref_empty_assign t e | None => false end) end) s
      else s in
    match t with
    | EName nm l =>
      match find_loc_var (env s) nm l 0 with
      | Some (d, i, v) => Ok (refill (VRloc d nm i) v s)
      | None =>
        match find_global nm flv slv l (globs s) with
        | Some v => Ok (refill (VRglob nm) v s)
        | None =>
          let v := VI l ofn sub false (Some (mkG flv slv false)) newref
                      (match oe with Some e => ref_empty_assign t e | None => false end) in
          Ok (mkSt (env s) (assoc_set nm v (globs s)) (nodefs s) (nextf s))
        end
      end
    | EIndex p k tl =>
      do s1 <- ce_nil p s ;
      do s2 <- ce_nil k s1 ;
      let key := exp_name k in
      if negb (simple_str key) then Ok s2 else
      let l := if loc_initial (exp_loc k) then tl else exp_loc k in
      if beq_bytes (exp_name p) (c_bang :: s_G) then
        (* `_G.key = v` (tabName == "!_G"): the global `key` with GFlag set; no local is looked up *)
        match find_global key flv slv l (globs s2) with
        | Some v => Ok (refill (VRglob key) v s2)
        | None =>
          let v := VI l ofn sub false (Some (mkG flv slv true)) newref
                      (match oe with Some e => ref_empty_assign t e | None => false end) in
          Ok (mkSt (env s2) (assoc_set key v (globs s2)) (nodefs s2) (nextf s2))
        end
      else
      match split_dot (exp_name p) with
      | [] => Ok s2
      | p0 :: ps =>
        if negb (forallb simple_str ps) then Ok s2 else
        let nw := mkNM ofn sub oe in
        (* the variable that receives the member when neither a local nor a visible global is found: NodefineMaps[base]
           if any; repaired (fixes/C19-member-of-deeper-global.diff): otherwise the file's global of that name, which
           was then defined at a deeper function / block level *)
        let fallback (base : bytes) : varref :=
          if deep_global_fix && negb (assoc_mem base (nodefs s2)) then VRglob base else VRnodef base in
        match (if beq_bytes (trim_bang p0) s_G then ps else []) with
        | g0 :: gs =>
          (* `_G.g0.gs....key = v`: member of the global g0; no local is looked up; locList = locList[1:] *)
          let f := member_assign (gs ++ [key]) 1 (List.tl (table_loc_list t)) l nw in
          match find_global g0 flv slv l (globs s2) with
          | Some _ => Ok (update_var (VRglob g0) f s2)
          | None => Ok (update_var (fallback g0) f s2)
          end
        | [] =>
          let base := trim_bang p0 in
          let f := member_assign (ps ++ [key]) 1 (table_loc_list t) l nw in
          match find_loc_var (env s2) base l 0 with
          | Some (d, i, _) => Ok (update_var (VRloc d base i) f s2)
          | None =>
            match find_global base flv slv l (globs s2) with
            | Some _ => Ok (update_var (VRglob base) f s2)
            | None => Ok (update_var (fallback base) f s2)
            end
          end
        end
      end
    | _ => Ok s
    end.

  Fixpoint assign_loop (i : nat) (vars : list exp) (es : list exp) (lastcall : option loc) (s : state) : Res state :=
    match vars with
    | [] => Ok s
    | t :: vars' =>
      let oe := nth_error es i in
      do (s1, ofn, sub) <- match oe with Some e => ce e (Some []) s | None => Ok (s, None, Some []) end ;
      do s2 <- assign_one t oe ofn (sub_of sub) lastcall s1 ;
      assign_loop (S i) vars' es lastcall s2
    end.

  Definition cg_assign (vars es : list exp) (s : state) : Res state :=
    let lastcall := match last es (ENil zero_loc) with ECall _ _ _ l => Some l | _ => None end in
    do s1 <- assign_loop 0 vars es lastcall s ;
    iter_res ce_nil (skipn (length vars) es) s1.
End Stat.

Definition scoped (f : state -> Res state) (s : state) : Res state :=
  do s1 <- f (push_scope None [] s) ; pop_scope s1.

Fixpoint param_vars (pars : list bytes) (plocs : list loc) (acc : scope) : scope :=
  match pars, plocs with
  | p :: pars', l :: plocs' => param_vars pars' plocs' (add_var_scope p (VI l None [] true None RkNone false) acc)
  | _, _ => acc
  end.

Fixpoint cg_exp (n : nat) (flv slv : N) (e : exp) (pv : pvar) (s : state) {struct n} : Res r3 :=
  match n with
  | O => OutOfFuel
  | S n' =>
    let nil1 := fun e1 s1 => drop3 (cg_exp n' flv slv e1 None s1) in
    match e with
    | EParens e1 _ => do (s1, _, pv1) <- cg_exp n' flv slv e1 pv s ; Ok (s1, None, pv1)
    | EFunc _ _ _ _ _ _ _ _ => do (s1, fi) <- cg_func n' flv e s ; Ok (s1, Some fi, pv)
    | ETable ks vs _ => do (s1, pv1) <- cg_table (cg_exp n' flv slv) ks vs pv s ; Ok (s1, None, pv1)
    | EUnop _ e1 _ => do s1 <- nil1 e1 s ; Ok (s1, None, pv)
    | EBinop _ e1 e2 _ =>
      do (s1, _, pv1) <- cg_exp n' flv slv e1 pv s ;
      do (s2, _, pv2) <- cg_exp n' flv slv e2 pv1 s1 ;
      Ok (s2, None, pv2)
    | EIndex p k _ => do s1 <- nil1 p s ; do s2 <- nil1 k s1 ; Ok (note_G p k s2, None, pv)
    | ECall p _ args _ => do s1 <- nil1 p s ; do s2 <- iter_res nil1 args s1 ; Ok (s2, None, pv)
    | EName nm l => Ok (note_nodefine nm l s, None, pv)
    | _ => Ok (s, None, pv)
    end
  end

(* cgFuncDefExp *)
with cg_func (n : nat) (flv : N) (e : exp) (s : state) {struct n} : Res (state * finfo) :=
  match n with
  | O => OutOfFuel
  | S n' =>
    match e with
    | EFunc _ _ pars plocs b l _ colon =>
      if negb (Nat.eqb (length pars) (length plocs)) then Fault IndexRange else
      let fid := nextf s in
      let fr := param_vars pars plocs (Scope (Some fid) [] []) in
      let s0 := mkSt (fr :: env s) (globs s) (nodefs s) (N.succ fid) in
      do s1 <- cg_block n' (N.succ flv) 0%N b s0 ;
      do s2 <- pop_scope s1 ;
      Ok (s2, mkF fid l pars colon)
    | _ => Fault TypeAssert
    end
  end

with cg_stat (n : nat) (flv slv : N) (st : stat) (s : state) {struct n} : Res state :=
  match n with
  | O => OutOfFuel
  | S n' =>
    let ce := cg_exp n' flv slv in
    let nil0 := fun e1 s1 => drop3 (cg_exp n' flv slv e1 None s1) in
    let ce1 := cg_exp n' flv (N.succ slv) in
    let nil1 := fun e1 s1 => drop3 (cg_exp n' flv (N.succ slv) e1 None s1) in
    let blk1 := cg_block n' flv (N.succ slv) in
    match st with
    | SBreak | SLabel _ _ | SGoto _ _ => Ok s
    | SDo b _ => scoped (blk1 b) s
    | SCall e => nil0 e s
    | SIf es bs _ =>
      iter_res (fun eb s0 => do s1 <- nil0 (fst eb) s0 ; scoped (blk1 (snd eb)) s1) (combine es bs) s
    | SWhile e b _ => do s1 <- nil0 e s ; scoped (blk1 b) s1
    | SRepeat b e _ => scoped (fun s0 => do s1 <- blk1 b s0 ; nil1 e s1) s
    | SForNum nm vl e1 e2 e3 b _ =>
      scoped (fun s0 => do s1 <- nil1 e1 s0 ; do s2 <- nil1 e2 s1 ; do s3 <- nil1 e3 s2 ;   (* init, limit, step *)
                        blk1 b (add_loc_var nm (VI vl None [] false None RkNone false) s3)) s
    | SForIn nms ls es b _ =>
      scoped (fun s0 => do s1 <- iter_res nil1 es s0 ;
                        blk1 b (add_plain_locals nms ls RkNone false s1)) s
    | SLocalFunc nm nl f _ =>
      match f with
      | EFunc _ _ pars _ _ fl _ colon =>
        (* Go sets ReferFunc after the body; nothing in the first pass reads it before, and the FuncInfo is fully
           determined before the body is analysed *)
        let v := VI nl (Some (mkF (nextf s) fl pars colon)) [] false None (RkFunc fl) false in
        do (s1, _) <- cg_func n' flv f (add_loc_var nm v s) ; Ok s1
      | _ => Fault TypeAssert
      end
    | SLocal nms ls _ es _ => cg_local ce nms ls es s
    | SAssign vars es _ => cg_assign ce flv slv vars es s
    end
  end

with cg_block (n : nat) (flv slv : N) (b : block) (s : state) {struct n} : Res state :=
  match n with
  | O => OutOfFuel
  | S n' =>
    match b with
    | Block stats ret _ =>
      do s1 <- iter_res (cg_stat n' flv slv) stats s ;
      match ret with
      | None => Ok s1
      | Some es => iter_res (fun e1 s0 => drop3 (cg_exp n' flv slv e1 None s0)) es s1
      end
    end
  end.

Definition init_state : state := mkSt [Scope None [] []] [] [] 0%N.

(* HandleFirstTraverseAST *)
Definition analyse (fuel : nat) (b : block) : Res state := cg_block fuel 0%N 0%N b init_state.

Definition main_scope (s : state) : scope :=
  match env s with fr :: _ => fr | [] => Scope None [] [] end.

(* ------------------------------------------------------------------ after the first pass: the workspace merge *)
(* check_third_file.go:generateAllGlobalMaps (no project entry file): for every file and every NodefineMaps variable
   that has members, the members are inserted (first wins) into the workspace-wide global of that name, which is a
   first-pass VarInfo of the defining file - so the outline of THAT file changes. Which definition is "the" global
   when several files define the name, and which file's member wins when two files contribute the same key, depends on
   Go's map iteration order: merge_ws answers None in these cases (the driver skips the case). *)
Definition definers (nm : bytes) (sts : list state) : list nat :=
  flat_map (fun js => if assoc_mem nm (globs (snd js)) then [fst js] else []) (combine (seq 0 (length sts)) sts).

Definition add_members (file : nat) (nm : bytes) (ms : list (bytes * vinfo)) (log : list (bytes * bytes * nat))
           (g : vinfo) : option (vinfo * list (bytes * bytes * nat)) :=
  fold_left (fun acc kv =>
               match acc with
               | None => None
               | Some (g0, lg) =>
                 if assoc_mem (fst kv) (v_sub g0) then
                   (* present: deterministic unless another file's contribution put it there *)
                   if existsb (fun e => beq_bytes (fst (fst e)) nm && beq_bytes (snd (fst e)) (fst kv) && negb (Nat.eqb (snd e) file)) lg
                   then None else Some (g0, lg)
                 else Some (set_sub g0 (v_sub g0 ++ [kv]), lg ++ [(nm, fst kv, file)])
               end) ms (Some (g, log)).

Definition set_globs (s : state) (g : list (bytes * vinfo)) : state := mkSt (env s) g (nodefs s) (nextf s).

(* function ids are per file (Go compares scope pointers): a member that comes from another file must not claim a
   scope of this file; `fresh` is an id that no scope of the receiving file has *)
Definition foreignize (fresh : N) (kv : bytes * vinfo) : bytes * vinfo :=
  match snd kv with
  | VI l (Some fi) sub p g r e => (fst kv, VI l (Some (mkF fresh (f_loc fi) (f_params fi) (f_colon fi))) sub p g r e)
  | _ => kv
  end.

Definition merge_one (orig : list state) (file : nat) (acc : option (list state * list (bytes * bytes * nat)))
           (nv : bytes * vinfo) : option (list state * list (bytes * bytes * nat)) :=
  match acc with
  | None => None
  | Some (sts, lg) =>
    match v_sub (snd nv) with
    | [] => acc
    | ms =>
      match definers (fst nv) orig with
      | [] => acc
      | [j] =>
        match nth_error sts j with
        | Some sj =>
          match assoc_get (fst nv) (globs sj) with
          | Some g =>
            match add_members file (fst nv) (if Nat.eqb file j then ms else map (foreignize (nextf sj)) ms) lg g with
            | Some (g', lg') => Some (upd_nth j (fun s0 => set_globs s0 (assoc_set (fst nv) g' (globs s0))) sts, lg')
            | None => None
            end
          | None => acc
          end
        | None => acc
        end
      | _ => None
      end
    end
  end.

Definition merge_ws_log (sts : list state) : option (list state * list (bytes * bytes * nat)) :=
  fold_left (fun acc is_ => fold_left (merge_one sts (fst is_)) (nodefs (snd is_)) acc)
            (combine (seq 0 (length sts)) sts) (Some (sts, [])).

Definition merge_ws (sts : list state) : option (list state) :=
  match merge_ws_log sts with
  | Some (r, _) => Some r
  | None => None
  end.

(* globals of file j that received a member defined in ANOTHER file (the child entry then carries the other file's
   line/column numbers) *)
Definition foreign_globals (sts : list state) (lg : list (bytes * bytes * nat)) (j : nat) : list bytes :=
  flat_map (fun e => if negb (Nat.eqb (snd e) j) && existsb (Nat.eqb j) (definers (fst (fst e)) sts)
                     then [fst (fst e)] else []) lg.

(* a workspace of one file: never ambiguous *)
Definition finalize (s : state) : state :=
  match merge_ws [s] with Some [s'] => s' | _ => s end.

(* ------------------------------------------------------------------ documentSymbol *)
(* one outline entry; s_key / s_decl / s_undecl are ghost fields for the theorems and the executable judge:
   s_key = the map key (child: prefix ++ sep ++ key) without decoration, s_decl = VarInfo.Loc, s_undecl = the entry
   stands for a name that the file never defines (NodefineMaps) and only carries its members *)
Record csym := mkCS { c_key : bytes; c_name : bytes; c_fn : bool; c_loc : loc; c_decl : loc }.
Record sym := mkS { s_key : bytes; s_name : bytes; s_fn : bool; s_loc : loc; s_decl : loc; s_children : list csym;
                    s_local : bool; s_undecl : bool }.

Definition b_comma_sp : bytes := [44; 32]%N.
Definition b_lpar : bytes := [40]%N.
Definition b_rpar : bytes := [41]%N.
Definition b_local_sp : bytes := [108;111;99;97;108;32]%N.    (* "local " *)
Definition c_colon : N := 58.

(* Go: `if paramStr == "" { paramStr += param } else { paramStr += ", " + param }` *)
Definition join_params (ps : list bytes) : bytes :=
  fold_left (fun acc p => match acc with [] => p | _ => acc ++ b_comma_sp ++ p end) ps [].

(* "(a, b)" suffix; skip_self as in FindAllLocalVal / FindAllVar (FindAllSymbol's global branch does not skip it) *)
Definition param_suffix (skip_self : bool) (ps : list bytes) : bytes :=
  let ps' := if skip_self then filter (fun p => negb (beq_bytes p s_self)) ps else ps in
  match join_params ps' with [] => [] | j => b_lpar ++ j ++ b_rpar end.

Definition end_gt (l1 c1 l2 c2 : Z) : bool := (l1 >? l2)%Z || ((l1 =? l2)%Z && (c1 >? c2)%Z).

(* lexer.Location.Union (added by fixes/C19-assigned-function-range.diff): the smallest Location that covers both *)
Definition loc_union (a b : loc) : loc :=
  let a1 := if loc_before a b then a else mkLoc (sl b) (sc b) (el a) (ec a) in
  if end_gt (el b) (ec b) (el a1) (ec a1) then mkLoc (sl a1) (sc a1) (el b) (ec b) else a1.

(* which repairs of the outline code are in effect (one flag per fix: commit; all false = the code before any repair) *)
Record fixes := mkFx {
  fx_range : bool;      (* fixes/C19-outline-range.diff (5912ee6): the END column is taken from the children *)
  fx_fnspan : bool;     (* fixes/C19-assigned-function-range.diff: function entry = Union(function literal, identifier) *)
  fx_hull : bool;       (* fixes/C19-children-inside.diff: entry with children = Union(own Loc, every child) *)
  fx_alldecl : bool;    (* fixes/C19-shadowed-top-local.diff: one entry per local DECLARATION, not per name *)
  fx_undecl : bool;     (* fixes/C19-member-of-undeclared.diff: members of names the file never defines are listed *)
  fx_ownfile : bool;    (* fixes/C19-foreign-member.diff: members that OTHER files contributed are not listed *)
  fx_wsdecl : bool;     (* fixes/C19-ws-redeclared-local.diff: workspace/symbol lists every local DECLARATION of a scope *)
  fx_wsnested : bool;   (* fixes/C19-ws-nested-local-function.diff: ... also inside the bodies of global functions *)
  fx_wsgmem : bool }.   (* fixes/C19-ws-G-members.diff: ... and the members of globals defined through `_G.` *)

Definition fx_none : fixes := mkFx false false false false false false false false false.
Definition fx_round1 : fixes := mkFx true false false false false false false false false.       (* /repo after 5912ee6 *)
Definition fx_round2 : fixes := mkFx true true true true true true false false false.            (* /repo after d582d9c *)
Definition fx_all : fixes := mkFx true true true true true true true true true.

(* maxLoc over the children, starting from the symbol's own end (code before fixes/C19-children-inside.diff) *)
Fixpoint max_end (cs : list csym) (l c : Z) : Z * Z :=
  match cs with
  | [] => (l, c)
  | x :: cs' => if end_gt (el (c_loc x)) (ec (c_loc x)) l c then max_end cs' (el (c_loc x)) (ec (c_loc x))
                else max_end cs' l c
  end.

(* ExtraGlobal.GFlag: the global was defined by `_G.name = ...` *)
Definition v_gflag (v : vinfo) : bool := match v_glob v with Some gi => g_flag gi | None => false end.
Definition b_G_dot : bytes := [95; 71; 46]%N.                  (* "_G." *)
Definition g_prefix (v : vinfo) : bytes := if v_gflag v then b_G_dot else [].

Section Outline.
  Variable fx : fixes.

  (* the range of a function-valued entry: ReferFunc.Loc, repaired: ReferFunc.Loc.Union(VarInfo.Loc) *)
  Definition fn_range (fl decl : loc) : loc := if fx_fnspan fx then loc_union fl decl else fl.

  (* VarInfo.FindAllVar *)
  Definition child_sym (pre : bytes) (k : bytes) (v : vinfo) : csym :=
    match v_func v with
    | Some fi =>
      let sep := if f_colon fi then c_colon else c_dot in
      mkCS (pre ++ [c_dot] ++ k) (pre ++ [sep] ++ k ++ param_suffix true (f_params fi)) true
           (fn_range (f_loc fi) (v_loc v)) (v_loc v)
    | None => mkCS (pre ++ [c_dot] ++ k) (pre ++ [c_dot] ++ k) false (v_loc v) (v_loc v)
    end.

  (* before any repair: `oneSymbol.Loc.EndLine = maxLoc.EndLine; oneSymbol.Loc.StartColumn = maxLoc.EndColumn`;
     fx_range: EndColumn; fx_hull: `oneSymbol.Loc = oneSymbol.Loc.Union(subOneSymbol.Loc)` for every child *)
  Definition parent_loc (l : loc) (cs : list csym) : loc :=
    if fx_hull fx then fold_left (fun acc c => loc_union acc (c_loc c)) cs l else
    let (ml, mc) := max_end cs (el l) (ec l) in
    if fx_range fx then mkLoc (sl l) (sc l) ml mc else mkLoc (sl l) mc ml (ec l).

  (* the entry of one variable; skip_self / local as in the two callers; a global defined through `_G.` has
     ContainerName "_G", which transferSymbolVec prints as a prefix of the name (not of the children's names) *)
  Definition var_sym (is_local : bool) (nm : bytes) (v : vinfo) : sym :=
    let pn := g_prefix v ++ nm in
    match v_func v with
    | Some fi => mkS nm (pn ++ param_suffix is_local (f_params fi)) true (fn_range (f_loc fi) (v_loc v)) (v_loc v) []
                     is_local false
    | None =>
      match v_sub v with
      | [] => mkS nm pn false (v_loc v) (v_loc v) [] is_local false
      | subs =>
        let cs := map (fun kv => child_sym nm (fst kv) (snd kv)) subs in
        mkS nm pn false (parent_loc (v_loc v) cs) (v_loc v) cs is_local false
      end
    end.

  (* MainScopes removed from the set of sub-scopes to descend into: function of a listed local, or functions of the
     members of a listed local that is not itself a function *)
  Definition claimed_fids (v : vinfo) : list N :=
    match v_func v with
    | Some fi => [f_id fi]
    | None => flat_map (fun kv => match v_func (snd kv) with Some fi => [f_id fi] | None => [] end) (v_sub v)
    end.

  Definition last_var (vs : list vinfo) : option vinfo :=
    match rev vs with v :: _ => Some v | [] => None end.

  (* the VarInfos of one name that get an entry: the last of VarVec; repaired (fx_alldecl): every element; never a
     parameter *)
  Definition listed_of (vs : list vinfo) : list vinfo :=
    filter (fun v => negb (v_param v))
           (if fx_alldecl fx then vs else match last_var vs with Some v => [v] | None => [] end).

  Definition listed_locals (vars : list (bytes * list vinfo)) : list (bytes * vinfo) :=
    flat_map (fun kv => map (fun v => (fst kv, v)) (listed_of (snd kv))) vars.

  Definition memN (x : N) (l : list N) : bool := existsb (N.eqb x) l.

  (* ScopeInfo.FindAllLocalVal *)
  Fixpoint find_all_local (gs : list N) (sc : scope) : list sym :=
    match sc with
    | Scope _ vars subs =>
      let ll := listed_locals vars in
      let claimed := gs ++ flat_map (fun kv => claimed_fids (snd kv)) ll in
      map (fun kv => var_sym true (fst kv) (snd kv)) ll ++
      (fix go (l : list scope) : list sym :=
         match l with
         | [] => []
         | sub :: l' =>
           (match s_fid sub with
            | Some id => if memN id claimed then [] else find_all_local [] sub
            | None => find_all_local [] sub
            end) ++ go l'
         end) subs
    end.

  (* FileResult.FindGMapsScopes *)
  Definition gmaps_fids (g : list (bytes * vinfo)) : list N :=
    flat_map (fun kv =>
                (match v_func (snd kv) with Some fi => [f_id fi] | None => [] end) ++
                flat_map (fun kv2 => match v_func (snd kv2) with Some fi => [f_id fi] | None => [] end) (v_sub (snd kv))) g.

  Definition mark_undecl (s : sym) : sym :=
    mkS (s_key s) (s_name s) (s_fn s) (s_loc s) (s_decl s) (s_children s) (s_local s) true.

  (* fixes/C19-member-of-undeclared.diff: the NodefineMaps variables that have members and no global of the same name
     in this file (those were merged into that global): an entry at the first occurrence of the name, with the members
     defined in this file as children *)
  Definition undeclared_syms (s : state) : list sym :=
    if fx_undecl fx then
      flat_map (fun kv => match v_sub (snd kv) with
                          | [] => []
                          | _ => if assoc_mem (fst kv) (globs s) then [] else [mark_undecl (var_sym false (fst kv) (snd kv))]
                          end) (nodefs s)
    else [].

  (* FileResult.FindAllSymbol (no protocol prefixes configured) *)
  Definition find_all_symbol (s : state) : list sym :=
    find_all_local (gmaps_fids (globs s)) (main_scope s) ++
    map (fun kv => var_sym false (fst kv) (snd kv)) (globs s) ++
    undeclared_syms s.
End Outline.

(* the state that FindAllSymbol of file i reads in a workspace: the file's first-pass tables after the workspace merge
   (`merged` = merge_ws orig). With fixes/C19-foreign-member.diff the members contributed by other files are skipped,
   which leaves the merge of the file's own "nodefine" members: `finalize` of the file alone (the cases in which the
   workspace merge is ambiguous - merge_ws = None - are outside both variants). *)
Definition outline_state (fx : fixes) (orig merged : list state) (i : nat) : option state :=
  if fx_ownfile fx then option_map finalize (nth_error orig i) else nth_error merged i.

(* which variant the deployed code is (ONE-LINE SWITCH): the driver compares the implementation with
   `find_all_symbol deployed (outline_state deployed ..)` *)
Definition deployed : fixes := fx_all.

(* ------------------------------------------------------------------ workspace/symbol *)
(* w_name = the name without the `_G.` decoration; w_g = collect(.., prefix "_G", ..): printed as `_G.<name>` *)
Record wsym := mkW { w_name : bytes; w_fn : bool; w_loc : loc; w_g : bool }.

Definition w_members (only_func : bool) (pre : bytes) (v : vinfo) : list wsym :=
  flat_map (fun kv => match v_func (snd kv) with
                      | Some _ => [mkW (pre ++ [c_dot] ++ fst kv) true (v_loc (snd kv)) false]
                      | None => if only_func then [] else [mkW (pre ++ [c_dot] ++ fst kv) false (v_loc (snd kv)) false]
                      end) (v_sub v).

Definition is_some {A} (o : option A) : bool := match o with Some _ => true | None => false end.

(* getLocVarMapsSymbols(hasPrefix = false): VarVec[last] of every name; repaired (all = fx_wsdecl): every element *)
Definition w_scope_vars (all : bool) (only_func : bool) (vars : list (bytes * list vinfo)) : list wsym :=
  flat_map (fun kv =>
              flat_map (fun v =>
                          if only_func && (match v_sub v with [] => true | _ => false end) && negb (is_some (v_func v)) then []
                          else mkW (fst kv) (is_some (v_func v)) (v_loc v) false :: w_members only_func (fst kv) v)
                       (if all then snd kv else match last_var (snd kv) with Some v => [v] | None => [] end)) vars.

(* the breadth-first walk over SubScopes; a scope in the exclude set is skipped together with everything below it *)
Fixpoint w_subscopes (all : bool) (ex : list N) (sc : scope) : list wsym :=
  match sc with
  | Scope fid vars subs =>
    if match fid with Some id => memN id ex | None => false end then []
    else w_scope_vars all true vars ++
         (fix go (l : list scope) : list wsym := match l with [] => [] | x :: l' => w_subscopes all ex x ++ go l' end) subs
  end.

(* resultSorter.getQuerySymbols for one file; fx_undecl (fixes/C19-member-of-undeclared.diff): also the members that
   the file defines on names it never defines. (fx_ownfile - members contributed by other files are skipped - is a
   matter of which state is passed: see outline_state.)  fx_wsgmem: the GFlag branch lists the members too;
   fx_wsnested: the MainScopes of the global functions (FindGMapsScopes) are no longer excluded from the walk *)
Definition file_wsyms (fx : fixes) (s : state) : list wsym :=
  flat_map (fun kv => mkW (fst kv) (is_some (v_func (snd kv))) (v_loc (snd kv)) (v_gflag (snd kv)) ::
                      (if v_gflag (snd kv) && negb (fx_wsgmem fx) then [] else w_members false (fst kv) (snd kv)))
           (globs s) ++
  w_scope_vars (fx_wsdecl fx) false (s_vars (main_scope s)) ++
  flat_map (w_subscopes (fx_wsdecl fx) (if fx_wsnested fx then [] else gmaps_fids (globs s))) (s_subs (main_scope s)) ++
  (if fx_undecl fx
   then flat_map (fun kv => if assoc_mem (fst kv) (globs s) then [] else w_members false (fst kv) (snd kv)) (nodefs s)
   else []).

(* ------------------------------------------------------------------ from bytes *)
Definition fuel_of_bytes (bs : list N) : nat := S (S (length bs)).

Inductive file_syms := FsInvalid | FsOk (st : state).

Section FromBytes.
  Variable gbk_runes : list N -> Z.

  (* a file with any syntax diagnostic is outside the property ("valid file") *)
  Definition analyse_bytes (bs : list N) : Res file_syms :=
    do r <- parse_bytes gbk_runes classify_tok bs ;
    match r with
    | PR b [] [] => do st <- analyse (fuel_of_bytes bs) b ; Ok (FsOk st)
    | _ => Ok FsInvalid
    end.
End FromBytes.

(* ------------------------------------------------------------------ LSP ranges *)
(* lspcommon.LocToRange: uint32(line) - 1, uint32(column) *)
Definition u32 (z : Z) : Z := (z mod 4294967296)%Z.
Definition range_of (l : loc) : Z * Z * Z * Z := (u32 (sl l - 1), u32 (sc l), u32 (el l - 1), u32 (ec l)).
