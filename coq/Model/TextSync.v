(* Model of langserver/lspcommon/file_cache.go (offsetForStartAndEnd, ApplyContentChanges, FileMapCache) and of the
   cache-relevant control flow of langserver/textdocument_file_request.go (TextDocumentDidOpen / DidChange / DidSave /
   DidClose).  No proofs here.

   The model is parameterised by one boolean `fx`:
     fx = false : the code as it is in /repo (one column per *character*, only '\n' ends a line);
     fx = true  : the code after the proposed repair /verif/work/fixes/C02-utf16-crlf.diff
                  (a 4-byte sequence counts two columns, a CR that is not followed by LF ends a line).
   `deployed_fixed` says which of the two the correspondence check compares with the implementation. *)
From Coq Require Import List NArith Bool.
From LH Require Import Base.Bytes Base.Res.
Import ListNotations.
Local Open Scope N_scope.

Definition deployed_fixed : bool := true.

Record pos := mkpos { p_line : N; p_ch : N }.
Record range := mkrange { r_start : pos; r_end : pos }.

(* the three error messages of offsetForStartAndEnd with the numbers they print *)
Inductive off_err :=
| EBeyond (ch line : N)     (* "character %d (zero-based) is beyond line %d boundary (zero-based)" *)
| EFirst (ch : N)           (* "character %d (zero-based) is beyond first line boundary" *)
| ELines (n : N).           (* "file only has %d lines" *)
Inductive off_res := OffOk (s e : N) | OffErr (e : off_err).

(* getCharBytes: count the leading 1 bits. At num = 8 the Go shift count uint32(7-num) wraps to 2^32-1 and the
   byte-typed `1 << huge` is 0, so the loop stops: 0xFF => 8. *)
Fixpoint char_bytes_aux (fuel : nat) (b num : N) : N :=
  match fuel with
  | O => num
  | S f => if (num <? 8) && N.testbit b (7 - num) then char_bytes_aux f b (num + 1) else num
  end.
Definition char_bytes (b : N) : N := char_bytes_aux 9 b 0.

Inductive chk := Found (s e : N) | Bad (e : off_err) | Go (sf : option N).

Definition next_is_lf (t : list N) : bool := match t with b :: _ => b =? 10 | [] => false end.

Section Scan.
  Variable fx : bool.
  Variables sl sc el ec : N.    (* start line/character, end line/character *)

  (* the three `if` blocks at the head of the loop body; sf = Some startOffset once startFlag is set *)
  Definition check (line col off : N) (sf : option N) : chk :=
    let sf1 := match sf with
               | Some _ => sf
               | None => if (line =? sl) && (col =? sc) then Some off else None
               end in
    match sf1 with
    | None => if ((line =? sl) && (sc <? col)) || (sl <? line) then Bad (EBeyond sc sl) else Go None
    | Some so => if (line =? el) && (col =? ec) then Found so off
                 else if ((line =? el) && (ec <? col)) || (el <? line) then Bad (EBeyond ec el)
                 else Go sf1
    end.

  (* the code after the loop *)
  Definition finish (line col off : N) (sf : option N) : off_res :=
    let tail := if line =? 0 then OffErr (EFirst sc) else OffErr (ELines (line + 1)) in
    match sf with
    | Some so => if (line =? el) && (col =? ec) then OffOk so off else tail
    | None => if (line =? sl) && (col =? sc) && (line =? el) && (col =? ec) then OffOk off off else tail
    end.

  (* the loop. `skip` = bytes the Go code jumps over by `index += curCharBytes - 1` (whatever they are);
     `off` is both `offset` and `index` (they move in lockstep); it may end beyond len(contents). *)
  Fixpoint scan (rest : list N) (skip : nat) (line col off : N) (sf : option N) : off_res :=
    match rest with
    | [] => finish line col off sf
    | b :: t =>
      match skip with
      | S k => scan t k line col off sf
      | O =>
        match check line col off sf with
        | Found s e => OffOk s e
        | Bad e => OffErr e
        | Go sf1 =>
          let k := if 127 <? b then char_bytes b else 1 in
          if b =? 10 then scan t (N.to_nat k - 1) (line + 1) 0 (off + k) sf1
          else if fx && (b =? 13) && negb (next_is_lf t) then scan t (N.to_nat k - 1) (line + 1) 0 (off + k) sf1
          else scan t (N.to_nat k - 1) line (col + (if fx && (k =? 4) then 2 else 1)) (off + k) sf1
        end
      end
    end.
End Scan.

Definition offset_gen (fx : bool) (contents : list N) (r : range) : off_res :=
  scan fx (p_line (r_start r)) (p_ch (r_start r)) (p_line (r_end r)) (p_ch (r_end r)) contents O 0 0 0 None.

Definition offset_for_start_end := offset_gen false.          (* the code in /repo *)
Definition offset_for_start_end_fixed := offset_gen true.     (* the code after the proposed repair *)

(* ---- ApplyContentChanges ---- *)
Record change := mkchange { c_range : option range; c_rlen : N; c_text : list N }.
Inductive apply_err := APos (e : off_err) | ARange.

Fixpoint apply_changes (fx : bool) (contents : list N) (chs : list change) : Res (list N + apply_err) :=
  match chs with
  | [] => Ok (inl contents)
  | ch :: rest =>
    match c_range ch with
    | None => if fx || (c_rlen ch =? 0) then apply_changes fx (c_text ch) rest   (* new full content; repaired code: whatever RangeLength says *)
              else Fault NilDeref                                           (* pre-fix: change.Range.Start on a nil Range *)
    | Some r =>
      match offset_gen fx contents r with
      | OffErr e => Ok (inr (APos e))
      | OffOk s e =>
        if (N.of_nat (length contents) <? e) || (e <? s) then Ok (inr ARange)   (* start < 0 cannot happen *)
        else apply_changes fx (firstn (N.to_nat s) contents ++ c_text ch ++ skipn (N.to_nat e) contents) rest
      end
    end
  end.

(* ---- the open-document cache and the four notifications ---- *)
Definition cache := N -> option (list N).        (* FileMapCache.m, keyed by document *)
Definition empty_cache : cache := fun _ => None.
Definition upd (c : cache) (k : N) (v : option (list N)) : cache := fun x => if x =? k then v else c x.

Inductive note :=
| DidOpen (doc : N) (text : list N)
| DidChange (doc : N) (chs : list change)
| DidSave (doc : N) (text : option (list N))     (* Text *string: nil when the client leaves it out *)
| DidClose (doc : N).

(* Convention of the correspondence harness: documents 0,1,2 are *.lua files of the workspace with no ignore rule
   (IsNeedHandle = true everywhere); document 3 is a *.txt file (IsHandleAsLua = false, tested by didOpen only). *)
Definition is_lua (doc : N) : bool := doc <? 3.

Definition sync_step (fx : bool) (c : cache) (n : note) : Res cache :=
  match n with
  | DidOpen d t => if is_lua d then Ok (upd c d (Some t)) else Ok c
  | DidChange d chs =>
    match c d with
    | None => Ok c                                        (* GetFileContent: not found, log, return *)
    | Some cur =>
      match apply_changes fx cur chs with
      | Ok (inl new) => Ok (upd c d (Some new))
      | Ok (inr _) => Ok c                                (* err != nil: log.Error, return nil; cache untouched *)
      | Fault k => Fault k
      | OutOfFuel => OutOfFuel
      end
    end
  | DidSave d (Some t) => Ok (upd c d (Some t))           (* no check that the document is open *)
  | DidSave d None => Fault NilDeref                      (* *vs.Text *)
  | DidClose d => Ok (upd c d None)
  end.

(* run a history; the list of caches after each notification (for the correspondence check) stops at a fault *)
Fixpoint run (fx : bool) (c : cache) (ns : list note) : Res cache :=
  match ns with
  | [] => Ok c
  | n :: t => match sync_step fx c n with
              | Ok c' => run fx c' t
              | Fault k => Fault k
              | OutOfFuel => OutOfFuel
              end
  end.

Fixpoint trace (fx : bool) (c : cache) (ns : list note) : list (Res cache) :=
  match ns with
  | [] => []
  | n :: t => match sync_step fx c n with
              | Ok c' => Ok c' :: trace fx c' t
              | r => [r]
              end
  end.

(* "a change was rejected": didChange on an open document whose ApplyContentChanges returns an error *)
Definition rejected (fx : bool) (c : cache) (n : note) : bool :=
  match n with
  | DidChange d chs =>
    match c d with
    | Some cur => match apply_changes fx cur chs with Ok (inr _) => true | _ => false end
    | None => false
    end
  | _ => false
  end.

Fixpoint any_rejected (fx : bool) (c : cache) (ns : list note) : bool :=
  match ns with
  | [] => false
  | n :: t => rejected fx c n ||
              match sync_step fx c n with Ok c' => any_rejected fx c' t | _ => false end
  end.
