(* C15 (and the class part of C01): executable model of the annotation class traversal of LuaHelper.

   Go code mirrored (langserver/check):
     check_lsp_annotate.go   getAllNormalAnnotateClass / getInLineAllNormalAnnotateClass / getClassTypeInfoList
                             (two guards: strMap by NAME, repeatTypeList by DEFINITION (pointer))
                             GetAllArrayType / GetAllTableType / GetAllTableKeyType (NO visited set -> fuel)
     common/annotate_info.go GetBestCreateTypeInfo (same-file "best" definition, sort by calcCreateTypeScore;
                             taken alone before fix 53b8e25, taken first since)
     check_all.go            rebuidCreateTypeMap (workspace map name -> all definitions)
     annotateast             GetAllNormalStrList
     check_find_var_refer.go symbolHasSubKey / getClassListSubMem (one indexing step of a completion path)
     check_lsp_annotate_complete.go getVarInfoCompleteExt / convertClassInfoToCompleteVecs (member names)
   No proofs here. *)
From Coq Require Import List NArith ZArith Bool.
From LH Require Import Base.Res.
Import ListNotations.
Local Open Scope N_scope.

(* ---------- names, types, definitions ---------- *)

(* type names are numbers; three are builtin words of the annotation language *)
Definition name := N.
Definition n_any      : name := 0.   (* "any": pre-seeded in strMap, never looked up *)
Definition n_table    : name := 1.   (* GetAllNormalStrList (TableType) = ["table"] *)
Definition n_function : name := 2.   (* GetAllNormalStrList (FuncType)  = ["function"] *)

(* annotateast.Type as far as the traversal looks at it *)
Inductive ty : Type :=
| TName  (n : name)          (* NormalType *)
| TMulti (l : list ty)       (* MultiType: A | B | ... (parserOneType always builds one, also for a single type) *)
| TArr   (e : ty)            (* ArrayType  T[] *)
| TTable (k v : ty)          (* TableType table<K,V>, EmptyFlag = false *)
| TTableE                    (* TableType `table`, EmptyFlag = true *)
| TFun                       (* FuncType *)
| TConst.                    (* ConstType ("a" | "b") *)

Record field := mkField { f_name : name; f_line : N; f_ty : ty }.

Inductive dkind :=
| DClass (parents : list name) (fields : list field)
| DAlias (t : ty).

(* one CreateTypeInfo: d_id stands for the pointer identity used by IsRepeateTypeInfo *)
Record def := mkDef { d_id : N; d_name : name; d_file : N; d_line : N (* LastLine *); d_kind : dkind }.

(* the workspace: all definitions; the order inside one file is the insertion order of generateNewType
   (fragments by last line; classes before aliases inside a fragment) *)
Definition tmap := list def.

Definition mem (x : N) (l : list N) : bool := existsb (N.eqb x) l.

(* annotateast.GetAllNormalStrList *)
Fixpoint normal_names (t : ty) : list name :=
  match t with
  | TName n => [n]
  | TMulti l => (fix go (l : list ty) : list name :=
                   match l with [] => [] | x :: r => normal_names x ++ go r end) l
  | TTable _ _ | TTableE => [n_table]
  | TFun => [n_function]
  | TArr _ | TConst => []
  end.

(* ---------- lookup ---------- *)

Definition global_defs (tm : tmap) (n : name) : list def :=
  filter (fun d => d_name d =? n) tm.
Definition file_defs (tm : tmap) (f : N) (n : name) : list def :=
  filter (fun d => (d_file d =? f) && (d_name d =? n)) tm.

(* calcCreateTypeScore *)
Definition score (d : def) (l : N) : Z :=
  if d_line d <=? l then Z.of_N (d_line d) else (Z.of_N l - Z.of_N (d_line d))%Z.

(* sort.Sort with Less = score_i < score_j, then results[0]: for up to 12 elements Go sorts by insertion,
   which is stable, so the winner is the FIRST definition of minimal score *)
Fixpoint best_of (l : N) (ds : list def) : option def :=
  match ds with
  | [] => None
  | d :: r => match best_of l r with
              | None => Some d
              | Some b => if (score b l <? score d l)%Z then Some b else Some d
              end
  end.

(* AnnotateFile.GetBestCreateTypeInfo *)
Definition best (tm : tmap) (f : N) (n : name) (l : N) : option def := best_of l (file_defs tm f n).

(* ---------- the traversal with both guards ---------- *)

Record st := mkSt { s_names : list name (* strMap *); s_defs : list N (* repeatTypeList, by identity *) }.
Definition st0 : st := mkSt [n_any] [].
Definition add_name (n : name) (s : st) : st := mkSt (n :: s_names s) (s_defs s).
Definition add_def (d : def) (s : st) : st := mkSt (s_names s) (d_id d :: s_defs s).

Definition visitor := name -> N -> N -> st -> Res (list def * st).

(* loop over ParentNameList: skipped if the NAME is in strMap or equals the class's own name;
   a visited parent is NOT entered into strMap *)
Fixpoint parents_loop (V : visitor) (self : name) (ps : list name) (f l : N) (s : st) : Res (list def * st) :=
  match ps with
  | [] => Ok ([], s)
  | p :: ps' =>
      if mem p (s_names s) || (self =? p) then parents_loop V self ps' f l s
      else do r1 <- V p f l s;
           do r2 <- parents_loop V self ps' f l (snd r1);
           Ok (fst r1 ++ fst r2, snd r2)
  end.

(* getInLineAllNormalAnnotateClass: loop over the simple names of a type *)
Fixpoint names_loop (V : visitor) (ns : list name) (f l : N) (s : st) : Res (list def * st) :=
  match ns with
  | [] => Ok ([], s)
  | m :: ns' =>
      if mem m (s_names s) then names_loop V ns' f l s
      else do r1 <- V m f l (add_name m s);
           do r2 <- names_loop V ns' f l (snd r1);
           Ok (fst r1 ++ fst r2, snd r2)
  end.

(* body executed for a definition that was not yet in repeatTypeList (it has just been appended) *)
Definition one_def (V : visitor) (n : name) (d : def) (s : st) : Res (list def * st) :=
  match d_kind d with
  | DClass ps _ => do r <- parents_loop V n ps (d_file d) (d_line d) s; Ok (d :: fst r, snd r)
  | DAlias t => names_loop V (normal_names t) (d_file d) (d_line d) s
  end.

(* second half of getClassTypeInfoList: all workspace definitions of the name *)
Fixpoint defs_loop (V : visitor) (n : name) (ds : list def) (s : st) : Res (list def * st) :=
  match ds with
  | [] => Ok ([], s)
  | d :: ds' =>
      if mem (d_id d) (s_defs s) then defs_loop V n ds' s
      else do r1 <- one_def V n d (add_def d s);
           do r2 <- defs_loop V n ds' (snd r1);
           Ok (fst r1 ++ fst r2, snd r2)
  end.

(* getClassTypeInfoList.
   fx = false: the code before fix 53b8e25: when the file of the referring annotation declares the name,
               ONLY its single "best" declaration is taken (early return), the other declarations of the workspace
               are never looked at;
   fx = true : the repaired code (fixes/C15-split-class.diff): the best declaration of the file only comes FIRST,
               then every other declaration of the workspace (repeatTypeList skips the one already taken), i.e.
               the loop of the second half runs over  best :: workspace list. *)
Definition visit_body_v (fx : bool) (tm : tmap) (V : visitor) : visitor := fun n f l s =>
  match best tm f n l with
  | Some d =>
      if fx then defs_loop V n (d :: global_defs tm n) s
      else if mem (d_id d) (s_defs s) then Ok ([], s) else one_def V n d (add_def d s)
  | None => defs_loop V n (global_defs tm n) s
  end.

Fixpoint visit_v (fx : bool) (tm : tmap) (fuel : nat) {struct fuel} : visitor :=
  match fuel with
  | O => fun _ _ _ _ => OutOfFuel
  | S k => visit_body_v fx tm (visit_v fx tm k)
  end.

(* getAllNormalAnnotateClass astType fileName lastLine *)
Definition class_list_v (fx : bool) (fuel : nat) (tm : tmap) (t : ty) (f l : N) : Res (list def) :=
  do r <- names_loop (visit_v fx tm fuel) (normal_names t) f l st0; Ok (fst r).

Definition class_fields (d : def) : list field :=
  match d_kind d with DClass _ fs => fs | DAlias _ => [] end.

(* the names offered after `v.` (plain fields; convertClassInfoToCompleteVecs with colonFlag = false) *)
Definition member_names (o : list def) : list name := flat_map (fun d => map f_name (class_fields d)) o.

(* fuel that C15_terminates shows sufficient *)
Definition fuel_of (tm : tmap) : nat := S (length tm).

Definition model_members_v (fx : bool) (tm : tmap) (t : ty) (f l : N) : list name :=
  match class_list_v fx (fuel_of tm) tm t f l with Ok o => member_names o | _ => [] end.

(* Which lookup the DECIDING model has: true = the repaired code (fix 53b8e25 applied to /repo),
   false = the code before it.  Everything below (completion paths, definition) is built on the deployed variant. *)
Definition c15_split_fixed : bool := true.

Definition visit_body : tmap -> visitor -> visitor := visit_body_v c15_split_fixed.
Definition visit : tmap -> nat -> visitor := visit_v c15_split_fixed.
Definition class_list : nat -> tmap -> ty -> N -> N -> Res (list def) := class_list_v c15_split_fixed.
Definition model_members : tmap -> ty -> N -> N -> list name := model_members_v c15_split_fixed.

(* ---------- element / value / key type through aliases: NO visited set in the code ---------- *)

(* which create-info list GetAllArrayType looks at: the file's own list if the file defines the name at all,
   else the workspace list *)
Definition elem_lookup (tm : tmap) (f : N) (n : name) : list def :=
  match file_defs tm f n with [] => global_defs tm n | l => l end.

Definition alias_ty (d : def) : option ty := match d_kind d with DAlias t => Some t | DClass _ _ => None end.

(* first definition in the list that is an alias *)
Fixpoint first_alias (ds : list def) : option (def * ty) :=
  match ds with
  | [] => None
  | d :: r => match alias_ty d with Some t => Some (d, t) | None => first_alias r end
  end.

(* the three functions differ only in what they return at a non-name, non-union type *)
Definition leaf_arr (t : ty) : option ty := match t with TArr e => Some e | _ => None end.          (* GetAllArrayType *)
Definition leaf_val (t : ty) : option ty := match t with TTable _ v => Some v | _ => None end.      (* GetAllTableType *)
Definition leaf_key (t : ty) : option ty := match t with TTable k _ => Some k | _ => None end.      (* GetAllTableKeyType *)

(* result of the divergence detector *)
Inductive dres := DDone (r : option ty) | DDiverge | DNoFuel.

Section Resolve.
  Variable leaf : ty -> option ty.
  Variable tm : tmap.

  (* walk the union structure of one type; J handles a name *)
  Fixpoint walk (J : name -> N -> Res (option ty)) (t : ty) (f : N) : Res (option ty) :=
    match t with
    | TMulti l => (fix go (l : list ty) : Res (option ty) :=
                     match l with
                     | [] => Ok None
                     | x :: r => do a <- walk J x f;
                                 match a with Some e => Ok (Some e) | None => go r end
                     end) l
    | TName n => J n f
    | _ => Ok (leaf t)
    end.

  (* UNFIXED code: following an alias is an unguarded recursive call; fuel = number of alias jumps *)
  Fixpoint resolve (fuel : nat) (t : ty) (f : N) : Res (option ty) :=
    match fuel with
    | O => OutOfFuel
    | S k => walk (fun n f' => match first_alias (elem_lookup tm f' n) with
                               | Some (d, t') => resolve k t' (d_file d)
                               | None => Ok None
                               end) t f
    end.

  (* detector: same recursion with the stack of alias definitions being expanded; re-entering one of them
     is reported instead of recursing (Proofs/ClassesElem.v: exactly the inputs on which `resolve` never returns) *)
  Fixpoint walk_d (J : name -> N -> dres) (t : ty) (f : N) : dres :=
    match t with
    | TMulti l => (fix go (l : list ty) : dres :=
                     match l with
                     | [] => DDone None
                     | x :: r => match walk_d J x f with
                                 | DDone (Some e) => DDone (Some e)
                                 | DDone None => go r
                                 | other => other
                                 end
                     end) l
    | TName n => J n f
    | _ => DDone (leaf t)
    end.

  Fixpoint detect (fuel : nat) (stack : list N) (t : ty) (f : N) : dres :=
    match fuel with
    | O => DNoFuel
    | S k => walk_d (fun n f' => match first_alias (elem_lookup tm f' n) with
                                 | Some (d, t') => if mem (d_id d) stack then DDiverge
                                                   else detect k (d_id d :: stack) t' (d_file d)
                                 | None => DDone None
                                 end) t f
    end.

  (* FIXED variant (work/fixes/C15-alias-visited.diff): an alias definition that is already being expanded
     yields "no type" instead of recursing *)
  Fixpoint resolve_fx (fuel : nat) (stack : list N) (t : ty) (f : N) : Res (option ty) :=
    match fuel with
    | O => OutOfFuel
    | S k => walk (fun n f' => match first_alias (elem_lookup tm f' n) with
                               | Some (d, t') => if mem (d_id d) stack then Ok None
                                                 else resolve_fx k (d_id d :: stack) t' (d_file d)
                               | None => Ok None
                               end) t f
    end.
End Resolve.

(* what the deciding model answers for one resolution: Ok r, or OutOfFuel = the Go process dies of stack overflow.
   fa = false: the code before fix 83efc56 (unguarded recursion), decided by the detector (sound and complete for
               non-termination of `resolve`, ClassesElem.v);
   fa = true : the repaired code (visited set). *)
Definition resolve_model_v (fa : bool) (leaf : ty -> option ty) (tm : tmap) (t : ty) (f : N) : Res (option ty) :=
  if fa then resolve_fx leaf tm (fuel_of tm) [] t f
  else match detect leaf tm (fuel_of tm) [] t f with
       | DDone r => Ok r
       | DDiverge => OutOfFuel
       | DNoFuel => Fault Reentry      (* never: detect_total *)
       end.

(* class predicate of the (fixed) finding: the code before the fix recurses for ever on this resolution *)
Definition cyclic_alias (leaf : ty -> option ty) (tm : tmap) (t : ty) (f : N) : bool :=
  match detect leaf tm (fuel_of tm) [] t f with DDiverge => true | _ => false end.

(* ---------- one step of a completion / definition path (symbolHasSubKey) ---------- *)

(* a symbol as far as annotation lookup cares: its type and the (file, line) the type is read in *)
Definition sym := (ty * N * N)%type.

(* FieldMap[k]: later ---@field lines of the same class overwrite earlier ones *)
Definition field_of (d : def) (k : name) : option field :=
  find (fun fl => f_name fl =? k) (rev (class_fields d)).

(* getClassListSubMem: first class of the list that has the member *)
Fixpoint first_with (o : list def) (k : name) : option (def * field) :=
  match o with
  | [] => None
  | d :: r => match field_of d k with Some fl => Some (d, fl) | None => first_with r k end
  end.

(* the indexing part of symbolHasSubKey: array element first, then table value *)
Definition index_step_v (fa : bool) (tm : tmap) (t : ty) (f l : N) : Res (option sym) :=
  do a <- resolve_model_v fa leaf_arr tm t f;
  match a with
  | Some e => Ok (Some (e, f, l))
  | None => do v <- resolve_model_v fa leaf_val tm t f;
            match v with Some e => Ok (Some (e, f, l)) | None => Ok None end
  end.

(* key = Some k: `.k` (a simple string); key = None: `[1]`.  Order in the code: class member, then array
   element, then table value.  (The class lookup is the deployed one, class_list.) *)
Definition sub_key_v (fa : bool) (tm : tmap) (s : sym) (key : option name) : Res (option sym) :=
  let '(t, f, l) := s in
  do o <- match key with Some _ => class_list (fuel_of tm) tm t f l | None => Ok [] end;
  match match key with Some k => first_with o k | None => None end with
  | Some (d, fl) => Ok (Some (f_ty fl, d_file d, d_line d))
  | None => index_step_v fa tm t f l
  end.

Fixpoint follow_v (fa : bool) (tm : tmap) (s : sym) (path : list (option name)) {struct path} : Res (option sym) :=
  match path with
  | [] => Ok (Some s)
  | k :: rest => do r <- sub_key_v fa tm s k;
                 match r with Some s' => follow_v fa tm s' rest | None => Ok None end
  end.

(* member names offered after `v<path>.` *)
Definition complete_at_v (fa : bool) (tm : tmap) (s : sym) (path : list (option name)) : Res (list name) :=
  do r <- follow_v fa tm s path;
  match r with
  | Some (t, f, l) => do o <- class_list (fuel_of tm) tm t f l; Ok (member_names o)
  | None => Ok []
  end.

(* go-to-definition on `v<path>.k`: the ---@field line of the first class that has k *)
Definition define_at_v (fa : bool) (tm : tmap) (s : sym) (path : list (option name)) (k : name) : Res (option (N * N)) :=
  do r <- follow_v fa tm s path;
  match r with
  | Some (t, f, l) =>
      do o <- class_list (fuel_of tm) tm t f l;
      match first_with o k with
      | Some (d, fl) => Ok (Some (d_file d, f_line fl))
      | None =>
          (* not a member: symbolHasSubKey goes on to the element resolutions (before fix 83efc56 they may recurse
             for ever); the result is then not a field line *)
          do a <- index_step_v fa tm t f l; Ok None
      end
  | None => Ok None
  end.

(* for-loop variables (getForCycleAnnotateType): `for k, x in pairs(v)` / `ipairs(v)` *)
Definition for_value_v (fa : bool) (tm : tmap) (s : sym) : Res (option sym) :=
  let '(t, f, l) := s in index_step_v fa tm t f l.

Definition for_pairs_key_v (fa : bool) (tm : tmap) (s : sym) : Res (option sym) :=
  let '(t, f, l) := s in
  do a <- resolve_model_v fa leaf_arr tm t f;
  match a with
  | Some _ => Ok (Some (TName 3 (* "number": never defined by the generators *), f, l))
  | None => do v <- resolve_model_v fa leaf_key tm t f;
            match v with Some e => Ok (Some (e, f, l)) | None => Ok None end
  end.

(* Which alias resolution the DECIDING model has: true = the repaired code (fix 83efc56 in /repo). *)
Definition c15_fixed_variant : bool := true.

Definition resolve_model := resolve_model_v c15_fixed_variant.
Definition sub_key := sub_key_v c15_fixed_variant.
Definition follow := follow_v c15_fixed_variant.
Definition complete_at := complete_at_v c15_fixed_variant.
Definition define_at := define_at_v c15_fixed_variant.
Definition for_value := for_value_v c15_fixed_variant.
Definition for_pairs_key := for_pairs_key_v c15_fixed_variant.
