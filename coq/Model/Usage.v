(* C07 - model of LuaHelper's traversal resolver ("Resolver A") and of the diagnostics it drives:
   first pass  (analysis.go HandleFirstTraverseAST):  IsUse marking, sweep on scope exit => type 4 / 17,
                                                      per-file global table (GlobalMaps);
   third pass  (HandleTermTraverseAST, CheckTermThird): findNameStr / findGlobalVar => type 2 / 3.

   The model has two layers, both executable:
   1. `tr_*`  : the traversal of analysis_stat.go / analysis_exp.go linearised into the sequence of scope
                operations it performs, in exactly the order the Go code performs them
                (APush = CreateScopeInfo+enterScope, APop = exitScope (sweep), AAdd = AddLocVar,
                 ARead = cgNameExp, AWrite = checkLeftAssign on a plain name). The mutable `ignoreInfo`
                of the third pass (x = x or v / if not x / x == nil idioms) is threaded through the linearisation
                and ends up as the `supp` flag of a read; the `binParentExp` argument ends up as `circ`.
   2. `step_*`: the scope machine: scopes as a stack, per scope the locals newest first (ScopeInfo.LocVarMap
                restricted to one name is exactly the sub-list of that name), FindLocVar = first same-named
                variable, innermost scope first, that passes VarInfo.IsCorrectPosition. *)
From Coq Require Import List NArith ZArith Bool.
From LH Require Import Base.Bytes Base.Res Model.Lexer Model.Ast Model.Parser Model.LuaFront Spec.LuaUsage.
From LH Require Model.Scope.   (* only the record of repairs `Scope.bfixes` is used *)
Import ListNotations.
Local Open Scope N_scope.

(* ------------------------------------------------------------------ variables and scopes *)
Record var := mkVar10 {
  v_name : name; v_loc : loc;
  v_used : bool;                 (* IsUse *)
  v_close : bool;                (* IsClose *)
  v_rfunc : bool;                (* ReferFunc != nil *)
  v_refer : option exp;          (* ReferExp *)
  v_empty : bool;                (* IsExpEmpty *)
  v_noassign : list loc;         (* NoUseAssignLocs *)
  v_init : option loc;           (* InitLoc (since fixes/C05-own-initialiser.diff): the rest of the `local` statement *)
  v_tab : option loc             (* InitTableLoc: the table constructor that initialises the variable *)
}.
Notation mkVar n l u c f r e a := (mkVar10 n l u c f r e a None None).
Definition scope := list var.     (* newest first *)
Definition stack := list scope.   (* innermost first *)

(* VarInfo.IsCorrectPosition *)
Definition correct_position (v : var) (l : loc) : bool :=
  if negb (loc_before (v_loc v) l) then false else
  if (match v_init v with
      | Some il => loc_contains il l && negb (match v_tab v with Some tl => loc_contains tl l | None => false end)
      | None => false
      end) then false else
  match v_refer v with
  | Some (EFunc _ _ _ _ _ fl _ _) => if loc_contains fl (v_loc v) then true else negb (loc_contains fl l)
  | Some (EName _ nl) => negb (loc_contains nl l)
  | Some (ECall _ _ _ cl) => negb (loc_contains cl l)
  | _ => true
  end.

Inductive action :=
| APush | APop
| AAdd (v : var)
| ARead (n : name) (l : loc) (flv : N) (supp circ : bool)
| AWrite (n : name) (l : loc) (flv slv : N) (rhs : option exp).

(* ------------------------------------------------------------------ layer 1: linearisation *)
Record ign := mkIgn { ig_str : name; ig_line : Z; ig_inif : bool; ig_assign : name }.   (* Analysis.ignoreInfo *)
Definition ign0 : ign := mkIgn [] 0 false [].
Definition set_str (g : ign) (s : name) (ln : Z) : ign := mkIgn s ln (ig_inif g) (ig_assign g).
Definition clr_str (g : ign) : ign := mkIgn [] (ig_line g) (ig_inif g) (ig_assign g).
Definition set_inif (g : ign) (b : bool) : ign := mkIgn (ig_str g) (ig_line g) b (ig_assign g).
Definition set_assign (g : ign) (s : name) : ign := mkIgn (ig_str g) (ig_line g) (ig_inif g) s.
Definition nonempty (s : list N) : bool := match s with [] => false | _ => true end.

Definition tk_is (a b : tkind) : bool := tk_eqb a b.

(* ignoreCircleDefine, syntactic part: the read is an operand of ==, ~=, and, or *)
Definition circ_of (n : name) (bp : option exp) : bool :=
  match bp with
  | Some (EBinop op e1 e2 _) =>
    (tk_is op TkOpEq || tk_is op TkOpNe || tk_is op TkOpAnd || tk_is op TkOpOr)
    && (name_eqb n (simple_value (exp_name e1)) || name_eqb n (simple_value (exp_name e2)))
  | _ => false
  end.

Definition param_var (n : name) (l : loc) : var := mkVar n l true false false None false [].

Fixpoint adds (ns : list name) (ls : list loc) : list action :=
  match ns, ls with
  | n :: ns', l :: ls' => AAdd (param_var n l) :: adds ns' ls'
  | _, _ => []
  end.

(* variables created by cgLocalVarDeclStat for the names beyond the initialisers *)
Fixpoint local_rest (il : option loc) (ns : list name) (ls : list loc) (ats : list attr) (lastcall : option exp)
  : list action :=
  match ns, ls, ats with
  | n :: ns', l :: ls', a :: ats' =>
    AAdd (mkVar10 n l false (match a with AttrClose => true | _ => false end) false lastcall
                (match lastcall with Some _ => false | None => true end) [] il None)
    :: local_rest il ns' ls' ats' lastcall
  | _, _, _ => []
  end.

(* cgLocalVarDeclStat (since fixes/C07-multi-local-order.diff, BEFORE fixes/C20-local-surplus.diff; now every
   expression is visited): the expressions that are visited - all of them up to
   and including the first one beyond the names - and, afterwards, the variables created for the names that have an
   initialiser (then local_rest for the others) *)
Fixpoint local_visited (ns : list name) (ls : list loc) (ats : list attr) (es : list exp) {struct es} : list exp :=
  match es with
  | e :: es' =>
    e :: match ns, ls, ats with
         | _ :: ns', _ :: ls', _ :: ats' => local_visited ns' ls' ats' es'
         | _, _, _ => []
         end
  | [] => []
  end.

Fixpoint local_add_acts (il : option loc) (ns : list name) (ls : list loc) (ats : list attr) (es : list exp)
  {struct es} : list action :=
  match es with
  | e :: es' =>
    match ns, ls, ats with
    | n :: ns', l :: ls', a :: ats' =>
      let v := mkVar10 n l false (match a with AttrClose => true | _ => false end) (is_func_exp e) (Some e)
                       (local_refer_empty n e) [] il (Scope.tab_of_exp e) in
      match es' with
      | [] => AAdd v :: local_rest il ns' ls' ats' (if is_call_exp e then Some e else None)
      | _ => AAdd v :: local_add_acts il ns' ls' ats' es'
      end
    | _, _, _ => []
    end
  | [] => local_rest il ns ls ats None
  end.

(* conditions and blocks of an `if` statement alternate: cond1, block1, cond2, block2, ... *)
Fixpoint alt_thread {S B} (fs hs : list (S -> list B * S)) (s : S) : list B * S :=
  match fs, hs with
  | f :: fs', h :: hs' =>
    let (a1, s1) := f s in let (a2, s2) := h s1 in let (a3, s3) := alt_thread fs' hs' s2 in (a1 ++ a2 ++ a3, s3)
  | _, _ => ([], s)
  end.

(* cgAssignStat: for every variable its expression (if any) is visited, then the variable is resolved;
   surplus expressions are visited last. `es` pairs each expression with its own traversal. *)
Fixpoint assign_thread (flv slv : N) (vs : list exp) (es : list (exp * (ign -> list action * ign))) (g : ign)
  : list action * ign :=
  match vs with
  | v :: vs' =>
    let '(a1, g1, rhs) :=
      match es with
      | (e, te) :: _ =>
        let g0 := match v, e with
                  | EName n _, EName m ml => if name_eqb m n then set_str g n (el ml) else set_assign g (sub_key (exp_name v))
                  | _, _ => set_assign g (sub_key (exp_name v))
                  end in
        let (a, g') := te g0 in (a, set_assign (clr_str g') [], Some e)
      | [] => ([], g, None)
      end in
    let w := match v with EName n l => [AWrite n l flv slv rhs] | _ => [] end in
    let (a2, g2) := assign_thread flv slv vs' (tl es) g1 in
    (a1 ++ w ++ a2, g2)
  | [] => thread (fun x g0 => snd x g0) es g
  end.

Fixpoint tr_exp (e : exp) (bp : option exp) (flv : N) (g : ign) {struct e} : list action * ign :=
  match e with
  | EParens e1 _ => tr_exp e1 bp flv g
  | EName n l => ([ARead n l flv (name_eqb (ig_str g) n && (ig_line g =? sl l)%Z) (circ_of n bp)], g)
  | EFunc _ _ pars plocs b _ _ _ =>
    let (a, g1) := tr_block b (flv + 1) 0 g in
    (APush :: adds pars plocs ++ a ++ [APop], g1)
  | EUnop op e1 l =>
    let g1 := if tk_is op TkOpNot && ig_inif g
              then (let k := sub_key (exp_name e1) in if nonempty k then set_str g k (el l) else g) else g in
    let (a, g2) := tr_exp e1 None flv g1 in (a, clr_str g2)
  | EBinop op e1 e2 l =>
    let g1 := if tk_is op TkOpEq && ig_inif g && is_nil_exp e2
              then (let k := sub_key (exp_name e1) in if nonempty k then set_str g k (sl l) else g) else g in
    let g2 := if tk_is op TkOpOr && negb (ig_inif g1) && nonempty (ig_assign g1)
              then (let k := sub_key (exp_name e1) in if name_eqb k (ig_assign g1) then set_str g1 k (sl l) else g1) else g1 in
    let (a1, g3) := tr_exp e1 (Some e) flv g2 in
    let (a2, g4) := tr_exp e2 (Some e) flv g3 in
    (a1 ++ a2, clr_str g4)
  | ECall p _ args _ =>
    let (a1, g1) := tr_exp p None flv g in
    let (a2, g2) := thread (fun x g0 => tr_exp x None flv g0) args g1 in
    (a1 ++ a2, g2)
  | _ => ([], g)
  end
with tr_stat (s : stat) (flv slv : N) (g : ign) {struct s} : list action * ign :=
  match s with
  | SDo b _ =>
    let (a, g1) := tr_block b flv (slv + 1) g in (APush :: a ++ [APop], g1)
  | SCall e => tr_exp e None flv g
  | SWhile e b _ =>
    let (a1, g1) := tr_exp e None flv g in
    let (a2, g2) := tr_block b flv (slv + 1) g1 in
    (a1 ++ APush :: a2 ++ [APop], g2)
  | SRepeat b e _ =>
    let (a1, g1) := tr_block b flv (slv + 1) g in
    let (a2, g2) := tr_exp e None flv g1 in
    (APush :: a1 ++ a2 ++ [APop], g2)
  | SIf es bs _ =>
    alt_thread
      (map (fun e g0 => tr_exp e None flv (set_inif g0 true)) es)
      (map (fun b g0 => let (a2, g2) := tr_block b flv (slv + 1) (set_inif g0 false) in (APush :: a2 ++ [APop], g2)) bs) g
  | SForNum n vl e1 e2 e3 b _ =>
    let (a1, g1) := tr_exp e1 None flv g in
    let (a2, g2) := tr_exp e2 None flv g1 in        (* init, limit, step (fix C05-for-step-order; before: step first) *)
    let (a3, g3) := tr_exp e3 None flv g2 in
    let (a4, g4) := tr_block b flv (slv + 1) g3 in
    (APush :: a1 ++ a2 ++ a3 ++ AAdd (param_var n vl) :: a4 ++ [APop], g4)
  | SForIn ns ls es b _ =>
    let (a1, g1) := thread (fun x g0 => tr_exp x None flv g0) es g in
    let (a2, g2) := tr_block b flv (slv + 1) g1 in
    (APush :: a1 ++ adds ns ls ++ a2 ++ [APop], g2)
  | SAssign vars es _ =>
    (* for every variable: its expression (if any) is visited, then the variable is resolved; surplus expressions last *)
    assign_thread flv slv vars (map (fun e => (e, fun g0 => tr_exp e None flv g0)) es) g
  | SLocal ns ls ats es l =>
    (* all the initialisers first - EVERY one, those beyond the names included (fixes/C20-local-surplus.diff; before:
       the loop ended after the first initialiser beyond the names) -, then the names (before
       fixes/C07-multi-local-order.diff: name i right after initialiser i, so a later initialiser saw the earlier
       names of the statement) *)
    let (a1, g1) := thread (fun x g0 => tr_exp x None flv g0) es g in
    (a1 ++ local_add_acts (Scope.init_loc ns ls es l) ns ls ats es, g1)
  | SLocalFunc n nl f _ =>
    let (a, g1) := tr_exp f None flv g in
    (AAdd (mkVar n nl false false true (Some f) false []) :: a, g1)
  | _ => ([], g)
  end
with tr_block (b : block) (flv slv : N) (g : ign) {struct b} : list action * ign :=
  match b with
  | Block ss ret _ =>
    let (a1, g1) := thread (fun s g0 => tr_stat s flv slv g0) ss g in
    let (a2, g2) := match ret with
                    | Some es => thread (fun x g0 => tr_exp x None flv g0) es g1
                    | None => ([], g1)
                    end in
    (a1 ++ a2, g2)
  end.

(* ------------------------------------------------------------------ the linearisation with the repairs of the binder
   family as a parameter (Model/Scope.v `bfixes`: bf_for_order, bf_multi_local); same text as tr_exp / tr_stat /
   tr_block, `tr_*_fx Scope.deployed` is convertible with them (Proofs/UsageWitness.v) *)
Section UsageFx.
Variable fx : Scope.bfixes.
Fixpoint tr_exp_fx (e : exp) (bp : option exp) (flv : N) (g : ign) {struct e} : list action * ign :=
  match e with
  | EParens e1 _ => tr_exp_fx e1 bp flv g
  | EName n l => ([ARead n l flv (name_eqb (ig_str g) n && (ig_line g =? sl l)%Z) (circ_of n bp)], g)
  | EFunc _ _ pars plocs b _ _ _ =>
    let (a, g1) := tr_block_fx b (flv + 1) 0 g in
    (APush :: adds pars plocs ++ a ++ [APop], g1)
  | EUnop op e1 l =>
    let g1 := if tk_is op TkOpNot && ig_inif g
              then (let k := sub_key (exp_name e1) in if nonempty k then set_str g k (el l) else g) else g in
    let (a, g2) := tr_exp_fx e1 None flv g1 in (a, clr_str g2)
  | EBinop op e1 e2 l =>
    let g1 := if tk_is op TkOpEq && ig_inif g && is_nil_exp e2
              then (let k := sub_key (exp_name e1) in if nonempty k then set_str g k (sl l) else g) else g in
    let g2 := if tk_is op TkOpOr && negb (ig_inif g1) && nonempty (ig_assign g1)
              then (let k := sub_key (exp_name e1) in if name_eqb k (ig_assign g1) then set_str g1 k (sl l) else g1) else g1 in
    let (a1, g3) := tr_exp_fx e1 (Some e) flv g2 in
    let (a2, g4) := tr_exp_fx e2 (Some e) flv g3 in
    (a1 ++ a2, clr_str g4)
  | ECall p _ args _ =>
    let (a1, g1) := tr_exp_fx p None flv g in
    let (a2, g2) := thread (fun x g0 => tr_exp_fx x None flv g0) args g1 in
    (a1 ++ a2, g2)
  | _ => ([], g)
  end
with tr_stat_fx (s : stat) (flv slv : N) (g : ign) {struct s} : list action * ign :=
  match s with
  | SDo b _ =>
    let (a, g1) := tr_block_fx b flv (slv + 1) g in (APush :: a ++ [APop], g1)
  | SCall e => tr_exp_fx e None flv g
  | SWhile e b _ =>
    let (a1, g1) := tr_exp_fx e None flv g in
    let (a2, g2) := tr_block_fx b flv (slv + 1) g1 in
    (a1 ++ APush :: a2 ++ [APop], g2)
  | SRepeat b e _ =>
    let (a1, g1) := tr_block_fx b flv (slv + 1) g in
    let (a2, g2) := tr_exp_fx e None flv g1 in
    (APush :: a1 ++ a2 ++ [APop], g2)
  | SIf es bs _ =>
    alt_thread
      (map (fun e g0 => tr_exp_fx e None flv (set_inif g0 true)) es)
      (map (fun b g0 => let (a2, g2) := tr_block_fx b flv (slv + 1) (set_inif g0 false) in (APush :: a2 ++ [APop], g2)) bs) g
  | SForNum n vl e1 e2 e3 b _ =>
    if Scope.bf_for_order fx then
      let (a1, g1) := tr_exp_fx e1 None flv g in
      let (a2, g2) := tr_exp_fx e2 None flv g1 in
      let (a3, g3) := tr_exp_fx e3 None flv g2 in
      let (a4, g4) := tr_block_fx b flv (slv + 1) g3 in
      (APush :: a1 ++ a2 ++ a3 ++ AAdd (param_var n vl) :: a4 ++ [APop], g4)
    else
      let (a1, g1) := tr_exp_fx e1 None flv g in
      let (a3, g2) := tr_exp_fx e3 None flv g1 in        (* StepExp before LimitExp *)
      let (a2, g3) := tr_exp_fx e2 None flv g2 in
      let (a4, g4) := tr_block_fx b flv (slv + 1) g3 in
      (APush :: a1 ++ a3 ++ a2 ++ AAdd (param_var n vl) :: a4 ++ [APop], g4)
  | SForIn ns ls es b _ =>
    let (a1, g1) := thread (fun x g0 => tr_exp_fx x None flv g0) es g in
    let (a2, g2) := tr_block_fx b flv (slv + 1) g1 in
    (APush :: a1 ++ adds ns ls ++ a2 ++ [APop], g2)
  | SAssign vars es _ =>
    (* for every variable: its expression (if any) is visited, then the variable is resolved; surplus expressions last *)
    assign_thread flv slv vars (map (fun e => (e, fun g0 => tr_exp_fx e None flv g0)) es) g
  | SLocal ns ls ats es l =>
    let il := if Scope.bf_own_init fx then Scope.init_loc ns ls es l else None in
    if Scope.bf_multi_local fx then
    (* all the initialisers first, then the names (before fixes/C07-multi-local-order.diff: name i right after
         initialiser i, so a later initialiser saw the earlier names of the statement) *)
      if Scope.bf_surplus fx then
        let (a1, g1) := thread (fun x g0 => tr_exp_fx x None flv g0) es g in
        (a1 ++ local_add_acts il ns ls ats es, g1)
      else
        let (a1, g1) :=
          (* = thread (fun x g0 => tr_exp_fx x None flv g0) (local_visited ns ls ats es) g, written as a structural loop *)
          (fix go (ns : list name) (ls : list loc) (ats : list attr) (es : list exp) (g : ign) {struct es}
             : list action * ign :=
             match es with
             | e :: es' =>
               let (a1, g1) := tr_exp_fx e None flv g in
               match ns, ls, ats with
               | _ :: ns', _ :: ls', _ :: ats' => let (a2, g2) := go ns' ls' ats' es' g1 in (a1 ++ a2, g2)
               | _, _, _ => (a1 ++ [], g1)          (* i >= nNames: break, the remaining expressions are never visited *)
               end
             | [] => ([], g)
             end) ns ls ats es g in
      (a1 ++ local_add_acts il ns ls ats es, g1)
    else
      (fix go (ns : list name) (ls : list loc) (ats : list attr) (es : list exp) (g : ign) {struct es} : list action * ign :=
         match es with
         | e :: es' =>
           let (a1, g1) := tr_exp_fx e None flv g in
           match ns, ls, ats with
           | n :: ns', l :: ls', a :: ats' =>
             let v := mkVar10 n l false (match a with AttrClose => true | _ => false end) (is_func_exp e) (Some e)
                              (local_refer_empty n e) [] il (Scope.tab_of_exp e) in
             match es' with
             | [] => (a1 ++ AAdd v :: local_rest il ns' ls' ats' (if is_call_exp e then Some e else None), g1)
             | _ => let (a2, g2) := go ns' ls' ats' es' g1 in (a1 ++ AAdd v :: a2, g2)
             end
           | _, _, _ =>                     (* i >= nNames: break, the remaining expressions are never visited;
                                               with fixes/C20-local-surplus.diff: continue, they are visited *)
             if Scope.bf_surplus fx then
               let (a2, g2) := thread (fun x g0 => tr_exp_fx x None flv g0) es' g1 in (a1 ++ a2, g2)
             else (a1, g1)
           end
         | [] => (local_rest il ns ls ats None, g)
         end) ns ls ats es g
  | SLocalFunc n nl f _ =>
    let (a, g1) := tr_exp_fx f None flv g in
    (AAdd (mkVar n nl false false true (Some f) false []) :: a, g1)
  | _ => ([], g)
  end
with tr_block_fx (b : block) (flv slv : N) (g : ign) {struct b} : list action * ign :=
  match b with
  | Block ss ret _ =>
    let (a1, g1) := thread (fun s g0 => tr_stat_fx s flv slv g0) ss g in
    let (a2, g2) := match ret with
                    | Some es => thread (fun x g0 => tr_exp_fx x None flv g0) es g1
                    | None => ([], g1)
                    end in
    (a1 ++ a2, g2)
  end.

End UsageFx.

Definition trace_fx (fx : Scope.bfixes) (b : block) : list action :=
  APush :: fst (tr_block_fx fx b 0 0 ign0) ++ [APop].

(* HandleFirstTraverseAST / HandleTermTraverseAST: the main scope of the file, cgBlock, exitScope *)
Definition trace (b : block) : list action := APush :: fst (tr_block b 0 0 ign0) ++ [APop].

(* ------------------------------------------------------------------ layer 2: the scope machine *)
Section Machine.
  Variable filt : bool.       (* true = the code (IsCorrectPosition applied); false = plain newest-first lookup *)
  Variable c : cfg.

  Definition hit (n : name) (l : loc) (v : var) : bool :=
    name_eqb (v_name v) n && (if filt then correct_position v l else true).

  (* ScopeInfo.FindLocVar *)
  Fixpoint find_st (p : var -> bool) (st : stack) : option var :=
    match st with
    | [] => None
    | sc :: r => match find p sc with Some v => Some v | None => find_st p r end
    end.
  Fixpoint upd_sc (p : var -> bool) (f : var -> var) (sc : scope) : scope :=
    match sc with
    | [] => []
    | v :: r => if p v then f v :: r else v :: upd_sc p f r
    end.
  Fixpoint upd_st (p : var -> bool) (f : var -> var) (st : stack) : stack :=
    match st with
    | [] => []
    | sc :: r => if existsb p sc then upd_sc p f sc :: r else sc :: upd_st p f r
    end.

  Definition mark (v : var) : var :=
    mkVar10 (v_name v) (v_loc v) true (v_close v) (v_rfunc v) (v_refer v) (v_empty v) (v_noassign v)
            (v_init v) (v_tab v).

  (* cgAssignStat on a local that was found: re-point an empty value, remember the assignment while unused *)
  Definition assign_to (l : loc) (rhs : option exp) (v : var) : var :=
    let r := repoint (v_name v) rhs (v_refer v, v_empty v) in
    mkVar10 (v_name v) (v_loc v) (v_used v) (v_close v) (v_rfunc v) (fst r) (snd r)
            (if negb (v_used v) && negb (loc_initial l) then v_noassign v ++ [l] else v_noassign v)
            (v_init v) (v_tab v).

  Definition add_var (v : var) (st : stack) : stack :=
    match st with sc :: r => (v :: sc) :: r | [] => [[v]] end.

  Definition binding_of (o : option var) : binding :=
    match o with Some v => BLocal (v_loc v) | None => BGlobal end.

  (* the part of a step that is the same in every pass *)
  Definition step_stack (a : action) (st : stack) : stack :=
    match a with
    | APush => [] :: st
    | APop => tl st
    | AAdd v => add_var v st
    | ARead n l _ _ _ => upd_st (hit n l) mark st
    | AWrite n l _ _ rhs => upd_st (hit n l) (assign_to l rhs) st
    end.

  (* what the traversal resolves at this step *)
  Definition step_log (a : action) (st : stack) : list occ :=
    match a with
    | ARead n l flv _ _ => [ORead n l (binding_of (find_st (hit n l) st)) flv]
    | AWrite n l flv slv rhs => [OWrite n l (binding_of (find_st (hit n l) st)) flv slv rhs]
    | _ => []
    end.

  (* checkLocVarCall on the scope being left *)
  Definition sweep_var (v : var) : list diag :=
    if name_eqb (v_name v) s_us || name_eqb (v_name v) s_G || name_mem (v_name v) (c_locnouse c) then []
    else if v_used v || v_close v then []
    else if v_rfunc v then []
    else if sys_alias c (v_refer v) then []
    else (4%N, v_loc v) :: map (fun l => (17%N, l)) (v_noassign v).
  Definition sweep (sc : scope) : list diag := flat_map sweep_var sc.

  (* ---- first pass *)
  (* FileResult.GlobalMaps, only the newest entry of each name matters (FindGlobalLimitVar returns at the head) *)
  Definition gent := (name * (N * N * loc))%type.
  Fixpoint ghead (n : name) (gm : list gent) : option (N * N * loc) :=
    match gm with
    | [] => None
    | (m, x) :: r => if name_eqb m n then Some x else ghead n r
    end.
  (* FindGlobalLimitVar *)
  Definition glimit_found (x : N * N * loc) (flv slv : N) (l : loc) : bool :=
    let '(f0, s0, l0) := x in
    if (flv <? f0)%N then false else if (f0 <? flv)%N then true
    else if (slv <? s0)%N then false else if (s0 <? slv)%N then true
    else if (sl l <? sl l0)%Z then false else if (sl l0 <? sl l)%Z then true
    else negb (sc l <? sc l0)%Z.

  Definition step_gmap (a : action) (st : stack) (gm : list gent) : list gent :=
    match a with
    | AWrite n l flv slv _ =>
      match find_st (hit n l) st with
      | Some _ => gm
      | None => match ghead n gm with
                | Some x => if glimit_found x flv slv l then gm else (n, (flv, slv, l)) :: gm
                | None => (n, (flv, slv, l)) :: gm
                end
      end
    | _ => gm
    end.

  Definition step_diag1 (a : action) (st : stack) : list diag :=
    match a with
    | APop => match st with sc :: _ => sweep sc | [] => [] end
    | _ => []
    end.

  Record st1 := mkSt1 { s1_stack : stack; s1_gmap : list gent; s1_diags : list diag; s1_log : list occ }.
  Definition step1 (s : st1) (a : action) : st1 :=
    mkSt1 (step_stack a (s1_stack s)) (step_gmap a (s1_stack s) (s1_gmap s))
          (s1_diags s ++ step_diag1 a (s1_stack s)) (s1_log s ++ step_log a (s1_stack s)).
  Definition run1 (tr : list action) : st1 := fold_left step1 tr (mkSt1 [] [] [] []).

  (* ---- third pass *)
  Variable own : list gent.      (* the first-pass GlobalMaps of this file *)
  Variable ws : list name.       (* AnalysisThird.GlobalVarMaps: every file's global names *)
  Variable oth : list name.      (* definedInOtherFile (fixes/C07-later-elsewhere.diff): the global names of the OTHER files
                                    (first-pass tables); [] = the code before that repair, which did not ask *)

  (* findNameStr -> findGlobalVar, third term *)
  Definition step_diag3 (a : action) (st : stack) (sofar : list name) : list diag :=
    match a with
    | ARead n l flv supp circ =>
      match find_st (hit n l) st with
      | Some _ => []
      | None =>
        if name_mem n (c_ignored c) then [] else if supp then [] else if name_mem n (c_luain c) then []
        else if (flv =? 0)%N then
          if name_mem n sofar then []
          else match ghead n own with
               | Some (_, _, hl) => if circ && (sl l =? sl hl)%Z then [] else if name_mem n oth then [] else [(3%N, l)]
               | None => if name_mem n ws then [] else [(2%N, l)]
               end
        else match ghead n own with
             | Some _ => []
             | None => if name_mem n ws then [] else [(2%N, l)]
             end
      end
    | _ => []
    end.
  Definition step_sofar (a : action) (st : stack) (sofar : list name) : list name :=
    match a with
    | AWrite n l _ _ _ => match find_st (hit n l) st with Some _ => sofar | None => n :: sofar end
    | _ => sofar
    end.

  Record st3 := mkSt3 { s3_stack : stack; s3_sofar : list name; s3_diags : list diag }.
  Definition step3 (s : st3) (a : action) : st3 :=
    mkSt3 (step_stack a (s3_stack s)) (step_sofar a (s3_stack s) (s3_sofar s))
          (s3_diags s ++ step_diag3 a (s3_stack s) (s3_sofar s)).
  Definition run3 (tr : list action) : st3 := fold_left step3 tr (mkSt3 [] [] []).

  (* every lookup of the run saw no same-named variable rejected by IsCorrectPosition *)
  Definition look_clean (a : action) (st : stack) : bool :=
    match a with
    | ARead n l _ _ _ | AWrite n l _ _ _ =>
      forallb (forallb (fun v => negb (name_eqb (v_name v) n) || correct_position v l)) st
    | _ => true
    end.
  Fixpoint clean_run (tr : list action) (st : stack) : bool :=
    match tr with
    | [] => true
    | a :: r => look_clean a st && clean_run r (step_stack a st)
    end.
End Machine.

(* ------------------------------------------------------------------ the fragment (T1) *)
Definition reserved : list name :=
  [ [115;101;108;102];                   (* self *)
    [95;71];                             (* _G *)
    [95;69;78;86];                       (* _ENV *)
    [114;101;113;117;105;114;101];       (* require *)
    [100;111;102;105;108;101];           (* dofile *)
    [105;109;112;111;114;116] ].         (* import *)
Definition name_ok (n : name) : bool := negb (name_mem n reserved) && nonempty n.

Fixpoint frag_exp (e : exp) : bool :=
  match e with
  | ENil _ | ETrue _ | EFalse _ | EVararg _ | EInt _ _ | EFloat _ _ | EStr _ _ => true
  | EName n _ => name_ok n
  | EParens e1 _ => frag_exp e1
  | EUnop _ e1 _ => frag_exp e1
  | EBinop _ e1 e2 _ => frag_exp e1 && frag_exp e2
  | ECall p None args _ => frag_exp p && forallb frag_exp args
  | EFunc _ _ pars plocs b _ _ false =>
    forallb name_ok pars && (length pars =? length plocs)%nat && frag_block b
  | _ => false
  end
with frag_stat (s : stat) : bool :=
  match s with
  | SBreak => true
  | SDo b _ => frag_block b
  | SCall e => frag_exp e
  | SWhile e b _ => frag_exp e && frag_block b
  | SRepeat b e _ => frag_block b && frag_exp e
  | SIf es bs _ =>
    (length es =? length bs)%nat && forallb frag_exp es && forallb frag_block bs
  | SForNum n _ e1 e2 e3 b _ => name_ok n && frag_exp e1 && frag_exp e2 && frag_exp e3 && frag_block b
  | SForIn ns ls es b _ =>
    forallb name_ok ns && (length ns =? length ls)%nat && forallb frag_exp es && frag_block b
  | SAssign [EName n _] [e] _ => name_ok n && frag_exp e
  | SLocal ns ls ats es _ =>
    forallb name_ok ns && (length ns =? length ls)%nat && (length ns =? length ats)%nat
    && negb (length ns =? 0)%nat && forallb frag_exp es      (* any number of initialisers: those beyond the names are
                                                                analysed too since fixes/C20-local-surplus.diff *)
  | SLocalFunc n _ f _ => name_ok n && is_func_exp f && frag_exp f
  | _ => false
  end
with frag_block (b : block) : bool :=
  match b with
  | Block ss ret _ => forallb frag_stat ss && match ret with Some es => forallb frag_exp es | None => true end
  end.
Definition in_fragment (b : block) : bool := frag_block b.

(* ------------------------------------------------------------------ class predicates (negated guards) *)
(* does the name occur anywhere in the expression / statement (read, assigned or declared) *)
Fixpoint mentions_exp (n : name) (e : exp) : bool :=
  match e with
  | EName m _ => name_eqb m n
  | EParens e1 _ => mentions_exp n e1
  | EUnop _ e1 _ => mentions_exp n e1
  | EBinop _ e1 e2 _ => mentions_exp n e1 || mentions_exp n e2
  | ECall p _ args _ => mentions_exp n p || existsb (mentions_exp n) args
  | EFunc _ _ pars _ b _ _ _ => name_mem n pars || mentions_block n b
  | ETable ks vs _ => existsb (fun k => match k with Some k' => mentions_exp n k' | None => false end) ks || existsb (mentions_exp n) vs
  | EIndex p k _ => mentions_exp n p || mentions_exp n k
  | _ => false
  end
with mentions_stat (n : name) (s : stat) : bool :=
  match s with
  | SDo b _ => mentions_block n b
  | SCall e => mentions_exp n e
  | SWhile e b _ => mentions_exp n e || mentions_block n b
  | SRepeat b e _ => mentions_block n b || mentions_exp n e
  | SIf es bs _ => existsb (mentions_exp n) es || existsb (mentions_block n) bs
  | SForNum m _ e1 e2 e3 b _ => name_eqb m n || mentions_exp n e1 || mentions_exp n e2 || mentions_exp n e3 || mentions_block n b
  | SForIn ns _ es b _ => name_mem n ns || existsb (mentions_exp n) es || mentions_block n b
  | SAssign vars es _ => existsb (mentions_exp n) vars || existsb (mentions_exp n) es
  | SLocal ns _ _ es _ => name_mem n ns || existsb (mentions_exp n) es
  | SLocalFunc m _ f _ => name_eqb m n || mentions_exp n f
  | _ => false
  end
with mentions_block (n : name) (b : block) : bool :=
  match b with
  | Block ss ret _ => existsb (mentions_stat n) ss || match ret with Some es => existsb (mentions_exp n) es | None => false end
  end.

(* `local a, b = e1, e2`: a later initialiser mentions an earlier name of the same statement *)
Fixpoint multi_local_bad (ns : list name) (es : list exp) : bool :=
  match ns, es with
  | n :: ns', _ :: es' => existsb (mentions_exp n) es' || multi_local_bad ns' es'
  | _, _ => false
  end.

Fixpoint mlo_exp (e : exp) : bool :=
  match e with
  | EParens e1 _ => mlo_exp e1
  | EUnop _ e1 _ => mlo_exp e1
  | EBinop _ e1 e2 _ => mlo_exp e1 || mlo_exp e2
  | ECall p _ args _ => mlo_exp p || existsb mlo_exp args
  | EFunc _ _ _ _ b _ _ _ => mlo_block b
  | _ => false
  end
with mlo_stat (s : stat) : bool :=
  match s with
  | SDo b _ => mlo_block b
  | SCall e => mlo_exp e
  | SWhile e b _ => mlo_exp e || mlo_block b
  | SRepeat b e _ => mlo_block b || mlo_exp e
  | SIf es bs _ => existsb mlo_exp es || existsb mlo_block bs
  | SForNum _ _ e1 e2 e3 b _ => mlo_exp e1 || mlo_exp e2 || mlo_exp e3 || mlo_block b
  | SForIn _ _ es b _ => existsb mlo_exp es || mlo_block b
  | SAssign _ es _ => existsb mlo_exp es
  | SLocal ns _ _ es _ => multi_local_bad ns es || existsb mlo_exp es
  | SLocalFunc _ _ f _ => mlo_exp f
  | _ => false
  end
with mlo_block (b : block) : bool :=
  match b with
  | Block ss ret _ => existsb mlo_stat ss || match ret with Some es => existsb mlo_exp es | None => false end
  end.
Definition multi_local_order (b : block) : bool := mlo_block b.
Definition classA_ok (b : block) : bool := negb (multi_local_order b).

(* ------------------------------------------------------------------ whole-workspace pipeline *)
Section Pipeline.
  Variable gbk_runes : list N -> Z.
  Variable c : cfg.

  Inductive parsed := PFile (b : block) | PSkip (why : N).   (* 1 = syntax errors, 2 = too many, 3 = fault *)
  Definition parse_file (bs : list N) : parsed :=
    match parse_bytes gbk_runes classify_tok bs with
    | Ok (PR b [] []) => PFile b
    | Ok (PR _ _ _) => PSkip 1
    | Ok PRTooMany => PSkip 2
    | _ => PSkip 3
    end.

  Definition first_pass (b : block) : st1 := run1 true c (trace b).
  Definition gnames (gm : list gent) : list name := map fst gm.

  (* diagnostics of one file given the first-pass global tables of all files (all = every file's global names, others =
     those of the other files) *)
  Definition go_diags (b : block) (all others : list name) : list diag :=
    let p1 := first_pass b in
    s1_diags p1 ++ s3_diags (run3 true c (s1_gmap p1) all others (trace b)).
  (* the same for a variant of the code (before fixes/C07-later-elsewhere.diff the other files were not asked) *)
  Definition go_diags_fx (fx : Scope.bfixes) (b : block) (all others : list name) : list diag :=
    let p1 := run1 true c (trace_fx fx b) in
    s1_diags p1 ++ s3_diags (run3 true c (s1_gmap p1) all (if Scope.bf_later_else fx then others else []) (trace_fx fx b)).

  (* what the property demands for the same file; `others` = global names of the other files *)
  Definition supp_locs (b : block) : list loc :=
    flat_map (fun a => match a with ARead _ l _ true _ => [l] | _ => [] end) (trace b).
  Definition circ_locs (b : block) : list loc :=
    flat_map (fun a => match a with ARead _ l _ _ true => [l] | _ => [] end) (trace b).
  Definition circ_ok (b : block) (own : list gent) (n : name) (l : loc) : bool :=
    loc_mem l (circ_locs b)
    && match ghead n own with Some (_, _, hl) => (sl l =? sl hl)%Z | None => false end.
  Definition spec_diags (b : block) (others : list name) : list diag :=
    spec_unused c b
    ++ spec_undefined c others (fun l => loc_mem l (supp_locs b)) (circ_ok b (s1_gmap (first_pass b))) b.

  Definition pos_clean (b : block) : bool := clean_run true (trace b) [].

  (* class (REPAIRED, fixes/C07-later-elsewhere.diff; the predicate describes the code before it): a top-level read of a
     global that this file defines only later while another file defines it too (the code reported type 3, the
     property's "only definition" reading expects nothing) *)
  Fixpoint le_scan (own others sofar : list name) (os : list occ) : bool :=
    match os with
    | [] => false
    | ORead n l BGlobal flv :: r =>
      ((flv =? 0) && negb (name_mem n sofar) && name_mem n own && name_mem n others
       && negb (name_mem n (c_ignored c) || name_mem n (c_luain c))) || le_scan own others sofar r
    | OWrite n _ BGlobal _ _ _ :: r => le_scan own others (n :: sofar) r
    | _ :: r => le_scan own others sofar r
    end.
  Definition later_elsewhere (b : block) (others : list name) : bool :=
    let os := file_occs b in le_scan (gdef_names os) others [] os.
End Pipeline.
