(* AST of langserver/check/compiler/ast (Loc on the same nodes as in Go). *)
From Coq Require Import List NArith ZArith Bool.
From LH Require Import Base.Bytes Model.Lexer.
Import ListNotations.

Inductive numcls := NInt (v : Z) | NFloat | NBad.

Inductive attr := AttrReg | AttrConst | AttrClose.     (* VDKREG / RDKCONST / RDKTOCLOSE *)

Inductive exp :=
| ENil (l : loc)
| EBad (l : loc)
| ETrue (l : loc)
| EFalse (l : loc)
| EVararg (l : loc)
| EInt (v : Z) (l : loc)
| EFloat (txt : list N) (l : loc)          (* value not modelled; txt = token text *)
| EStr (s : list N) (l : loc)
| EUnop (op : tkind) (e : exp) (l : loc)
| EBinop (op : tkind) (e1 e2 : exp) (l : loc)
| ETable (ks : list (option exp)) (vs : list exp) (l : loc)
| EFunc (cls fname : list N) (pars : list (list N)) (parlocs : list loc) (b : block) (l : loc) (vararg colon : bool)
| EName (n : list N) (l : loc)
| EParens (e : exp) (l : loc)
| EIndex (p k : exp) (l : loc)
| ECall (p : exp) (name : option (list N * loc)) (args : list exp) (l : loc)
with stat :=
| SBreak
| SLabel (n : list N) (l : loc)
| SGoto (n : list N) (l : loc)
| SDo (b : block) (l : loc)
| SCall (e : exp)
| SIf (es : list exp) (bs : list block) (l : loc)
| SWhile (e : exp) (b : block) (l : loc)
| SRepeat (b : block) (e : exp) (l : loc)
| SForNum (name : list N) (varloc : loc) (init limit step : exp) (b : block) (l : loc)
| SForIn (names : list (list N)) (locs : list loc) (es : list exp) (b : block) (l : loc)
| SAssign (vars es : list exp) (l : loc)
| SLocal (names : list (list N)) (locs : list loc) (attrs : list attr) (es : list exp) (l : loc)
| SLocalFunc (name : list N) (nameloc : loc) (f : exp) (l : loc)
with block :=
| Block (stats : list stat) (ret : option (list exp)) (l : loc).

Definition block_stats (b : block) := match b with Block s _ _ => s end.
Definition block_ret (b : block) := match b with Block _ r _ => r end.
Definition block_loc (b : block) := match b with Block _ _ l => l end.
Definition set_block_loc (b : block) (l : loc) := match b with Block s r _ => Block s r l end.
