(* C10 - model of how LuaHelper runs requests concurrently.

   Mirrors:
   * github.com/yinfei8/jrpc2 v0.13.1 server.go: serve/nextRequest/dispatch/waitForBarrier/invoke:
       - messages are taken from the inbound queue one batch at a time (LSP clients send single messages);
       - a batch is dispatched only after every notification issued EARLIER has completed (nbar); requests do not
         hold back later messages;
       - every dispatched message gets its own goroutine, which first acquires one of `Concurrency` semaphore slots;
   * langserver/lsp_server.go: one sync.Mutex (requestMutex) that SOME handlers take;
   * each handler = the list of atomic actions the translator extracted from its Go source
     (coq/Generated/GenHandlers.v): accesses to shared resources, Lock, Unlock, Spawn of a background goroutine.

   Everything here is executable (a step FUNCTION over labels); proofs live in Proofs/Dispatch*.v. *)
From Coq Require Import String.
From Coq Require Import List Bool Arith PeanoNat.
Import ListNotations.

(* ------------------------------------------------------------------ vocabulary shared with the translator *)
Inductive mode := Rd | Wr.

Inductive res :=
| DocCache        (* LspServer.fileCache.m: open documents *)
| SavedDiag       (* LspServer.fileErrorMap *)
| LiveDiag        (* LspServer.fileChangeErrorMap *)
| ProjectPtr      (* LspServer.project *)
| Analysis        (* contents of check.AllProject *)
| CompleteCache   (* AllProject.completeCache *)
| Config          (* common.GConfig incl. DirManager *)
| ColorTime       (* LspServer.colorTime *)
| ConfFlag        (* LspServer.changeConfFlag *)
| Report          (* LspServer.enableReport / onlineReport *)
| OnlineNum       (* package variable onlinePeopleNum *)
| PathPrefix.     (* pathpre.preFixStr *)

Inductive action :=
| Acc (r : res) (m : mode)
| Lock
| Unlock
| Spawn (b : nat).        (* `go ...`: start background goroutine number b of the table *)

Inductive kind := Request | Notification | Background.

(* names are lists of characters (not Coq strings) so that the extracted OCaml does not define a type `string`;
   write them as  nm "textDocument/hover" *)
Definition name := list Ascii.ascii.
Definition nm (s : string) : name := list_ascii_of_string s.

Record handler := mkHandler {
  hname : name;            (* LSP method *)
  hfunc : name;            (* Go method of *LspServer *)
  hkind : kind;            (* LSP kind of the method (a message carries its own flag, see msg) *)
  hbody : list action }.

Definition access := (res * mode)%type.

Definition res_idx (r : res) : nat :=
  match r with
  | DocCache => 0 | SavedDiag => 1 | LiveDiag => 2 | ProjectPtr => 3 | Analysis => 4 | CompleteCache => 5
  | Config => 6 | ColorTime => 7 | ConfFlag => 8 | Report => 9 | OnlineNum => 10 | PathPrefix => 11
  end.
Definition res_eqb (a b : res) : bool := Nat.eqb (res_idx a) (res_idx b).
Definition is_wr (m : mode) : bool := match m with Wr => true | Rd => false end.

(* two accesses conflict: same resource, at least one write *)
Definition conflict (a b : access) : bool :=
  res_eqb (fst a) (fst b) && (is_wr (snd a) || is_wr (snd b)).

(* ------------------------------------------------------------------ static reading of a handler body *)
(* does the goroutine hold requestMutex after executing action a, if it did (h) before? *)
Definition flag_step (h : bool) (a : action) : bool :=
  match a with Lock => true | Unlock => false | _ => h end.

Fixpoint held_after (h : bool) (l : list action) : bool :=
  match l with [] => h | a :: t => held_after (flag_step h a) t end.

(* the mutex is held when the action at position pc is executed *)
Definition held_at (body : list action) (pc : nat) : bool := held_after false (firstn pc body).

(* Lock/Unlock alternate, starting with Lock, ending released; no Lock while holding (self-deadlock),
   no Unlock while not holding (Go: fatal error "sync: unlock of unlocked mutex") *)
Definition bracket_ok (h : bool) (a : action) : bool :=
  match a with Lock => negb h | Unlock => h | _ => true end.
Fixpoint bracketed_from (h : bool) (l : list action) : bool :=
  match l with [] => negb h | a :: t => bracket_ok h a && bracketed_from (flag_step h a) t end.
Definition bracketed (body : list action) : bool := bracketed_from false body.

Fixpoint unlocked_from (h : bool) (l : list action) : list access :=
  match l with
  | [] => []
  | a :: t =>
    match a with
    | Acc r m => if h then unlocked_from h t else (r, m) :: unlocked_from h t
    | _ => unlocked_from (flag_step h a) t
    end
  end.
(* the accesses made WITHOUT holding requestMutex *)
Definition unlocked_accs (body : list action) : list access := unlocked_from false body.

Fixpoint all_accs (l : list action) : list access :=
  match l with
  | [] => []
  | Acc r m :: t => (r, m) :: all_accs t
  | _ :: t => all_accs t
  end.

Definition is_nil {A} (l : list A) : bool := match l with [] => true | _ => false end.

(* "takes the request mutex before touching shared state" *)
Definition locked_body (body : list action) : bool := bracketed body && is_nil (unlocked_accs body).
Definition locked (h : handler) : bool := locked_body (hbody h).

Definition count_locks (body : list action) : nat :=
  length (filter (fun a => match a with Lock => true | _ => false end) body).
Definition takes_lock (body : list action) : bool := negb (Nat.eqb (count_locks body) 0).

(* views named in the plan (DESIGN 5/C10): accesses before the first Lock, accesses under the lock *)
Fixpoint pre_lock (l : list action) : list access :=
  match l with
  | [] => []
  | Lock :: _ => []
  | Acc r m :: t => (r, m) :: pre_lock t
  | _ :: t => pre_lock t
  end.
Fixpoint locked_from (h : bool) (l : list action) : list access :=
  match l with
  | [] => []
  | a :: t =>
    match a with
    | Acc r m => if h then (r, m) :: locked_from h t else locked_from h t
    | _ => locked_from (flag_step h a) t
    end
  end.
Definition locked_accs (body : list action) : list access := locked_from false body.

(* can two goroutines running these bodies race? some access of one that is made unlocked conflicts with
   some access of the other *)
Definition may_race (b1 b2 : list action) : bool :=
  existsb (fun a => existsb (fun b => conflict a b) (all_accs b2)) (unlocked_accs b1) ||
  existsb (fun b => existsb (fun a => conflict a b) (all_accs b1)) (unlocked_accs b2).

(* serialisable shape: no shared access at all, or exactly one critical section that contains every access *)
Fixpoint only_accs (l : list action) : bool :=
  match l with [] => true | Acc _ _ :: t => only_accs t | _ => false end.
Definition simple_body (body : list action) : bool :=
  match body with
  | [] => true
  | Lock :: t =>
    match rev t with
    | Unlock :: r => only_accs (rev r)
    | _ => false
    end
  | _ => false
  end.

Fixpoint spawns_of (l : list action) : list nat :=
  match l with [] => [] | Spawn b :: t => b :: spawns_of t | _ :: t => spawns_of t end.

(* ------------------------------------------------------------------ the dispatcher *)
Record msg := mkMsg {
  m_h : nat;              (* index into the handler table (out of range = unknown method: answered with an error) *)
  m_notif : bool }.       (* the message has no id *)

Inductive status := Waiting | Running | Done.

Record task := mkTask {
  t_h : nat;              (* index into handlers (t_bg = false) or background (t_bg = true) *)
  t_bg : bool;
  t_notif : bool;
  t_body : list action;
  t_pc : nat;
  t_st : status;          (* Waiting = goroutine blocked in sem.Acquire *)
  t_holds : bool }.       (* ghost: this goroutine locked requestMutex and has not unlocked it *)

Record state := mkState {
  s_queue : list msg;     (* inbound queue (s.inq) *)
  s_pool : list task;     (* every goroutine created so far, in creation order *)
  s_mutex : bool;         (* requestMutex is locked *)
  s_log : list nat }.     (* ghost: pool indices in the order in which they acquired requestMutex *)

Inductive label :=
| LDispatch               (* serve loop: take the head of the queue, pass the notification barrier, `go run()` *)
| LStart (i : nat)        (* task i acquires a semaphore slot *)
| LStep (i : nat)         (* task i executes its next action *)
| LFinish (i : nat).      (* handler of task i returns: slot released, nbar.Done() for a notification *)

Definition is_done (t : task) : bool := match t_st t with Done => true | _ => false end.
Definition is_running (t : task) : bool := match t_st t with Running => true | _ => false end.
Definition is_waiting (t : task) : bool := match t_st t with Waiting => true | _ => false end.

Fixpoint set_nth {A} (i : nat) (x : A) (l : list A) : list A :=
  match l, i with
  | [], _ => []
  | _ :: t, O => x :: t
  | y :: t, S k => y :: set_nth k x t
  end.

Definition set_st (t : task) (st : status) : task :=
  mkTask (t_h t) (t_bg t) (t_notif t) (t_body t) (t_pc t) st (t_holds t).
Definition adv (t : task) (holds : bool) : task :=
  mkTask (t_h t) (t_bg t) (t_notif t) (t_body t) (S (t_pc t)) (t_st t) holds.

Section Dispatcher.
  Variable hs : list handler.       (* the handler table *)
  Variable bgs : list handler.      (* bodies of goroutines started by Spawn *)
  Variable conc : nat.              (* jrpc2 ServerOptions.Concurrency *)

  Definition body_of (bg : bool) (h : nat) : list action :=
    match nth_error (if bg then bgs else hs) h with Some x => hbody x | None => [] end.

  (* waitForBarrier: every notification issued so far has completed *)
  Definition barrier_open (pool : list task) : bool :=
    forallb (fun t => negb (t_notif t) || is_done t) pool.

  (* semaphore slots in use (background goroutines do not go through invoke) *)
  Definition running_count (pool : list task) : nat :=
    length (filter (fun t => is_running t && negb (t_bg t)) pool).

  Definition new_task (m : msg) : task :=
    mkTask (m_h m) false (m_notif m) (body_of false (m_h m)) 0 Waiting false.
  Definition bg_task (b : nat) : task :=
    mkTask b true false (body_of true b) 0 Running false.

  Definition step (l : label) (s : state) : option state :=
    match l with
    | LDispatch =>
      match s_queue s with
      | [] => None
      | m :: q =>
        if barrier_open (s_pool s)
        then Some (mkState q (s_pool s ++ [new_task m]) (s_mutex s) (s_log s))
        else None
      end
    | LStart i =>
      match nth_error (s_pool s) i with
      | Some t =>
        if is_waiting t && (running_count (s_pool s) <? conc)
        then Some (mkState (s_queue s) (set_nth i (set_st t Running) (s_pool s)) (s_mutex s) (s_log s))
        else None
      | None => None
      end
    | LStep i =>
      match nth_error (s_pool s) i with
      | Some t =>
        if is_running t then
          match nth_error (t_body t) (t_pc t) with
          | Some (Acc _ _) =>
            Some (mkState (s_queue s) (set_nth i (adv t (t_holds t)) (s_pool s)) (s_mutex s) (s_log s))
          | Some Lock =>
            if s_mutex s then None     (* blocked *)
            else Some (mkState (s_queue s) (set_nth i (adv t true) (s_pool s)) true (s_log s ++ [i]))
          | Some Unlock =>
            if s_mutex s
            then Some (mkState (s_queue s) (set_nth i (adv t false) (s_pool s)) false (s_log s))
            else None                  (* Go: fatal error, unlock of unlocked mutex; never reached by bracketed bodies *)
          | Some (Spawn b) =>
            Some (mkState (s_queue s) (set_nth i (adv t (t_holds t)) (s_pool s) ++ [bg_task b]) (s_mutex s) (s_log s))
          | None => None
          end
        else None
      | None => None
      end
    | LFinish i =>
      match nth_error (s_pool s) i with
      | Some t =>
        if is_running t && (length (t_body t) <=? t_pc t)
        then Some (mkState (s_queue s) (set_nth i (set_st t Done) (s_pool s)) (s_mutex s) (s_log s))
        else None
      | None => None
      end
    end.

  Fixpoint run (ls : list label) (s : state) : option state :=
    match ls with
    | [] => Some s
    | l :: r => match step l s with Some s' => run r s' | None => None end
    end.

  Definition init (msgs : list msg) : state := mkState msgs [] false [].

  Definition reachable (msgs : list msg) (s : state) : Prop := exists ls, run ls (init msgs) = Some s.

  (* every message handled, every goroutine returned *)
  Definition complete (s : state) : bool := is_nil (s_queue s) && forallb is_done (s_pool s).

  (* ---------------------------------------------------------------- races *)
  (* the access a running task is about to make *)
  Definition next_acc (t : task) : option access :=
    if is_running t then
      match nth_error (t_body t) (t_pc t) with Some (Acc r m) => Some (r, m) | _ => None end
    else None.

  Definition race_pair_b (s : state) (i j : nat) : bool :=
    negb (Nat.eqb i j) &&
    match nth_error (s_pool s) i, nth_error (s_pool s) j with
    | Some ti, Some tj =>
      match next_acc ti, next_acc tj with
      | Some a, Some b => conflict a b
      | _, _ => false
      end
    | _, _ => false
    end.

  Definition race_b (s : state) : bool :=
    existsb (fun i => existsb (fun j => race_pair_b s i j) (seq 0 (length (s_pool s)))) (seq 0 (length (s_pool s))).

  (* two different goroutines are each about to access the same resource, at least one of them writing.
     (Both cannot hold requestMutex - mutual exclusion is part of the proved invariant - so at least one of the
      two accesses is made outside the lock.) *)
  Definition race_pair (s : state) (i j : nat) : Prop :=
    i <> j /\ exists ti tj a b,
      nth_error (s_pool s) i = Some ti /\ nth_error (s_pool s) j = Some tj /\
      next_acc ti = Some a /\ next_acc tj = Some b /\ conflict a b = true.
  Definition race (s : state) : Prop := exists i j, race_pair s i j.

  (* ---------------------------------------------------------------- witness schedules (for the _refuted theorems) *)
  Definition steps_of (i n : nat) : list label := repeat (LStep i) n.

  (* dispatch and start the first n messages, then drive task i to position pi and task j to position pj
     (i first, or j first) *)
  Definition sched (n : nat) (i pi j pj : nat) (i_first : bool) : list label :=
    flat_map (fun k => [LDispatch; LStart k]) (seq 0 n) ++
    (if i_first then steps_of i pi ++ steps_of j pj else steps_of j pj ++ steps_of i pi).

  Definition racy_sched (msgs : list msg) (ls : list label) (i j : nat) : bool :=
    match run ls (init msgs) with Some s => race_pair_b s i j | None => false end.

  Fixpoint first_some {A B} (f : A -> option B) (l : list A) : option B :=
    match l with [] => None | x :: t => match f x with Some y => Some y | None => first_some f t end end.

  (* search a schedule in which task i (body length li) and task j (body length lj) race *)
  Definition find_witness (msgs : list msg) (i li j lj : nat) : option (list label) :=
    first_some (fun pi =>
      first_some (fun pj =>
        first_some (fun o =>
          let ls := sched (length msgs) i pi j pj o in
          if racy_sched msgs ls i j then Some ls else None) [true; false])
        (seq 0 (S lj)))
      (seq 0 (S li)).

  Definition is_notification (h : handler) : bool := match hkind h with Notification => true | _ => false end.
  Definition msg_of (h : nat) : msg :=
    mkMsg h (match nth_error hs h with Some x => is_notification x | None => false end).

  (* handler h (sent the way an LSP client sends it) races with handler p, in one of the two send orders *)
  Definition pair_witness (h p : nat) : option (list msg * list label) :=
    let lh := length (body_of false h) in
    let lp := length (body_of false p) in
    match find_witness [msg_of h; msg_of p] 0 lh 1 lp with
    | Some ls => Some ([msg_of h; msg_of p], ls)
    | None =>
      match find_witness [msg_of p; msg_of h] 1 lh 0 lp with
      | Some ls => Some ([msg_of p; msg_of h], ls)
      | None => None
      end
    end.

  Definition body_locked (p : nat) : bool := locked_body (body_of false p).

  (* partners that themselves keep the discipline are tried first, so that the blame is on h *)
  Definition handler_witness (h : nat) : option (nat * (list msg * list label)) :=
    let all := seq 0 (length hs) in
    first_some (fun p => match pair_witness h p with Some w => Some (p, w) | None => None end)
               (filter body_locked all ++ filter (fun p => negb (body_locked p)) all).

  (* schedules made of segments (task, number of steps) after dispatching and starting the first n messages *)
  Definition seg_sched (n : nat) (segs : list (nat * nat)) : list label :=
    flat_map (fun k => [LDispatch; LStart k]) (seq 0 n) ++ flat_map (fun ip => steps_of (fst ip) (snd ip)) segs.

  Definition max_bg_len : nat := fold_right Nat.max 0 (map (fun b => length (hbody b)) bgs).

  (* handler h races with a goroutine spawned (directly or by a spawned goroutine) while handling message sp:
     pool = [sp; h; first spawn; second spawn] *)
  Definition chain_witness (sp h : nat) : option (list msg * list label) :=
    let msgs := [msg_of sp; msg_of h] in
    first_some (fun p0 =>
      first_some (fun p2 =>
        first_some (fun p3 =>
          first_some (fun p1 =>
            let ls := seg_sched 2 [(0, p0); (2, p2); (3, p3); (1, p1)] in
            match run ls (init msgs) with
            | Some s => if race_pair_b s 1 2 || race_pair_b s 1 3 then Some (msgs, ls) else None
            | None => None
            end) (seq 0 (S (length (body_of false h)))))
          (seq 0 (S max_bg_len)))
        (seq 0 (S max_bg_len)))
      (seq 0 (S (length (body_of false sp)))).

  (* a witness run in which a task of handler h is one side of a race *)
  Definition refute (h : nat) : option (list msg * list label) :=
    match handler_witness h with
    | Some (_, w) => Some w
    | None => first_some (fun sp => chain_witness sp h) (seq 0 (length hs))
    end.

  (* check of a witness on the final state: some race involves a (non-background) task of handler h *)
  Definition witness_check (h : nat) (w : list msg * list label) : bool :=
    match run (snd w) (init (fst w)) with
    | Some s =>
      let idx := seq 0 (length (s_pool s)) in
      existsb (fun i =>
        match nth_error (s_pool s) i with
        | Some ti => Nat.eqb (t_h ti) h && negb (t_bg ti) && existsb (fun j => race_pair_b s i j) idx
        | None => false
        end) idx
    | None => false
    end.
  Definition refuted_b (h : nat) : bool :=
    match refute h with Some w => witness_check h w | None => false end.

  (* same for a background goroutine b: it races with the handler that (transitively) spawned it *)
  Definition bg_witness_check (b : nat) (w : list msg * list label) : bool :=
    match run (snd w) (init (fst w)) with
    | Some s =>
      let idx := seq 0 (length (s_pool s)) in
      existsb (fun i =>
        match nth_error (s_pool s) i with
        | Some ti => Nat.eqb (t_h ti) b && t_bg ti && existsb (fun j => race_pair_b s i j) idx
        | None => false
        end) idx
    | None => false
    end.

  (* a background goroutine (pool index k >= 1) spawned while handling the single message h races with its parent *)
  Definition spawn_witness (h : nat) : option (list msg * list label) :=
    let lh := length (body_of false h) in
    first_some (fun k =>
      first_some (fun b => match find_witness [msg_of h] 0 lh k (length (body_of true b)) with
                           | Some ls => Some ([msg_of h], ls) | None => None end) (seq 0 (length bgs)))
      (seq 1 (S (length bgs))).
  (* background goroutine b is refuted by a spawn witness of some handler, or by a chain witness *)
  Definition bg_refute (b : nat) : option (list msg * list label) :=
    let all := seq 0 (length hs) in
    match first_some (fun h => match spawn_witness h with
                               | Some w => if bg_witness_check b w then Some w else None
                               | None => None end) all with
    | Some w => Some w
    | None =>
      first_some (fun h =>
        match spawns_of (body_of false h) with
        | [] => None
        | _ => first_some (fun q => match chain_witness h q with
                                    | Some w => if bg_witness_check b w then Some w else None
                                    | None => None end) all
        end) all
    end.
  Definition bg_refuted_b (b : nat) : bool :=
    match bg_refute b with Some w => bg_witness_check b w | None => false end.

  (* ---------------------------------------------------------------- predictions used by the correspondence leg *)
  (* can the two messages, sent in this order, race?  The first must not be a notification (barrier). *)
  Definition pair_may_race (first second : msg) : bool :=
    negb (m_notif first) && may_race (body_of false (m_h first)) (body_of false (m_h second)).

  (* can background goroutine b race with a task of handler h? (no barrier, no semaphore) *)
  Definition bg_may_race (b h : nat) : bool := may_race (body_of true b) (body_of false h).

  (* background goroutines (transitively) spawned by a body *)
  Fixpoint spawn_closure (fuel : nat) (bs : list nat) : list nat :=
    match fuel with
    | O => bs
    | S f => bs ++ spawn_closure f (flat_map (fun b => spawns_of (body_of true b)) bs)
    end.
  Definition spawned_by (h : nat) : list nat := spawn_closure (length bgs) (spawns_of (body_of false h)).
End Dispatcher.

(* names of the handlers that touch shared state without holding requestMutex *)
Definition unlocked_names (hs : list handler) : list name :=
  map hname (filter (fun h => negb (locked h)) hs).
(* handlers whose critical sections are split (the handler as a whole is not atomic) *)
Definition split_names (hs : list handler) : list name :=
  map hname (filter (fun h => Nat.ltb 1 (count_locks (hbody h))) hs).

(* ------------------------------------------------------------------ data layer (for serialisability)
   The control model above says WHEN a handler touches shared state; this layer says WHAT it does, abstractly:
   the access at position pc of the body of message k is an arbitrary function on (local state, shared state).
   The local state starts as the request parameters and ends as the answer. *)
Section Data.
  Variable hs : list handler.
  Variable bgs : list handler.
  Variable conc : nat.
  Variable St : Type.                 (* shared state of the server *)
  Variable Loc : Type.                (* local state of one handler invocation: parameters, then the answer *)
  Variable exec : nat -> nat -> Loc -> St -> Loc * St.   (* message k, position pc *)
  Variable loc0 : nat -> Loc.         (* parameters of message k (pool index = message index when nothing is spawned) *)

  Definition dstate := (state * St * list Loc)%type.

  Definition dstep (l : label) (d : dstate) : option dstate :=
    let '(s, sh, locs) := d in
    match step hs bgs conc l s with
    | None => None
    | Some s' =>
      match l with
      | LDispatch => Some (s', sh, locs ++ [loc0 (length (s_pool s))])
      | LStep i =>
        match nth_error (s_pool s) i, nth_error locs i with
        | Some t, Some lc =>
          match nth_error (t_body t) (t_pc t) with
          | Some (Acc _ _) => let '(lc', sh') := exec i (t_pc t) lc sh in Some (s', sh', set_nth i lc' locs)
          | Some (Spawn _) => Some (s', sh, locs ++ [loc0 (length (s_pool s))])
          | _ => Some (s', sh, locs)
          end
        | _, _ => Some (s', sh, locs)
        end
      | _ => Some (s', sh, locs)
      end
    end.

  Fixpoint drun (ls : list label) (d : dstate) : option dstate :=
    match ls with
    | [] => Some d
    | l :: r => match dstep l d with Some d' => drun r d' | None => None end
    end.

  Definition dinit (msgs : list msg) (sh0 : St) : dstate := (init msgs, sh0, []).

  (* sequential execution of (a prefix of) one body *)
  Fixpoint run_from (k pc : nat) (l : list action) (lc : Loc) (sh : St) : Loc * St :=
    match l with
    | [] => (lc, sh)
    | Acc _ _ :: t => let '(lc', sh') := exec k pc lc sh in run_from k (S pc) t lc' sh'
    | _ :: t => run_from k (S pc) t lc sh
    end.
  Definition run_body (k : nat) (body : list action) (sh : St) : Loc * St := run_from k 0 body (loc0 k) sh.

  (* the serial run: the messages of `order`, one after the other, each running its whole body;
     result = final shared state and the answer of each message *)
  Fixpoint serialL (bodies : nat -> list action) (order : list nat) (sh : St) : St * list (nat * Loc) :=
    match order with
    | [] => (sh, [])
    | k :: r =>
      let '(lc, sh') := run_body k (bodies k) sh in
      let '(shf, res) := serialL bodies r sh' in
      (shf, (k, lc) :: res)
    end.
End Data.
