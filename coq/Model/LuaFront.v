(* Front end pipeline from bytes: lexer -> parser (parser.BeginAnalyze). *)
From Coq Require Import List NArith ZArith Bool.
From LH Require Import Base.Bytes Base.Res Model.Lexer Model.Ast Model.Parser Model.Number.
Import ListNotations.

(* parseNumberExp's classification; a Fault of the numeral model (proved unreachable for the non-empty texts the
   lexer produces: Proofs/NumberProofs.v) would be a Go panic swallowed by BeginAnalyze *)
Definition classify_tok (s : list N) : numcls :=
  match classify_number s with
  | Ok (NumInt v) => NInt v
  | Ok NumFloat => NFloat
  | _ => NBad
  end.

Section Front.
  Variable gbk_runes : list N -> Z.          (* oracle, see Model/Lexer.v *)
  Variable classify : list N -> numcls.      (* parser_number.go *)

  Definition parse_bytes (bs : list N) : Res parse_result :=
    do ts <- lex_all gbk_runes bs ;
    parse_tokens classify (fuel_of_tokens ts) ts.

  (* "the file gets at least one syntax diagnostic" *)
  Definition flagged (r : parse_result) : bool :=
    match r with
    | PRTooMany => true
    | PR _ le pe => negb (match le, pe with [], [] => true | _, _ => false end)
    end.
End Front.
