(* Front end pipeline from bytes: lexer -> parser (parser.BeginAnalyze). *)
From Coq Require Import List NArith ZArith Bool.
From LH Require Import Base.Bytes Base.Res Model.Lexer Model.Ast Model.Parser Model.Number.
Import ListNotations.

(* parseNumberExp's classification; a Fault of the numeral model (proved unreachable for the non-empty texts the
   lexer produces: Proofs/NumberProofs.v) would be a Go panic swallowed by BeginAnalyze *)
Definition classify_tok (s : list N) : numcls :=
  match classify_number s with
  | Ok (NumInt v) => NInt v
  | Ok NumFloat => NFloat
  | _ => NBad
  end.

(* What the PARSER sees of the token stream. One corner of the Go lexer depends on how it is driven: when the very
   first token of the file is a short string that is cut off by a raw newline, the error site calls GetNowTokenLoc()
   while no token is current yet, which looks ahead (scanning the NEXT token) from inside the scan; because the parser
   reaches the first token through a look-ahead itself, the outer look-ahead then overwrites the cached token: the
   token after the unfinished string is lost (its lexical errors have been reported). A run of such strings loses one
   more token each. The stand-alone NextToken loop (leg c03.lex) does not lose them. *)
Definition is_unfinished_str (t : ltok) : bool :=
  match tk (lt t) with
  | TkString => existsb (fun e => match e with LeUnfinishedStr => true | _ => false end) (lerrs t)
  | _ => false
  end.

Fixpoint lost_run (ts : list ltok) (es : list lexerr) (cs : list (Z * cinfo)) : list lexerr * list (Z * cinfo) * list ltok :=
  match ts with
  | [] => (es, cs, [])
  | t :: r =>
    match tk (lt t) with
    | TkEOF => (es, cs, ts)                                   (* nothing left to lose: EOF is scanned again *)
    | _ => if is_unfinished_str t then lost_run r (es ++ lerrs t) (cs ++ lcomments t)
           else (es ++ lerrs t, cs ++ lcomments t, r)
    end
  end.

Definition parser_view (ts : list ltok) : list ltok :=
  match ts with
  | t1 :: r =>
    if is_unfinished_str t1 then
      let '(es, cs, r') := lost_run r [] [] in
      mkLtok (lt t1) (lerrs t1 ++ es) (lcomments t1 ++ cs) :: r'
    else ts
  | [] => []
  end.

Section Front.
  Variable gbk_runes : list N -> Z.          (* oracle, see Model/Lexer.v *)
  Variable classify : list N -> numcls.      (* parser_number.go *)

  Definition parse_bytes (bs : list N) : Res parse_result :=
    do ts <- lex_all gbk_runes bs ;
    let ts' := parser_view ts in
    parse_tokens classify (fuel_of_tokens ts') ts'.

  (* "the file gets at least one syntax diagnostic" *)
  Definition flagged (r : parse_result) : bool :=
    match r with
    | PRTooMany => true
    | PR _ le pe => negb (match le, pe with [], [] => true | _, _ => false end)
    end.
End Front.
