(* Model of langserver/check/annotation/annotateparser/{annotate_parser,annotate_parser_type,
   annotate_parser_state,string_util}.go and of the token-level helpers of annotate_lexer.go
   (NextTokenOfKind, NextFieldName, NextParamName, NextTypeIdentifier, LookAheadKind, ErrorPrint).

   ErrorPrint panics with a ParseAnnotateErr = PErr; Go runtime panics = PFault; every Go `for` loop and every
   recursive call consumes one unit of fuel (PFuel when exhausted).  ParserLine's recover() does
   err2.(ParseAnnotateErr): a recovered runtime panic would make that assertion fail -> Fault TypeAssert.
   Proofs/AnnTotal.v: with fuel_of line neither Fault nor OutOfFuel is reachable. *)
From Coq Require Import String Ascii List NArith Bool.
From LH Require Import Base.Bytes Base.Res Model.AnnLexer Model.AnnAst.
Import ListNotations.
Local Open Scope N_scope.

(* ------------------------------------------------------------------ errors *)
Definition s_warn : bytes := Eval vm_compute in bs "annotate warn : ".
Definition s_near : bytes := Eval vm_compute in bs "syntax error near '".
Definition s_not_find : bytes := Eval vm_compute in bs "not find annotate type".
Definition s_any : bytes := Eval vm_compute in bs "any".
Definition s_start : bytes := Eval vm_compute in bs "start".
Definition s_end : bytes := Eval vm_compute in bs "end".

Definition near (s : bytes) : bytes := s_near ++ s ++ [39].

(* ErrorPrint: ErrStr = "annotate warn : " + err; ErrLoc from l.col and len(l.chunk) at this moment *)
Definition error_print {A} (ty : N) (need : akind) (msg : bytes) (l : lx) : PR A :=
  PErr (mkErr ty need (s_warn ++ msg) (length (chunk l))).

(* ------------------------------------------------------------------ token-level helpers *)
Definition next_token_p (l : lx) : PR tok := lift (next_token l).

Definition look_ahead_p (l : lx) : PR unit :=
  match look_ahead l with
  | Ok l' => POk tt l'
  | Fault k => PFault k
  | OutOfFuel => PFuel
  end.

(* LookAheadKind *)
Definition look_ahead_kind (l : lx) : PR akind :=
  let* (_, l') := look_ahead_p l in
  match ahead l' with
  | Some t => POk (tkind t) l'
  | None => error_print 2 KEOF (near []) l'      (* dead: NextTokenStruct always yields a valid token *)
  end.

(* GetHeardTokenStr (only used right after LookAheadKind) *)
Definition ahead_str (l : lx) : bytes := match ahead l with Some t => tstr t | None => [] end.

(* NextTokenOfKind *)
Definition next_of_kind (k : akind) (l : lx) : PR bytes :=
  let* (t, l) := next_token_p l in
  if kind_eqb (tkind t) k then POk (tstr t) l else error_print 2 k (near (tstr t)) l.

(* the keyword tail of NextFieldName / NextParamName *)
Definition keyword_name (t : tok) (l : lx) : PR bytes :=
  match kw_lookup (tstr t) with
  | Some ik => if kind_eqb ik (tkind t) then POk (tstr t) l else error_print 2 ik (near (tstr t)) l
  | None => error_print 2 KEOF (near (tstr t)) l          (* inKind is the zero value ATokenEOF *)
  end.

Definition next_field_name (l : lx) : PR bytes :=
  let* (t, l) := next_token_p l in
  if kind_eqb (tkind t) KIdent then POk (tstr t) l else keyword_name t l.

Definition next_param_name (l : lx) : PR bytes :=
  let* (t, l) := next_token_p l in
  if kind_eqb (tkind t) KIdent || kind_eqb (tkind t) KVararg then POk (tstr t) l else keyword_name t l.

Definition next_type_identifier (l : lx) : PR bytes :=
  let* (t, l) := next_token_p l in
  if kind_eqb (tkind t) KIdent then POk (tstr t) l else error_print 5 KIdent (near (tstr t)) l.

(* splitStrQuotes *)
Definition split_str_quotes (s : bytes) : Res (bytes * bool) :=
  if Nat.leb (length s) 2 then Ok (s, false)
  else
    let first := hd 0 s in
    let lst := last s 0 in
    if ((first =? 39) && (lst =? 39)) || ((first =? 34) && (lst =? 34)) then
      do m <- go_slice s 1 (length s - 1); Ok (m, true)
    else Ok (s, false).

Definition lift_res {A} (r : Res A) (l : lx) : PR A :=
  match r with Ok a => POk a l | Fault k => PFault k | OutOfFuel => PFuel end.

(* ------------------------------------------------------------------ types (annotate_parser_type.go) *)

(* fun<V, K>: the generic names are read and dropped *)
Fixpoint fun_generic_loop (fuel : nat) (l : lx) : PR unit :=
  match fuel with
  | O => PFuel
  | S f =>
    let* (_, l) := next_field_name l in
    let* (k, l) := look_ahead_kind l in
    if kind_eqb k KComma then
      let* (_, l) := next_of_kind KComma l in fun_generic_loop f l
    else POk tt l
  end.

(* the array suffixes of parserSingleType: `for l.LookAheadKind() == ATokenVSepLbrack { "[" "]"; subType = ArrayType{subType} }`
   (string[], string[][], ...) *)
Fixpoint array_suffix_loop (fuel : nat) (sub : atype) (l : lx) : PR atype :=
  match fuel with
  | O => PFuel
  | S f =>
    let* (k2, l) := look_ahead_kind l in
    if kind_eqb k2 KLbrack then
      let* (_, l) := next_of_kind KLbrack l in
      let* (_, l) := next_of_kind KRbrack l in
      array_suffix_loop f (AArray sub) l
    else POk sub l
  end.

Fixpoint parse_single_type (fuel : nat) (l : lx) : PR atype :=
  match fuel with
  | O => PFuel
  | S f =>
    let* (k, l) := look_ahead_kind l in
    let* (sub, l) :=
      (if kind_eqb k KLparen then
         let* (_, l) := next_of_kind KLparen l in
         let* (t, l) := parse_one_type f l in
         let* (_, l) := next_of_kind KRparen l in
         POk t l
       else if kind_eqb k KFun then parse_fun_type f l
       else if kind_eqb k KTable then parse_table_type f l
       else if kind_eqb k KIdent then
         let* (s, l) := next_type_identifier l in POk (ANormal s true) l
       else if kind_eqb k KVararg then
         let* (_, l) := next_token_p l in POk (ANormal s_dots true) l
       else if kind_eqb k KString then
         let s := ahead_str l in
         let* (sq, l) := lift_res (split_str_quotes s) l in
         let* (_, l) := next_token_p l in
         POk (AConst (fst sq) (snd sq) []) l
       else error_print 3 KEOF s_not_find l) in
    array_suffix_loop f sub l
  end

with parse_one_type (fuel : nat) (l : lx) : PR atype :=
  match fuel with
  | O => PFuel
  | S f =>
    let* (_, l) := look_ahead_p l in          (* beginLoc := l.GetHeardLoc() *)
    one_type_loop f [] l
  end

with one_type_loop (fuel : nat) (acc : list atype) (l : lx) : PR atype :=
  match fuel with
  | O => PFuel
  | S f =>
    let* (t, l) := parse_single_type f l in
    let acc := acc ++ [t] in
    let* (k, l) := look_ahead_kind l in
    if kind_eqb k KBor then
      let* (_, l) := next_of_kind KBor l in one_type_loop f acc l
    else POk (AMulti acc) l
  end

with parse_fun_type (fuel : nat) (l : lx) : PR atype :=
  match fuel with
  | O => PFuel
  | S f =>
    let* (_, l) := next_of_kind KFun l in
    let* (k, l) := look_ahead_kind l in
    let* (_, l) :=
      (if kind_eqb k KLt then
         let* (_, l) := next_of_kind KLt l in
         let* (_, l) := fun_generic_loop f l in
         let* (_, l) := next_of_kind KGt l in POk tt l
       else POk tt l) in
    let* (_, l) := next_of_kind KLparen l in
    let* (k, l) := look_ahead_kind l in
    let* (ps, l) := (if kind_eqb k KRparen then POk [] l else fun_params_loop f [] l) in
    let* (_, l) := next_of_kind KRparen l in
    let* (k, l) := look_ahead_kind l in
    let* (rs, l) :=
      (if kind_eqb k KColon then
         let* (_, l) := next_token_p l in fun_rets_loop f [] l
       else POk [] l) in
    POk (AFun ps rs) l
  end

with fun_params_loop (fuel : nat) (acc : list (bytes * bool * atype)) (l : lx) : PR (list (bytes * bool * atype)) :=
  match fuel with
  | O => PFuel
  | S f =>
    let* (name, l) := next_param_name l in
    let* (k1, l) := look_ahead_kind l in
    let* (ok1, l) :=
      (if kind_eqb k1 KOption then
         let* (_, l) := next_token_p l in
         let* (k1', l) := look_ahead_kind l in POk (true, k1') l
       else POk (false, k1) l) in
    let* (ty, l) :=
      (if kind_eqb (snd ok1) KColon then
         let* (_, l) := next_of_kind KColon l in parse_one_type f l
       else POk (ANormal s_any false) l) in
    let acc := acc ++ [(name, fst ok1, ty)] in
    let* (k, l) := look_ahead_kind l in
    if kind_eqb k KComma then
      let* (_, l) := next_token_p l in fun_params_loop f acc l
    else POk acc l
  end

with fun_rets_loop (fuel : nat) (acc : list atype) (l : lx) : PR (list atype) :=
  match fuel with
  | O => PFuel
  | S f =>
    let* (t, l) := parse_one_type f l in
    let acc := acc ++ [t] in
    let* (k, l) := look_ahead_kind l in
    if kind_eqb k KComma then
      let* (_, l) := next_token_p l in fun_rets_loop f acc l
    else POk acc l
  end

with parse_table_type (fuel : nat) (l : lx) : PR atype :=
  match fuel with
  | O => PFuel
  | S f =>
    let* (_, l) := next_of_kind KTable l in
    let* (k, l) := look_ahead_kind l in
    if negb (kind_eqb k KLt) then POk ATableEmpty l
    else
      let* (_, l) := next_of_kind KLt l in
      let* (kt, l) := parse_one_type f l in
      let* (_, l) := next_of_kind KComma l in
      let* (vt, l) := parse_one_type f l in
      let* (_, l) := next_of_kind KGt l in
      POk (ATable kt vt) l
  end.

(* ------------------------------------------------------------------ statements (annotate_parser_state.go) *)

(* GetRemainComment as a parser step *)
Definition get_comment (l : lx) : bytes := remain_comment l.

Fixpoint type_items_loop (fuel : nat) (acc : list (bool * bool * atype)) (l : lx) : PR (list (bool * bool * atype)) :=
  match fuel with
  | O => PFuel
  | S f =>
    let* (k, l) := look_ahead_kind l in
    let* (ce, l) :=
      (if kind_eqb k KConst then
         let* (_, l) := next_of_kind KConst l in
         let* (k, l) := look_ahead_kind l in
         if kind_eqb k KEnum then
           let* (_, l) := next_of_kind KEnum l in POk (true, true) l
         else POk (true, false) l
       else
         let* (k, l) := look_ahead_kind l in
         if kind_eqb k KEnum then
           let* (_, l) := next_of_kind KEnum l in
           let* (k, l) := look_ahead_kind l in
           if kind_eqb k KConst then
             let* (_, l) := next_of_kind KConst l in POk (true, true) l
           else POk (false, true) l
         else POk (false, false) l) in
    let* (t, l) := parse_one_type f l in
    let acc := acc ++ [(fst ce, snd ce, t)] in
    let* (k, l) := look_ahead_kind l in
    if kind_eqb k KComma then
      let* (_, l) := next_of_kind KComma l in type_items_loop f acc l
    else POk acc l
  end.

Definition parse_type_state (fuel : nat) (l : lx) : PR astat :=
  let* (_, l) := next_of_kind KType l in
  let* (items, l) := type_items_loop fuel [] l in
  POk (SType items (get_comment l)) l.

Definition parse_alias_state (fuel : nat) (l : lx) : PR astat :=
  let* (_, l) := next_of_kind KAlias l in
  let* (name, l) := next_of_kind KIdent l in
  let* (k, l) := look_ahead_kind l in
  if kind_eqb k KEOF then POk (SAlias name None []) l
  else if kind_eqb k KAt then POk (SAlias name None (get_comment l)) l
  else
    let* (t, l) := parse_one_type fuel l in
    POk (SAlias name (Some t) (get_comment l)) l.

Fixpoint class_parents_loop (fuel : nat) (cname : bytes) (acc : list bytes) (l : lx) : PR (list bytes) :=
  match fuel with
  | O => PFuel
  | S f =>
    let* (p, l) := next_field_name l in
    let acc := if beq_bytes p cname then acc else acc ++ [p] in   (* a parent equal to the class itself is dropped *)
    let* (k, l) := look_ahead_kind l in
    if kind_eqb k KComma then
      let* (_, l) := next_of_kind KComma l in class_parents_loop f cname acc l
    else POk acc l
  end.

Definition parse_class_state (fuel : nat) (l : lx) : PR astat :=
  let* (_, l) := next_of_kind KClass l in
  let* (name, l) := next_field_name l in
  let* (k, l) := look_ahead_kind l in
  let* (ps, l) :=
    (if kind_eqb k KColon then
       let* (_, l) := next_of_kind KColon l in class_parents_loop fuel name [] l
     else POk [] l) in
  POk (SClass name ps (get_comment l)) l.

Definition parse_overload_state (fuel : nat) (l : lx) : PR astat :=
  let* (_, l) := next_of_kind KOverload l in
  let* (t, l) := parse_fun_type fuel l in
  POk (SOverload t (get_comment l)) l.

Definition parse_field_state (fuel : nat) (l : lx) : PR astat :=
  let* (_, l) := next_of_kind KField l in
  let* (k, l) := look_ahead_kind l in
  let* (scope, l) :=
    (if kind_eqb k KPublic || kind_eqb k KProtected || kind_eqb k KPrivate then
       let sc := if kind_eqb k KProtected then 1 else if kind_eqb k KPrivate then 2 else 0 in
       let* (_, l) := next_token_p l in POk sc l
     else POk 0 l) in
  let* (name, l) := next_field_name l in
  let* (k, l) := look_ahead_kind l in
  let* (colon, l) :=
    (if kind_eqb k KColon then let* (_, l) := next_token_p l in POk 1 l else POk 0 l) in
  let* (t, l) := parse_one_type fuel l in
  POk (SField scope colon name t (get_comment l)) l.

Definition parse_param_state (fuel : nat) (l : lx) : PR astat :=
  let* (_, l) := next_of_kind KParam l in
  let* (k, l) := look_ahead_kind l in
  let* (isc, l) :=
    (if kind_eqb k KConst then let* (_, l) := next_of_kind KConst l in POk true l else POk false l) in
  let* (name, l) := next_param_name l in
  let* (k, l) := look_ahead_kind l in
  let* (opt, l) :=
    (if kind_eqb k KOption then let* (_, l) := next_token_p l in POk true l else POk false l) in
  let* (t, l) := parse_one_type fuel l in
  POk (SParam isc opt name t (get_comment l)) l.

Fixpoint return_items_loop (fuel : nat) (acc : list (atype * bool)) (l : lx) : PR (list (atype * bool)) :=
  match fuel with
  | O => PFuel
  | S f =>
    let* (t, l) := parse_one_type f l in
    let* (k, l) := look_ahead_kind l in
    let* (opt, l) :=
      (if kind_eqb k KOption then let* (_, l) := next_token_p l in POk true l else POk false l) in
    let acc := acc ++ [(t, opt)] in
    let* (k, l) := look_ahead_kind l in
    if kind_eqb k KComma then
      let* (_, l) := next_of_kind KComma l in return_items_loop f acc l
    else POk acc l
  end.

Definition parse_return_state (fuel : nat) (l : lx) : PR astat :=
  let* (_, l) := next_of_kind KReturn l in
  let* (items, l) := return_items_loop fuel [] l in
  POk (SReturn items (get_comment l)) l.

Fixpoint generic_items_loop (fuel : nat) (acc : list (bytes * bytes)) (l : lx) : PR (list (bytes * bytes)) :=
  match fuel with
  | O => PFuel
  | S f =>
    let* (name, l) := next_of_kind KIdent l in
    let* (k, l) := look_ahead_kind l in
    let* (parent, l) :=
      (if kind_eqb k KColon then
         let* (_, l) := next_of_kind KColon l in next_of_kind KIdent l
       else POk [] l) in
    let acc := acc ++ [(name, parent)] in
    let* (k, l) := look_ahead_kind l in
    if kind_eqb k KComma then
      let* (_, l) := next_of_kind KComma l in generic_items_loop f acc l
    else POk acc l
  end.

Definition parse_generic_state (fuel : nat) (l : lx) : PR astat :=
  let* (_, l) := next_of_kind KGeneric l in
  let* (items, l) := generic_items_loop fuel [] l in
  POk (SGeneric items (get_comment l)) l.

Definition parse_vararg_state (fuel : nat) (l : lx) : PR astat :=
  let* (_, l) := next_of_kind KVarargKw l in
  let* (t, l) := parse_one_type fuel l in
  POk (SVararg t (get_comment l)) l.

Definition parse_enum_state (l : lx) : PR astat :=
  let* (_, l) := next_of_kind KEnum l in
  let* (k, l) := look_ahead_kind l in
  if kind_eqb k KIdent then
    let* (name, l) := next_type_identifier l in
    if beq_bytes name s_start || beq_bytes name s_end then
      (* l.LookAheadKind(): the token after start / end is read ahead, so that GetRemainComment strips the "@" *)
      let* (_, l) := look_ahead_kind l in
      POk (SEnum (if beq_bytes name s_start then 1 else 2) (get_comment l)) l
    else POk SNotValid l
  else POk (SEnum 0 (get_comment l)) l.

(* parserOneState *)
Definition parse_one_state (fuel : nat) (l : lx) : PR astat :=
  let* (k, l) := look_ahead_kind l in
  match k with
  | KType => parse_type_state fuel l
  | KAlias => parse_alias_state fuel l
  | KClass => parse_class_state fuel l
  | KOverload => parse_overload_state fuel l
  | KField => parse_field_state fuel l
  | KParam => parse_param_state fuel l
  | KReturn => parse_return_state fuel l
  | KGeneric => parse_generic_state fuel l
  | KVarargKw => parse_vararg_state fuel l
  | KEnum => parse_enum_state l
  | _ => POk SNotValid l
  end.

(* fuel that is always enough for one line (Proofs/AnnTotal.v) *)
Definition fuel_of (line : bytes) : nat := 6 * length line + 24.

(* ParserLine: `line` is the lexer's chunk, i.e. the comment text after the "-@" head.
   inl = the statement, inr = the recovered ParseAnnotateErr (the statement is then AnnotateNotValidState). *)
Definition ann_parse_line (fuel : nat) (line : bytes) : Res (astat + aerr) :=
  match parse_one_state fuel (mkLx line None) with
  | POk s _ => Ok (inl s)
  | PErr e => Ok (inr e)
  | PFault _ => Fault TypeAssert        (* err2.(annotatelexer.ParseAnnotateErr) on a runtime error value *)
  | PFuel => OutOfFuel
  end.

(* parse one type followed by the rest-of-line comment (the common tail of most statements) *)
Definition parse_type (fuel : nat) (text : bytes) : Res ((atype * bytes) + aerr) :=
  match parse_one_type fuel (mkLx text None) with
  | POk t l => Ok (inl (t, get_comment l))
  | PErr e => Ok (inr e)
  | PFault _ => Fault TypeAssert
  | PFuel => OutOfFuel
  end.

(* ------------------------------------------------------------------ fragments (annotate_parser.go) *)

(* parserExtraAliasLine: runs OUTSIDE ParserLine's recover(); a ParseAnnotateErr here would escape *)
Definition parse_extra_alias_line (l : lx) : PR (option atype) :=
  let* (k, l) := look_ahead_kind l in
  if negb (kind_eqb k KString) then POk None l
  else
    let s := ahead_str l in
    let* (sq, l) := lift_res (split_str_quotes s) l in
    let* (_, l) := next_token_p l in
    let c := get_comment l in
    let c := trim_left_byte 32 c in
    let c := trim_prefix_byte 35 c in
    let c := trim_prefix_byte 32 c in
    POk (Some (AConst (fst sq) (snd sq) c)) l.

(* appendAliasState on the last statement *)
Definition append_alias (s : astat) (ct : atype) : astat :=
  match s with
  | SAlias n None c => SAlias n (Some (AMulti [ct])) c
  | SAlias n (Some (AMulti ts)) c => SAlias n (Some (AMulti (ts ++ [ct]))) c
  | _ => s
  end.

Definition is_alias (s : astat) : bool := match s with SAlias _ _ _ => true | _ => false end.

Definition append_alias_last (stats : list astat) (ct : atype) : list astat :=
  match rev stats with
  | [] => stats                                   (* len(fragment.Stats) == 0 *)
  | lst :: before => if is_alias lst then rev before ++ [append_alias lst ct] else stats
  end.

(* the fragment being built: Stats, Lines (one entry per statement), errors with their line *)
Record frag := mkFrag { f_stats : list astat; f_lines : list N; f_errs : list (N * nat * aerr) }.
   (* error entry: (line number, length of the whole line, error) *)

Definition frag_step (fr : frag) (ln : N * bytes) : Res frag :=
  let '(lno, text) := ln in
  do ah <- check_head s_alias_head text;
  match ah with
  | Some c =>
    match parse_extra_alias_line (mkLx c None) with
    | POk None _ => Ok fr
    | POk (Some ct) _ => Ok (mkFrag (append_alias_last (f_stats fr) ct) (f_lines fr) (f_errs fr))
    | PErr _ => Fault TypeAssert               (* an escaped ParseAnnotateErr panic: no recover on this path *)
    | PFault k => Fault k
    | PFuel => OutOfFuel
    end
  | None =>
    do h <- check_head s_head text;
    match h with
    | None => Ok fr
    | Some c =>
      do r <- ann_parse_line (fuel_of c) c;
      match r with
      | inr e => Ok (mkFrag (f_stats fr) (f_lines fr) (f_errs fr ++ [(lno, length text, e)]))
      | inl SNotValid => Ok fr
      | inl s => Ok (mkFrag (f_stats fr ++ [s]) (f_lines fr ++ [lno]) (f_errs fr))
      end
    end
  end.

Fixpoint frag_loop (fr : frag) (lines : list (N * bytes)) : Res frag :=
  match lines with
  | [] => Ok fr
  | ln :: rest => do fr' <- frag_step fr ln; frag_loop fr' rest
  end.

(* clearEmpytAlias: `for i := 0; i < len(Stats); i++` removes an alias statement without a type from Stats and the
   entry with the same index from Lines:
       Stats = append(Stats[:i], Stats[i+1:]...); Lines = append(Lines[:i], Lines[i+1:]...); i--
   `stats` / `lines` are Stats[i:] / Lines[i:] (Lines[i:] = [] when Lines is shorter than i).  Lines[i+1:] panics
   (slice bounds out of range) when len(Lines) < i+1; Proofs/AnnTotal.v: Stats and Lines always have the same
   length here, so the Fault is unreachable. *)
Definition empty_alias (s : astat) : bool := match s with SAlias _ None _ => true | _ => false end.
Fixpoint clear_loop (stats : list astat) (lines : list N) : Res (list astat * list N) :=
  match stats with
  | [] => Ok ([], lines)
  | s :: r =>
    if empty_alias s then
      match lines with
      | [] => Fault SliceBounds
      | _ :: lr => clear_loop r lr
      end
    else
      do p <- clear_loop r (tl lines);
      Ok (s :: fst p, firstn 1 lines ++ snd p)
  end.
Definition clear_empty_alias (fr : frag) : Res frag :=
  do p <- clear_loop (f_stats fr) (f_lines fr);
  Ok (mkFrag (fst p) (snd p) (f_errs fr)).

(* ------------------------------------------------------------------ the repaired loop (fixes/C16-cont-after-bad.diff)
   `frag_step` / `frag_loop` above are the loop of ParseCommentFragment BEFORE the repair: a continuation line is
   appended to the last statement of fragment.Stats, whatever lines lie in between.  The repaired loop keeps
   `lastAliasState`: the alias statement of the line directly above (continuation lines not counted), nil when that
   line gave another statement, an error, AnnotateNotValidState or was no annotation line at all; a continuation
   line is appended to lastAliasState only.  The model keeps the flag `la` = (lastAliasState != nil); whenever it is
   true the last statement of Stats is that alias (Proofs/AnnFragment.v: fx_inv), so appendAliasState(lastAliasState)
   is `append_alias_last`. *)
Definition frag_step_fx (st : frag * bool) (ln : N * bytes) : Res (frag * bool) :=
  let '(fr, la) := st in
  let '(lno, text) := ln in
  do ah <- check_head s_alias_head text;
  match ah with
  | Some c =>
    match parse_extra_alias_line (mkLx c None) with
    | POk None _ => Ok (fr, la)
    | POk (Some ct) _ =>
      if la then Ok (mkFrag (append_alias_last (f_stats fr) ct) (f_lines fr) (f_errs fr), la) else Ok (fr, la)
    | PErr _ => Fault TypeAssert               (* an escaped ParseAnnotateErr panic: no recover on this path *)
    | PFault k => Fault k
    | PFuel => OutOfFuel
    end
  | None =>
    (* lastAliasState = nil *)
    do h <- check_head s_head text;
    match h with
    | None => Ok (fr, false)
    | Some c =>
      do r <- ann_parse_line (fuel_of c) c;
      match r with
      | inr e => Ok (mkFrag (f_stats fr) (f_lines fr) (f_errs fr ++ [(lno, length text, e)]), false)
      | inl SNotValid => Ok (fr, false)
      | inl s => Ok (mkFrag (f_stats fr ++ [s]) (f_lines fr ++ [lno]) (f_errs fr), is_alias s)
                 (* lastAliasState, _ = annotateState.( *AnnotateAliasState ) *)
      end
    end
  end.

Fixpoint frag_loop_fx (st : frag * bool) (lines : list (N * bytes)) : Res (frag * bool) :=
  match lines with
  | [] => Ok st
  | ln :: rest => do st' <- frag_step_fx st ln; frag_loop_fx st' rest
  end.

(* ParseCommentFragment, before (cont = false) and after (cont = true) the repair *)
Definition parse_fragment_gen (cont : bool) (lines : list (N * bytes)) : Res frag :=
  if cont then
    do st <- frag_loop_fx (mkFrag [] [] [], false) lines;
    clear_empty_alias (fst st)
  else
    do fr <- frag_loop (mkFrag [] [] []) lines;
    clear_empty_alias fr.

(* ParseCommentFragment of the code as it is *)
Definition parse_fragment : list (N * bytes) -> Res frag := parse_fragment_gen (fx_cont deployed).
