(* C20 - model of the local, purely syntactic checks of the first analysis pass (not real-time mode):
     langserver/check/analysis/analysis_exp.go    cgExp cgTableConstructorExp cgBinopExp checkDuplicateFunParam
     langserver/check/analysis/analysis_stat.go   cgStat cgIfStat cgAssignStat checkLeftAssign cgLocalVarDeclStat
     langserver/check/analysis/analysis_block.go  cgBlock cgRetStat
     langserver/check/common/util.go              CompExp GetExpName GetTableAccessName GetExpLoc IsOneValueType
                                                  GetTableConstuctorKeyStr
     langserver/check/results/file_result.go      InsertError / InsertRelateError (append, no de-duplication)
     langserver/check/check_util.go               copyFileErr: de-duplication by CheckError.ToString()
                                                  = (type, Loc, message)
   on the shared model AST (Model/Ast.v).  Pipeline: bytes -> parse_bytes -> run_block.

   A report is (type, Loc, varying part of the message); the message matters only for the de-duplication.
   The vocabulary of tree nodes ([node], [nsize], [within]) is shared with Spec/PatternSpec.v.
   The traversal is described by [children_vis] (what cgExp/cgStat/cgBlock visit) and the checks by
   [local_pre] (fired before the children are visited) and [local_post] (after).  Within one table constructor the
   Go code interleaves its own type-5 reports with the reports of nested values, and in an assignment the
   type-7/20 report comes before the surplus right-hand sides are visited; the observable (the set of published
   diagnostics) does not depend on that order.

   The model is parameterised by a record of fix flags [fixes]: false = the code before the repair, true = after
   (one flag per diff /verif/fixes/C20-<slug>.diff).  [no_fixes] is the code as found, [deployed] is what the
   correspondence driver runs (= the state of /repo), [all_fixes] has every prepared repair.  *)
From Coq Require Import List NArith ZArith Bool Arith.
From LH Require Import Base.Bytes Base.Res Model.Lexer Model.Ast Model.Parser Model.LuaFront Spec.PatternSpec.
Import ListNotations.
Local Open Scope N_scope.

Record report := mkRep { r_ty : N; r_loc : loc; r_msg : list N }.

(* ------------------------------------------------------------------ the repairs *)
Record fixes := mkFixes {
  fx_else : bool;      (* C20-t19-else:           IfStat.HasElse; the synthetic `true` of an else branch is no condition *)
  fx_nil_loc : bool;   (* C20-nil-loc:            GetExpLoc has a case for NilExp *)
  fx_parens : bool;    (* C20-parens:             CompExp skips grouping parentheses *)
  fx_str_key : bool;   (* C20-t5-string-key:      the key string of a string key is a double quote + Str *)
  fx_int_key : bool;   (* C20-t5-int-key-place:   a repeated integer key is reported at the key *)
  fx_name14 : bool;    (* C20-t14-name-collision: 14 needs CompExp besides equal names *)
  fx_surplus : bool }. (* C20-local-surplus:      every value of a local declaration is visited (`continue`, not `break`) *)
Definition no_fixes : fixes := mkFixes false false false false false false false.
Definition all_fixes : fixes := mkFixes true true true true true true true.
(* the state of /repo: every repair (C20-local-surplus changes what EVERY pass visits: the models of the other
   properties - Usage.v, Scope.v, Symbols.v - were switched with it) *)
Definition deployed : fixes := mkFixes true true true true true true true.

(* ------------------------------------------------------------------ small helpers *)
Definition is_initial_loc (l : loc) : bool := loc_eqb l zero_loc.          (* Location.IsInitialLoc *)
Definition report_eqb (a b : report) : bool :=
  (r_ty a =? r_ty b) && loc_eqb (r_loc a) (r_loc b) && beq_bytes (r_msg a) (r_msg b).

Fixpoint mem_bytes (x : list N) (l : list (list N)) : bool :=
  match l with [] => false | y :: t => beq_bytes x y || mem_bytes x t end.
Fixpoint mem_report (x : report) (l : list report) : bool :=
  match l with [] => false | y :: t => report_eqb x y || mem_report x t end.

(* copyFileErr: the first of several identical (type, Loc, message) entries is kept *)
Fixpoint dedup_acc (seen : list report) (l : list report) : list report :=
  match l with
  | [] => []
  | x :: t => if mem_report x seen then dedup_acc seen t else x :: dedup_acc (x :: seen) t
  end.
Definition dedup (l : list report) : list report := dedup_acc [] l.

(* strconv.FormatInt(v, 10) *)
Fixpoint dec_digits (fuel : nat) (n : N) (acc : list N) : list N :=
  match fuel with
  | O => acc
  | S f => let acc' := (48 + n mod 10) :: acc in
           if n / 10 =? 0 then acc' else dec_digits f (n / 10) acc'
  end.
Definition dec_N (n : N) : list N := dec_digits (S (N.to_nat (N.log2 n))) n [].
Definition dec_Z (z : Z) : list N :=
  match z with Z0 => [48] | Zpos p => dec_N (Npos p) | Zneg p => 45 :: dec_N (Npos p) end.

(* ------------------------------------------------------------------ common/util.go *)
Definition s_hash (tail : list N) : list N := 35 :: tail.
Definition s_nil := s_hash [110;105;108].                              (* "#nil" *)
Definition s_false := s_hash [102;108;97;115;101].                     (* "#flase" (sic) *)
Definition s_true := s_hash [116;114;117;101].                         (* "#true" *)
Definition s_int := s_hash [105;110;116].                              (* "#int" *)
Definition s_float := s_hash [102;108;111;97;116].                     (* "#float" *)
Definition s_vararg := s_hash [118;97;114;97;114;103].                 (* "#vararg" *)
Definition s_errror := s_hash [101;114;114;114;111;114].               (* "#errror" (sic) *)
Definition s_table := s_hash [116;97;98;108;101].                      (* "#table" *)
Definition s_unop := s_hash [97;115;116;85;110;111;112;69;120;112].    (* "#astUnopExp" *)
Definition s_binop := s_hash [97;115;116;66;105;110;111;112;69;120;112]. (* "#astBinopExp" *)
Definition s_funcall := s_hash [102;117;110;99;97;108;108].            (* "#funcall" *)
Definition s_other := s_hash [111;116;104;101;114].                    (* "#other" *)

(* GetExpName / GetTableAccessName *)
Fixpoint exp_name (e : exp) : list N :=
  match e with
  | ENil _ => s_nil
  | EFalse _ => s_false
  | ETrue _ => s_true
  | EInt _ _ => s_int
  | EFloat _ _ => s_float
  | EStr s _ => s
  | EParens x _ => exp_name x
  | EVararg _ => s_vararg
  | EName n _ => 33 :: n                                              (* "!" + Name *)
  | EFunc _ _ _ _ _ _ _ _ => s_errror
  | ETable _ _ _ => s_table
  | EUnop _ _ _ => s_unop
  | EBinop _ _ _ _ => s_binop
  | EIndex p k _ => exp_name p ++ 46 :: exp_name k                    (* pre + "." + key *)
  | ECall _ _ _ _ => s_funcall
  | EBad _ => s_other
  end.
Definition has_hash (s : list N) : bool := existsb (fun c => c =? 35) s.   (* strings.Contains(s, "#") *)

(* GetExpLoc: no case for NilExp (before C20-nil-loc) and none for BadExpr -> the zero Location *)
Definition get_exp_loc (fx : fixes) (e : exp) : loc :=
  match e with
  | ENil l => if fx_nil_loc fx then l else zero_loc
  | EBad _ => zero_loc
  | ETrue l | EFalse l | EVararg l | EInt _ l | EFloat _ l | EStr _ l | EUnop _ _ l | EBinop _ _ _ l
  | ETable _ _ l | EFunc _ _ _ _ _ l _ _ | EName _ l | EParens _ l | EIndex _ _ l | ECall _ _ _ l => l
  end.

(* IsOneValueType (LuajitNum is never built by the parser) *)
Definition one_value (e : exp) : bool :=
  match e with
  | EName _ _ | EStr _ _ | EFloat _ _ | EInt _ _ | EFalse _ | ETrue _ | ENil _ => true
  | _ => false
  end.

(* GetTableConstuctorKeyStr: (strKey, strShow, loc) *)
Definition key_str (fx : fixes) (k : exp) (parent : loc) : option (list N * list N * loc) :=
  match k with
  | EInt v l => Some (s_int ++ dec_Z v, dec_Z v,                     (* "#int" + decimal *)
                      if fx_int_key fx then l else parent)           (* before: the Loc of the TABLE *)
  | EStr s l => Some (if fx_str_key fx then 34 :: s else s, s, l)    (* before: the string itself, no prefix *)
  | EName n l => Some (33 :: n, n, l)
  | _ => None
  end.

Definition is_true (e : exp) : bool := match e with ETrue _ => true | _ => false end.
Definition is_false (e : exp) : bool := match e with EFalse _ => true | _ => false end.
Definition is_float (e : exp) : bool := match e with EFloat _ _ => true | _ => false end.

Definition cmp_op (op : tkind) : bool :=
  match op with
  | TkOpOr | TkOpAnd | TkOpLt | TkOpLe | TkOpGt | TkOpGe | TkOpEq | TkOpNe => true
  | _ => false
  end.

Definition t_dupkey : N := 5.
Definition t_assign : N := 7.
Definition t_local : N := 8.
Definition t_param : N := 13.
Definition t_sameexp : N := 14.
Definition t_ortrue : N := 15.
Definition t_andfalse : N := 16.
Definition t_dupif : N := 19.
Definition t_selfassign : N := 20.
Definition t_floateq : N := 21.

(* skipParens (C20-parens), applied by CompExp at every level of its recursion = once, deeply, beforehand:
   grouping parentheses go; the parentheses of `(f())` / `(...)` (they adjust to one value) stay, once *)
Definition is_multi_p (e : exp) : bool := match e with ECall _ _ _ _ | EVararg _ => true | _ => false end.
Fixpoint strip_p (e : exp) : exp :=
  match e with
  | EParens x l => let s := strip_p x in if is_multi_p s then EParens s l else s
  | EUnop o x l => EUnop o (strip_p x) l
  | EBinop o a b l => EBinop o (strip_p a) (strip_p b) l
  | EIndex p k l => EIndex (strip_p p) (strip_p k) l
  | ECall p nm args l => ECall (strip_p p) nm (map strip_p args) l
  | _ => e
  end.

(* IfStat.HasElse (C20-t19-else): the parser appended the synthetic `true` of an else branch.  The shared AST has no such
   field; the flag is recovered as "the last condition is a TrueExp whose Loc is the Loc of an `else` keyword" ([elses] =
   the Locs of the `else` tokens of the file).  That is HasElse unless a real `true` condition carries the Loc of some
   `else` token (the column defects of property C04); the driver counts (PatternsClasses.else_exact) and skips such a file. *)
Definition has_else (elses : list loc) (es : list exp) : bool :=
  match last es (ENil zero_loc) with
  | ETrue l => existsb (loc_eqb l) elses
  | _ => false
  end.

Section Patterns.
  Variable fx : fixes.
  (* oracle: |v1 - v2| < 0.000001 on the float64 values strconv.ParseFloat gives for two float tokens
     (FloatExp.Val is not part of the model AST; the empty text stands for the Val 0 of a rejected numeral) *)
  Variable fclose : list N -> list N -> bool.

  Variable elses : list loc.      (* the Locs of the `else` keyword tokens of the file, see [has_else] *)

  (* CompExp as it was *)
  Fixpoint comp_exp (a b : exp) {struct a} : bool :=
    match a, b with
    | ENil _, ENil _ => true
    | EFalse _, EFalse _ => true
    | ETrue _, ETrue _ => true
    | EInt v _, EInt w _ => (v =? w)%Z
    | EFloat s _, EFloat t _ => fclose s t
    | EStr s _, EStr t _ => beq_bytes s t
    | EParens x _, EParens y _ => comp_exp x y
    | EVararg _, EVararg _ => true
    | EName n _, EName m _ => beq_bytes n m
    | EUnop o x _, EUnop p y _ => tk_eqb o p && comp_exp x y
    | EBinop o x1 x2 _, EBinop p y1 y2 _ => tk_eqb o p && comp_exp x1 y1 && comp_exp x2 y2
    | EIndex p k _, EIndex q j _ => comp_exp p q && comp_exp k j
    | ECall p nm args _, ECall q nm' args' _ =>
      comp_exp p q
      && match nm, nm' with
         | None, None => true
         | Some (s, _), Some (t, _) => beq_bytes s t
         | _, _ => false
         end
      && (fix go (l1 l2 : list exp) {struct l1} : bool :=
            match l1, l2 with
            | [], [] => true
            | x :: r, y :: s => comp_exp x y && go r s
            | _, _ => false
            end) args args'
    | _, _ => false                     (* FuncDefExp, TableConstructorExp, BadExpr, different kinds *)
    end.

  (* CompExp of the code: after C20-parens grouping parentheses are skipped *)
  Definition cmp (a b : exp) : bool :=
    if fx_parens fx then comp_exp (strip_p a) (strip_p b) else comp_exp a b.

  Fixpoint forallb2 {A B} (f : A -> B -> bool) (l1 : list A) (l2 : list B) : bool :=
    match l1, l2 with
    | [], [] => true
    | x :: r, y :: s => f x y && forallb2 f r s
    | _, _ => false
    end.

  (* ---------------------------------------------------------------- the checks, node by node *)
  (* cgBinopExp, first pass: 15 / 16, 21, 14 in this order *)
  Definition both_placed (e1 e2 : exp) : bool :=
    negb (is_initial_loc (get_exp_loc fx e1)) && negb (is_initial_loc (get_exp_loc fx e2)).
  Definition operands_loc (e1 e2 : exp) : loc := range_loc (get_exp_loc fx e1) (get_exp_loc fx e2).
  Definition check15 (op : tkind) (e1 e2 : exp) : list report :=
    if tk_eqb op TkOpOr && (is_true e1 || is_true e2) && both_placed e1 e2
    then [mkRep t_ortrue (operands_loc e1 e2) []] else [].
  Definition check16 (op : tkind) (e1 e2 : exp) : list report :=
    if tk_eqb op TkOpAnd && (is_false e1 || is_false e2) && both_placed e1 e2
    then [mkRep t_andfalse (operands_loc e1 e2) []] else [].
  Definition check21 (op : tkind) (e1 e2 : exp) (l : loc) : list report :=
    if (tk_eqb op TkOpEq || tk_eqb op TkOpNe) && (is_float e1 || is_float e2)
    then [mkRep t_floateq l []] else [].
  Definition check14 (op : tkind) (e1 e2 : exp) : list report :=
    if cmp_op op then
      let n1 := exp_name e1 in
      if has_hash n1 then [] else
      let n2 := exp_name e2 in
      if has_hash n2 then [] else
      if beq_bytes n1 n2 && (if fx_name14 fx then cmp e1 e2 else true) && both_placed e1 e2
      then [mkRep t_sameexp (operands_loc e1 e2) n2] else []
    else [].
  Definition binop_checks (op : tkind) (e1 e2 : exp) (l : loc) : list report :=
    check15 op e1 e2 ++ check16 op e1 e2 ++ check21 op e1 e2 l ++ check14 op e1 e2.

  (* cgTableConstructorExp: tabKeyMap remembers the keys seen so far *)
  Fixpoint table_checks (ks : list (option exp)) (parent : loc) (seen : list (list N)) : list report :=
    match ks with
    | [] => []
    | None :: r => table_checks r parent seen
    | Some k :: r =>
      match key_str fx k parent with
      | None => table_checks r parent seen
      | Some (key, show, l) =>
        match key with
        | [] => table_checks r parent seen                            (* strKey == "" -> continue *)
        | _ => if mem_bytes key seen then mkRep t_dupkey l show :: table_checks r parent seen
               else table_checks r parent (key :: seen)
        end
      end
    end.

  (* checkDuplicateFunParam: for i < j, ParList[j] != "_" and ParList[j] == ParList[i] -> report at ParLocList[j] *)
  Definition is_underscore (s : list N) : bool := beq_bytes s [95].
  Definition param_later (x : list N) (rest : list (list N * loc)) : list report :=
    flat_map (fun yl => if negb (is_underscore (fst yl)) && beq_bytes (fst yl) x
                        then [mkRep t_param (snd yl) (fst yl)] else []) rest.
  Fixpoint param_pairs (ps : list (list N * loc)) : list report :=
    match ps with
    | [] => []
    | (x, _) :: r => param_later x r ++ param_pairs r
    end.
  Definition param_checks (pars : list (list N)) (plocs : list loc) : list report :=
    param_pairs (combine pars plocs).

  (* cgIfStat: for i < j, CompExp(Exps[i], Exps[j]) -> report at GetExpLoc(Exps[j]); over all entries of Exps, after
     C20-t19-else without the synthetic one *)
  Definition conds_of (es : list exp) : list exp :=
    if fx_else fx && has_else elses es then removelast es else es.
  Definition if_later (x : exp) (rest : list exp) : list report :=
    flat_map (fun y => if cmp x y then [mkRep t_dupif (get_exp_loc fx y) []] else []) rest.
  Fixpoint if_checks (es : list exp) : list report :=
    match es with
    | [] => []
    | x :: r => if_later x r ++ if_checks r
    end.

  (* cgAssignStat: 7 (both directions) or 20 *)
  Definition assign_checks (vars es : list exp) (l : loc) : list report :=
    let nv := length vars in
    let ne := length es in
    if Nat.ltb nv ne then [mkRep t_assign l []]
    else if Nat.ltb ne nv then (if forallb one_value es then [mkRep t_assign l []] else [])
    else if forallb2 cmp vars es then [mkRep t_selfassign l []] else [].

  (* cgLocalVarDeclStat: 8 *)
  Definition local_checks (names : list (list N)) (es : list exp) (l : loc) : list report :=
    let nn := length names in
    let ne := length es in
    if Nat.ltb nn ne then [mkRep t_local l []]
    else if Nat.ltb ne nn && Nat.ltb 0 ne && forallb one_value es then [mkRep t_local l []]
    else [].

  (* ---------------------------------------------------------------- traversal *)
  (* ETable: key (if any) then value, pair by pair *)
  Fixpoint table_children (ks : list (option exp)) (vs : list exp) : list node :=
    match ks, vs with
    | Some k :: kr, v :: vr => NE k :: NE v :: table_children kr vr
    | None :: kr, v :: vr => NE v :: table_children kr vr
    | _, _ => []
    end.
  Fixpoint if_children (es : list exp) (bs : list block) : list node :=
    match es, bs with
    | e :: er, b :: br => NE e :: NB b :: if_children er br
    | _, _ => []
    end.
  (* checkLeftAssign: a NameExp target is not traversed; of a TableAccessExp target the prefix and the key are *)
  Definition target_children (v : exp) : list node :=
    match v with EIndex p k _ => [NE p; NE k] | _ => [] end.
  (* cgAssignStat: for every target i: ExpList[i] (if any), then the target; afterwards the surplus expressions *)
  Fixpoint assign_children (vars es : list exp) : list node :=
    match vars with
    | [] => map NE es
    | v :: vr =>
      match es with
      | [] => target_children v ++ assign_children vr []
      | e :: er => NE e :: target_children v ++ assign_children vr er
      end
    end.

  (* what cgExp / cgStat / cgBlock visit, in order *)
  Definition children_vis (n : node) : list node :=
    match n with
    | NE e =>
      match e with
      | EUnop _ x _ => [NE x]
      | EBinop _ a b _ => [NE a; NE b]
      | ETable ks vs _ => table_children ks vs
      | EFunc _ _ _ _ b _ _ _ => [NB b]
      | EParens x _ => [NE x]
      | EIndex p k _ => [NE p; NE k]
      | ECall p _ args _ => NE p :: map NE args
      | _ => []
      end
    | NS s =>
      match s with
      | SDo b _ => [NB b]
      | SCall e => [NE e]
      | SIf es bs _ => if_children es bs
      | SWhile e b _ => [NE e; NB b]
      | SRepeat b e _ => [NB b; NE e]
      | SForNum _ _ i lim st b _ => [NE i; NE lim; NE st; NB b]       (* Init, Limit, Step (fixes/C05-for-step-order.diff) *)
      | SForIn _ _ es b _ => map NE es ++ [NB b]
      | SAssign vars es _ => assign_children vars es
      | SLocal names _ _ es _ =>
        if fx_surplus fx then map NE es                                 (* `continue`: every value is visited *)
        else map NE (firstn (S (length names)) es)                      (* `if i >= nNames { break }` after cgExp *)
      | SLocalFunc _ _ f _ => [NE f]
      | SBreak | SLabel _ _ | SGoto _ _ => []
      end
    | NB (Block stats ret _) =>
      map NS stats ++ match ret with Some es => map NE es | None => [] end
    end.

  (* checks fired before / after the children of a node are visited *)
  Definition local_pre (n : node) : list report :=
    match n with
    | NE (EFunc _ _ pars plocs _ _ _ _) => param_checks pars plocs
    | NS (SIf es _ _) => if_checks (conds_of es)
    | NS (SLocal names _ _ es l) => local_checks names es l
    | _ => []
    end.
  Definition local_post (n : node) : list report :=
    match n with
    | NE (EBinop op a b l) => binop_checks op a b l
    | NE (ETable ks _ l) => table_checks ks l []
    | NS (SAssign vars es l) => assign_checks vars es l
    | _ => []
    end.
  Definition local (n : node) : list report := local_pre n ++ local_post n.

  Fixpoint collect (fuel : nat) (n : node) : list report :=
    match fuel with
    | O => []
    | S f => local_pre n ++ flat_map (collect f) (children_vis n) ++ local_post n
    end.

  (* the diagnostics of the listed types for one file, after the server's de-duplication *)
  Definition run_block (b : block) : list report := dedup (collect (nsize (NB b)) (NB b)).
End Patterns.

Section FromBytes.
  Variable fx : fixes.
  Variable fclose : list N -> list N -> bool.
  Variable gbk_runes : list N -> Z.
  Variable classify : list N -> numcls.
  (* BeginAnalyze: after the 31st error the AST is dropped (empty block); otherwise the (possibly partial) AST
     is analysed whether or not there were syntax errors *)
  Definition run_bytes (bs : list N) : Res (list report) :=
    do ts0 <- lex_all gbk_runes bs ;                                  (* = parse_bytes, keeping the tokens *)
    let ts := parser_view ts0 in
    do r <- parse_tokens classify (fuel_of_tokens ts) ts ;
    match r with
    | PR b _ _ => Ok (run_block fx fclose (else_locs zero_tok ts) b)
    | PRTooMany => Ok []
    end.
End FromBytes.

(* a report of type [ty] at [L] is in the list *)
Definition reported (ty : N) (L : loc) (rs : list report) : Prop :=
  exists r, In r rs /\ r_ty r = ty /\ r_loc r = L.
(* GetExpLoc gives a real (non-zero) Location *)
Definition has_place (fx : fixes) (e : exp) : Prop := is_initial_loc (get_exp_loc fx e) = false.
