(* Model of langserver/pathpre/pathpre.go VscodeURIToString (the step URI -> cache key that every text
   synchronisation handler performs first) and of the four handlers of langserver/textdocument_file_request.go with
   the open-document cache keyed the way the code keys it: by the DECODED path.  No proofs here.

   Model/TextSync.v abstracts documents to numbers (one number = one key).  Here a notification carries the URI the
   client sent; two different URIs may be decoded to the same key, and then they share one cache entry.

   Three booleans select the variant of the code:
     fx : as in Model/TextSync.v (UTF-16 columns, lone CR);
     ux = false : VscodeURIToString decodes with url.QueryUnescape ('+' becomes a space);
     ux = true  : the code after /verif/fixes/C02-uri-plus.diff (url.PathUnescape: '+' stays '+');
     sx = false : TextDocumentDidSave dereferences vs.Text without a nil check (didSave without text: panic);
     sx = true  : the code after /verif/fixes/C02-didsave-nil-text.diff (without text the cached text is kept).
   `deployed_uri_fixed` / `deployed_save_fixed` say which variant the correspondence check compares with the
   implementation. *)
From Coq Require Import List NArith Bool.
From LH Require Import Base.Bytes Base.Res Model.TextSync.
Import ListNotations.
Local Open Scope N_scope.

Definition deployed_uri_fixed : bool := true.
Definition deployed_save_fixed : bool := true.

(* ---- net/url: ishex, unhex, unescape(s, mode) for mode = encodeQueryComponent (QueryUnescape) and
        mode = encodePathSegment (PathUnescape).  An error (a '%' not followed by two hex digits) is None: both
        Go functions return ("", err) and the caller drops err. ---- *)
Definition ishex (c : N) : bool :=
  ((48 <=? c) && (c <=? 57)) || ((97 <=? c) && (c <=? 102)) || ((65 <=? c) && (c <=? 70)).

Definition unhex (c : N) : N :=
  if (48 <=? c) && (c <=? 57) then c - 48
  else if (97 <=? c) && (c <=? 102) then c - 87
  else if (65 <=? c) && (c <=? 70) then c - 55
  else 0.

Fixpoint unescape (ux : bool) (s : list N) {struct s} : option (list N) :=
  match s with
  | [] => Some []
  | c :: t =>
    if c =? 37 then                                           (* '%' *)
      match t with
      | a :: b :: t2 =>
        if ishex a && ishex b then option_map (cons (unhex a * 16 + unhex b)) (unescape ux t2) else None
      | _ => None                                             (* i+2 >= len(s) *)
      end
    else if c =? 43 then option_map (cons (if ux then 43 else 32)) (unescape ux t)      (* '+' *)
    else option_map (cons c) (unescape ux t)
  end.

(* strings.Replace(s, old, "", 1) for a non-empty old: the first occurrence is removed, wherever it is *)
Fixpoint strip_prefix (p s : list N) {struct p} : option (list N) :=
  match p with
  | [] => Some s
  | a :: p' => match s with
               | b :: s' => if a =? b then strip_prefix p' s' else None
               | [] => None
               end
  end.

Fixpoint remove_first (p s : list N) {struct s} : list N :=
  match strip_prefix p s with
  | Some r => r
  | None => match s with [] => [] | c :: t => c :: remove_first p t end
  end.

(* strings.Replace(s, "\\", "/", -1) *)
Definition replace_bs (s : list N) : list N := map (fun c => if c =? 92 then 47 else c) s.

(* pathpre.VscodeURIToString; `prefix` = the package variable preFixStr ("file:///" until InitialRootURIAndPath has
   seen a root URI of the form file://<rootPath>, then "file://") *)
Definition uri_key (ux : bool) (prefix u : list N) : list N :=
  replace_bs (match unescape ux (remove_first prefix u) with Some t => t | None => [] end).

Definition prefix2 : list N := [102; 105; 108; 101; 58; 47; 47].          (* "file://" *)
Definition prefix3 : list N := prefix2 ++ [47].                           (* "file:///" *)

(* pathpre.InitialRootURIAndPath(rootURI, rootPath): the value of preFixStr afterwards (`cur` = its value before).
   Before the repair both arguments go through QueryUnescape - the root PATH, too, which is a file-system path and
   not a URI; after the repair the URI goes through PathUnescape and the path is taken as it is. *)
Definition init_prefix (ux : bool) (cur rootURI rootPath : list N) : list N :=
  let dec s := replace_bs (match unescape ux s with Some t => t | None => [] end) in
  let ru := dec rootURI in
  let rp := if ux then replace_bs rootPath else dec rootPath in
  if N.of_nat (length ru) <? 8 then cur
  else if beq_bytes (skipn 7 ru) rp then prefix2 else cur.

(* ---- the cache, keyed by decoded path ---- *)
Definition kcache := list N -> option (list N).
Definition kempty : kcache := fun _ => None.
Definition kupd (c : kcache) (k : list N) (v : option (list N)) : kcache := fun x => if beq_bytes x k then v else c x.

(* common.GConfig.IsHandleAsLua with no file association configured: strings.HasSuffix(strFile, ".lua").
   project.IsNeedHandle is true (no ignore rule configured). *)
Definition is_lua_key (k : list N) : bool :=
  match rev k with
  | 97 :: 117 :: 108 :: 46 :: _ => true
  | _ => false
  end.

Inductive unote :=
| UOpen (uri text : list N)
| UChange (uri : list N) (chs : list change)
| USave (uri : list N) (text : option (list N))     (* Text *string: nil when the client leaves it out *)
| UClose (uri : list N).

Definition unote_uri (n : unote) : list N :=
  match n with UOpen u _ => u | UChange u _ => u | USave u _ => u | UClose u => u end.

Section Handlers.
  Variables fx ux sx : bool.
  Variable prefix : list N.

  Definition usync_step (c : kcache) (n : unote) : Res kcache :=
    let k := uri_key ux prefix (unote_uri n) in
    match n with
    | UOpen _ t => if is_lua_key k then Ok (kupd c k (Some t)) else Ok c
    | UChange _ chs =>
      match c k with
      | None => Ok c                                        (* GetFileContent: not found, log, return *)
      | Some cur =>
        match apply_changes fx cur chs with
        | Ok (inl new) => Ok (kupd c k (Some new))
        | Ok (inr _) => Ok c                                (* err != nil: log.Error, return nil; cache untouched *)
        | Fault f => Fault f
        | OutOfFuel => OutOfFuel
        end
      end
    | USave _ (Some t) => Ok (kupd c k (Some t))            (* no check that the document is open *)
    | USave _ None => if sx then Ok c else Fault NilDeref   (* *vs.Text *)
    | UClose _ => Ok (kupd c k None)
    end.

  Fixpoint urun (c : kcache) (ns : list unote) {struct ns} : Res kcache :=
    match ns with
    | [] => Ok c
    | n :: t => match usync_step c n with
                | Ok c' => urun c' t
                | Fault f => Fault f
                | OutOfFuel => OutOfFuel
                end
    end.

  (* the caches after each notification (for the correspondence check); stops at a fault *)
  Fixpoint utrace (c : kcache) (ns : list unote) {struct ns} : list (Res kcache) :=
    match ns with
    | [] => []
    | n :: t => match usync_step c n with
                | Ok c' => Ok c' :: utrace c' t
                | r => [r]
                end
    end.

  Definition urejected (c : kcache) (n : unote) : bool :=
    match n with
    | UChange u chs =>
      match c (uri_key ux prefix u) with
      | Some cur => match apply_changes fx cur chs with Ok (inr _) => true | _ => false end
      | None => false
      end
    | _ => false
    end.

  Fixpoint uany_rejected (c : kcache) (ns : list unote) {struct ns} : bool :=
    match ns with
    | [] => false
    | n :: t => urejected c n ||
                match usync_step c n with Ok c' => uany_rejected c' t | _ => false end
    end.
End Handlers.
