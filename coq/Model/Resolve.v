(* Position-based resolver of LuaHelper (binder family, "Resolver B") and the features built on it.
   Go code mirrored:
     scope_info.go      : isInLocation, FindMinScope (early-exit scan over SubScopes), GetCompleteVar
     file_result.go     : FindASTNode (falls back to the main scope)
     check_lsp_define.go: getVarCommonFuncParam, findOldDefineInfo, findVarDefineInfo, findGlobalVarDefineInfo
                          (local, then the file's globals, then the workspace table)
     check_util.go      : GetVarStruct (the identifier under the cursor is cut out of the TEXT)
     stringutil/util.go : GetBeforeIndex, GetContentBracketsFlag
     lspcommon/util.go  : OffsetForPosition
     textdocument_define.go / _references.go / _highlight.go / _rename.go / _hover.go / _complete.go,
     check_lsp_references.go (FindReferences), results/reference_result.go (MatchVarInfo),
     analysis_search.go (findNameStr / findGlobalVar in the fourth pass), check_lsp_complete.go (noPreComplete).
   Preconditions of the text part (checked by `text_ok`; otherwise the drivers answer SKIP): ASCII, no CR, no square
   brackets.  No protocol prefixes, no project entry files (every file is a "third phase" file), no annotations. *)
From Coq Require Import List NArith ZArith Bool.
From LH Require Import Base.Bytes Model.Lexer Model.Ast Model.Scope Model.Globals.
Import ListNotations.
Local Open Scope Z_scope.

(* ------------------------------------------------------------------ FindMinScope *)
(* returns the variable vectors from the scope found up to the scope started from (innermost first), pushed on acc *)
Fixpoint min_chain (s : scope) (line col : Z) (acc : list (list ventry)) {struct s} : option (list (list ventry)) :=
  match s with
  | Scope l vars subs =>
    if in_location l line col then
      let acc' := vars :: acc in
      Some ((fix scan (ss : list scope) : list (list ventry) :=
               match ss with
               | [] => acc'
               | sub :: r =>
                 if el (scope_loc sub) <? line then scan r
                 else if in_location (scope_loc sub) line col then
                        match min_chain sub line col acc' with Some c => c | None => acc' end
                      else if sl (scope_loc sub) >? line then acc'
                           else scan r
               end) subs)
    else None
  end.

(* FindASTNode: a cursor outside the chunk's Loc gets the main scope *)
Definition chain_at (fi : fileinfo) (line col : Z) : list (list ventry) :=
  match min_chain (fi_root fi) line col [] with
  | Some c => c
  | None => [scope_vars (fi_root fi)]
  end.

(* ------------------------------------------------------------------ what a cursor resolves to *)
Inductive target := TLocal (v : ventry) | TGlobal (f : list N) (g : gentry) | TNone | TAmbig.

(* line from 1 (PosLine + 1), col = the requested character *)
Definition resolve_at (w : mws) (f : list N) (fi : fileinfo) (name : list N) (line col : Z) : target :=
  match find_loc_var (chain_at fi line col) name (mkLoc line col line col) with
  | Some v => TLocal v
  | None =>
    match find_global_var (fi_globals fi) name with
    | Some g => TGlobal f g
    | None => match ws_global w name with
              | WOne f' g => TGlobal f' g
              | WNone => TNone
              | WAmbig => TAmbig
              end
    end
  end.

Definition floc := (list N * loc)%type.

(* textDocument/definition *)
Definition define_at (w : mws) (f : list N) (fi : fileinfo) (name : list N) (line col : Z) : option (list floc) :=
  match resolve_at w f fi name line col with
  | TLocal v => Some [(f, v_loc v)]
  | TGlobal f' g => Some [(f', g_loc g)]
  | TNone => Some []
  | TAmbig => None
  end.

(* ------------------------------------------------------------------ references / highlight / rename *)
Inductive refmode := MRefs | MHighlight | MRename.

Definition inside (d o : loc) : bool := in_location d (sl o) (sc o) && in_location d (el o) (ec o).
Definition revisited (o : occ) : bool := match o_kind o with ODefineG => false | _ => true end.

(* MatchVarInfo for a local target: the fourth pass found a local with the same declaration Loc *)
Definition occ_matches_local (name : list N) (d : loc) (o : occ) : bool :=
  revisited o && beq_bytes (o_name o) name &&
  match o_res o with Some l => loc_eqb l d | None => false end.

(* findGlobalVar in the fourth pass of file X, target = global g of file F *)
Definition occ_matches_global (w : mws) (name : list N) (F : list N) (g : gentry) (X : list N) (fx : fileinfo)
           (o : occ) : bool :=
  revisited o && beq_bytes (o_name o) name &&
  match o_res o with
  | Some _ => false
  | None =>
    match find_global_var (fi_globals fx) name with
    | Some e => beq_bytes X F && loc_eqb (g_loc e) (g_loc g)
    | None => match ws_global w name with
              | WOne F' e => beq_bytes F' F && loc_eqb (g_loc e) (g_loc g)
              | _ => false
              end
    end
  end.

(* FindReferences for a resolved target.  A found location inside the definition's range is skipped (the definition
   itself is reported separately): in the definition's file only (fix C06-same-pos-other-file; before it the range was
   compared without the file name, `references_of_target_fx no_fixes`) *)
Definition skip_define (F : list N) (d : loc) (X : list N) (l : loc) : bool := beq_bytes X F && inside d l.

Definition references_of_target (mode : refmode) (w : mws) (f : list N) (fi : fileinfo) (name : list N) (t : target)
  : option (list floc) :=
  match t with
  | TLocal v =>
    let d := v_loc v in
    Some ((f, d) :: map (fun o => (f, o_loc o))
                        (filter (fun o => occ_matches_local name d o && negb (inside d (o_loc o))) (fi_occs fi)))
  | TGlobal F g =>
    let d := g_loc g in
    let files := match mode with MHighlight => [(f, fi)] | _ => w end in
    let head := match mode with
                | MHighlight => if beq_bytes F f then [(F, d)] else []
                | _ => [(F, d)]
                end in
    (* a file without an own definition asks the workspace table: order-dependent when several files own the name *)
    let needs_ws := existsb (fun x => match find_global_var (fi_globals (snd x)) name with
                                      | Some _ => false
                                      | None => existsb (fun o => revisited o && beq_bytes (o_name o) name
                                                                  && match o_res o with None => true | Some _ => false end)
                                                        (fi_occs (snd x))
                                      end) files in
    match ws_global w name with
    | WAmbig => if needs_ws then None else
      Some (head ++ flat_map (fun x => map (fun o => (fst x, o_loc o))
                                           (filter (fun o => occ_matches_global w name F g (fst x) (snd x) o
                                                             && negb (skip_define F d (fst x) (o_loc o)))
                                                   (fi_occs (snd x)))) files)
    | _ =>
      Some (head ++ flat_map (fun x => map (fun o => (fst x, o_loc o))
                                           (filter (fun o => occ_matches_global w name F g (fst x) (snd x) o
                                                             && negb (skip_define F d (fst x) (o_loc o)))
                                                   (fi_occs (snd x)))) files)
    end
  | TNone => Some []
  | TAmbig => None
  end.

Definition references_at (mode : refmode) (w : mws) (f : list N) (fi : fileinfo) (name : list N) (line col : Z)
  : option (list floc) :=
  references_of_target mode w f fi name (resolve_at w f fi name line col).

(* the same with the repairs as a parameter *)
Definition skip_define_fx (fx : bfixes) (F : list N) (d : loc) (X : list N) (l : loc) : bool :=
  (negb (bf_same_pos fx) || beq_bytes X F) && inside d l.

Definition references_of_target_fx (fx : bfixes) (mode : refmode) (w : mws) (f : list N) (fi : fileinfo) (name : list N)
           (t : target) : option (list floc) :=
  match t with
  | TLocal v =>
    let d := v_loc v in
    Some ((f, d) :: map (fun o => (f, o_loc o))
                        (filter (fun o => occ_matches_local name d o && negb (inside d (o_loc o))) (fi_occs fi)))
  | TGlobal F g =>
    let d := g_loc g in
    let files := match mode with MHighlight => [(f, fi)] | _ => w end in
    let head := match mode with
                | MHighlight => if beq_bytes F f then [(F, d)] else []
                | _ => [(F, d)]
                end in
    let needs_ws := existsb (fun x => match find_global_var (fi_globals (snd x)) name with
                                      | Some _ => false
                                      | None => existsb (fun o => revisited o && beq_bytes (o_name o) name
                                                                  && match o_res o with None => true | Some _ => false end)
                                                        (fi_occs (snd x))
                                      end) files in
    match ws_global w name with
    | WAmbig => if needs_ws then None else
      Some (head ++ flat_map (fun x => map (fun o => (fst x, o_loc o))
                                           (filter (fun o => occ_matches_global w name F g (fst x) (snd x) o
                                                             && negb (skip_define_fx fx F d (fst x) (o_loc o)))
                                                   (fi_occs (snd x)))) files)
    | _ =>
      Some (head ++ flat_map (fun x => map (fun o => (fst x, o_loc o))
                                           (filter (fun o => occ_matches_global w name F g (fst x) (snd x) o
                                                             && negb (skip_define_fx fx F d (fst x) (o_loc o)))
                                                   (fi_occs (snd x)))) files)
    end
  | TNone => Some []
  | TAmbig => None
  end.

Definition references_at_fx (fx : bfixes) (mode : refmode) (w : mws) (f : list N) (fi : fileinfo) (name : list N)
           (line col : Z) : option (list floc) :=
  references_of_target_fx fx mode w f fi name (resolve_at w f fi name line col).

(* hover: does the label say `local` *)
Inductive hoverres := HLocal | HGlobal | HSkip.
Definition hover_at (w : mws) (f : list N) (fi : fileinfo) (name : list N) (line col : Z) : hoverres :=
  match resolve_at w f fi name line col with
  | TLocal _ => HLocal
  | TGlobal _ _ | TNone => HGlobal
  | TAmbig => HSkip
  end.

(* ------------------------------------------------------------------ completion of a bare identifier *)
Definition decl_before (line col : Z) (v : ventry) : bool :=           (* GetCompleteVar's position test *)
  negb ((sl (v_loc v) >? line) || ((sl (v_loc v) =? line) && (sc (v_loc v) >? col))).

Definition swap_case (c : N) : N :=
  if ((65 <=? c) && (c <=? 90))%N then (c + 32)%N else if ((97 <=? c) && (c <=? 122))%N then (c - 32)%N else c.
Definition is_letter (c : N) : bool := (((65 <=? c) && (c <=? 90)) || ((97 <=? c) && (c <=? 122)))%N.

(* IsCompleteNeedShow: a prefix starting with a letter keeps the names containing that letter in either case *)
Definition need_show (pre : list N) (name : list N) : bool :=
  match pre with
  | c :: _ => if is_letter c then existsb (fun x => (x =? c)%N || (x =? swap_case c)%N) name else true
  | [] => true
  end.

Definition complete_locals (fi : fileinfo) (line col : Z) : list (list N) :=
  flat_map (fun vars => map v_name (filter (decl_before line col) vars)) (chain_at fi line col).

(* labels that are identifiers of the workspace (keywords, snippets and system names are not modelled) *)
Definition complete_at (w : mws) (fi : fileinfo) (pre : list N) (line col : Z) : list (list N) :=
  filter (need_show pre)
         (complete_locals fi line col ++ map g_name (fi_globals fi) ++ nodefine_names fi ++ ws_global_names w).

(* ------------------------------------------------------------------ the text side *)
Local Open Scope N_scope.

Definition text_ok (bs : list N) : bool :=
  forallb (fun c => (c <? 128) && negb (c =? 13) && negb (c =? 91) && negb (c =? 93)) bs.

(* OffsetForPosition on ASCII text *)
Fixpoint offset_of (bs : list N) (line col : N) (off : N) : option N :=
  match bs with
  | [] => if (line =? 0) && (col =? 0) then Some off else None
  | c :: r =>
    if (line =? 0) && (col =? 0) then Some off
    else if line =? 0 then (if c =? 10 then None else offset_of r 0 (col - 1) (off + 1))
         else if c =? 10 then offset_of r (line - 1) col (off + 1)
              else offset_of r line col (off + 1)
  end.

Definition is_digit (c : N) : bool := (48 <=? c) && (c <=? 57).
Definition is_idc (c : N) : bool := (c =? 95) || is_digit c || is_letter c.
Definition nthb (bs : list N) (i : N) : N := nth (N.to_nat i) bs 0.

(* GetBeforeIndex on the reversed prefix; i = distance from the start index, best = distance of beforeIndex *)
Fixpoint before_scan (l : list N) (i best : N) (rb : Z) : N :=
  match l with
  | [] => best
  | ch :: r =>
    if (ch =? 13) || (ch =? 10) then best
    else if (ch =? 95) || (ch =? 46) || (ch =? 58) || is_digit ch || is_letter ch || (ch =? 41) || (ch =? 40) then
           if ch =? 41 then before_scan r (i + 1) i (rb + 1)%Z
           else if ch =? 40 then (if (rb - 1 <? 0)%Z then best else before_scan r (i + 1) i (rb - 1)%Z)
                else before_scan r (i + 1) i rb
         else if (rb >? 0)%Z then before_scan r (i + 1) best rb else best
  end.

Definition before_index (bs : list N) (start : N) : N :=
  start - before_scan (rev (firstn (N.to_nat (start + 1)) bs)) 0 0 0%Z.

Fixpoint ident_run (l : list N) : list N :=
  match l with c :: r => if is_idc c then c :: ident_run r else [] | [] => [] end.

(* the part after the last ".." *)
Fixpoint after_dots (l : list N) (cur : list N) : list N :=
  match l with
  | 46 :: 46 :: r => after_dots r []       (* non-overlapping scan from the left finds the same last index for the
                                              inputs that end in an identifier *)
  | c :: r => after_dots r (cur ++ [c])
  | [] => cur
  end.

Definition is_ident (s : list N) : bool :=
  match s with
  | c :: _ => negb (is_digit c) && forallb is_idc s
  | [] => false
  end.

Inductive cut := CutName (s : list N) | CutInvalid | CutUnsupported.

(* GetVarStruct: the identifier the request is about *)
Definition cut_name (bs : list N) (off : N) : cut :=
  let n := N.of_nat (length bs) in
  if n =? 0 then CutInvalid else
  let off1 := if off =? n then off - 1 else off in
  let off2 := if (0 <? off1) && negb (is_idc (nthb bs off1)) then off1 - 1 else off1 in
  if negb (is_idc (nthb bs off2)) then CutInvalid else
  let b := before_index bs off2 in
  let tail := ident_run (skipn (N.to_nat off2) bs) in
  let str := firstn (N.to_nat (off2 - b)) (skipn (N.to_nat b) bs) ++ tail in
  let str' := after_dots str [] in
  if is_ident str' then CutName str' else CutUnsupported.

(* getCompeletePreStr + getComplelteStruct for a bare identifier prefix *)
Fixpoint line_prefix_rev (l : list N) : list N :=       (* l = reversed text before the cursor *)
  match l with c :: r => if (c =? 10) || (c =? 13) then [] else c :: line_prefix_rev r | [] => [] end.
Fixpoint has_dashdash (l : list N) : bool :=
  match l with 45 :: ((45 :: _) as r) => true | _ :: r => has_dashdash r | [] => false end.
Definition count_byte (c : N) (l : list N) : nat := length (filter (N.eqb c) l).

Definition complete_prefix (bs : list N) (off : N) : cut :=
  if off =? 0 then CutInvalid else
  let b := before_index bs (off - 1) in
  let str := firstn (N.to_nat (off - b)) (skipn (N.to_nat b) bs) in
  let lp := line_prefix_rev (rev (firstn (N.to_nat off) bs)) in
  if Nat.odd (count_byte 34 lp) || Nat.odd (count_byte 39 lp) then CutInvalid
  else if has_dashdash lp then CutInvalid
  else let str' := after_dots str [] in
       if is_ident str' then CutName str' else CutUnsupported.

(* ------------------------------------------------------------------ the local part of go-to-definition on one file *)
Local Open Scope Z_scope.
Definition resolve_local (P : block) (name : list N) (line col : Z) : option loc :=
  option_map v_loc (find_loc_var (chain_at (analyse P) line col) name (mkLoc line col line col)).
