(* C13 - model of the hover text for the declaration forms of the property's quantifier:
     local / global variables with a literal value (integer, string, boolean, nil, none) and
     functions (`function f(..)`, `local function f(..)`, `f = function(..)`, `local f = function(..)`) declared at the
     top level of the file under a name that is declared once; hover on the name at its declaration or at a use.
   Go code: textdocument_hover.go (TextDocumentHover, getHoverStr), check_lsp_hover.go (GetLspHoverVarStr,
   getVarHoverInfo), common/util.go GetLuaTypeString, check_lsp_hover_complete_util.go getFuncShowStr / GetStrComment.
   Everything outside that fragment is answered `HSkip reason` (the correspondence leg counts it as skipped). *)
From Coq Require Import List NArith ZArith Bool.
From LH Require Import Base.Bytes Base.Res Model.Codec Model.Lexer Model.Ast Model.Parser Model.LuaFront Model.Comments.
Import ListNotations.
Local Open Scope N_scope.

(* strconv.FormatInt(v, 10) *)
Fixpoint dec_digits (fuel : nat) (n : N) (acc : list N) : list N :=
  match fuel with
  | O => acc
  | S f => let acc' := (48 + n mod 10) :: acc in
           if n / 10 =? 0 then acc' else dec_digits f (n / 10) acc'
  end.
Definition dec_N (n : N) : list N := dec_digits (S (N.to_nat (N.log2 n))) n [].
Definition dec_Z (z : Z) : list N :=
  match z with Z0 => [48] | Zpos p => dec_N (Npos p) | Zneg p => 45 :: dec_N (Npos p) end.

Definition s_local : list N := [108; 111; 99; 97; 108; 32].                 (* "local " *)
Definition s_function : list N := [102; 117; 110; 99; 116; 105; 111; 110; 32].   (* "function " *)
Definition s_colon : list N := [32; 58; 32].                                (* " : " *)
Definition s_any : list N := [97; 110; 121].
Definition s_boolean : list N := [98; 111; 111; 108; 101; 97; 110].
Definition s_number : list N := [110; 117; 109; 98; 101; 114].
Definition s_string : list N := [115; 116; 114; 105; 110; 103].
Definition s_eq : list N := [32; 61; 32].                                   (* " = " *)
Definition s_param_any : list N := [58; 32; 97; 110; 121].                  (* ": any" *)
Definition s_comma : list N := [44; 32].
Definition s_dots : list N := [46; 46; 46].

Inductive skip_reason :=
| SkTooMany | SkNoIdent | SkNoDecl | SkAmbiguous | SkValue | SkFuncBody | SkAnnotation | SkFlagged | SkBom.

Inductive hover_result := HText (t : list N) | HSkip (r : skip_reason).

(* ------------------------------------------------------------------ declarations at top level *)
Inductive decl :=
| DVar (is_local : bool) (value : option exp) (l : loc)
| DFunc (is_local : bool) (f : exp) (l : loc).

Definition mk_decl (is_local : bool) (value : option exp) (l : loc) : decl :=
  match value with
  | Some (EFunc c f p pl b fl va co) => DFunc is_local (EFunc c f p pl b fl va co) l
  | _ => DVar is_local value l
  end.

Fixpoint local_decls (name : list N) (names : list (list N)) (locs : list loc) (i : nat) (es : list exp) : list decl :=
  match names, locs with
  | n :: ns, l :: ls =>
    (if beq_bytes n name then [mk_decl true (nth_error es i) l] else []) ++ local_decls name ns ls (S i) es
  | _, _ => []
  end.

Fixpoint assign_decls (name : list N) (vars : list exp) (i : nat) (es : list exp) : list decl :=
  match vars with
  | EName n l :: vs =>
    (if beq_bytes n name then [mk_decl false (nth_error es i) l] else []) ++ assign_decls name vs (S i) es
  | _ :: vs => assign_decls name vs (S i) es
  | [] => []
  end.

Definition stat_decls (name : list N) (s : stat) : list decl :=
  match s with
  | SLocal names locs _ es _ => local_decls name names locs 0 es
  | SLocalFunc n nl f _ => if beq_bytes n name then [DFunc true f nl] else []
  | SAssign vars es _ => assign_decls name vars 0 es
  | _ => []
  end.

Definition top_decls (name : list N) (b : block) : list decl := flat_map (stat_decls name) (block_stats b).

(* ------------------------------------------------------------------ label *)
(* common.GetLuaTypeString on the forms of the fragment *)
Definition type_str (v : option exp) : option (list N) :=
  match v with
  | None => Some s_any
  | Some (ENil _) => Some s_any
  | Some (ETrue _) | Some (EFalse _) => Some s_boolean
  | Some (EInt z _) => Some (s_number ++ s_eq ++ dec_Z z)
  | Some (EStr [] _) => Some s_string
  | Some (EStr s _) => Some (s_string ++ s_eq ++ [34] ++ s ++ [34])
  | _ => None
  end.

Fixpoint params_str (ps : list (list N)) : list N :=
  match ps with
  | [] => []
  | [p] => p ++ s_param_any
  | p :: t => p ++ s_param_any ++ s_comma ++ params_str t
  end.

(* bodies for which getFuncShowStr adds neither inferred argument types nor a return list *)
Definition plain_body (b : block) : bool :=
  match b with
  | Block stats None _ => forallb (fun s => match s with SCall _ => true | _ => false end) stats
  | _ => false
  end.

Definition func_str (name : list N) (f : exp) : option (list N) :=
  match f with
  | EFunc _ _ pars _ b _ va false =>
    if plain_body b then
      Some (s_function ++ name ++ [40] ++ params_str pars
            ++ (if va then (match pars with [] => [] | _ => s_comma end) ++ s_dots else []) ++ [41])
    else None
  | _ => None
  end.

Definition decl_label (name : list N) (d : decl) : option (list N) :=
  match d with
  | DVar lc v _ =>
    match type_str v with
    | Some t => Some ((if lc then s_local else []) ++ name ++ s_colon ++ t)
    | None => None
    end
  | DFunc lc f _ =>
    match func_str name f with
    | Some t => Some ((if lc then s_local else []) ++ t)
    | None => None
    end
  end.
Definition decl_loc (d : decl) : loc := match d with DVar _ _ l => l | DFunc _ _ l => l end.
Definition decl_is_local (d : decl) : bool := match d with DVar lc _ _ => lc | DFunc lc _ _ => lc end.

(* GetLspHoverVarStr follows the chain of definitions of a declaration that is initialised from another NAME
   (`local limit = base`): findList = the declaration, the declaration of `base`, ... The label is built for the HOVERED
   name: `local ` when the hovered (first) declaration is local, the type / value / parameter list of the declaration the
   chain ends in; the documentation is the first non-empty comment along the chain (the hovered declaration's own
   comment if it has one, else the comment of what it is initialised from). *)
Definition label_of (lc : bool) (name : list N) (d : decl) : option (list N) :=
  match d with
  | DVar _ v _ =>
    match type_str v with
    | Some t => Some ((if lc then s_local else []) ++ name ++ s_colon ++ t)
    | None => None
    end
  | DFunc _ f _ =>
    match func_str name f with
    | Some t => Some ((if lc then s_local else []) ++ t)
    | None => None
    end
  end.

Definition alias_target (d : decl) : option (list N) :=
  match d with DVar _ (Some (EName n _)) _ => Some n | _ => None end.

(* d and the declarations its initialiser chain leads to; None: the chain leaves the fragment (target not declared
   exactly once at top level, or not above the alias, or more than `fuel` links) *)
Fixpoint decl_chain (fuel : nat) (b : block) (d : decl) : option (list decl) :=
  match alias_target d with
  | None => Some [d]
  | Some n =>
    match fuel with
    | O => None
    | S f =>
      match top_decls n b with
      | [d'] => if (sl (decl_loc d') <? sl (decl_loc d))%Z
                then match decl_chain f b d' with Some ds => Some (d :: ds) | None => None end
                else None
      | _ => None
      end
    end
  end.

Fixpoint first_nonempty (ls : list (list N)) : list N :=
  match ls with [] => [] | [] :: t => first_nonempty t | a :: _ => a end.

(* ------------------------------------------------------------------ the hover text *)
Definition s_open : list N := [96; 96; 96; 108; 117; 97; 10].      (* ```lua\n *)
Definition s_close : list N := [10; 96; 96; 96].                   (* \n``` *)
Definition s_rule : list N := [10; 45; 45; 45; 10].                (* \n---\n *)
Definition s_nlcr : list N := [10; 13].

(* TextDocumentHover: markdown value from (label, doc, file); label non-empty *)
Definition hover_value (label doc file : list N) : list N :=
  s_open ++ label ++ s_close
  ++ (match doc, file with [], [] => [] | _, _ => s_rule end)
  ++ doc ++ (match file with [] => [] | _ => s_nlcr ++ file end).

(* the identifier token under an LSP position (0-based line, column = bytes on an ASCII prefix); the end column counts *)
Definition ident_at (ts : list ltok) (line col : Z) : option (list N) :=
  match find (fun t => tk_eqb (tk (lt t)) TkIdentifier && (tline (lt t) =? line + 1)%Z
                       && (tfrom (lt t) - tlsp (lt t) <=? col)%Z && (col <=? tto (lt t) - tlsp (lt t))%Z) ts with
  | Some t => Some (tstr (lt t))
  | None => None
  end.

(* the raw text of a 1-based line (lines end at \n) *)
Fixpoint until_nl (bs : list N) : nat :=
  match bs with [] => O | c :: t => if c =? 10 then O else S (until_nl t) end.
Fixpoint raw_line (bs : list N) (n : nat) {struct n} : list N :=
  match n with
  | O | S O => firstn (until_nl bs) bs
  | S n' => raw_line (skipn (S (until_nl bs)) bs) n'
  end.

Section Hover.
  Variable gbk_runes : list N -> Z.
  Variable classify : list N -> numcls.
  Variable gbk_decode : list N -> option (list N).

  (* docf: documentation text from (comment map writes, line of the declared name);
     inherit: the server's rule "first non-empty comment along the initialiser chain" (false: only the hovered
     declaration's own comment - the property's demand) *)
  Definition hover_with (inherit : bool) (docf : list (Z * cinfo) -> Z -> list N) (file bs : list N) (line col : Z)
    : Res hover_result :=
    match lex_all gbk_runes bs with
    | Fault k => Fault k
    | OutOfFuel => OutOfFuel
    | Ok ts =>
      let ts' := parser_view ts in
      match parse_tokens classify (fuel_of_tokens ts') ts', consumed_tokens classify ts' with
      | Fault k, _ | _, Fault k => Fault k
      | OutOfFuel, _ | _, OutOfFuel => OutOfFuel
      | Ok PRTooMany, _ | _, Ok None => Ok (HSkip SkTooMany)
      | Ok (PR b le pe), Ok (Some used) =>
        let es := cm_writes used in
        match le, pe with
        | [], [] =>
          if has_annotation es
             || (match index_of_sub [45; 45; 45; 64] (raw_line bs (Z.to_nat (line + 1))) with Some _ => true | None => false end)
          then Ok (HSkip SkAnnotation) else
          (* a byte-order mark shifts the server's columns on the first line (C04 finding): not modelled here *)
          if (match bs with 239 :: 187 :: 191 :: _ => true | _ => false end) && (line =? 0)%Z then Ok (HSkip SkBom) else
          match ident_at ts line col with
          | None => Ok (HSkip SkNoIdent)
          | Some name =>
            match top_decls name b with
            | [] => Ok (HSkip SkNoDecl)
            | [d] =>
              match decl_chain 3 b d with
              | None => Ok (HSkip SkValue)
              | Some ds =>
                let dl := last ds d in
                match label_of (decl_is_local d) name dl with
                | None => Ok (HSkip (match dl with DVar _ _ _ => SkValue | DFunc _ _ _ => SkFuncBody end))
                | Some label =>
                  let docs := map (fun x => docf es (el (decl_loc x))) (if inherit then ds else [d]) in
                  Ok (HText (hover_value label (first_nonempty docs) file))
                end
              end
            | _ => Ok (HSkip SkAmbiguous)
            end
          end
        | _, _ => Ok (HSkip SkFlagged)
        end
      end
    end.

  (* the server: GetLineComment, GetStrComment, ConvertStrToUtf8 *)
  Definition hover : list N -> list N -> Z -> Z -> Res hover_result := hover_with true (hover_doc gbk_decode).
End Hover.

(* ------------------------------------------------------------------ the variant with fix C13-long-comment-doc
   (Model/Comments.v, flag fx): the same hover text computed on the comment map of lex_all_v fx. `hover_with` above is
   the variant fx = false (Proofs/CommentsLong.v hover_with_v_false). *)
Section HoverV.
  Variable fx : bool.
  Variable gbk_runes : list N -> Z.
  Variable classify : list N -> numcls.
  Variable gbk_decode : list N -> option (list N).

  Definition hover_with_v (inherit : bool) (docf : list (Z * cinfo) -> Z -> list N) (file bs : list N) (line col : Z)
    : Res hover_result :=
    match lex_all_v fx gbk_runes bs with
    | Fault k => Fault k
    | OutOfFuel => OutOfFuel
    | Ok ts =>
      let ts' := parser_view ts in
      match parse_tokens classify (fuel_of_tokens ts') ts', consumed_tokens classify ts' with
      | Fault k, _ | _, Fault k => Fault k
      | OutOfFuel, _ | _, OutOfFuel => OutOfFuel
      | Ok PRTooMany, _ | _, Ok None => Ok (HSkip SkTooMany)
      | Ok (PR b le pe), Ok (Some used) =>
        let es := cm_writes used in
        match le, pe with
        | [], [] =>
          if has_annotation es
             || (match index_of_sub [45; 45; 45; 64] (raw_line bs (Z.to_nat (line + 1))) with Some _ => true | None => false end)
          then Ok (HSkip SkAnnotation) else
          if (match bs with 239 :: 187 :: 191 :: _ => true | _ => false end) && (line =? 0)%Z then Ok (HSkip SkBom) else
          match ident_at ts line col with
          | None => Ok (HSkip SkNoIdent)
          | Some name =>
            match top_decls name b with
            | [] => Ok (HSkip SkNoDecl)
            | [d] =>
              match decl_chain 3 b d with
              | None => Ok (HSkip SkValue)
              | Some ds =>
                let dl := last ds d in
                match label_of (decl_is_local d) name dl with
                | None => Ok (HSkip (match dl with DVar _ _ _ => SkValue | DFunc _ _ _ => SkFuncBody end))
                | Some label =>
                  (* the chain of definitions ends, for a function, in the function expression itself: its comment is
                     looked up on the line its Loc ENDS on - the line of `end` (for a one-line function the name's line) *)
                  let fdoc := match dl with
                              | DFunc _ (EFunc _ _ _ _ _ fl _ _) _ => [docf es (el fl)]
                              | _ => []
                              end in
                  let docs := map (fun x => docf es (el (decl_loc x))) (if inherit then ds else [d])
                              ++ (if inherit then fdoc else []) in
                  Ok (HText (hover_value label (first_nonempty docs) file))
                end
              end
            | _ => Ok (HSkip SkAmbiguous)
            end
          end
        | _, _ => Ok (HSkip SkFlagged)
        end
      end
    end.

  Definition hover_v : list N -> list N -> Z -> Z -> Res hover_result := hover_with_v true (hover_doc gbk_decode).
End HoverV.
