(* The scope tree that the LuaHelper traversal builds (binder family C05 C06 C11 C12 C14; DESIGN 5 "binder family").
   Go code mirrored:
     check/common/scope_info.go   : ScopeInfo, AddLocVar/InsertLocalVar, FindLocVar
     check/common/var_info.go     : IsCorrectPosition       compiler/lexer/common.go : IsBeforeLoc, IsContainLoc, CompareTwoLoc
     check/common/func_info.go    : CreateFuncInfo (MainScope with the function's Loc, appended to the current scope)
     check/analysis/analysis_stat.go, analysis_exp.go, analysis_block.go : order of scope creation, of AddLocVar and of
       the visits of sub-expressions; cgAssignStat's re-pointing of an "empty" local (IsExpEmpty); checkLeftAssign;
       insertAnalysisGlobalVar       check/results/file_result.go : InsertGlobalVar, FindGlobalLimitVar, FindGlobalVarInfo
       analysis_search.go : findNameStr / analysisNoDefineName (what a visited name is resolved to)
   One traversal serves every pass (1st: scope tree + globals + NodefineMaps; 4th: re-resolution of every name):
   each pass builds a fresh FileResult with the same code, the passes differ only in what they do with a resolved name. *)
From Coq Require Import List NArith ZArith Bool.
From LH Require Import Base.Bytes Model.Lexer Model.Ast.
Import ListNotations.
Local Open Scope Z_scope.

(* ------------------------------------------------------------------ repairs (fix: commits of the binder family)
   One flag per diff /verif/fixes/<Cxx>-<slug>.diff: false = the code before the repair, true = after.  The model
   functions WITHOUT a suffix are the code now in /repo (= the `deployed` variant, written out directly: the drivers
   extract them and the positive theorems are about them); the `_fx` functions are the same code with the flags as a
   parameter (the pre-fix behaviour stays executable: `no_fixes` reproduces every refuted class), and
   `..._fx deployed = ...` is proved (Proofs/ResolveFixes.v). *)
Record bfixes := mkBF {
  bf_same_pos : bool;    (* C06-same-pos-other-file: references skip a location inside the definition's range only in
                            the definition's FILE (ignoreDefineLoc was compared without the file name) *)
  bf_doc_end : bool;     (* C05-doc-end: definition / references / highlight / rename answer a cursor at the very end
                            of the document (offset = len(contents)) as hover does; before: `offset >= len` gave up *)
  bf_for_order : bool;   (* C05-for-step-order: cgForNumStat analyses init, limit, step (source order); before: init,
                            STEP, limit - a function scope of the step was stored before those of the limit (class B5) *)
  bf_multi_local : bool; (* C07-multi-local-order: cgLocalVarDeclStat analyses ALL initialisers, then adds the names;
                            before: name i was added right after initialiser i (class B3 / multi_local_order) *)
  bf_own_init : bool;    (* C05-own-initialiser: IsCorrectPosition hides a local from every use inside the initialiser
                            list of its own statement (VarInfo.InitLoc); before: only when the initialiser was a plain
                            name / call / function expression containing the use (class B1) *)
  bf_surplus : bool;     (* C20-local-surplus: cgLocalVarDeclStat analyses EVERY initialiser of `local a = 1, 2, 3, 4`
                            (`continue`); before: the loop ended (`break`) after the first initialiser beyond the
                            names, the later ones were never visited by any pass (class unvisited_local_surplus) *)
  bf_later_else : bool   (* C07-later-elsewhere: findGlobalVar (third pass, top level) asks the OTHER files of the workspace
                            before it reports a global that this file defines only further down as a load-order error;
                            before: type 3 although another file defines the global as well (class later_elsewhere) *)
}.
Definition no_fixes : bfixes := mkBF false false false false false false false.
Definition all_fixes : bfixes := mkBF true true true true true true true.
Definition deployed : bfixes := mkBF true true true true true true true.
(* the code of /repo before fixes/C20-local-surplus.diff (every other repair of that time in) *)
Definition before_surplus : bfixes := mkBF true true true true true false false.
(* the code of /repo before fixes/C07-later-elsewhere.diff (every other repair in) *)
Definition before_later_else : bfixes := mkBF true true true true true true false.

(* ------------------------------------------------------------------ Location predicates (lexer/common.go) *)
Definition loc_eqb (a b : loc) : bool :=                      (* CompareTwoLoc *)
  (sl a =? sl b) && (el a =? el b) && (sc a =? sc b) && (ec a =? ec b).

Definition loc_before (a b : loc) : bool :=                   (* a.IsBeforeLoc(b) *)
  (sl a <? sl b) || ((sl a =? sl b) && (sc a <=? sc b)).

Definition loc_contains (a b : loc) : bool :=                 (* a.IsContainLoc(b) *)
  if (sl a >? sl b) || (el a <? el b) then false
  else if (sl a =? sl b) && (sc a >? sc b) then false
  else if (el a =? el b) && (ec a <? ec b) then false
  else true.

(* isInLocation (scope_info.go) and Location.IsInLocStruct: same test, both ends inclusive; line from 1, column from 0 *)
Definition in_location (l : loc) (line col : Z) : bool :=
  if (line <? sl l) || (line >? el l) then false
  else if (line =? sl l) && (col <? sc l) then false
  else if (line =? el l) && (col >? ec l) then false
  else true.

(* ------------------------------------------------------------------ variables *)
(* what IsCorrectPosition looks at in VarInfo.ReferExp: the dynamic type and the Loc of the expression *)
Inductive refexp := RNone | RFunc (l : loc) | RName (l : loc) | RCall (l : loc).

Definition ref_of_exp (e : exp) : refexp :=
  match e with
  | EFunc _ _ _ _ _ l _ _ => RFunc l
  | EName _ l => RName l
  | ECall _ _ _ l => RCall l
  | _ => RNone
  end.

Record ventry := mkV5 {
  v_name : list N; v_loc : loc; v_ref : refexp; v_empty : bool (* IsExpEmpty *);
  v_init : option loc;    (* VarInfo.InitLoc (fixes/C05-own-initialiser.diff): for a variable declared by
                             `local names = explist` the range of the explist, from behind the last name to the end of
                             the statement *)
  v_tab : option loc      (* VarInfo.InitTableLoc: the Loc of the variable's own initialiser when that is a table
                             constructor (set at the declaration, never changed) *)
}.
(* a variable without an initialiser list (parameters, loop variables, local functions, `local x`) *)
Notation mkV n l r e := (mkV5 n l r e None None).

Definition tab_of_exp (e : exp) : option loc := match e with ETable _ _ l => Some l | _ => None end.

(* a use inside the initialiser list of the declaring statement does not see the variable - except inside the variable's
   own table constructor (key completion looks the variable up there) *)
Definition init_hides (v : ventry) (l : loc) : bool :=
  match v_init v with
  | Some il => loc_contains il l && negb (match v_tab v with Some tl => loc_contains tl l | None => false end)
  | None => false
  end.

Definition is_correct_position (v : ventry) (l : loc) : bool :=
  if negb (loc_before (v_loc v) l) then false
  else if init_hides v l then false
  else match v_ref v with
       | RFunc fl => if loc_contains fl (v_loc v) then true else negb (loc_contains fl l)
       | RName nl => negb (loc_contains nl l)
       | RCall cl => negb (loc_contains cl l)
       | RNone => true
       end.

(* scope tree; s_vars newest first (FindLocVar walks VarVec backwards), s_subs in creation order *)
Inductive scope := Scope (s_loc : loc) (s_vars : list ventry) (s_subs : list scope).
Definition scope_loc (s : scope) := match s with Scope l _ _ => l end.
Definition scope_vars (s : scope) := match s with Scope _ v _ => v end.
Definition scope_subs (s : scope) := match s with Scope _ _ ss => ss end.

Definition var_hit (name : list N) (l : loc) (v : ventry) : bool :=
  beq_bytes (v_name v) name && is_correct_position v l.

(* FindLocVar along the Parent chain; chain = the variable vectors from the innermost scope outwards *)
Fixpoint find_loc_var (chain : list (list ventry)) (name : list N) (l : loc) : option ventry :=
  match chain with
  | [] => None
  | vars :: rest =>
    match find (var_hit name l) vars with
    | Some v => Some v
    | None => find_loc_var rest name l
    end
  end.

(* ------------------------------------------------------------------ per-file globals *)
Record gentry := mkG { g_name : list N; g_loc : loc; g_flv : Z; g_slv : Z }.     (* ExtraGlobal.FuncLv / ScopeLv *)

(* GlobalMaps[name] = the newest entry of that name (older ones hang on its Prev chain); list newest first *)
Definition find_global_var (gs : list gentry) (name : list N) : option gentry :=   (* FindGlobalVarInfo(name, false, "") *)
  find (fun g => beq_bytes (g_name g) name) gs.

Definition find_global_limit (gs : list gentry) (name : list N) (flv slv : Z) (l : loc) : option gentry :=
  match find_global_var gs name with
  | None => None
  | Some g =>
    if g_flv g >? flv then None else if g_flv g <? flv then Some g
    else if g_slv g >? slv then None else if g_slv g <? slv then Some g
    else if sl (g_loc g) >? sl l then None else if sl (g_loc g) <? sl l then Some g
    else if sc (g_loc g) >? sc l then None else Some g
  end.

(* ------------------------------------------------------------------ emptiness tests (common/util.go) *)
(* GetSimpleValue (GetExpName e): the plain name an expression stands for *)
Fixpoint exp_simple_name (e : exp) : option (list N) :=
  match e with
  | EName n _ => Some n
  | EParens e1 _ => exp_simple_name e1
  | _ => None
  end.

Definition is_nil (e : exp) : bool := match e with ENil _ => true | _ => false end.
Definition is_empty_table (e : exp) : bool := match e with ETable [] [] _ => true | _ => false end.

(* IsLocalReferExpEmpty(name, e) and IsReferExpEmpty(EName name, e, false): nil, {}, `name or nil`, `name or {}` *)
Definition refer_empty (name : list N) (e : exp) : bool :=
  match e with
  | ENil _ => true
  | ETable [] [] _ => true
  | EBinop op e1 e2 _ =>
    match op with
    | TkOpOr => match exp_simple_name e1 with
                | Some n => beq_bytes n name && (is_nil e2 || is_empty_table e2)
                | None => false
                end
    | _ => false
    end
  | _ => false
  end.

(* ------------------------------------------------------------------ the traversal *)
Inductive occkind :=
| OUse        (* cgNameExp *)
| OAssign     (* assignment target that resolves to an existing local/global: findNameStr in the 4th pass *)
| ODefineG.   (* assignment target that defines a global (needDefine): not re-resolved *)

Record occ := mkO {
  o_kind : occkind; o_name : list N; o_loc : loc;
  o_res : option loc;     (* FindLocVar at that moment: the declaration Loc of the local found *)
  o_gdef : bool           (* GlobalMaps of the pass had an entry of that name at that moment *)
}.

Record frame := mkF { f_loc : loc; f_vars : list ventry; f_subs : list scope (* newest first *) }.

Record tstate := mkT {
  t_frames : list frame;        (* open scopes, innermost first *)
  t_globals : list gentry;      (* newest first *)
  t_occs : list occ             (* newest first *)
}.

Definition push (l : loc) (st : tstate) : tstate :=
  mkT (mkF l [] [] :: t_frames st) (t_globals st) (t_occs st).

Definition close_frame (f : frame) : scope := Scope (f_loc f) (f_vars f) (rev (f_subs f)).

Definition pop (st : tstate) : tstate :=
  match t_frames st with
  | f :: p :: rest => mkT (mkF (f_loc p) (f_vars p) (close_frame f :: f_subs p) :: rest) (t_globals st) (t_occs st)
  | _ => st
  end.

Definition add_var (v : ventry) (st : tstate) : tstate :=
  match t_frames st with
  | f :: rest => mkT (mkF (f_loc f) (v :: f_vars f) (f_subs f) :: rest) (t_globals st) (t_occs st)
  | [] => st
  end.

Definition lookup (st : tstate) (name : list N) (l : loc) : option ventry :=
  find_loc_var (map f_vars (t_frames st)) name l.

Definition has_global (st : tstate) (name : list N) : bool :=
  match find_global_var (t_globals st) name with Some _ => true | None => false end.

Definition log (k : occkind) (n : list N) (l : loc) (st : tstate) : tstate :=
  mkT (t_frames st) (t_globals st)
      (mkO k n l (option_map v_loc (lookup st n l)) (has_global st n) :: t_occs st).

(* the variable FindLocVar returns is mutated in place *)
Fixpoint upd_first (p : ventry -> bool) (f : ventry -> ventry) (vs : list ventry) : option (list ventry) :=
  match vs with
  | [] => None
  | v :: r => if p v then Some (f v :: r)
              else match upd_first p f r with Some r' => Some (v :: r') | None => None end
  end.

Fixpoint upd_frames (p : ventry -> bool) (f : ventry -> ventry) (fs : list frame) : list frame :=
  match fs with
  | [] => []
  | fr :: rest =>
    match upd_first p f (f_vars fr) with
    | Some vs' => mkF (f_loc fr) vs' (f_subs fr) :: rest
    | None => fr :: upd_frames p f rest
    end
  end.

(* cgAssignStat on a local whose IsExpEmpty is set: ReferExp is re-pointed to the assigned expression (class B4) *)
Definition repoint (name : list N) (eo : option exp) (v : ventry) : ventry :=
  if v_empty v then
    match eo with
    | Some e => mkV5 (v_name v) (v_loc v) (ref_of_exp e) (refer_empty name e) (v_init v) (v_tab v)
    | None => mkV5 (v_name v) (v_loc v) (v_ref v) false (v_init v) (v_tab v)
    end
  else v.

(* checkLeftAssign + the rest of one iteration of cgAssignStat for a plain-name target *)
Definition assign_name (flv slv : Z) (n : list N) (l : loc) (eo : option exp) (st : tstate) : tstate :=
  match lookup st n l with
  | Some _ =>
    let st1 := mkT (upd_frames (var_hit n l) (repoint n eo) (t_frames st)) (t_globals st) (t_occs st) in
    log OAssign n l st1
  | None =>
    match find_global_limit (t_globals st) n flv slv l with
    | Some _ => log OAssign n l st
    | None => let st1 := log ODefineG n l st in
              mkT (t_frames st1) (mkG n l flv slv :: t_globals st1) (t_occs st1)
    end
  end.

Definition apply_all {A} (fs : list (A -> A)) (a : A) : A := fold_left (fun x f => f x) fs a.

(* cgLocalVarDeclStat BEFORE fixes/C07-multi-local-order.diff (kept for the `_fx` variants): expression i is visited,
   then name i is added; an expression beyond the names is visited once and ends the loop (sur = false; with
   fixes/C20-local-surplus.diff, sur = true, the expressions behind it are visited too); names beyond the
   expressions get no value (or the trailing call) *)
Fixpoint local_loop_old (sur : bool) (vis : list (exp * (tstate -> tstate))) (ns : list (list N * loc)) (lastcall : refexp)
         (st : tstate) : tstate :=

  match vis with
  | [] =>
    fold_left (fun s nl => add_var (mkV (fst nl) (snd nl) lastcall
                                        (match lastcall with RNone => true | _ => false end)) s) ns st
  | (e, f) :: vis' =>
    let st1 := f st in
    match ns with
    | [] => if sur then apply_all (map snd vis') st1 else st1
    | (n, nl) :: ns' =>
      let st2 := add_var (mkV n nl (ref_of_exp e) (refer_empty n e)) st1 in
      local_loop_old sur vis' ns' (match e with ECall _ _ _ _ => ref_of_exp e | _ => RNone end) st2
    end
  end.

(* cgLocalVarDeclStat now: ALL the expressions are visited first (as Lua evaluates them: none sees a name of the
   statement; the expressions beyond the names included, fixes/C20-local-surplus.diff), then name i is added with
   expression i as its ReferExp; names beyond the expressions get no value (or the trailing call) *)
(* il = VarInfo.InitLoc of every variable of the statement (fixes/C05-own-initialiser.diff; None before it) *)
Fixpoint local_adds (es : list exp) (ns : list (list N * loc)) (lastcall : refexp) (il : option loc) (st : tstate)
  : tstate :=
  match es with
  | [] =>
    fold_left (fun s nl => add_var (mkV5 (fst nl) (snd nl) lastcall
                                         (match lastcall with RNone => true | _ => false end) il None) s) ns st
  | e :: es' =>
    match ns with
    | [] => st
    | (n, nl) :: ns' =>
      local_adds es' ns' (match e with ECall _ _ _ _ => ref_of_exp e | _ => RNone end) il
                 (add_var (mkV5 n nl (ref_of_exp e) (refer_empty n e) il (tab_of_exp e)) st)
    end
  end.

(* the entries local_adds adds, in the order they are added (local_adds = fold of add_var over them:
   Proofs/TraverseBindDefs.v local_adds_fold) *)
Fixpoint local_vars (es : list exp) (nls : list (list N * loc)) (lastcall : refexp) (il : option loc) {struct es}
  : list ventry :=
  match es with
  | [] => map (fun nl => mkV5 (fst nl) (snd nl) lastcall (match lastcall with RNone => true | _ => false end) il None) nls
  | e :: es' =>
    match nls with
    | [] => []
    | (n, nl) :: nls' =>
      mkV5 n nl (ref_of_exp e) (refer_empty n e) il (tab_of_exp e)
           :: local_vars es' nls' (match e with ECall _ _ _ _ => ref_of_exp e | _ => RNone end) il
    end
  end.

Definition local_loop (vis : list (exp * (tstate -> tstate))) (ns : list (list N * loc)) (lastcall : refexp)
           (il : option loc) (st : tstate) : tstate :=
  local_adds (map fst vis) ns lastcall il (apply_all (map snd vis) st).

(* the same before fixes/C20-local-surplus.diff (sur = false): only ONE expression beyond the names was visited (`break`) *)
Definition local_loop_fx (sur : bool) (vis : list (exp * (tstate -> tstate))) (ns : list (list N * loc)) (lastcall : refexp)
           (il : option loc) (st : tstate) : tstate :=
  local_adds (map fst vis) ns lastcall il
             (apply_all (map snd (if sur then vis else firstn (S (length ns)) vis)) st).

(* cgLocalVarDeclStat: initLoc = from behind the last declared name to the end of the statement, when there are
   initialisers *)
Definition init_loc (ns : list (list N)) (ls : list loc) (es : list exp) (l : loc) : option loc :=
  match es, ns with
  | [], _ | _, [] => None
  | _ :: _, _ :: _ =>
    let ln := nth (length ns - 1) ls zero_loc in
    Some (mkLoc (el ln) (ec ln + 1) (el l) (ec l))
  end.

(* cgAssignStat: per target, its expression (if any) is visited first, then the target is handled; surplus
   expressions are visited at the end *)
Inductive atarget := TgName (n : list N) (l : loc) | TgOther (f : tstate -> tstate).

Fixpoint assign_loop (flv slv : Z) (vars : list atarget)
         (vis : list (exp * (tstate -> tstate))) (st : tstate) : tstate :=
  let tgt v eo s := match v with TgName n l => assign_name flv slv n l eo s | TgOther f => f s end in
  match vars with
  | [] => apply_all (map snd vis) st
  | v :: vars' =>
    match vis with
    | (e, f) :: vis' => assign_loop flv slv vars' vis' (tgt v (Some e) (f st))
    | [] => assign_loop flv slv vars' [] (tgt v None st)
    end
  end.

Fixpoint if_loop (conds : list (tstate -> tstate)) (blocks : list (loc * (tstate -> tstate))) (st : tstate) : tstate :=
  match conds, blocks with
  | c :: cs, (bl, b) :: bs => if_loop cs bs (pop (b (push bl (c st))))
  | _, _ => st
  end.

Fixpoint tr_exp (flv : Z) (e : exp) (st : tstate) {struct e} : tstate :=
  match e with
  | EName n l => log OUse n l st
  | EParens e1 _ => tr_exp flv e1 st
  | EUnop _ e1 _ => tr_exp flv e1 st
  | EBinop _ e1 e2 _ => tr_exp flv e2 (tr_exp flv e1 st)
  | EIndex p k _ => tr_exp flv k (tr_exp flv p st)
  | ECall p _ args _ => apply_all (map (fun a => tr_exp flv a) args) (tr_exp flv p st)
  | ETable ks vs _ =>       (* outside the modelled fragment: keys then values *)
    apply_all (map (fun a => tr_exp flv a) vs)
              (apply_all (map (fun k => match k with Some k' => tr_exp flv k' | None => fun s => s end) ks) st)
  | EFunc _ _ pars plocs b l _ _ =>
    let st1 := push l st in
    let st2 := fold_left (fun s pl => add_var (mkV (fst pl) (snd pl) RNone false) s) (combine pars plocs) st1 in
    pop (tr_block (flv + 1) 0 b st2)
  | _ => st
  end
with tr_stat (flv slv : Z) (s : stat) (st : tstate) {struct s} : tstate :=
  match s with
  | SBreak | SLabel _ _ | SGoto _ _ => st
  | SDo b l => pop (tr_block flv (slv + 1) b (push l st))
  | SCall e => tr_exp flv e st
  | SIf es bs _ =>
    if_loop (map (fun e => tr_exp flv e) es)
            (map (fun b => (block_loc b, tr_block flv (slv + 1) b)) bs) st
  | SWhile e b l => pop (tr_block flv (slv + 1) b (push l (tr_exp flv e st)))
  | SRepeat b e l => pop (tr_exp flv e (tr_block flv (slv + 1) b (push l st)))
  | SForNum n vl e1 e2 e3 b l =>
    let st1 := tr_exp flv e3 (tr_exp flv e2 (tr_exp flv e1 (push l st))) in      (* init, limit, step: source order
                                                                                    (fix C05-for-step-order; before: init, step, limit) *)
    pop (tr_block flv (slv + 1) b (add_var (mkV n vl RNone false) st1))
  | SForIn ns ls es b l =>
    let st1 := apply_all (map (fun e => tr_exp flv e) es) (push l st) in
    let st2 := fold_left (fun s nl => add_var (mkV (fst nl) (snd nl) RNone false) s) (combine ns ls) st1 in
    pop (tr_block flv (slv + 1) b st2)
  | SAssign vars es _ =>
    assign_loop flv slv
                (map (fun v => match v with
                               | EName n l => TgName n l
                               | EIndex p k _ => TgOther (fun s => tr_exp flv k (tr_exp flv p s))
                               | _ => TgOther (fun s => s)
                               end) vars)
                (map (fun e => (e, tr_exp flv e)) es) st
  | SLocal ns ls _ es l =>
    local_loop (map (fun e => (e, tr_exp flv e)) es) (combine ns ls) RNone (init_loc ns ls es l) st
  | SLocalFunc n nl f _ => tr_exp flv f (add_var (mkV n nl (ref_of_exp f) false) st)
  end
with tr_block (flv slv : Z) (b : block) (st : tstate) {struct b} : tstate :=
  match b with
  | Block ss ret _ =>
    let st1 := apply_all (map (fun s => tr_stat flv slv s) ss) st in
    match ret with
    | Some es => apply_all (map (fun e => tr_exp flv e) es) st1
    | None => st1
    end
  end.

(* ------------------------------------------------------------------ the traversal with the repairs as a parameter
   (same text as tr_exp / tr_stat / tr_block; `tr_*_fx deployed` is convertible with the functions above:
   Proofs/ResolveFixes.v) *)
Section TraverseFx.
Variable fx : bfixes.
Fixpoint tr_exp_fx (flv : Z) (e : exp) (st : tstate) {struct e} : tstate :=
  match e with
  | EName n l => log OUse n l st
  | EParens e1 _ => tr_exp_fx flv e1 st
  | EUnop _ e1 _ => tr_exp_fx flv e1 st
  | EBinop _ e1 e2 _ => tr_exp_fx flv e2 (tr_exp_fx flv e1 st)
  | EIndex p k _ => tr_exp_fx flv k (tr_exp_fx flv p st)
  | ECall p _ args _ => apply_all (map (fun a => tr_exp_fx flv a) args) (tr_exp_fx flv p st)
  | ETable ks vs _ =>       (* outside the modelled fragment: keys then values *)
    apply_all (map (fun a => tr_exp_fx flv a) vs)
              (apply_all (map (fun k => match k with Some k' => tr_exp_fx flv k' | None => fun s => s end) ks) st)
  | EFunc _ _ pars plocs b l _ _ =>
    let st1 := push l st in
    let st2 := fold_left (fun s pl => add_var (mkV (fst pl) (snd pl) RNone false) s) (combine pars plocs) st1 in
    pop (tr_block_fx (flv + 1) 0 b st2)
  | _ => st
  end
with tr_stat_fx (flv slv : Z) (s : stat) (st : tstate) {struct s} : tstate :=
  match s with
  | SBreak | SLabel _ _ | SGoto _ _ => st
  | SDo b l => pop (tr_block_fx flv (slv + 1) b (push l st))
  | SCall e => tr_exp_fx flv e st
  | SIf es bs _ =>
    if_loop (map (fun e => tr_exp_fx flv e) es)
            (map (fun b => (block_loc b, tr_block_fx flv (slv + 1) b)) bs) st
  | SWhile e b l => pop (tr_block_fx flv (slv + 1) b (push l (tr_exp_fx flv e st)))
  | SRepeat b e l => pop (tr_exp_fx flv e (tr_block_fx flv (slv + 1) b (push l st)))
  | SForNum n vl e1 e2 e3 b l =>
    let st0 := tr_exp_fx flv e1 (push l st) in
    let st1 := if bf_for_order fx then tr_exp_fx flv e3 (tr_exp_fx flv e2 st0)          (* init, limit, step *)
               else tr_exp_fx flv e2 (tr_exp_fx flv e3 st0) in                          (* init, STEP, limit *)
    pop (tr_block_fx flv (slv + 1) b (add_var (mkV n vl RNone false) st1))
  | SForIn ns ls es b l =>
    let st1 := apply_all (map (fun e => tr_exp_fx flv e) es) (push l st) in
    let st2 := fold_left (fun s nl => add_var (mkV (fst nl) (snd nl) RNone false) s) (combine ns ls) st1 in
    pop (tr_block_fx flv (slv + 1) b st2)
  | SAssign vars es _ =>
    assign_loop flv slv
                (map (fun v => match v with
                               | EName n l => TgName n l
                               | EIndex p k _ => TgOther (fun s => tr_exp_fx flv k (tr_exp_fx flv p s))
                               | _ => TgOther (fun s => s)
                               end) vars)
                (map (fun e => (e, tr_exp_fx flv e)) es) st
  | SLocal ns ls _ es l =>
    if bf_multi_local fx then
      local_loop_fx (bf_surplus fx) (map (fun e => (e, tr_exp_fx flv e)) es) (combine ns ls) RNone
                 (if bf_own_init fx then init_loc ns ls es l else None) st
    else local_loop_old (bf_surplus fx) (map (fun e => (e, tr_exp_fx flv e)) es) (combine ns ls) RNone st
  | SLocalFunc n nl f _ => tr_exp_fx flv f (add_var (mkV n nl (ref_of_exp f) false) st)
  end
with tr_block_fx (flv slv : Z) (b : block) (st : tstate) {struct b} : tstate :=
  match b with
  | Block ss ret _ =>
    let st1 := apply_all (map (fun s => tr_stat_fx flv slv s) ss) st in
    match ret with
    | Some es => apply_all (map (fun e => tr_exp_fx flv e) es) st1
    | None => st1
    end
  end.

End TraverseFx.

(* ------------------------------------------------------------------ result of analysing one file *)
Record fileinfo := mkFI {
  fi_root : scope;              (* MainFunc.MainScope, Loc = the chunk's block Loc *)
  fi_globals : list gentry;     (* newest first *)
  fi_occs : list occ            (* in visiting order *)
}.

Definition analyse (b : block) : fileinfo :=
  let st := tr_block 0 0 b (mkT [mkF (block_loc b) [] []] [] []) in
  let root := match t_frames st with
              | f :: _ => close_frame f
              | [] => Scope (block_loc b) [] []
              end in
  mkFI root (t_globals st) (rev (t_occs st)).

Definition analyse_fx (fx : bfixes) (b : block) : fileinfo :=
  let st := tr_block_fx fx 0 0 b (mkT [mkF (block_loc b) [] []] [] []) in
  let root := match t_frames st with
              | f :: _ => close_frame f
              | [] => Scope (block_loc b) [] []
              end in
  mkFI root (t_globals st) (rev (t_occs st)).

(* NodefineMaps of the first pass: names met by cgNameExp that were then neither a visible local nor a global *)
Definition nodefine_names (fi : fileinfo) : list (list N) :=
  map o_name (filter (fun o => match o_kind o, o_res o with
                               | OUse, None => negb (o_gdef o)
                               | _, _ => false
                               end) (fi_occs fi)).
