(* Model of langserver/codingconv/codingconv.go: preNUm, isUtf8, ConvertStrToUtf8.
   The GBK decoder (golang.org/x/text) is an oracle: a Section variable. *)
From Coq Require Import List NArith Bool.
From LH Require Import Base.Bytes.
Import ListNotations.
Local Open Scope N_scope.

(* preNUm: scan the bits from the least significant one; a 0 bit resets the
   counter, a 1 bit increments it; stop when the remaining value is 0. *)
Fixpoint pre_num_aux (fuel : nat) (d i : N) : N :=
  match fuel with
  | O => i
  | S f => if d =? 0 then i
           else pre_num_aux f (d / 2) (if N.even d then 0 else i + 1)
  end.
Definition pre_num (d : N) : N := pre_num_aux 8 d 0.   (* 8 rounds exhaust a byte *)

(* isUtf8 as a scan with `pend` = continuation bytes still owed (the inner j loop). *)
Fixpoint is_utf8_st (pend : nat) (l : list N) : bool :=
  match l with
  | [] => match pend with O => true | S _ => false end      (* i >= len(data) inside the j loop *)
  | b :: t =>
    match pend with
    | S p => if N.land b 192 =? 128 then is_utf8_st p t else false
    | O => if N.land b 128 =? 0 then is_utf8_st O t
           else let n := pre_num b in
                if 2 <? n then is_utf8_st (N.to_nat n - 1) t else false
    end
  end.
Definition is_utf8 (l : list N) : bool := is_utf8_st O l.

Section Convert.
  Variable gbk_decode : list N -> option (list N).   (* oracle; None = decoder error *)
  Definition convert (s : list N) : list N :=
    match s with
    | [] => s
    | _ => if is_utf8 s then s
           else match gbk_decode s with Some r => r | None => s end
    end.
End Convert.
