(* Wider fragment of the binder family (C05 C06 C11 C12 C14): `_G.name` reads and writes, and plain names inside table
   constructors, index expressions, method calls and `function t.f()` / `function t:m()`.
   Everything here is NEW (Model/Scope.v and Model/Resolve.v are untouched); Proofs/WideNarrow.v shows that each wide
   function coincides with its narrow counterpart on the programs / texts of the narrow fragment.
   Go code mirrored in addition to what Scope.v / Resolve.v mirror:
     analysis_stat.go  : checkLeftAssign, the `tabName == "!_G"` branch (an assignment to `_G.x` defines / re-assigns the
                         GLOBAL x: FindGlobalLimitVar only, no FindLocVar); cgAssignStat's fourth-pass findTableDefine
     analysis_exp.go   : cgTableAccessExp (prefix, key; first pass: analysisNoDefineStr for `_G.x`)
     analysis_search.go: findTableDefine step 5 / checkfindGVar (fourth pass: `_G.x` is looked up like a global name,
                         the reference Loc is the key's Loc), isNeedAnalysisNameExp
     check_lsp_define.go findOldDefineInfo, check_lsp_hover.go findOldDefineInfoForHover,
     check_lsp_references.go FindReferenceVarDefine: the `StrVec[0] == "_G"` branch (globals only; GVarExtendGlobalFlag
                         has its default value true, so gFlag = false everywhere)
     stringutil/util.go: GetBeforeIndex with the square-bracket balance, matchSpecialBracketsStr, GetContentBracketsFlag *)
From Coq Require Import List NArith ZArith Bool.
From LH Require Import Base.Bytes Model.Lexer Model.Ast Model.Scope Model.Globals Model.Resolve.
Import ListNotations.
Local Open Scope Z_scope.

(* ------------------------------------------------------------------ `_G.x` *)
Definition name_G : list N := [95; 71]%N.

(* EIndex (EName "_G" gl) (EStr x xl) _  |->  (gl, x, xl) *)
Definition g_key (e : exp) : option (loc * list N * loc) :=
  match e with
  | EIndex (EName g gl) (EStr x xl) _ => if beq_bytes g name_G then Some (gl, x, xl) else None
  | _ => None
  end.

(* an occurrence logged without asking FindLocVar for a resolution (o_res = None) *)
Definition log_raw (k : occkind) (n : list N) (l : loc) (gdef : bool) (st : tstate) : tstate :=
  mkT (t_frames st) (t_globals st) (mkO k n l None gdef :: t_occs st).

(* a read of `_G.x`: the fourth pass looks x up among the globals only (checkfindGVar).  The first pass puts x into
   NodefineMaps under the same test as for a plain name (isNeedAnalysisNameExp: no visible local, no global of that
   name): the o_gdef flag - whose only consumer is nodefine_names - is set when either exists *)
Definition use_g (x : list N) (xl : loc) (st : tstate) : tstate :=
  log_raw OUse x xl (has_global st x || match lookup st x xl with Some _ => true | None => false end) st.

(* `_G.x = e`: checkLeftAssign never asks the locals *)
Definition assign_g (flv slv : Z) (x : list N) (xl : loc) (st : tstate) : tstate :=
  match find_global_limit (t_globals st) x flv slv xl with
  | Some _ => log_raw OAssign x xl (has_global st x) st
  | None => let st1 := log_raw ODefineG x xl (has_global st x) st in
            mkT (t_frames st1) (mkG x xl flv slv :: t_globals st1) (t_occs st1)
  end.

(* `t.a.b = e` (also `function t.a.b()`, `function t.a:b()`) with a member chain of plain string keys rooted at a LOCAL
   variable t: cgAssignStat / handleNotNeedDefine hang the member below the variable (VarInfo.SubMaps).  The only
   effect the binder family can observe: a variable with members is never re-pointed by a later plain assignment
   (cgAssignStat asks `findVar.IsExpEmpty && len(findVar.SubMaps) == 0`), i.e. class B4 cannot arise for it any more.
   Modelled by clearing the variable's v_empty flag (its only consumer is Scope.repoint).
   chain_root = the first component of GetExpName(prefix) ("!t.a", parentheses are looked through, a string literal
   stands for its text); the variable is looked up at the Loc of the last key (checkLeftAssign: GetExpLoc(KeyExp)). *)
Definition simple_str (s : list N) : bool :=                      (* JudgeSimpleStr *)
  negb (existsb (fun c => (c =? 33) || (c =? 35) || (c =? 46))%N s).

Fixpoint chain_root (e : exp) {struct e} : option (list N) :=
  match e with
  | EName n _ => Some n
  | EStr s _ => if simple_str s then Some s else None
  | EParens e1 _ => chain_root e1
  | EIndex p (EStr s _) _ => if simple_str s then chain_root p else None
  | _ => None
  end.

Definition member_target (v : exp) : option (list N * loc) :=
  match v with
  | EIndex p (EStr s kl) _ =>
    if simple_str s then
      match chain_root p with
      | Some n => if beq_bytes n name_G then None else Some (n, kl)
      | None => None
      end
    else None
  | _ => None
  end.

Definition mark_members (n : list N) (l : loc) (st : tstate) : tstate :=
  mkT (upd_frames (var_hit n l) (fun v => mkV5 (v_name v) (v_loc v) (v_ref v) false (v_init v) (v_tab v)) (t_frames st))
      (t_globals st) (t_occs st).

Definition assign_member (v : exp) (st : tstate) : tstate :=
  match member_target v with
  | Some (n, kl) => mark_members n kl st
  | None => st
  end.

(* ------------------------------------------------------------------ the traversal (copy of Scope.tr_exp / tr_stat /
   tr_block; the only new cases are the three marked NEW) *)
Fixpoint trw_exp (flv : Z) (e : exp) (st : tstate) {struct e} : tstate :=
  match e with
  | EName n l => log OUse n l st
  | EParens e1 _ => trw_exp flv e1 st
  | EUnop _ e1 _ => trw_exp flv e1 st
  | EBinop _ e1 e2 _ => trw_exp flv e2 (trw_exp flv e1 st)
  | EIndex p k _ =>
    match g_key e with
    | Some (gl, x, xl) => use_g x xl (log OUse name_G gl st)                                   (* NEW *)
    | None => trw_exp flv k (trw_exp flv p st)
    end
  | ECall p _ args _ => apply_all (map (fun a => trw_exp flv a) args) (trw_exp flv p st)
  | ETable ks vs _ =>
    apply_all (map (fun a => trw_exp flv a) vs)
              (apply_all (map (fun k => match k with Some k' => trw_exp flv k' | None => fun s => s end) ks) st)
  | EFunc _ _ pars plocs b l _ _ =>
    let st1 := push l st in
    let st2 := fold_left (fun s pl => add_var (mkV (fst pl) (snd pl) RNone false) s) (combine pars plocs) st1 in
    pop (trw_block (flv + 1) 0 b st2)
  | _ => st
  end
with trw_stat (flv slv : Z) (s : stat) (st : tstate) {struct s} : tstate :=
  match s with
  | SBreak | SLabel _ _ | SGoto _ _ => st
  | SDo b l => pop (trw_block flv (slv + 1) b (push l st))
  | SCall e => trw_exp flv e st
  | SIf es bs _ =>
    if_loop (map (fun e => trw_exp flv e) es)
            (map (fun b => (block_loc b, trw_block flv (slv + 1) b)) bs) st
  | SWhile e b l => pop (trw_block flv (slv + 1) b (push l (trw_exp flv e st)))
  | SRepeat b e l => pop (trw_exp flv e (trw_block flv (slv + 1) b (push l st)))
  | SForNum n vl e1 e2 e3 b l =>
    let st1 := trw_exp flv e3 (trw_exp flv e2 (trw_exp flv e1 (push l st))) in
    pop (trw_block flv (slv + 1) b (add_var (mkV n vl RNone false) st1))
  | SForIn ns ls es b l =>
    let st1 := apply_all (map (fun e => trw_exp flv e) es) (push l st) in
    let st2 := fold_left (fun s nl => add_var (mkV (fst nl) (snd nl) RNone false) s) (combine ns ls) st1 in
    pop (trw_block flv (slv + 1) b st2)
  | SAssign vars es _ =>
    assign_loop flv slv
                (map (fun v => match v with
                               | EName n l => TgName n l
                               | EIndex p k _ =>
                                 match g_key v with
                                 | Some (gl, x, xl) =>
                                   TgOther (fun s => assign_g flv slv x xl (log OUse name_G gl s))      (* NEW *)
                                 | None => TgOther (fun s => assign_member v (trw_exp flv k (trw_exp flv p s)))   (* NEW *)
                                 end
                               | _ => TgOther (fun s => s)
                               end) vars)
                (map (fun e => (e, trw_exp flv e)) es) st
  | SLocal ns ls _ es l =>
    local_loop (map (fun e => (e, trw_exp flv e)) es) (combine ns ls) RNone (init_loc ns ls es l) st
  | SLocalFunc n nl f _ => trw_exp flv f (add_var (mkV n nl (ref_of_exp f) false) st)
  end
with trw_block (flv slv : Z) (b : block) (st : tstate) {struct b} : tstate :=
  match b with
  | Block ss ret _ =>
    let st1 := apply_all (map (fun s => trw_stat flv slv s) ss) st in
    match ret with
    | Some es => apply_all (map (fun e => trw_exp flv e) es) st1
    | None => st1
    end
  end.

Definition analyse_wide (b : block) : fileinfo :=
  let st := trw_block 0 0 b (mkT [mkF (block_loc b) [] []] [] []) in
  let root := match t_frames st with
              | f :: _ => close_frame f
              | [] => Scope (block_loc b) [] []
              end in
  mkFI root (t_globals st) (rev (t_occs st)).

(* ------------------------------------------------------------------ what a cursor resolves to; g = the identifier under
   the cursor is written `_G.name` (findOldDefineInfo: findGlobalVarDefineInfo only) *)
Definition resolve_at_wide (g : bool) (w : mws) (f : list N) (fi : fileinfo) (name : list N) (line col : Z) : target :=
  if g then
    match find_global_var (fi_globals fi) name with
    | Some e => TGlobal f e
    | None => match ws_global w name with
              | WOne f' e => TGlobal f' e
              | WNone => TNone
              | WAmbig => TAmbig
              end
    end
  else resolve_at w f fi name line col.

Definition define_of_target (f : list N) (t : target) : option (list floc) :=
  match t with
  | TLocal v => Some [(f, v_loc v)]
  | TGlobal f' g => Some [(f', g_loc g)]
  | TNone => Some []
  | TAmbig => None
  end.

Definition define_at_wide (g : bool) (w : mws) (f : list N) (fi : fileinfo) (name : list N) (line col : Z)
  : option (list floc) := define_of_target f (resolve_at_wide g w f fi name line col).

(* Resolve.references_of_target: the body of references_at with the target as a parameter *)
Definition references_at_wide (mode : refmode) (g : bool) (w : mws) (f : list N) (fi : fileinfo) (name : list N)
           (line col : Z) : option (list floc) :=
  references_of_target mode w f fi name (resolve_at_wide g w f fi name line col).

Definition references_at_wide_fx (fx : bfixes) (mode : refmode) (g : bool) (w : mws) (f : list N) (fi : fileinfo)
           (name : list N) (line col : Z) : option (list floc) :=
  references_of_target_fx fx mode w f fi name (resolve_at_wide g w f fi name line col).

Definition hover_of_target (t : target) : hoverres :=
  match t with
  | TLocal _ => HLocal
  | TGlobal _ _ | TNone => HGlobal
  | TAmbig => HSkip
  end.

Definition hover_at_wide (g : bool) (w : mws) (f : list N) (fi : fileinfo) (name : list N) (line col : Z) : hoverres :=
  hover_of_target (resolve_at_wide g w f fi name line col).

(* ------------------------------------------------------------------ the text side *)
Local Open Scope N_scope.

(* precondition of the wide text cut: ASCII without CR (square brackets are allowed now) *)
Definition text_ok_wide (bs : list N) : bool :=
  forallb (fun c => (c <? 128) && negb (c =? 13)) bs.

(* GetBeforeIndex with both balances; i = distance from the start index, best = distance of beforeIndex *)
Fixpoint before_scan_w (l : list N) (i best : N) (rb sb : Z) {struct l} : N :=
  match l with
  | [] => best
  | ch :: r =>
    if (ch =? 13) || (ch =? 10) then best
    else if (ch =? 95) || (ch =? 46) || (ch =? 58) || is_digit ch || is_letter ch || (ch =? 41) || (ch =? 40)
            || (ch =? 91) || (ch =? 93) then
           if ch =? 41 then before_scan_w r (i + 1) i (rb + 1)%Z sb
           else if ch =? 93 then before_scan_w r (i + 1) i rb (sb + 1)%Z
           else if ch =? 40 then (if (rb - 1 <? 0)%Z then best else before_scan_w r (i + 1) i (rb - 1)%Z sb)
           else if ch =? 91 then (if (sb - 1 <? 0)%Z then best else before_scan_w r (i + 1) i rb (sb - 1)%Z)
                else before_scan_w r (i + 1) i rb sb
         else if (rb >? 0)%Z || (sb >? 0)%Z then before_scan_w r (i + 1) best rb sb else best
  end.

Definition before_index_w (bs : list N) (start : N) : N :=
  start - before_scan_w (rev (firstn (N.to_nat (start + 1)) bs)) 0 0 0%Z 0%Z.

(* matchSpecialBracketsStr: on the cursor's line a quote and then `]` to the right, a quote and then `[` to the left
   (both scans start AT the offset).  The server then restarts the cut at that `]` (made for `b["c"]`); the model gives
   up on such cursors (WUnsupported) *)
Fixpoint quote_then (target : N) (l : list N) (seen : bool) {struct l} : bool :=
  match l with
  | [] => false
  | ch :: r =>
    if (ch =? 13) || (ch =? 10) then false
    else let q := seen || (ch =? 34) || (ch =? 39) in
         if q && (ch =? target) then true else quote_then target r q
  end.

Definition special_brackets (bs : list N) (off : N) : bool :=
  quote_then 93 (skipn (N.to_nat off) bs) false
  && quote_then 91 (rev (firstn (N.to_nat (off + 1)) bs)) false.

Inductive wcut := WName (s : list N) | WGName (s : list N) | WInvalid | WUnsupported.

(* GetVarStruct; `_G.name` with the cursor on `name` gives WGName name *)
Definition cut_name_wide (bs : list N) (off : N) : wcut :=
  let n := N.of_nat (length bs) in
  if n =? 0 then WInvalid else
  let off1 := if off =? n then off - 1 else off in
  let off2 := if (0 <? off1) && negb (is_idc (nthb bs off1)) then off1 - 1 else off1 in
  if negb (is_idc (nthb bs off2)) then WInvalid else
  if special_brackets bs off2 then WUnsupported else
  let b := before_index_w bs off2 in
  let tail := ident_run (skipn (N.to_nat off2) bs) in
  let str := firstn (N.to_nat (off2 - b)) (skipn (N.to_nat b) bs) ++ tail in
  let str' := after_dots str [] in
  if is_ident str' then WName str'
  else match str' with
       | c1 :: c2 :: c3 :: x =>                                  (* "_G." ++ x *)
         if (c1 =? 95) && (c2 =? 71) && (c3 =? 46) && is_ident x then WGName x else WUnsupported
       | _ => WUnsupported
       end.

(* the narrow answer a wide cut stands for *)
Definition cut_of_wcut (c : wcut) : cut :=
  match c with
  | WName s => CutName s
  | WGName _ | WUnsupported => CutUnsupported
  | WInvalid => CutInvalid
  end.

(* completion prefix: bare identifier prefixes only, cut with the wide GetBeforeIndex.  Inside an unfinished string the
   server gives up - unless the string follows a `[` (idxOfSquareBracketAndQuote: member completion after an opening bracket and quote): no
   prediction then *)
Definition complete_prefix_wide (bs : list N) (off : N) : cut :=
  if off =? 0 then CutInvalid else
  let b := before_index_w bs (off - 1) in
  let str := firstn (N.to_nat (off - b)) (skipn (N.to_nat b) bs) in
  let lp := line_prefix_rev (rev (firstn (N.to_nat off) bs)) in
  if Nat.odd (count_byte 34 lp) || Nat.odd (count_byte 39 lp) then
    (if existsb (N.eqb 91) lp then CutUnsupported else CutInvalid)
  else if has_dashdash lp then CutInvalid
  else let str' := after_dots str [] in
       if is_ident str' then CutName str' else CutUnsupported.

(* lspCodeComplete: a prefix whose first component is `_G` goes to gPreComplete, which offers nothing for the bare
   word `_G` (one component, no trailing dot) *)
Definition complete_at_wide (w : mws) (fi : fileinfo) (pre : list N) (line col : Z) : list (list N) :=
  if beq_bytes pre name_G then [] else complete_at w fi pre line col.
