(* Model of langserver/check/annotation/annotatelexer/{annotate_token,annotate_lexer}.go.

   Input: the bytes of one comment line (CommentLine.Str).  Every Go index / slice site is an explicit
   bounds check returning `Fault` (go_index, go_slice, go_next); Proofs/AnnTotal.v shows none is reachable.

   Erased on purpose (not part of the C16 observable; no control flow depends on them):
   token columns (col, tokenStartCol), preToken / nowToken (they only feed ErrToken / NowToken / ShowStr and the
   Loc fields of the AST).  ErrLoc is kept: its columns are a function of the length of the unread chunk, which
   the error value records (e_rest).
   GetNowLoc() can call lookAheardToken() when no token has been consumed yet; at every call site the
   look-ahead token is already valid at that moment (parserOneState has called LookAheadKind first), so it never
   changes the lexer state and is not modelled.  GetHeardLoc() in parserOneType is modelled (look_ahead). *)
From Coq Require Import String Ascii List NArith Bool.
From LH Require Import Base.Bytes Base.Res.
Import ListNotations.
Local Open Scope N_scope.

(* byte-string literals *)
Definition bs (s : string) : bytes := map N_of_ascii (list_ascii_of_string s).

(* ------------------------------------------------------------------ token kinds (annotate_token.go) *)
Inductive akind :=
| KEOF | KComma | KColon | KVararg | KLparen | KRparen | KLbrack | KRbrack | KBor | KLt | KGt | KAt | KOption
| KString | KFun | KTable | KType | KParam | KField | KClass | KReturn | KOverload | KAlias | KGeneric
| KPublic | KProtected | KPrivate | KVarargKw | KIdent | KConst | KOther | KEnum | KEnumStart | KEnumEnd.

(* the iota value of the Go constant *)
Definition kind_code (k : akind) : N :=
  match k with
  | KEOF => 0 | KComma => 1 | KColon => 2 | KVararg => 3 | KLparen => 4 | KRparen => 5 | KLbrack => 6
  | KRbrack => 7 | KBor => 8 | KLt => 9 | KGt => 10 | KAt => 11 | KOption => 12 | KString => 13 | KFun => 14
  | KTable => 15 | KType => 16 | KParam => 17 | KField => 18 | KClass => 19 | KReturn => 20 | KOverload => 21
  | KAlias => 22 | KGeneric => 23 | KPublic => 24 | KProtected => 25 | KPrivate => 26 | KVarargKw => 27
  | KIdent => 28 | KConst => 29 | KOther => 30 | KEnum => 31 | KEnumStart => 32 | KEnumEnd => 33
  end.

Definition all_kinds : list akind :=
  [KEOF; KComma; KColon; KVararg; KLparen; KRparen; KLbrack; KRbrack; KBor; KLt; KGt; KAt; KOption;
   KString; KFun; KTable; KType; KParam; KField; KClass; KReturn; KOverload; KAlias; KGeneric;
   KPublic; KProtected; KPrivate; KVarargKw; KIdent; KConst; KOther; KEnum; KEnumStart; KEnumEnd].

(* Go constant names, for the tie with the generated table *)
Definition kind_name (k : akind) : string :=
  match k with
  | KEOF => "ATokenEOF" | KComma => "ATokenSepComma" | KColon => "ATokenSepColon" | KVararg => "ATokenVararg"
  | KLparen => "ATokenVSepLparen" | KRparen => "ATokenVSepRparen" | KLbrack => "ATokenVSepLbrack"
  | KRbrack => "ATokenVSepRbrack" | KBor => "ATokenBor" | KLt => "ATokenLt" | KGt => "ATokenGt" | KAt => "ATokenAt"
  | KOption => "ATokenOption" | KString => "ATokenString" | KFun => "ATokenKwFun" | KTable => "ATokenKwTable"
  | KType => "ATokenKwType" | KParam => "ATokenKwParam" | KField => "ATokenKwField" | KClass => "ATokenKwClass"
  | KReturn => "ATokenKwReturn" | KOverload => "ATokenKwOverload" | KAlias => "ATokenKwAlias"
  | KGeneric => "ATokenKwGeneric" | KPublic => "ATokenKwPubic" | KProtected => "ATokenKwProtected"
  | KPrivate => "ATokenKwPrivate" | KVarargKw => "ATokenKwVararg" | KIdent => "ATokenKwIdentifier"
  | KConst => "ATokenKwConst" | KOther => "ATokenKwOther" | KEnum => "ATokenKwEnum"
  | KEnumStart => "ATokenKwEnumStart" | KEnumEnd => "ATokenKwEnumEnd"
  end%string.

Definition kind_eqb (a b : akind) : bool := kind_code a =? kind_code b.

(* the `keywords` map; order = source order (the tie sorts both sides by keyword) *)
Definition keywords : list (string * akind) :=
  [("fun", KFun); ("table", KTable); ("type", KType); ("param", KParam); ("field", KField); ("class", KClass);
   ("return", KReturn); ("overload", KOverload); ("alias", KAlias); ("generic", KGeneric); ("public", KPublic);
   ("protected", KProtected); ("private", KPrivate); ("vararg", KVarargKw); ("const", KConst); ("enum", KEnum)]%string.

Definition keyword_bytes : list (bytes * akind) :=
  Eval vm_compute in map (fun p => (bs (fst p), snd p)) keywords.

Fixpoint assoc_bytes {A} (s : bytes) (l : list (bytes * A)) : option A :=
  match l with
  | [] => None
  | (k, v) :: r => if beq_bytes s k then Some v else assoc_bytes s r
  end.

(* keywords[token] *)
Definition kw_lookup (s : bytes) : option akind := assoc_bytes s keyword_bytes.

(* ------------------------------------------------------------------ Go slice primitives *)
Definition go_index (c : bytes) (i : nat) : Res N :=
  match nth_error c i with Some b => Ok b | None => Fault IndexRange end.
(* c[a:b] *)
Definition go_slice (c : bytes) (a b : nat) : Res bytes :=
  if (Nat.leb a b && Nat.leb b (length c))%bool then Ok (firstn (b - a) (skipn a c)) else Fault SliceBounds.
(* l.next(n): l.chunk = l.chunk[n:] *)
Definition go_next (c : bytes) (n : nat) : Res bytes :=
  if Nat.leb n (length c) then Ok (skipn n c) else Fault SliceBounds.

(* ------------------------------------------------------------------ character classes *)
Definition is_ws (c : N) : bool :=
  (c =? 9) || (c =? 10) || (c =? 11) || (c =? 12) || (c =? 13) || (c =? 32).
Definition is_letter (c : N) : bool := ((97 <=? c) && (c <=? 122)) || ((65 <=? c) && (c <=? 90)).
Definition is_digit (c : N) : bool := (48 <=? c) && (c <=? 57).
Definition is_id_start (c : N) : bool := (c =? 95) || is_letter c || is_digit c.
Definition is_id_cont (c : N) : bool := is_letter c || is_digit c || (c =? 95) || (c =? 46).

(* ------------------------------------------------------------------ tokens and lexer state *)
Record tok := mkTok { tkind : akind; tstr : bytes }.
(* aheadToken.valid = true  <->  ahead = Some _ *)
Record lx := mkLx { chunk : bytes; ahead : option tok }.

(* l.test(s) *)
Fixpoint test_prefix (s c : bytes) : bool :=
  match s, c with
  | [], _ => true
  | x :: s', y :: c' => (x =? y) && test_prefix s' c'
  | _ :: _, [] => false
  end.

(* skipWhiteSpaces: a loop of next(1) guarded by len(l.chunk) > 0 *)
Fixpoint skip_ws (c : bytes) : bytes :=
  match c with
  | b :: r => if is_ws b then skip_ws r else c
  | [] => []
  end.

(* scanIdentifier: i := 1; for ; i < len(chunk); i++ { if cont(chunk[i]) continue; break }.
   id_end r i = final i when r = chunk[i:] *)
Fixpoint id_end (r : bytes) (i : nat) : nat :=
  match r with
  | b :: r' => if is_id_cont b then id_end r' (S i) else i
  | [] => i
  end.
Definition scan_identifier (c : bytes) : Res (bytes * bytes) :=
  let i := id_end (skipn 1 c) 1 in
  do s <- go_slice c 0 i;
  do c' <- go_next c i;
  Ok (s, c').

(* scanShortString: i := 1; for i < len { ch := chunk[i]; i++; if delimiter == ch break }
   if i-1 >= 1 { str += chunk[1:i-1] }; next(i).
   NB when the closing delimiter is missing the last byte of the line is dropped from the string. *)
Fixpoint str_end (d : N) (r : bytes) (i : nat) : nat :=
  match r with
  | ch :: r' => if d =? ch then S i else str_end d r' (S i)
  | [] => i
  end.
Definition scan_short_string (c : bytes) : Res (bytes * bytes) :=
  do d <- go_index c 0;
  let i := str_end d (skipn 1 c) 1 in
  do s <- (if Nat.leb 1 (i - 1) then go_slice c 1 (i - 1) else Ok []);
  do c' <- go_next c i;
  Ok (s, c').

Definition s_EOF : bytes := Eval vm_compute in bs "EOF".
Definition s_dots : bytes := Eval vm_compute in bs "...".

(* the scanning part of NextTokenStruct (aheadToken not valid): token and the chunk after it *)
Definition lex_token (c0 : bytes) : Res (tok * bytes) :=
  let c := skip_ws c0 in
  match c with
  | [] => Ok (mkTok KEOF s_EOF, [])
  | b :: r =>
    let punct k := do c' <- go_next c 1; Ok (mkTok k [b], c') in
    let other :=
      if is_id_start b then
        do sc <- scan_identifier c;
        let '(s, c') := sc in
        match kw_lookup s with
        | Some k => Ok (mkTok k s, c')
        | None => Ok (mkTok KIdent s, c')
        end
      else Ok (mkTok KOther c, c)            (* the chunk is NOT consumed *)
    in
    if b =? 44 then punct KComma
    else if b =? 40 then punct KLparen
    else if b =? 41 then punct KRparen
    else if b =? 91 then punct KLbrack
    else if b =? 93 then punct KRbrack
    else if b =? 124 then punct KBor
    else if b =? 60 then punct KLt
    else if b =? 62 then punct KGt
    else if b =? 64 then punct KAt
    else if b =? 63 then punct KOption
    else if b =? 46 then
      (if test_prefix s_dots c then do c' <- go_next c 3; Ok (mkTok KVararg s_dots, c') else other)
    else if b =? 58 then punct KColon
    else if (b =? 39) || (b =? 34) then
      do sc <- scan_short_string c;
      let '(s, c') := sc in Ok (mkTok KString s, c')
    else other
  end.

(* NextTokenStruct; returns the new nowToken *)
Definition next_token (l : lx) : Res (tok * lx) :=
  match ahead l with
  | Some t => Ok (t, mkLx (chunk l) None)
  | None => do tc <- lex_token (chunk l); let '(t, c') := tc in Ok (t, mkLx c' None)
  end.

(* lookAheardToken *)
Definition look_ahead (l : lx) : Res lx :=
  match ahead l with
  | Some _ => Ok l
  | None => do tc <- lex_token (chunk l); let '(t, c') := tc in Ok (mkLx c' (Some t))
  end.

(* CheckAliasHeadValid / CheckHeardValid: test(s) then next(2) *)
Definition check_head (s : bytes) (c : bytes) : Res (option bytes) :=
  if test_prefix s c then do c' <- go_next c 2; Ok (Some c') else Ok None.
Definition s_alias_head : bytes := Eval vm_compute in bs "-|".
Definition s_head : bytes := Eval vm_compute in bs "-@".

(* strings.TrimPrefix(str, "@") etc. *)
Definition trim_prefix_byte (b : N) (s : bytes) : bytes :=
  match s with x :: r => if x =? b then r else s | [] => [] end.
Fixpoint trim_left_byte (b : N) (s : bytes) : bytes :=
  match s with x :: r => if x =? b then trim_left_byte b r else s | [] => [] end.

(* GetRemainComment (string part) *)
Definition remain_comment (l : lx) : bytes :=
  let str :=
    match ahead l with
    | Some t =>
      match tkind t with
      | KEOF | KOther => chunk l
      | _ => tstr t ++ chunk l
      end
    | None => chunk l
    end in
  trim_prefix_byte 64 str.
