(* Model of annotateast.TypeConvertStr (langserver/check/annotation/annotateast/annotate_util.go: TypeConvertStr, needParenInArray),
   the printer used for hover / completion text.  No index can go out of range: ParamTypeList[index] is guarded
   by len(ParamTypeList) > index (and the three parameter lists always have the same length). *)
From Coq Require Import String Ascii List NArith Bool.
From LH Require Import Base.Bytes Base.Res Model.AnnLexer Model.AnnAst.
Import ListNotations.
Local Open Scope N_scope.

Definition s_bar : bytes := Eval vm_compute in bs " | ".
Definition s_brackets : bytes := Eval vm_compute in bs "[]".
Definition s_table : bytes := Eval vm_compute in bs "table".
Definition s_table_lt : bytes := Eval vm_compute in bs "table<".
Definition s_comma_sp : bytes := Eval vm_compute in bs ", ".
Definition s_colon_sp : bytes := Eval vm_compute in bs ": ".
Definition s_function : bytes := Eval vm_compute in bs "function(".

(* needParenInArray: the item of an array keeps its parentheses when it is a union, a fun type or an array
   (a MultiType of one member is looked through) *)
Fixpoint need_paren_in_array (t : atype) : bool :=
  match t with
  | AMulti ts =>
    match ts with
    | [x] => need_paren_in_array x
    | _ => Nat.ltb 1 (length ts)
    end
  | AFun _ _ | AArray _ => true
  | _ => false
  end.

Fixpoint type_convert_str (t : atype) : bytes :=
  match t with
  | AMulti ts =>
    (* strOne == "" is skipped; " | " between the others *)
    fold_left (fun acc one =>
                 let s := type_convert_str one in
                 if is_nil s then acc else (if is_nil acc then s else acc ++ s_bar ++ s)) ts []
  | ANormal n _ => n
  | AArray i =>
    let s := type_convert_str i in
    (if need_paren_in_array i then [40] ++ s ++ [41] else s) ++ s_brackets
  | ATableEmpty => s_table
  | ATable k v => s_table_lt ++ type_convert_str k ++ s_comma_sp ++ type_convert_str v ++ [62]
  | AFun ps rs =>
    let pstr :=
      fold_left (fun acc p =>
                   let '(n, _, ty) := p in
                   (if is_nil acc then [] else acc ++ s_comma_sp) ++ n ++ s_colon_sp ++ type_convert_str ty) ps [] in
    let rstr :=
      fold_left (fun acc r =>
                   (if is_nil acc then s_colon_sp else acc ++ s_comma_sp) ++ type_convert_str r) rs [] in
    s_function ++ pstr ++ [41] ++ rstr
  | AConst n q _ => if q then [34] ++ n ++ [34] else n
  end.
