(* Model of annotateast.TypeConvertStr (langserver/check/annotation/annotateast/annotate_util.go: TypeConvertStr,
   needParenInArray, isUnionType, isFuncType, listTypeConvertStr, isDefaultParamType), the printer used for hover /
   completion text.  No index can go out of range: ParamTypeList[index] / ParamOptionList[index] are guarded by
   len(...) > index (and the three parameter lists always have the same length).

   The printer is parametrised by the repairs that are in the code (`ann_fixes`, Model/AnnAst.v):
     fx_const = false   a string constant is printed without its quotes: Name, or "Name" when QuotesFlag
     fx_const = true    'Name', or '"Name"' when QuotesFlag                  (fixes/C16-printer-const.diff)
     fx_union = true    a member of a MultiType with several members that is itself a union (isUnionType) is
                        parenthesised                                        (fixes/C16-printer-nested-union.diff)
     fx_fun = false     fun types are printed `function(a: T, b: U): R`: no `?`, no parentheses, `: any` for a
                        parameter without a type
     fx_fun = true      `fun(a: T, b?: U, c): R`; a fun type is parenthesised as a member of a union and in the
                        comma separated positions (parameter / return type, table key / value)
                                                                             (fixes/C16-printer-fun.diff)
   `type_convert_str` is the printer of the code as it is (`deployed`). *)
From Coq Require Import String Ascii List NArith Bool.
From LH Require Import Base.Bytes Base.Res Model.AnnLexer Model.AnnAst.
Import ListNotations.
Local Open Scope N_scope.

Definition s_bar : bytes := Eval vm_compute in bs " | ".
Definition s_brackets : bytes := Eval vm_compute in bs "[]".
Definition s_table : bytes := Eval vm_compute in bs "table".
Definition s_table_lt : bytes := Eval vm_compute in bs "table<".
Definition s_comma_sp : bytes := Eval vm_compute in bs ", ".
Definition s_colon_sp : bytes := Eval vm_compute in bs ": ".
Definition s_function : bytes := Eval vm_compute in bs "function(".
Definition s_fun_lp : bytes := Eval vm_compute in bs "fun(".
Definition s_any_name : bytes := Eval vm_compute in bs "any".

(* needParenInArray: the item of an array keeps its parentheses when it is a union, a fun type or an array
   (a MultiType of one member is looked through) *)
Fixpoint need_paren_in_array (t : atype) : bool :=
  match t with
  | AMulti ts =>
    match ts with
    | [x] => need_paren_in_array x
    | _ => Nat.ltb 1 (length ts)
    end
  | AFun _ _ | AArray _ => true
  | _ => false
  end.

(* isUnionType: a MultiType of several members (a MultiType of one member is looked through) *)
Fixpoint is_union_type (t : atype) : bool :=
  match t with
  | AMulti ts =>
    match ts with
    | [x] => is_union_type x
    | _ => Nat.ltb 1 (length ts)
    end
  | _ => false
  end.

(* isFuncType *)
Fixpoint is_fun_type (t : atype) : bool :=
  match t with
  | AMulti ts =>
    match ts with
    | [x] => is_fun_type x
    | _ => false
    end
  | AFun _ _ => true
  | _ => false
  end.

(* isDefaultParamType: the NormalType{"any", ShowColor: false} the parser supplies for a parameter without a type *)
Definition is_default_param_type (t : atype) : bool :=
  match t with
  | ANormal n false => beq_bytes n s_any_name
  | _ => false
  end.

(* "a, b, c": `if index > 0 { str += sep }` in front of every element *)
Fixpoint join_sep (sep : bytes) (l : list bytes) : bytes :=
  match l with
  | [] => []
  | x :: r => match r with [] => x | _ => x ++ sep ++ join_sep sep r end
  end.

Definition in_parens (b : bool) (s : bytes) : bytes := if b then [40] ++ s ++ [41] else s.

Section Print.
  Variable fx : ann_fixes.

  Fixpoint type_convert_str_fx (t : atype) : bytes :=
    match t with
    | AMulti ts =>
      (* strOne == "" is skipped; parentheses where the repairs ask for them; " | " between the others *)
      fold_left (fun acc one =>
                   let s := type_convert_str_fx one in
                   if is_nil s then acc
                   else
                     let s := in_parens (Nat.ltb 1 (length ts) &&
                                         ((fx_fun fx && is_fun_type one) || (fx_union fx && is_union_type one))) s in
                     if is_nil acc then s else acc ++ s_bar ++ s) ts []
    | ANormal n _ => n
    | AArray i =>
      let s := type_convert_str_fx i in
      (if need_paren_in_array i then [40] ++ s ++ [41] else s) ++ s_brackets
    | ATableEmpty => s_table
    | ATable k v =>
      (* listTypeConvertStr when fx_fun *)
      s_table_lt ++ in_parens (fx_fun fx && is_fun_type k) (type_convert_str_fx k) ++ s_comma_sp ++
      in_parens (fx_fun fx && is_fun_type v) (type_convert_str_fx v) ++ [62]
    | AFun ps rs =>
      if fx_fun fx then
        s_fun_lp ++
        join_sep s_comma_sp
          (map (fun p : bytes * bool * atype =>
                  let '(n, o, ty) := p in
                  n ++ (if o then [63] else []) ++
                  (if is_default_param_type ty then []
                   else s_colon_sp ++ in_parens (is_fun_type ty) (type_convert_str_fx ty))) ps) ++
        [41] ++
        (if is_nil rs then []
         else s_colon_sp ++
              join_sep s_comma_sp (map (fun r => in_parens (is_fun_type r) (type_convert_str_fx r)) rs))
      else
        let pstr :=
          fold_left (fun acc p =>
                       let '(n, _, ty) := p in
                       (if is_nil acc then [] else acc ++ s_comma_sp) ++ n ++ s_colon_sp ++ type_convert_str_fx ty) ps [] in
        let rstr :=
          fold_left (fun acc r =>
                       (if is_nil acc then s_colon_sp else acc ++ s_comma_sp) ++ type_convert_str_fx r) rs [] in
        s_function ++ pstr ++ [41] ++ rstr
    | AConst n q _ =>
      if fx_const fx then [39] ++ (if q then [34] ++ n ++ [34] else n) ++ [39]
      else if q then [34] ++ n ++ [34] else n
    end.
End Print.

(* TypeConvertStr of the code as it is *)
Definition type_convert_str : atype -> bytes := type_convert_str_fx deployed.
