(* Model of langserver/check/compiler/parser/*.go (after the `fix:` commit that reports non-assignable targets).
   Error tolerant like the Go code: a mismatching token is consumed and an error recorded; parsing goes on.
   Runs on the eager token list of Model/Lexer.v; the last element of the list is the EOF token, which is sticky. *)
From Coq Require Import List NArith ZArith Bool.
From LH Require Import Base.Bytes Base.Res Model.Lexer Model.Ast.
Import ListNotations.

(* bind as a match (not a function call): the guard checker then sees the recursive calls directly *)
Local Notation "'do' x <- r ; k" :=
  (match r with Ok x => k | Fault fk => Fault fk | OutOfFuel => OutOfFuel end)
  (at level 200, x pattern, r at level 100, k at level 200, right associativity, only parsing).

Inductive perr :=
| PeExpected        (* NextTokenKind mismatch: "expected %s, found '%s'" *)
| PeCannotStart     (* `%s` can not start *)
| PeMissingField    (* missing field or attribute names *)
| PeMissingArgs     (* missing function call args *)
| PeNotNumber       (* not a number *)
| PeExprStat        (* expression cannot be used as a statement *)
| PeCannotAssign    (* cannot assign to this expression (fix: commit) *)
| PeBadAttr         (* unrecognized local varible attribute *)
| PeMultiClose.     (* more than one to_be_close variables *)

Record pst := mkP { pre : option tok; now : option tok; rest : list ltok;
                    perrs : list perr; lseen : list lexerr }.

Definition eof0 : tok := mkTok TkEOF [69%N; 79%N; 70%N] 1 0 0 0.
Definition ahead_tok (st : pst) : tok := match rest st with t :: _ => lt t | [] => eof0 end.
Definition la (st : pst) : tkind := tk (ahead_tok st).

Definition otok (o : option tok) : tok := match o with Some t => t | None => zero_tok end.

(* GetHeardTokenLoc / GetNowTokenLoc / GetPreTokenLoc *)
Definition heard_loc (st : pst) : loc := tok_loc (otok (now st)) (ahead_tok st).
Definition now_loc (st : pst) : loc :=
  match now st with Some t => tok_loc (otok (pre st)) t | None => heard_loc st end.
Definition pre_loc (st : pst) : loc :=
  match pre st with
  | None => mkLoc 1 0 1 0
  | Some t => mkLoc (tline t) (tfrom t - tlsp t)%Z (tline t) (tto t - tlsp t)%Z
  end.
Definition range_loc (b e : loc) : loc := mkLoc (sl b) (sc b) (el e) (ec e).
Definition range_loc_excl (b e : loc) : loc := mkLoc (sl b) (sc b) (sl e) (sc e).

(* NextTokenStruct *)
Definition next (st : pst) : pst :=
  match rest st with
  | [] => mkP (now st) (Some eof0) [] (perrs st) (lseen st)
  | [t] => mkP (now st) (Some (lt t)) [mkLtok (lt t) [] []] (perrs st) (lseen st ++ lerrs t)   (* EOF is sticky *)
  | t :: r => mkP (now st) (Some (lt t)) r (perrs st) (lseen st ++ lerrs t)
  end.
Definition now_tok (st : pst) : tok := otok (now st).
Definition now_kind (st : pst) : tkind := tk (now_tok st).
Definition now_str (st : pst) : list N := tstr (now_tok st).
Definition err (e : perr) (st : pst) : pst := mkP (pre st) (now st) (rest st) (perrs st ++ [e]) (lseen st).

(* NextTokenKind: consumes whatever comes; an error if it is not the expected kind *)
Definition expect (k : tkind) (st : pst) : pst :=
  let st1 := next st in if tk_eqb (now_kind st1) k then st1 else err PeExpected st1.

Definition is_block_end (k : tkind) : bool :=
  match k with TkKwReturn | TkEOF | TkKwEnd | TkKwElse | TkKwElseif | TkKwUntil => true | _ => false end.

Definition is_ret_end (k : tkind) : bool :=
  match k with TkEOF | TkKwEnd | TkKwElse | TkKwElseif | TkKwUntil => true | _ => false end.

(* what a statement starts with (dispatch of parseStat) *)
Inductive stat_start :=
| StSemi | StBreak | StLabel | StGoto | StDo | StWhile | StRepeat | StIf | StFor | StFunction | StLocal | StIllegal | StOther.
Definition stat_start_of (k : tkind) : stat_start :=
  match k with
  | TkSepSemi => StSemi | TkKwBreak => StBreak | TkSepLabel => StLabel | TkKwGoto => StGoto | TkKwDo => StDo
  | TkKwWhile => StWhile | TkKwRepeat => StRepeat | TkKwIf => StIf | TkKwFor => StFor | TkKwFunction => StFunction
  | TkKwLocal => StLocal | IKIllegal => StIllegal | _ => StOther
  end.
Inductive exp0_start := E0Vararg | E0Nil | E0True | E0False | E0String | E0Number | E0Table | E0Function | E0Other.
Definition exp0_start_of (k : tkind) : exp0_start :=
  match k with
  | TkVararg => E0Vararg | TkKwNil => E0Nil | TkKwTrue => E0True | TkKwFalse => E0False | TkString => E0String
  | TkNumber => E0Number | TkSepLcurly => E0Table | TkKwFunction => E0Function | _ => E0Other
  end.
Inductive suffix_start := SfxBrack | SfxDot | SfxCall | SfxNone.
Definition suffix_start_of (k : tkind) : suffix_start :=
  match k with
  | TkSepLbrack => SfxBrack | TkSepDot => SfxDot
  | TkSepColon | TkSepLparen | TkSepLcurly | TkString => SfxCall
  | _ => SfxNone
  end.

(* getPriority *)
Definition prio (k : tkind) : nat :=
  match k with
  | TkOpPow => 12
  | TkOpMul | TkOpMod | TkOpDiv | TkOpIdiv => 10
  | TkOpAdd | TkOpMinus => 9
  | TkOpConcat => 8
  | TkOpShl | TkOpShr => 7
  | TkOpBand => 6
  | TkOpWave => 5
  | TkOpBor => 4
  | TkOpLt | TkOpGt | TkOpNe | TkOpLe | TkOpGe | TkOpEq => 3
  | TkOpAnd => 2
  | TkOpOr => 1
  | _ => 0
  end.
Definition unary_limit : nat := 10.
Definition is_right_assoc (k : tkind) : bool := match k with TkOpPow | TkOpConcat => true | _ => false end.
Definition is_unop (k : tkind) : bool :=
  match k with TkOpNen | TkOpMinus | TkOpWave | TkOpNot => true | _ => false end.

Definition s_close : list N := [99; 108; 111; 115; 101]%N.
Definition s_const : list N := [99; 111; 110; 115; 116]%N.
Definition s_self : list N := [115; 101; 108; 102]%N.

(* ---------------------------------------------------------------- loops that do not recurse into expressions *)
(* finishNameList: { ',' Name } *)
Fixpoint p_namelist_tail (n : nat) (st : pst) (names : list (list N)) (locs : list loc)
  : Res (list (list N) * list loc * pst) :=
  match n with
  | O => OutOfFuel
  | S n' =>
    if tk_eqb (la st) TkSepComma then
      let st1 := expect TkIdentifier (next st) in
      p_namelist_tail n' st1 (names ++ [now_str st1]) (locs ++ [now_loc st1])
    else Ok (names, locs, st)
  end.

(* getLocalAttribute *)
Definition p_local_attr (st : pst) : attr * pst :=
  if tk_eqb (la st) TkOpLt then
    let st1 := expect TkIdentifier (next st) in
    let a := now_str st1 in
    if beq_bytes a s_close then (AttrClose, expect TkOpGt st1)
    else if beq_bytes a s_const then (AttrConst, expect TkOpGt st1)
    else (AttrReg, expect TkOpGt (err PeBadAttr st1))
  else (AttrReg, st).

(* finishLocalNameList *)
Fixpoint p_local_namelist_tail (n : nat) (st : pst) (seen_close : bool)
         (names : list (list N)) (locs : list loc) (attrs : list attr)
  : Res (list (list N) * list loc * list attr * pst) :=
  match n with
  | O => OutOfFuel
  | S n' =>
    if tk_eqb (la st) TkSepComma then
      let st1 := expect TkIdentifier (next st) in
      let name := now_str st1 in
      let l := now_loc st1 in
      let '(a, st2) := p_local_attr st1 in
      let is_close := match a with AttrClose => true | _ => false end in
      let st3 := if is_close && seen_close then err PeMultiClose st2 else st2 in
      p_local_namelist_tail n' st3 (seen_close || is_close) (names ++ [name]) (locs ++ [l]) (attrs ++ [a])
    else Ok (names, locs, attrs, st)
  end.

(* parseParList *)
Fixpoint p_parlist_tail (n : nat) (st : pst) (names : list (list N)) (locs : list loc)
  : Res (list (list N) * list loc * bool * pst) :=
  match n with
  | O => OutOfFuel
  | S n' =>
    if tk_eqb (la st) TkSepComma then
      let st1 := next st in
      if tk_eqb (la st1) TkIdentifier then
        let st2 := expect TkIdentifier st1 in
        p_parlist_tail n' st2 (names ++ [now_str st2]) (locs ++ [now_loc st2])
      else Ok (names, locs, true, expect TkVararg st1)
    else Ok (names, locs, false, st)
  end.
Definition p_parlist (n : nat) (st : pst) : Res (list (list N) * list loc * bool * pst) :=
  match la st with
  | TkSepRparen => Ok ([], [], false, st)
  | TkVararg => Ok ([], [], true, next st)
  | _ => let st1 := expect TkIdentifier st in p_parlist_tail n st1 [now_str st1] [now_loc st1]
  end.

(* parseFuncName: Name {'.' Name} [':' Name]; className is the FIRST name whenever a '.' or ':' follows
   (the Go loop shadows `name`, so `className = name` always reads the outer variable) *)
Fixpoint p_funcname_dots (n : nat) (st : pst) (begin : loc) (first : list N) (e : exp) (cls fname : list N)
  : Res (exp * list N * list N * pst) :=
  match n with
  | O => OutOfFuel
  | S n' =>
    if tk_eqb (la st) TkSepDot then
      let st1 := expect TkIdentifier (next st) in
      let nm := now_str st1 in
      let l := now_loc st1 in
      p_funcname_dots n' st1 begin first (EIndex e (EStr nm l) (range_loc begin l)) first nm
    else Ok (e, cls, fname, st)
  end.
Definition p_funcname (n : nat) (st : pst) : Res (exp * bool * list N * list N * pst) :=
  let st1 := expect TkIdentifier st in
  let name := now_str st1 in
  let l := now_loc st1 in
  do (e, cls, fname, st2) <- p_funcname_dots n st1 l name (EName name l) [] name ;
  if tk_eqb (la st2) TkSepColon then
    let st3 := expect TkIdentifier (next st2) in
    let nm := now_str st3 in
    let l3 := now_loc st3 in
    Ok (EIndex e (EStr nm l3) (range_loc l l3), true, name, nm, st3)
  else Ok (e, false, cls, fname, st2).

Definition is_var_like (e : exp) : bool :=
  match e with EName _ _ | EIndex _ _ _ | EBad _ => true | _ => false end.
Definition keeps_parens (e : exp) : bool :=
  match e with EVararg _ | ECall _ _ _ _ | EName _ _ | EIndex _ _ _ => true | _ => false end.

Section WithNumbers.
  Variable classify : list N -> numcls.     (* parser_number.go, see Model/Number.v *)

  (* ---------------------------------------------------------------- the mutually recursive core *)
  Fixpoint p_block (n : nat) (st : pst) {struct n} : Res (block * pst) :=
    match n with
    | O => OutOfFuel
    | S n' =>
      do (stats, st1) <- p_stats n' st [] ;
      (* parseRetExps *)
      if negb (tk_eqb (la st1) TkKwReturn) then Ok (Block stats None zero_loc, st1)
      else
        let st2 := next st1 in
        if is_ret_end (la st2) then Ok (Block stats (Some []) zero_loc, st2)
        else if tk_eqb (la st2) TkSepSemi then Ok (Block stats (Some []) zero_loc, next st2)
        else
          do (es, st3) <- p_explist n' st2 ;
          let st4 := if tk_eqb (la st3) TkSepSemi then next st3 else st3 in
          Ok (Block stats (Some es) zero_loc, st4)
    end

  (* a block between an opening token already consumed and its closer: Loc = [heard before, now after] *)
  with p_block_loc (n : nat) (st : pst) {struct n} : Res (block * pst) :=
    match n with
    | O => OutOfFuel
    | S n' =>
      let bb := heard_loc st in
      do (b, st1) <- p_block n' st ;
      Ok (set_block_loc b (range_loc bb (now_loc st1)), st1)
    end

  (* then / elseif / else blocks: Loc = [heard before, heard after) *)
  with p_block_loc_excl (n : nat) (st : pst) {struct n} : Res (block * pst) :=
    match n with
    | O => OutOfFuel
    | S n' =>
      let bb := heard_loc st in
      do (b, st1) <- p_block n' st ;
      Ok (set_block_loc b (range_loc_excl bb (heard_loc st1)), st1)
    end

  with p_stats (n : nat) (st : pst) (acc : list stat) {struct n} : Res (list stat * pst) :=
    match n with
    | O => OutOfFuel
    | S n' =>
      if is_block_end (la st) then Ok (acc, st)
      else
        do (os, st1) <- p_stat n' st ;
        p_stats n' st1 (match os with Some s => acc ++ [s] | None => acc end)
    end

  with p_stat (n : nat) (st : pst) {struct n} : Res (option stat * pst) :=
    match n with
    | O => OutOfFuel
    | S n' =>
      match stat_start_of (la st) with
      | StSemi => Ok (None, expect TkSepSemi st)
      | StBreak => Ok (Some SBreak, expect TkKwBreak st)
      | StLabel =>
        let st1 := expect TkIdentifier (expect TkSepLabel st) in
        Ok (Some (SLabel (now_str st1) (now_loc st1)), expect TkSepLabel st1)
      | StGoto =>
        let st1 := expect TkIdentifier (expect TkKwGoto st) in
        Ok (Some (SGoto (now_str st1) (now_loc st1)), st1)
      | StDo =>
        let st1 := expect TkKwDo st in
        let bl := now_loc st1 in
        do (b, st2) <- p_block_loc n' st1 ;
        let st3 := expect TkKwEnd st2 in
        Ok (Some (SDo b (range_loc bl (now_loc st3))), st3)
      | StWhile =>
        let st1 := expect TkKwWhile st in
        let bl := now_loc st1 in
        do (e, st2) <- p_subexp n' 0 st1 ;
        let st3 := expect TkKwDo st2 in
        do (b, st4) <- p_block_loc n' st3 ;
        let st5 := expect TkKwEnd st4 in
        Ok (Some (SWhile e b (range_loc bl (now_loc st5))), st5)
      | StRepeat =>
        let st1 := expect TkKwRepeat st in
        let bl := now_loc st1 in
        do (b, st2) <- p_block_loc n' st1 ;
        let st3 := expect TkKwUntil st2 in
        do (e, st4) <- p_subexp n' 0 st3 ;
        Ok (Some (SRepeat b e (range_loc bl (now_loc st4))), st4)
      | StIf =>
        let st1 := expect TkKwIf st in
        let bl := now_loc st1 in
        do (e, st2) <- p_subexp n' 0 st1 ;
        let st3 := expect TkKwThen st2 in
        do (b, st4) <- p_block_loc_excl n' st3 ;
        do (es, bs, st5) <- p_if_tail n' st4 [e] [b] ;
        let st6 := expect TkKwEnd st5 in
        Ok (Some (SIf es bs (range_loc bl (now_loc st6))), st6)
      | StFor =>
        let st1 := expect TkKwFor st in
        let bl := now_loc st1 in
        let st2 := expect TkIdentifier st1 in
        let name := now_str st2 in
        let vl := now_loc st2 in
        if tk_eqb (la st2) TkOpAssign then
          let st3 := expect TkOpAssign st2 in
          do (e1, st4) <- p_subexp n' 0 st3 ;
          let st5 := expect TkSepComma st4 in
          do (e2, st6) <- p_subexp n' 0 st5 ;
          do (e3, st7) <- (if tk_eqb (la st6) TkSepComma then p_subexp n' 0 (next st6)
                            else Ok (EInt 1 zero_loc, st6)) ;
          let st8 := expect TkKwDo st7 in
          do (b, st9) <- p_block_loc n' st8 ;
          let st10 := expect TkKwEnd st9 in
          Ok (Some (SForNum name vl e1 e2 e3 b (range_loc bl (now_loc st10))), st10)
        else
          do (names, locs, st3) <- p_namelist_tail n' st2 [name] [vl] ;
          let st4 := expect TkKwIn st3 in
          do (es, st5) <- p_explist n' st4 ;
          let st6 := expect TkKwDo st5 in
          do (b, st7) <- p_block_loc n' st6 ;
          let st8 := expect TkKwEnd st7 in
          Ok (Some (SForIn names locs es b (range_loc bl (now_loc st8))), st8)
      | StFunction =>
        let st1 := expect TkKwFunction st in
        let bl := now_loc st1 in
        do (fn, colon, cls, fname, st2) <- p_funcname n' st1 ;
        let selfloc := now_loc st2 in
        do (fd, st3) <- p_funcdef n' bl st2 ;
        let fd' := match fd with
                   | EFunc _ _ pars plocs b l va _ =>
                     if colon then EFunc cls fname (s_self :: pars) (selfloc :: plocs) b l va true
                     else EFunc cls fname pars plocs b l va false
                   | e => e
                   end in
        Ok (Some (SAssign [fn] [fd'] (range_loc bl (now_loc st3))), st3)
      | StLocal =>
        let st1 := expect TkKwLocal st in
        let bl := now_loc st1 in
        if tk_eqb (la st1) TkKwFunction then
          let st2 := expect TkIdentifier (expect TkKwFunction st1) in
          let name := now_str st2 in
          let nl := now_loc st2 in
          do (fd, st3) <- p_funcdef n' bl st2 ;
          Ok (Some (SLocalFunc name nl fd (range_loc bl (now_loc st3))), st3)
        else
          let st2 := expect TkIdentifier st1 in
          let name0 := now_str st2 in
          let l0 := now_loc st2 in
          let '(a0, st3) := p_local_attr st2 in
          do (names, locs, attrs, st4) <-
             p_local_namelist_tail n' st3 (match a0 with AttrClose => true | _ => false end) [name0] [l0] [a0] ;
          do (es, st5) <- (if tk_eqb (la st4) TkOpAssign then p_explist n' (next st4) else Ok ([], st4)) ;
          Ok (Some (SLocal names locs attrs es (range_loc bl (now_loc st5))), st5)
      | StIllegal => Ok (None, next st)
      | StOther => p_assign_or_call n' st
      end
    end

  (* parseAssignOrFuncCallStat *)
  with p_assign_or_call (n : nat) (st : pst) {struct n} : Res (option stat * pst) :=
    match n with
    | O => OutOfFuel
    | S n' =>
        let bl := heard_loc st in
        do (pe, st1) <- p_prefixexp n' st ;
        match pe with
        | EBad _ => Ok (None, st1)
        | ECall p nm args _ => Ok (Some (SCall (ECall p nm args (range_loc bl (now_loc st1)))), st1)
        | _ =>
          (* parseAssignStat *)
          let '(v0, bad0) := if is_var_like pe then (pe, None) else (EBad (now_loc st1), Some (now_loc st1)) in
          do (vars, notvar, st2) <- p_varlist_tail n' st1 [v0] bad0 ;
          if negb (tk_eqb (la st2) TkOpAssign) then Ok (None, err PeExprStat st2)
          else
            let st3 := match notvar with Some _ => err PeCannotAssign st2 | None => st2 end in
            let st4 := expect TkOpAssign st3 in
            do (es, st5) <- p_explist n' st4 ;
            Ok (Some (SAssign vars es (range_loc bl (now_loc st5))), st5)
        end
    end

  with p_if_tail (n : nat) (st : pst) (es : list exp) (bs : list block) {struct n} : Res (list exp * list block * pst) :=
    match n with
    | O => OutOfFuel
    | S n' =>
      if tk_eqb (la st) TkKwElseif then
        do (e, st1) <- p_subexp n' 0 (next st) ;
        let st2 := expect TkKwThen st1 in
        do (b, st3) <- p_block_loc_excl n' st2 ;
        p_if_tail n' st3 (es ++ [e]) (bs ++ [b])
      else if tk_eqb (la st) TkKwElse then
        let st1 := next st in
        let te := ETrue (now_loc st1) in
        do (b, st2) <- p_block_loc_excl n' st1 ;
        Ok (es ++ [te], bs ++ [b], st2)
      else Ok (es, bs, st)
    end

  (* finishVarList: { ',' prefixexp } with checkVar *)
  with p_varlist_tail (n : nat) (st : pst) (vars : list exp) (notvar : option loc)
    {struct n} : Res (list exp * option loc * pst) :=
    match n with
    | O => OutOfFuel
    | S n' =>
      if tk_eqb (la st) TkSepComma then
        do (e, st1) <- p_prefixexp n' (next st) ;
        if is_var_like e then p_varlist_tail n' st1 (vars ++ [e]) notvar
        else p_varlist_tail n' st1 (vars ++ [EBad (now_loc st1)])
                            (match notvar with Some l => Some l | None => Some (now_loc st1) end)
      else Ok (vars, notvar, st)
    end

  with p_explist (n : nat) (st : pst) {struct n} : Res (list exp * pst) :=
    match n with
    | O => OutOfFuel
    | S n' =>
      do (e, st1) <- p_subexp n' 0 st ;
      p_explist_tail n' st1 [e]
    end

  with p_explist_tail (n : nat) (st : pst) (acc : list exp) {struct n} : Res (list exp * pst) :=
    match n with
    | O => OutOfFuel
    | S n' =>
      if tk_eqb (la st) TkSepComma then
        do (e, st1) <- p_subexp n' 0 (next st) ;
        p_explist_tail n' st1 (acc ++ [e])
      else Ok (acc, st)
    end

  (* parseSubExp(limit) *)
  with p_subexp (n : nat) (limit : nat) (st : pst) {struct n} : Res (exp * pst) :=
    match n with
    | O => OutOfFuel
    | S n' =>
      let bbl := heard_loc st in
      do (e, st1) <-
         (if is_unop (la st) then
            let st1 := next st in
            let op := now_kind st1 in
            let bl := now_loc st1 in
            do (a, st2) <- p_subexp n' unary_limit st1 ;
            Ok (EUnop op a (range_loc bl (now_loc st2)), st2)
          else p_exp0 n' st) ;
      p_binop_loop n' limit bbl e st1
    end

  with p_binop_loop (n : nat) (limit : nat) (bbl : loc) (e : exp) (st : pst) {struct n} : Res (exp * pst) :=
    match n with
    | O => OutOfFuel
    | S n' =>
      let k := la st in
      let p := prio k in
      if (Nat.ltb 0 p) && negb (Nat.leb p limit) then
        let p' := if is_right_assoc k then Nat.pred p else p in
        do (sub, st1) <- p_subexp n' p' (next st) ;
        p_binop_loop n' limit bbl (EBinop k e sub (range_loc bbl (now_loc st1))) st1
      else Ok (e, st)
    end

  with p_exp0 (n : nat) (st : pst) {struct n} : Res (exp * pst) :=
    match n with
    | O => OutOfFuel
    | S n' =>
      match exp0_start_of (la st) with
      | E0Vararg => let st1 := next st in Ok (EVararg (now_loc st1), st1)
      | E0Nil => let st1 := next st in Ok (ENil (now_loc st1), st1)
      | E0True => let st1 := next st in Ok (ETrue (now_loc st1), st1)
      | E0False => let st1 := next st in Ok (EFalse (now_loc st1), st1)
      | E0String => let st1 := next st in Ok (EStr (now_str st1) (now_loc st1), st1)
      | E0Number =>
        let st1 := next st in
        match classify (now_str st1) with
        | NInt v => Ok (EInt v (now_loc st1), st1)
        | NFloat => Ok (EFloat (now_str st1) (now_loc st1), st1)
        | NBad => Ok (EFloat [] zero_loc, err PeNotNumber st1)
        end
      | E0Table => p_table n' st
      | E0Function => let st1 := next st in p_funcdef n' (now_loc st1) st1
      | E0Other => p_prefixexp n' st
      end
    end

  with p_prefixexp (n : nat) (st : pst) {struct n} : Res (exp * pst) :=
    match n with
    | O => OutOfFuel
    | S n' =>
      let bl := heard_loc st in
      if tk_eqb (la st) TkIdentifier then
        let st1 := expect TkIdentifier st in
        p_finish_prefix n' (EName (now_str st1) (now_loc st1)) bl st1
      else if tk_eqb (la st) TkSepLparen then
        (* parseParensExp *)
        let st1 := expect TkSepLparen st in
        let pl := now_loc st1 in
        do (e, st2) <- p_subexp n' 0 st1 ;
        let st3 := expect TkSepRparen st2 in
        let l := range_loc pl (now_loc st3) in
        p_finish_prefix n' (if keeps_parens e then EParens e l else e) bl st3
      else
        let st1 := next st in
        p_finish_prefix n' (EBad (now_loc st1)) bl (err PeCannotStart st1)
    end

  with p_finish_prefix (n : nat) (e : exp) (bl : loc) (st : pst) {struct n} : Res (exp * pst) :=
    match n with
    | O => OutOfFuel
    | S n' =>
      match suffix_start_of (la st) with
      | SfxBrack =>
        do (k, st1) <- p_subexp n' 0 (next st) ;
        let st2 := expect TkSepRbrack st1 in
        p_finish_prefix n' (EIndex e k (range_loc bl (now_loc st2))) bl st2
      | SfxDot =>
        let st1 := next st in
        let '(nm, st2) := if tk_eqb (la st1) TkIdentifier
                          then let s := expect TkIdentifier st1 in (now_str s, s)
                          else ([], err PeMissingField st1) in
        let l := now_loc st2 in
        p_finish_prefix n' (EIndex e (EStr nm l) (range_loc bl l)) bl st2
      | SfxCall =>
        (* finishFuncCallExp *)
        let cbl := now_loc st in
        (* parseNameExp *)
        let '(nm, st1) :=
            if tk_eqb (la st) TkSepColon then
              let s1 := next st in
              let '(name, s2) := if tk_eqb (la s1) TkIdentifier
                                 then let s := expect TkIdentifier s1 in (now_str s, s)
                                 else ([], err PeMissingField s1) in
              (Some (name, now_loc s2), s2)
            else (None, st) in
        do (args, st2) <- p_args n' st1 ;
        p_finish_prefix n' (ECall e nm args (range_loc cbl (now_loc st2))) bl st2
      | SfxNone => Ok (e, st)
      end
    end

  (* parseArgs *)
  with p_args (n : nat) (st1 : pst) {struct n} : Res (list exp * pst) :=
    match n with
    | O => OutOfFuel
    | S n' =>
      if tk_eqb (la st1) TkSepLparen then
        let s1 := next st1 in
        do (a, s2) <- (if negb (tk_eqb (la s1) TkSepRparen) then p_explist n' s1 else Ok ([], s1)) ;
        Ok (a, expect TkSepRparen s2)
      else if tk_eqb (la st1) TkSepLcurly then do (t, s1) <- p_table n' st1 ; Ok ([t], s1)
      else if tk_eqb (la st1) TkString then
        let s1 := expect TkString st1 in Ok ([EStr (now_str s1) (now_loc s1)], s1)
      else Ok ([], err PeMissingArgs st1)
    end

  (* parseTableConstructorExp *)
  with p_table (n : nat) (st : pst) {struct n} : Res (exp * pst) :=
    match n with
    | O => OutOfFuel
    | S n' =>
      let st1 := expect TkSepLcurly st in
      let bl := now_loc st1 in
      do (ks, vs, st2) <-
         (if negb (tk_eqb (la st1) TkSepRcurly) then
            do (k, v, s1) <- p_field n' st1 ;
            p_fieldlist_tail n' s1 [k] [v]
          else Ok ([], [], st1)) ;
      let st3 := expect TkSepRcurly st2 in
      Ok (ETable ks vs (range_loc bl (now_loc st3)), st3)
    end

  with p_fieldlist_tail (n : nat) (st : pst) (ks : list (option exp)) (vs : list exp)
    {struct n} : Res (list (option exp) * list exp * pst) :=
    match n with
    | O => OutOfFuel
    | S n' =>
      if tk_eqb (la st) TkSepComma || tk_eqb (la st) TkSepSemi then
        let st1 := next st in
        if negb (tk_eqb (la st1) TkSepRcurly) then
          do (k, v, s1) <- p_field n' st1 ;
          p_fieldlist_tail n' s1 (ks ++ [k]) (vs ++ [v])
        else Ok (ks, vs, st1)
      else Ok (ks, vs, st)
    end

  with p_field (n : nat) (st : pst) {struct n} : Res (option exp * exp * pst) :=
    match n with
    | O => OutOfFuel
    | S n' =>
      if tk_eqb (la st) TkSepLbrack then
        do (k, st1) <- p_subexp n' 0 (next st) ;
        let st2 := expect TkOpAssign (expect TkSepRbrack st1) in
        do (v, st3) <- p_subexp n' 0 st2 ;
        Ok (Some k, v, st3)
      else
        do (e, st1) <- p_subexp n' 0 st ;
        match e with
        | EName nm l =>
          if tk_eqb (la st1) TkOpAssign then
            do (v, st2) <- p_subexp n' 0 (next st1) ;
            Ok (Some (EStr nm l), v, st2)
          else Ok (None, e, st1)
        | _ => Ok (None, e, st1)
        end
    end

  (* parseFuncDefExp(beginLoc) *)
  with p_funcdef (n : nat) (bl : loc) (st : pst) {struct n} : Res (exp * pst) :=
    match n with
    | O => OutOfFuel
    | S n' =>
      let st1 := expect TkSepLparen st in
      do (pars, plocs, va, st2) <- p_parlist n' st1 ;
      let st3 := expect TkSepRparen st2 in
      do (b, st4) <- p_block_loc n' st3 ;
      let st5 := expect TkKwEnd st4 in
      Ok (EFunc [] [] pars plocs b (range_loc bl (now_loc st5)) va false, st5)
    end.

  (* ---------------------------------------------------------------- BeginAnalyze *)
  Inductive parse_result :=
  | PR (b : block) (lex_errs : list lexerr) (parse_errs : list perr)
  | PRTooMany.                       (* 31st error: panic(TooManyErr), AST dropped *)

  Definition init_pst (ts : list ltok) : pst := mkP None None ts [] [].

  Definition parse_tokens (fuel : nat) (ts : list ltok) : Res parse_result :=
    let st := init_pst ts in
    do (b, st1) <- p_block_loc fuel st ;
    let st2 := expect TkEOF st1 in
    if Nat.leb 31 (length (perrs st2) + length (lseen st2)) then Ok PRTooMany
    else Ok (PR b (lseen st2) (perrs st2)).

  (* generous fuel: every call consumes a token within a bounded number of nested calls *)
  Definition fuel_of_tokens (ts : list ltok) : nat := 40 * (length ts) + 40.
End WithNumbers.
