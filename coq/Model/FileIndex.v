(* Model of langserver/check/common/file_index_info.go (FileIndexInfo: InsertOneFile,
   RemoveOneFile, GetFileNameMap, GetPreFileNameMap) and of common/util.go:
   LuaSuffixIndex / CompleteFilePathToPreStr, plus the byte-string helpers (strings.Split / Index /
   LastIndex / HasSuffix / Replace) shared by ModulePath.v and Merge.v.
   Paths are byte strings (list N). Go maps are association lists; only lookups are
   observable (iteration order is an explicit parameter where it matters: Merge.v).
   Every function that cuts a name at "its suffix" takes the boolean sfx:
     sfx = false: the code before fixes/C18-dotted-path.diff (1473636) - the FIRST '.' of the string (of the whole path for
                  CompleteFilePathToPreStr, of the file name for the key of the second map);
     sfx = true : the repaired code (common.LuaSuffixIndex) - a final ".lua" is the suffix; any other (associated) file
                  type is cut at the first '.' of its FILE NAME; directories never matter.
   stem_deployed says which of the two the code in /repo is. *)
From Coq Require Import List NArith Bool.
From LH Require Import Base.Bytes.
Import ListNotations.
Local Open Scope N_scope.

Definition slash : N := 47.
Definition dot : N := 46.

Definition lua_ext : list N := [46; 108; 117; 97].                             (* ".lua" *)
Definition so_ext : list N := [46; 115; 111].                                  (* ".so" *)
Definition init_tail : list N := [47; 105; 110; 105; 116; 46; 108; 117; 97].   (* "/init.lua" *)

(* ---- strings ---- *)

(* strings.Index(s, string(c)) *)
Fixpoint index_byte (c : N) (s : list N) : option nat :=
  match s with
  | [] => None
  | x :: t => if x =? c then Some O
              else match index_byte c t with Some k => Some (S k) | None => None end
  end.

(* strings.Split(s, string(c)): never empty; Split("") = [""] *)
Fixpoint split_on (c : N) (s : list N) : list (list N) :=
  match s with
  | [] => [[]]
  | x :: t => if x =? c then [] :: split_on c t
              else match split_on c t with
                   | h :: r => (x :: h) :: r
                   | [] => [[x]]
                   end
  end.

(* strVec := strings.Split(f, "/"); strVec[len(strVec)-1] *)
Definition last_seg (s : list N) : list N := last (split_on slash s) [].

Fixpoint is_prefix (p s : list N) : bool :=
  match p, s with
  | [], _ => true
  | x :: p', y :: s' => (x =? y) && is_prefix p' s'
  | _ :: _, [] => false
  end.

(* strings.HasSuffix(s, suf) *)
Definition is_suffix (suf s : list N) : bool :=
  Nat.leb (length suf) (length s) && beq_bytes (skipn (Nat.sub (length s) (length suf)) s) suf.

(* strings.LastIndex(s, sub); LastIndex(s, "") = len(s) *)
Fixpoint last_index (sub s : list N) : option nat :=
  match s with
  | [] => if is_prefix sub [] then Some O else None
  | _ :: t => match last_index sub t with
              | Some k => Some (S k)
              | None => if is_prefix sub s then Some O else None
              end
  end.

(* strings.Replace(s, string(a), string(b), -1) *)
Definition replace_byte (a b : N) (s : list N) : list N :=
  map (fun x => if x =? a then b else x) s.

(* common.CompleteFilePathToPreStr before the repair: the text before the FIRST '.' of the whole path, "" if none *)
Definition complete_pre (p : list N) : list N :=
  match index_byte dot p with Some i => firstn i p | None => [] end.

(* where the suffix of a file name / of a path begins (common.LuaSuffixIndex for sfx = true; strings.Index(s, ".")
   for sfx = false), None = -1 *)
Definition suffix_index (sfx : bool) (p : list N) : option nat :=
  if sfx then
    if is_suffix lua_ext p then Some (Nat.sub (length p) 4)
    else match index_byte dot (last_seg p) with
         | Some i => Some (Nat.add (Nat.sub (length p) (length (last_seg p))) i)
         | None => None
         end
  else index_byte dot p.

(* common.CompleteFilePathToPreStr: the path without its suffix, "" if it has none *)
Definition complete_pre_fx (sfx : bool) (p : list N) : list N :=
  match suffix_index sfx p with Some i => firstn i p | None => [] end.

(* which variant the code in /repo is (fixes/C18-dotted-path.diff applied = true): the one constant the OCaml drivers
   of C18 and C09 read *)
Definition stem_deployed : bool := true.

(* ---- association lists standing for Go maps keyed by strings ---- *)
Definition amap (V : Type) := list (list N * V).

Fixpoint aget {V} (k : list N) (m : amap V) : option V :=
  match m with
  | [] => None
  | (k', v) :: t => if beq_bytes k k' then Some v else aget k t
  end.

Fixpoint aset {V} (k : list N) (v : V) (m : amap V) : amap V :=
  match m with
  | [] => [(k, v)]
  | (k', v') :: t => if beq_bytes k k' then (k, v) :: t else (k', v') :: aset k v t
  end.

Fixpoint adel {V} (k : list N) (m : amap V) : amap V :=
  match m with
  | [] => []
  | (k', v') :: t => if beq_bytes k k' then adel k t else (k', v') :: adel k t
  end.

(* ---- FileIndexInfo ---- *)
Record idx := mk_idx {
  by_name : amap (amap (list N));   (* fileNameMap:    file name (with suffix)      -> full path -> pre *)
  by_pre  : amap (amap (list N))    (* freFileNameMap: file name up to first '.'    -> full path -> pre *)
}.

Definition idx_empty : idx := mk_idx [] [].

(* m[name][path] = pre, creating the inner map when absent *)
Definition inner_set (outer : amap (amap (list N))) (name path pre : list N) :=
  match aget name outer with
  | Some inner => aset name (aset path pre inner) outer
  | None => aset name [(path, pre)] outer
  end.

(* if inner, ok := m[name]; ok { delete(inner, key) } *)
Definition inner_del (outer : amap (amap (list N))) (name key : list N) :=
  match aget name outer with
  | Some inner => aset name (adel key inner) outer
  | None => outer
  end.

Definition idx_insert (sfx : bool) (f : list N) (st : idx) : idx :=
  let name := last_seg f in
  let pre := complete_pre_fx sfx f in
  let bn := inner_set (by_name st) name f pre in
  match suffix_index sfx name with
  | None => mk_idx bn (by_pre st)
  | Some i => mk_idx bn (inner_set (by_pre st) (firstn i name) f pre)
  end.

(* RemoveOneFile as first written (before work/fixes/C18-remove-key.diff, commit ec76861): the inner maps are keyed by
   FULL PATH but the code deleted the key `fileName` (resp. `preStr`) from them. *)
Definition idx_remove (sfx : bool) (f : list N) (st : idx) : idx :=
  let name := last_seg f in
  let bn := inner_del (by_name st) name name in
  match suffix_index sfx name with
  | None => mk_idx bn (by_pre st)
  | Some i => let p := firstn i name in mk_idx bn (inner_del (by_pre st) p p)
  end.

(* the repaired variant (work/fixes/C18-remove-key.diff): delete(valeMap, strFile) in both maps *)
Definition idx_remove_fixed (sfx : bool) (f : list N) (st : idx) : idx :=
  let name := last_seg f in
  let bn := inner_del (by_name st) name f in
  match suffix_index sfx name with
  | None => mk_idx bn (by_pre st)
  | Some i => mk_idx bn (inner_del (by_pre st) (firstn i name) f)
  end.

(* GetFileNameMap / GetPreFileNameMap (nil map = empty) *)
Definition get_name_map (st : idx) (name : list N) : amap (list N) :=
  match aget name (by_name st) with Some m => m | None => [] end.
Definition get_pre_map (st : idx) (name : list N) : amap (list N) :=
  match aget name (by_pre st) with Some m => m | None => [] end.

(* ---- histories ---- *)
Inductive op := Ins (p : list N) | Rem (p : list N).

Definition idx_step_g (sfx : bool) (st : idx) (o : op) : idx :=
  match o with Ins p => idx_insert sfx p st | Rem p => idx_remove sfx p st end.
Definition idx_step_fixed_g (sfx : bool) (st : idx) (o : op) : idx :=
  match o with Ins p => idx_insert sfx p st | Rem p => idx_remove_fixed sfx p st end.

Definition idx_run_g (sfx : bool) (ops : list op) : idx := fold_left (idx_step_g sfx) ops idx_empty.
Definition idx_run_fixed_g (sfx : bool) (ops : list op) : idx := fold_left (idx_step_fixed_g sfx) ops idx_empty.

(* the deployed variants (what the drivers run) *)
Definition idx_step : idx -> op -> idx := idx_step_g stem_deployed.
Definition idx_step_fixed : idx -> op -> idx := idx_step_fixed_g stem_deployed.
Definition idx_run : list op -> idx := idx_run_g stem_deployed.
Definition idx_run_fixed : list op -> idx := idx_run_fixed_g stem_deployed.
