Require Extraction.
Require Import ExtrOcamlBasic.
From LH Require Import Base.Bytes Base.Res Model.Lexer Model.Ast Model.Parser Model.Number Model.LuaFront.
Extraction "c01model.ml" extract_anchor tk_code lex_all parse_tokens fuel_of_tokens parse_bytes flagged classify_number classify_tok tok_loc.
