Require Extraction.
Require Import ExtrOcamlBasic.
From LH Require Import Base.Bytes Base.Res Model.Lexer Model.Ast Model.Parser Model.Number Model.LuaFront Spec.LuaUsage Model.Usage Proofs.UsageBindUndef Proofs.UsageBindUnused.
Extraction "c07model.ml" extract_anchor tk_code parse_bytes classify_tok
  parse_file in_fragment multi_local_order pos_clean first_pass s1_gmap gnames go_diags spec_diags
  later_elsewhere trace file_occs file_decls decl_locs_distinct flags_ok.
