Require Extraction.
Require Import ExtrOcamlBasic.
From LH Require Import Base.Bytes Base.Res Model.AnnLexer Model.AnnAst Model.AnnParser Model.AnnPrint Spec.AnnGrammar.
Extraction "c16model.ml" extract_anchor kind_code fuel_of ann_parse_line parse_type parse_fragment parse_fragment_gen type_convert_str
  type_convert_str_fx deployed all_fixes no_fixes fx_const fx_union fx_fun fx_cont
  show_type show_type_plain show_line show_line_plain doc_type doc_stat embed_type embed_type_plain embed_line
  embed_line_plain abs flat
  enum_with_comment stat_nested_array has_nested_array has_fun has_const has_paren_item has_union_under_array
  has_union_in_union parse_fragment_spec frag_cont_after_bad frag_has_empty_alias clear_aligned.
