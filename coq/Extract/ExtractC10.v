Require Extraction.
Require Import ExtrOcamlBasic.
From LH Require Import Base.Bytes Model.Dispatch Generated.GenHandlers.
Extraction "c10model.ml" extract_anchor
  handlers background concurrency
  hname hfunc hkind hbody locked locked_body simple_body unlocked_accs all_accs may_race conflict
  unlocked_names split_names takes_lock count_locks
  pair_may_race bg_may_race spawned_by msg_of body_of is_notification
  refute bg_refute refuted_b bg_refuted_b witness_check run init race_b complete.
