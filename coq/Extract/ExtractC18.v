Require Extraction.
Require Import ExtrOcamlBasic.
From LH Require Import Base.Bytes Model.FileIndex Model.ModulePath Spec.ModuleSpec.
Extraction "c18model.ml" extract_anchor
  stem_deployed idx_empty idx_step_g idx_step_fixed_g idx_run_g idx_run_fixed_g idx_step idx_step_fixed idx_run idx_run_fixed
  get_name_map get_pre_map aget
  files_after ever_inserted files_step spec_name spec_pre fmem abs_ops stale_remove no_removes
  calc_score calc_score_g score_deployed cursor_pick cursor_list hit_pos lit_begin lit_end occ_lit bm_candidates argmax_set first_max best_set check_refer open_list open_outcomes system_modules
  spec_refer conforms all_lua non_lua lua_overlap mod_path simple_lua odd_name literal_no_dot doc_candidates lit_candidates doc_found matches_doc
  pinit pstep ps_refs ps_ambig ps_idx ps_loaded ps_disk rs_err rs_valid rs_vstr any_touch.
