Require Extraction.
Require Import ExtrOcamlBasic.
From LH Require Import Base.Bytes Model.Diag Model.Events Spec.FreshStart Proofs.EventsToy.
Extraction "c08model.ml" extract_anchor no_fix all_fix round1 round2 round3 round4 deployed toy_in_dir toy_all_in toy_obs toy_conformant toy_classes.
