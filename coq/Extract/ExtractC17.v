Require Extraction.
Require Import ExtrOcamlBasic.
From LH Require Import Base.Bytes Base.Res Model.Config Spec.ConfigSpec Tie.TieConfig.
Extraction "c17model.ml" extract_anchor run session s_g is_handled need_handle visible spec_shown spec_handled session_intent
  cls_special_gate cls_coupled cls_dead_flag cls_ignore_sites diag_guard json_wf patterns_ok client_wf to_json fixes_now deployed
  start step l_view l_srv spec_steps spec_file_view edits_wf cls_live_stale code_round3 code_round2 code_round1 code_original gate_covers gate_types_fixed special_types.
