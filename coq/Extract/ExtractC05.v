Require Extraction.
Require Import ExtrOcamlBasic.
From LH Require Import Base.Bytes Base.Res Model.Lexer Model.Ast Model.Parser Model.Number Model.LuaFront
  Model.Scope Model.Globals Model.Resolve Model.ResolveWide Spec.LuaScope Spec.LuaScopeWide Proofs.PositionBindBase Proofs.PositionBindFinal.
Extraction "c05model.ml" extract_anchor tk_code parse_bytes classify_tok
  analyse nodefine_names ws_global text_ok offset_of cut_name complete_prefix
  resolve_at define_at references_at hover_at complete_at
  bind_file in_fragment occ_at has_tag name_has_tag define_ok global_writes spec_refs spec_highlight spec_hover_local
  env_names global_names global_used_names complete_ok decl_later_or_outside split_global global_mixed_levels same_pos_other_file
  c12_refs_same_decl c12_self_in_refs c12_highlight c12_hover is_local_decl_of laid_b laid2_b no_repoint
  analyse_wide text_ok_wide cut_name_wide complete_prefix_wide complete_at_wide resolve_at_wide define_at_wide references_at_wide hover_at_wide
  bind_file_wide in_wide has_w_block strs_block near_str lends_block after_local rp_block b4_boundary rends_block at_repeat_end.
