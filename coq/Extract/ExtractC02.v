Require Extraction.
Require Import ExtrOcamlBasic.
From LH Require Import Base.Bytes Base.Res Base.Utf8 Model.TextSync Spec.LspText.
Extraction "c02model.ml" extract_anchor deployed_fixed offset_gen apply_changes trace
  utf8_of scalar is_astral no_astral no_lone_cr spec_offsets spec_step conformant_from
  astral lone_cr stale enc_note enc_cache empty_cache.
