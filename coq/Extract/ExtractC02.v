Require Extraction.
Require Import ExtrOcamlBasic.
From LH Require Import Base.Bytes Base.Res Base.Utf8 Model.TextSync Spec.LspText Model.TextSyncUri Spec.LspTextUri.
Extraction "c02model.ml" extract_anchor deployed_fixed offset_gen apply_changes trace
  utf8_of scalar is_astral no_astral no_lone_cr spec_offsets spec_step conformant_from
  astral lone_cr stale enc_note enc_cache empty_cache
  deployed_uri_fixed deployed_save_fixed unescape strip_prefix uri_key init_prefix prefix2 prefix3 is_lua_key
  utrace uspec_step uconformant_from uclass_ok_from ustale save_nil inj_on uris enc_unote enc_kcache kempty
  canonical raw_pchar raw_unreserved.
