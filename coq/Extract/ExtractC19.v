Require Extraction.
Require Import ExtrOcamlBasic.
From LH Require Import Base.Bytes Base.Res Model.Lexer Model.Ast Model.Parser Model.Number Model.LuaFront Model.Symbols
  Spec.SymbolSpec Proofs.SymbolsJudge.
Extraction "c19model.ml" extract_anchor tk_code parse_bytes classify_tok
  analyse fuel_of_bytes deployed outline_state merge_ws_log foreign_globals finalize find_all_symbol file_wsyms range_of
  b_G_dot decls_spec line_lens judge_all explain_ws ws_judge wentries_of in_fragment has_annot.
