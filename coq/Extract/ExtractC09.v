Require Extraction.
Require Import ExtrOcamlBasic.
From LH Require Import Base.Bytes Model.FileIndex Model.ModulePath Model.Merge.
Extraction "c09model.ml" extract_anchor
  merge merge_step winner vars_of least_of minimal_set multi_owner no_least gvar_eqb beats judge
  idx_run get_name_map get_pre_map calc_score bm_candidates argmax_set first_max best_set
  merge_ws sort_paths visit_order map_shaped names_distinct bytes_ltb less_fx least_path best_match best_set_fx
  project_merge project_merge_ws project_items member_provider pick_project.
