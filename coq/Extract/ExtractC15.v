Require Extraction.
Require Import ExtrOcamlBasic.
From LH Require Import Base.Bytes Base.Res Model.Classes Spec.ClassClosure.
Extraction "c15model.ml" extract_anchor
  c15_fixed_variant fuel_of class_list member_names model_members
  leaf_arr leaf_val leaf_key resolve detect resolve_fx resolve_model cyclic_alias
  sub_key follow complete_at define_at for_value for_pairs_key
  reach_exec members_exec define_exec index_exec pairs_key_exec shadow_free.
