Require Extraction.
Require Import ExtrOcamlBasic.
From LH Require Import Base.Bytes Base.Res Model.Classes Spec.ClassClosure.
Extraction "c15model.ml" extract_anchor
  c15_fixed_variant c15_split_fixed fuel_of class_list class_list_v member_names model_members model_members_v
  leaf_arr leaf_val leaf_key resolve detect resolve_fx resolve_model cyclic_alias
  sub_key follow complete_at define_at for_value for_pairs_key
  reach_exec members_exec define_exec member_step_exec index_exec pairs_key_exec shadow_free.
