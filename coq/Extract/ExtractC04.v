Require Extraction.
Require Import ExtrOcamlBasic.
From LH Require Import Base.Bytes Base.Res Base.Utf8 Model.Lexer Model.Ast Model.Parser Model.Number Model.LuaFront Spec.LspRange
  Model.TextSync Spec.LspText Proofs.ServerRange Proofs.ServerRangeText.
Extraction "c04model.ml" extract_anchor tk_code lex_all parse_bytes classify_tok tok_loc
  covers all_tokens_covered raw_kind file_class_ok cls_escape cls_long_bracket cls_astral cls_two_byte cls_lfcr cls_bom cls_lexerr
  utf8_of scalar
  ranges_designate range_designates range_in_doc ident_at ident_locs loc_of_range
  cls_string_key cls_self_alias cls_outline_span ident_text_at cls_prefix_fallback chain_before cls_other_entity chain_after cls_later_member cls_eof_comment
  text_designates texts_designate range_designates_any word_at cls_ann_bytes cls_ann_bytes_doc ann_unbyte cls_ann_type_word.
