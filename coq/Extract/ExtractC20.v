Require Extraction.
Require Import ExtrOcamlBasic.
From LH Require Import Base.Bytes Base.Res Model.Lexer Model.Ast Model.Parser Model.Number Model.LuaFront
  Spec.PatternSpec Model.Patterns Proofs.PatternsClasses.
Extraction "c20model.ml" extract_anchor tk_code classify_tok check_bytes run_bytes deployed no_fixes all_fixes.
