(* TEMPORARY stand-alone extraction for the numeral part of C03 (leg c03.number); the lead folds the
   identifiers below into Extract/ExtractC03.v and deletes this file. *)
Require Extraction.
Require Import ExtrOcamlBasic.
From LH Require Import Base.Bytes Base.Res Model.Number Spec.LuaNumeral.
Extraction "c03nmodel.ml" extract_anchor classify_number spec_value num_clean to_lower trim_space
  dev_short_junk dev_hex_one_junk dev_hex_cut re_hex_float parse_hex_float.
