Require Extraction.
Require Import ExtrOcamlBasic.
From LH Require Import Base.Bytes Base.Res Base.Utf8 Model.Codec Model.Lexer Model.Ast Model.Parser Model.Number
  Model.LuaFront Model.Comments Model.Hover Spec.CommentSpec.
Extraction "c13model.ml" extract_anchor pre_num is_utf8 convert utf8_of scalar is_two_byte
  tk_code lex_all parse_bytes classify_tok tok_loc
  comment_writes cm_find cm_lookup get_line_comment get_str_comment final_comment hover_doc hover hover_with
  spec_attach attach_guard keys_nodup spec_entries gap_ok render_gap
  file_class file_table file_gaps spec_comment pure_at parse_gap parser_reads_all
  long_fix_deployed lex_all_v comment_writes_v doc_comment_v hover_v hover_with_v file_class_long file_blocks file_lgaps.
