Require Extraction.
Require Import ExtrOcamlBasic.
From LH Require Import Base.Bytes Base.Utf8 Model.Codec.
Extraction "c13model.ml" extract_anchor pre_num is_utf8 convert utf8_of scalar is_two_byte.
