Require Extraction.
Require Import ExtrOcamlBasic.
From LH Require Import Base.Bytes Base.Res Model.Lexer Model.Ast Model.Parser Model.Number Spec.LuaNumeral Model.LuaFront.
Extraction "c03model.ml" extract_anchor tk_code fx_deployed lex_all parse_tokens fuel_of_tokens parse_bytes flagged classify_number classify_tok
  spec_value num_clean to_lower trim_space dev_short_junk dev_hex_one_junk dev_hex_cut.
