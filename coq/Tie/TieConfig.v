(* C17 - the tables of Model/Config.v are the tables the Go code has NOW (coq/Generated is rewritten by the
   translator on every run; each lemma is closed by computation, so a changed table stops this file compiling). *)
From Coq Require Import List NArith Bool String.
From LH Require Import Model.Config Generated.GenFlags Generated.GenErrTypes.
Import ListNotations.
Local Open Scope N_scope.

(* position k of getCheckFlagList / getWarnCheckList is the switch documented as type k *)
Lemma tie_init_positions : map type_of_flag GenFlags.init_flags = flag_positions.
Proof. vm_compute. reflexivity. Qed.
Lemma tie_change_positions : map type_of_flag GenFlags.change_flags = flag_positions.
Proof. vm_compute. reflexivity. Qed.
Lemma tie_lists_equal : GenFlags.init_flags = GenFlags.change_flags.
Proof. vm_compute. reflexivity. Qed.

(* every switch is delivered under its own (documented) name: json tag = field name, in both option structs *)
Definition tagged_as_itself (tags : list (string * string)) (name : string) : bool :=
  existsb (fun p => String.eqb (fst p) name && String.eqb (snd p) name) tags.
Lemma tie_init_tags : forallb (tagged_as_itself GenFlags.init_json_tags) GenFlags.init_flags = true.
Proof. vm_compute. reflexivity. Qed.
Lemma tie_warn_tags : forallb (tagged_as_itself GenFlags.warn_json_tags) GenFlags.change_flags = true.
Proof. vm_compute. reflexivity. Qed.

(* the documentation shipped with the VS Code extension says the same as type_of_flag *)
Lemma tie_documented :
  forallb (fun p => type_of_flag (fst p) =? snd p) GenFlags.documented_types = true
  /\ forallb (fun name => existsb (fun p => String.eqb (fst p) name) GenFlags.documented_types) GenFlags.init_flags = true.
Proof. split; vm_compute; reflexivity. Qed.

(* error type constants *)
Lemma tie_err_consts :
  err_type_of "CheckErrorSyntax" err_types = Some check_error_syntax
  /\ err_type_of "CheckErrorNoDefine" err_types = Some check_error_no_define
  /\ err_type_of "CheckErrorMax" err_types = Some check_error_max.
Proof. repeat split. Qed.
Lemma tie_err_types_dense : map snd err_types = map N.of_nat (seq 1 30).
Proof. vm_compute. reflexivity. Qed.
Lemma tie_types_all : types_all = map N.of_nat (seq (N.to_nat check_error_syntax) (N.to_nat (check_error_max - check_error_syntax))).
Proof. vm_compute. reflexivity. Qed.


(* handleNotJSONCheckFlag walks CheckErrorSyntax .. CheckErrorMax-1 in both branches *)
Lemma tie_flag_loops :
  GenFlags.flag_loops = [("CheckErrorSyntax", "CheckErrorMax"); ("CheckErrorSyntax", "CheckErrorMax")]%string.
Proof. vm_compute. reflexivity. Qed.

(* the number of client switches the model assumes *)
Lemma tie_flag_count : N.of_nat (List.length GenFlags.init_flags) = 26.
Proof. vm_compute. reflexivity. Qed.

(* ---------- which variant of the model describes the code NOW ---------- *)

Fixpoint list_eqb {A} (eqb : A -> A -> bool) (l1 l2 : list A) {struct l1} : bool :=
  match l1, l2 with
  | [], [] => true
  | x :: l1', y :: l2' => eqb x y && list_eqb eqb l1' l2'
  | _, _ => false
  end.
Definition type_named (name : string) (t : N) : bool :=
  match err_type_of name err_types with Some x => x =? t | None => false end.

(* fx_regexp: no regexp.MustCompile on user text is left and IntialGlobalVar allocates IgnoreVarMap *)
Definition fx_regexp_now : bool := negb GenFlags.must_compile_user_text && GenFlags.var_map_allocated_at_init.

(* fx_gate: the errTypeList of IsSpecialCheck as it is in the code (a name that is not an error type constant
   would become 0, which is no diagnostic type; tie_special below excludes it) *)
Definition fx_gate_now : list N :=
  map (fun name => match err_type_of name err_types with Some t => t | None => 0 end) GenFlags.special_types.

(* fx_coupled: every use of IsGlobalIgnoreErrType / IsIgnoreErrorFile inside check/analysis, as a table.  The two
   early returns that used to look at ONE of the two types they stand in front of (checkLocVarCall: 4 for 4 and 17,
   cgFuncCallParamCheck: 10 for 10 and 24) name both now, and the analysis no longer asks the choke point about another
   file (findTableDefine: the type-2 rules of the imported file).  Any other table is a shape nobody has looked at: it
   counts as not repaired (Properties/C17.v C17_code_is_deployed_variant then fails, and the legs compare the code
   with the unrepaired variant). *)
Definition guards_table (repaired : bool) : list (string * (string * list string)) :=
  [("checkAssignTypeSame", ("return", ["CheckErrorAssignType"]));
   ("checkBinopExpTypeSame", ("return", ["CheckErrorBinopType"]));
   ("checkConstAssgin", ("return", ["CheckErrorConstAssign"]));
   ("checkEnum", ("return", ["CheckErrorEnumValue"]));
   ("funcCallParamTypeCheck", ("return", ["CheckErrorCallParamType"]));
   ("funcReturnCheck", ("return", ["CheckErrorFuncRetErr"]));
   ("checkLocFuncCall", ("return", ["CheckErrorLocFuncNotCall"]));
   ("checkLocVarCall", ("return", if repaired then ["CheckErrorLocalNoUse"; "CheckErrorNoUseAssign"] else ["CheckErrorLocalNoUse"]));
   ("CheckTableDeclAssign", ("return", ["CheckErrorAssignType"]));
   ("CheckTableClassField", ("return", ["CheckErrorClassField"]));
   ("checkTableAccess", ("return", ["CheckErrorClassField"]));
   ("cgBinopExp", ("enter", ["CheckErrorFloatEq"]));
   ("cgFuncCallParamCheck", ("return", if repaired then ["CheckErrorCallParam"; "CheckErrorCallParamType"] else ["CheckErrorCallParam"]));
   ("cgIfStat", ("enter", ["CheckErrorDuplicateIf"]));
   ("cgAssignStat", ("enter", ["CheckErrorSelfAssign"]))]%string.
Definition chokes_table (repaired : bool) : list (string * (string * string)) :=
  if repaired then [] else [("findTableDefine", ("referFile.Name", "CheckErrorNoDefine"))]%string.
Definition guard_eqb (a b : string * (string * list string)) : bool :=
  String.eqb (fst a) (fst b) && String.eqb (fst (snd a)) (fst (snd b)) && list_eqb String.eqb (snd (snd a)) (snd (snd b)).
Definition choke_eqb (a b : string * (string * string)) : bool :=
  String.eqb (fst a) (fst b) && String.eqb (fst (snd a)) (fst (snd b)) && String.eqb (snd (snd a)) (snd (snd b)).
Definition coupled_shape (repaired : bool) : bool :=
  list_eqb guard_eqb GenFlags.ignore_guards (guards_table repaired)
  && list_eqb choke_eqb GenFlags.analysis_choke_calls (chokes_table repaired).
Definition fx_coupled_now : bool := coupled_shape true.

(* fx_sites: the directory walk (getAllFile: folders by isIgnoreFloder, files by isIgnoreRelFile) and the per-file
   predicate (IsIgnoreCompleteFile: isIgnoreRelFile only) end in the same function, which tries both lists; any other
   table (in particular the one before the repair: the walk asks isIgnoreFile for files, the predicate asks
   isIgnoreFile and isIgnoreFloder itself) counts as not repaired *)
Definition sites_table : list (string * list string) :=
  [("getAllFile", ["isIgnoreFloder"; "isIgnoreRelFile"]);
   ("IsIgnoreCompleteFile", ["isIgnoreRelFile"]);
   ("isIgnoreRelFile", ["isIgnoreFile"; "isIgnoreFloder"])]%string.
Definition site_eqb (a b : string * list string) : bool :=
  String.eqb (fst a) (fst b) && list_eqb String.eqb (snd a) (snd b).
Definition fx_sites_now : bool := list_eqb site_eqb GenFlags.ignore_site_calls sites_table.

(* fx_live: clearLspServer - run by every settings change that takes effect - publishes the empty list for the files of
   fileErrorMap AND for the files of fileChangeErrorMap (the unsaved buffers whose syntax errors are on display) before
   it empties the maps; any other sequence of statements (in particular the one before the repair, without the second
   loop) counts as not repaired *)
Definition settings_clear_table : list string :=
  ["clear:fileErrorMap"; "clear:fileChangeErrorMap"; "reset:fileErrorMap"; "reset:fileChangeErrorMap";
   "reset:fileChangeCleanMap"]%string.
Definition fx_live_now : bool := list_eqb String.eqb GenFlags.settings_clear_steps settings_clear_table.

(* evaluated here (the tables are regenerated on every run), so that the extracted constant is a record of five
   booleans and one list of type numbers (no Coq string reaches the extraction) *)
Definition fixes_now : fixes :=
  Eval vm_compute in
    {| fx_regexp := fx_regexp_now; fx_gate := fx_gate_now; fx_coupled := fx_coupled_now;
       fx_dead := GenFlags.client_opens_types;      (* handleNotJSONCheckFlag writes OpenErrorTypeMap[i] = true *)
       fx_dup := GenFlags.file_rules_merged;        (* ReadConfig reads IgnoreFileErrTypesMap[name] before assigning *)
       fx_sites := fx_sites_now; fx_live := fx_live_now |}.

Lemma tie_fixes_now :
  fixes_now = {| fx_regexp := fx_regexp_now; fx_gate := fx_gate_now; fx_coupled := fx_coupled_now;
                 fx_dead := GenFlags.client_opens_types; fx_dup := GenFlags.file_rules_merged; fx_sites := fx_sites_now;
                 fx_live := fx_live_now |}.
Proof. vm_compute. reflexivity. Qed.

(* the gate list of the model variant IS the list in the code (every element an error type constant) *)
Lemma tie_special :
  map (fun name => err_type_of name err_types) GenFlags.special_types = map Some (gate_types fixes_now).
Proof. vm_compute. reflexivity. Qed.

(* the white-listed types: exactly those some check looks up in OpenErrorTypeMap *)
Lemma tie_open_required :
  forallb (fun t => Bool.eqb (open_required t) (existsb (fun p => type_named (snd p) t) GenFlags.open_lookups)) types_all = true.
Proof. vm_compute. reflexivity. Qed.

(* Whether the code is the fully repaired variant is decided in Properties/C17.v (C17_code_is_deployed_variant:
   fixes_now = deployed); this file compiles whichever of the repairs are in the code (a reverted repair, a type
   dropped from the gate list, an early return of another shape), so that the extracted model - the variant that
   describes the changed code - still exists and the correspondence legs can look for a failing input. *)

(* the statement of C17_flag_type_bijection, over the generated lists *)
Lemma flag_type_bijection :
  (forall i, (i < 26)%nat -> type_of_flag (nth i GenFlags.init_flags EmptyString) = N.of_nat i
                          /\ type_of_flag (nth i GenFlags.change_flags EmptyString) = N.of_nat i)
  /\ List.length GenFlags.init_flags = 26%nat
  /\ GenFlags.init_flags = GenFlags.change_flags.
Proof.
  split; [|split; [vm_compute; reflexivity|exact tie_lists_equal]].
  assert (H : forallb (fun i => (type_of_flag (nth i GenFlags.init_flags EmptyString) =? N.of_nat i)
                                && (type_of_flag (nth i GenFlags.change_flags EmptyString) =? N.of_nat i))
                      (seq 0 26) = true) by (vm_compute; reflexivity).
  rewrite forallb_forall in H. intros i Hi.
  assert (Hin : In i (seq 0 26)) by (apply in_seq; split; [apply le_0_n|exact Hi]).
  specialize (H i Hin). apply andb_true_iff in H as [H1 H2].
  apply N.eqb_eq in H1. apply N.eqb_eq in H2. split; assumption.
Qed.
