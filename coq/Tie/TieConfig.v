(* C17 - the tables of Model/Config.v are the tables the Go code has NOW (coq/Generated is rewritten by the
   translator on every run; each lemma is closed by computation, so a changed table stops this file compiling). *)
From Coq Require Import List NArith Bool String.
From LH Require Import Model.Config Generated.GenFlags Generated.GenErrTypes.
Import ListNotations.
Local Open Scope N_scope.

(* position k of getCheckFlagList / getWarnCheckList is the switch documented as type k *)
Lemma tie_init_positions : map type_of_flag GenFlags.init_flags = flag_positions.
Proof. vm_compute. reflexivity. Qed.
Lemma tie_change_positions : map type_of_flag GenFlags.change_flags = flag_positions.
Proof. vm_compute. reflexivity. Qed.
Lemma tie_lists_equal : GenFlags.init_flags = GenFlags.change_flags.
Proof. vm_compute. reflexivity. Qed.

(* every switch is delivered under its own (documented) name: json tag = field name, in both option structs *)
Definition tagged_as_itself (tags : list (string * string)) (name : string) : bool :=
  existsb (fun p => String.eqb (fst p) name && String.eqb (snd p) name) tags.
Lemma tie_init_tags : forallb (tagged_as_itself GenFlags.init_json_tags) GenFlags.init_flags = true.
Proof. vm_compute. reflexivity. Qed.
Lemma tie_warn_tags : forallb (tagged_as_itself GenFlags.warn_json_tags) GenFlags.change_flags = true.
Proof. vm_compute. reflexivity. Qed.

(* the documentation shipped with the VS Code extension says the same as type_of_flag *)
Lemma tie_documented :
  forallb (fun p => type_of_flag (fst p) =? snd p) GenFlags.documented_types = true
  /\ forallb (fun name => existsb (fun p => String.eqb (fst p) name) GenFlags.documented_types) GenFlags.init_flags = true.
Proof. split; vm_compute; reflexivity. Qed.

(* error type constants *)
Lemma tie_err_consts :
  err_type_of "CheckErrorSyntax" err_types = Some check_error_syntax
  /\ err_type_of "CheckErrorNoDefine" err_types = Some check_error_no_define
  /\ err_type_of "CheckErrorMax" err_types = Some check_error_max.
Proof. repeat split. Qed.
Lemma tie_err_types_dense : map snd err_types = map N.of_nat (seq 1 30).
Proof. vm_compute. reflexivity. Qed.
Lemma tie_types_all : types_all = map N.of_nat (seq (N.to_nat check_error_syntax) (N.to_nat (check_error_max - check_error_syntax))).
Proof. vm_compute. reflexivity. Qed.

(* the "group of five" of IsSpecialCheck *)
Lemma tie_special : map (fun name => err_type_of name err_types) GenFlags.special_types = map Some Config.special_types.
Proof. vm_compute. reflexivity. Qed.

(* handleNotJSONCheckFlag walks CheckErrorSyntax .. CheckErrorMax-1 in both branches *)
Lemma tie_flag_loops :
  GenFlags.flag_loops = [("CheckErrorSyntax", "CheckErrorMax"); ("CheckErrorSyntax", "CheckErrorMax")]%string.
Proof. vm_compute. reflexivity. Qed.

(* the number of client switches the model assumes *)
Lemma tie_flag_count : N.of_nat (List.length GenFlags.init_flags) = 26.
Proof. vm_compute. reflexivity. Qed.

(* which variant of the model describes the code NOW: the repaired one iff no regexp.MustCompile on user text is left and
   IntialGlobalVar allocates IgnoreVarMap
   (extracted; the correspondence check runs the model with this value) *)
Definition fixed_regexp_now : bool := negb GenFlags.must_compile_user_text && GenFlags.var_map_allocated_at_init.

(* the code in /repo is the repaired variant (both fix: commits are in place): re-proved against the regenerated table on
   every run - re-introducing MustCompile on user text or dropping the allocation breaks this proof *)
Lemma tie_repaired_now : fixed_regexp_now = true.
Proof. vm_compute. reflexivity. Qed.

(* the statement of C17_flag_type_bijection, over the generated lists *)
Lemma flag_type_bijection :
  (forall i, (i < 26)%nat -> type_of_flag (nth i GenFlags.init_flags EmptyString) = N.of_nat i
                          /\ type_of_flag (nth i GenFlags.change_flags EmptyString) = N.of_nat i)
  /\ List.length GenFlags.init_flags = 26%nat
  /\ GenFlags.init_flags = GenFlags.change_flags.
Proof.
  split; [|split; [vm_compute; reflexivity|exact tie_lists_equal]].
  assert (H : forallb (fun i => (type_of_flag (nth i GenFlags.init_flags EmptyString) =? N.of_nat i)
                                && (type_of_flag (nth i GenFlags.change_flags EmptyString) =? N.of_nat i))
                      (seq 0 26) = true) by (vm_compute; reflexivity).
  rewrite forallb_forall in H. intros i Hi.
  assert (Hin : In i (seq 0 26)) by (apply in_seq; split; [apply le_0_n|exact Hi]).
  specialize (H i Hin). apply andb_true_iff in H as [H1 H2].
  apply N.eqb_eq in H1. apply N.eqb_eq in H2. split; assumption.
Qed.
