(* Tie: operator priorities, unary limit, associativity, unary operators and block-end sets of Model/Parser.v
   are exactly what parser/parse_exp.go and parse_block.go say now. *)
From Coq Require Import List NArith Bool Arith.
From LH Require Import Base.Bytes Model.Lexer Model.Parser Generated.GenPrio.
Import ListNotations.

Fixpoint lookup_prio (k : tkind) (l : list (tkind * nat)) : nat :=
  match l with [] => 0 | (k', p) :: t => if tk_eqb k k' then p else lookup_prio k t end.
Definition mem_kind (k : tkind) (l : list tkind) : bool := existsb (tk_eqb k) l.

Theorem tie_prio : forallb (fun k => Nat.eqb (prio k) (lookup_prio k gen_prio)) all_kinds = true.
Proof. vm_compute; reflexivity. Qed.
Theorem tie_unary_limit : unary_limit = gen_unary_limit.
Proof. reflexivity. Qed.
Theorem tie_unops : forallb (fun k => Bool.eqb (is_unop k) (mem_kind k gen_unops)) all_kinds = true.
Proof. vm_compute; reflexivity. Qed.
Theorem tie_right_assoc : forallb (fun k => Bool.eqb (is_right_assoc k) (mem_kind k gen_right_assoc)) all_kinds = true.
Proof. vm_compute; reflexivity. Qed.
Theorem tie_block_end : forallb (fun k => Bool.eqb (is_block_end k) (mem_kind k gen_block_end)) all_kinds = true.
Proof. vm_compute; reflexivity. Qed.
Theorem tie_ret_end : forallb (fun k => Bool.eqb (is_ret_end k) (mem_kind k gen_ret_end)) all_kinds = true.
Proof. vm_compute; reflexivity. Qed.

(* all_kinds really enumerates tkind, so the sweeps above cover every kind *)
Theorem all_kinds_complete : forall k, In k all_kinds.
Proof. intros k; destruct k; vm_compute; tauto. Qed.
