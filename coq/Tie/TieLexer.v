(* Tie: the hand-written token tables of Model/Lexer.v are exactly what lexer/token.go says now. *)
From Coq Require Import List NArith Bool.
From LH Require Import Base.Bytes Model.Lexer Generated.GenTokens.
Import ListNotations.

Theorem tie_kind_codes : map fst gen_kind_codes = all_kinds /\
                         forallb (fun p => N.eqb (tk_code (fst p)) (snd p)) gen_kind_codes = true.
Proof. split; vm_compute; reflexivity. Qed.

Theorem tie_keywords : keywords = gen_keywords.
Proof. reflexivity. Qed.
