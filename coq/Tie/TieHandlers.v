(* C10 tie: structural facts about the table the translator regenerated from langserver/*.go on this run
   (coq/Generated/GenHandlers.v). The model (Model/Dispatch.v) is generic in the table, so there is no hand-written
   copy to compare with; what is pinned here is the SHAPE the theorems of Properties/C10.v rely on, and the handler
   map itself: a handler added to / removed from the jrpc2 map, a changed Concurrency, or a body whose Lock/Unlock no
   longer pair up breaks this file (reported as tie broken). *)
From Coq Require Import String.
From Coq Require Import List Bool Arith.
From LH Require Import Model.Dispatch Generated.GenHandlers.
Import ListNotations.
Local Open Scope string_scope.

(* Lock/Unlock alternate in every handler and every background goroutine; nothing returns holding the mutex *)
Lemma tie_bracketed : forallb (fun h => bracketed (hbody h)) (handlers ++ background) = true.
Proof. vm_compute. reflexivity. Qed.

(* Spawn k always refers to an entry of the background table *)
Lemma tie_spawn_ok :
  forallb (fun h => forallb (fun b => Nat.ltb b (length background)) (spawns_of (hbody h))) (handlers ++ background) = true.
Proof. vm_compute. reflexivity. Qed.

Lemma tie_concurrency : concurrency = 4.
Proof. reflexivity. Qed.

(* the jrpc2 handler map of CreateServer: LSP method -> Go method, LSP kind *)
Lemma tie_handler_map :
  map (fun h => (hname h, hfunc h, hkind h)) handlers =
  [ ("initialize", "Initialize", Request);
    ("initialized", "Initialized", Notification);
    ("textDocument/didChange", "TextDocumentDidChange", Notification);
    ("textDocument/didSave", "TextDocumentDidSave", Notification);
    ("textDocument/didOpen", "TextDocumentDidOpen", Notification);
    ("textDocument/didClose", "TextDocumentDidClose", Notification);
    ("textDocument/definition", "TextDocumentDefine", Request);
    ("textDocument/hover", "TextDocumentHover", Request);
    ("textDocument/references", "TextDocumentReferences", Request);
    ("textDocument/documentSymbol", "TextDocumentSymbol", Request);
    ("textDocument/rename", "TextDocumentRename", Request);
    ("textDocument/documentHighlight", "TextDocumentHighlight", Request);
    ("textDocument/signatureHelp", "TextDocumentSignatureHelp", Request);
    ("textDocument/documentColor", "TextDocumentColor", Request);
    ("textDocument/codeLens", "TextDocumentCodeLens", Request);
    ("textDocument/documentLink", "TextDocumentdocumentLink", Request);
    ("textDocument/completion", "TextDocumentComplete", Request);
    ("completionItem/resolve", "TextDocumentCompleteResolve", Request);
    ("workspace/didChangeConfiguration", "ChangeConfiguration", Notification);
    ("workspace/didChangeWorkspaceFolders", "WorkspaceChangeWorkspaceFolders", Notification);
    ("workspace/didChangeWatchedFiles", "WorkspaceChangeWatchedFiles", Notification);
    ("workspace/symbol", "WorkspaceSymbolRequest", Request);
    ("luahelper/getVarColor", "TextDocumentGetVarColor", Request);
    ("luahelper/getOnlineReq", "GetOnlineReq", Request);
    ("$/cancelRequest", "CancelRequest", Notification);
    ("shutdown", "Shutdown", Request);
    ("exit", "Exit", Notification) ].
Proof. vm_compute. reflexivity. Qed.

Lemma tie_background_names : map hfunc background = ["handleRecv"; "UDPReportOnline"].
Proof. vm_compute. reflexivity. Qed.
