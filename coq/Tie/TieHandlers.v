(* C10 tie: structural facts about the table the translator regenerated from langserver/*.go on this run
   (coq/Generated/GenHandlers.v). The model (Model/Dispatch.v) is generic in the table, so there is no hand-written
   copy to compare with; what is pinned here is the SHAPE the theorems of Properties/C10.v rely on, and the handler
   map itself: a handler added to / removed from the jrpc2 map, a changed Concurrency, or a body whose Lock/Unlock no
   longer pair up breaks this file (reported as tie broken). *)
From Coq Require Import String.
From Coq Require Import List Bool Arith.
From LH Require Import Model.Dispatch Generated.GenHandlers.
Import ListNotations.
Local Open Scope string_scope.

(* Lock/Unlock alternate in every handler and every background goroutine; nothing returns holding the mutex *)
Lemma tie_bracketed : forallb (fun h => bracketed (hbody h)) (handlers ++ background) = true.
Proof. vm_compute. reflexivity. Qed.

(* Spawn k always refers to an entry of the background table *)
Lemma tie_spawn_ok :
  forallb (fun h => forallb (fun b => Nat.ltb b (length background)) (spawns_of (hbody h))) (handlers ++ background) = true.
Proof. vm_compute. reflexivity. Qed.

Lemma tie_concurrency : concurrency = 4.
Proof. reflexivity. Qed.

(* the jrpc2 handler map of CreateServer: LSP method -> Go method, LSP kind *)
Lemma tie_handler_map :
  map (fun h => (hname h, hfunc h, hkind h)) handlers =
  [ (nm "initialize", nm "Initialize", Request);
    (nm "initialized", nm "Initialized", Notification);
    (nm "textDocument/didChange", nm "TextDocumentDidChange", Notification);
    (nm "textDocument/didSave", nm "TextDocumentDidSave", Notification);
    (nm "textDocument/didOpen", nm "TextDocumentDidOpen", Notification);
    (nm "textDocument/didClose", nm "TextDocumentDidClose", Notification);
    (nm "textDocument/definition", nm "TextDocumentDefine", Request);
    (nm "textDocument/hover", nm "TextDocumentHover", Request);
    (nm "textDocument/references", nm "TextDocumentReferences", Request);
    (nm "textDocument/documentSymbol", nm "TextDocumentSymbol", Request);
    (nm "textDocument/rename", nm "TextDocumentRename", Request);
    (nm "textDocument/documentHighlight", nm "TextDocumentHighlight", Request);
    (nm "textDocument/signatureHelp", nm "TextDocumentSignatureHelp", Request);
    (nm "textDocument/documentColor", nm "TextDocumentColor", Request);
    (nm "textDocument/codeLens", nm "TextDocumentCodeLens", Request);
    (nm "textDocument/documentLink", nm "TextDocumentdocumentLink", Request);
    (nm "textDocument/completion", nm "TextDocumentComplete", Request);
    (nm "completionItem/resolve", nm "TextDocumentCompleteResolve", Request);
    (nm "workspace/didChangeConfiguration", nm "ChangeConfiguration", Notification);
    (nm "workspace/didChangeWorkspaceFolders", nm "WorkspaceChangeWorkspaceFolders", Notification);
    (nm "workspace/didChangeWatchedFiles", nm "WorkspaceChangeWatchedFiles", Notification);
    (nm "workspace/symbol", nm "WorkspaceSymbolRequest", Request);
    (nm "luahelper/getVarColor", nm "TextDocumentGetVarColor", Request);
    (nm "luahelper/getOnlineReq", nm "GetOnlineReq", Request);
    (nm "$/cancelRequest", nm "CancelRequest", Notification);
    (nm "shutdown", nm "Shutdown", Request);
    (nm "exit", nm "Exit", Notification) ].
Proof. vm_compute. reflexivity. Qed.
