(* Bytes are N (< 256); texts are list N (DESIGN 2.4). *)
From Coq Require Import List NArith Bool Lia ZifyN ZifyNat ZifyBool.
Import ListNotations.
Local Open Scope N_scope.

Definition byte := N.
Definition bytes := list N.

Definition is_byte (b : N) : bool := b <? 256.
Definition bytes_ok (l : list N) : bool := forallb is_byte l.

Fixpoint beq_bytes (a b : list N) : bool :=
  match a, b with
  | [], [] => true
  | x :: a', y :: b' => (x =? y) && beq_bytes a' b'
  | _, _ => false
  end.

Lemma beq_bytes_eq a b : beq_bytes a b = true <-> a = b.
Proof.
  revert b; induction a as [|x a IH]; intros [|y b]; simpl; split; intros H; try congruence; try discriminate.
  - apply andb_true_iff in H as [H1 H2]. apply N.eqb_eq in H1. apply IH in H2. congruence.
  - injection H as -> ->. rewrite N.eqb_refl. simpl. apply IH. reflexivity.
Qed.

(* the N numbers 0 .. n-1, for finite sweeps lifted by forallb_forall *)
Fixpoint nrange_nat (n : nat) : list N :=
  match n with O => [] | S k => nrange_nat k ++ [N.of_nat k] end.

Lemma nrange_nat_in n x : x < N.of_nat n -> In x (nrange_nat n).
Proof.
  induction n as [|n IH]; intros H; [lia|].
  simpl. apply in_or_app.
  destruct (N.eq_dec x (N.of_nat n)) as [->|Hne]; [right; left; reflexivity|].
  left. apply IH. lia.
Qed.

(* anchor so that extraction always emits nat/positive/N/Z conversions used by the OCaml drivers *)
From Coq Require Import ZArith.
Definition extract_anchor := (N.of_nat, N.to_nat, Z.of_N, Z.to_N, Z.of_nat, Z.to_nat, N.succ, Pos.succ, Z.succ).
