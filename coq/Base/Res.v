(* Result type of every model function that can fault in Go (DESIGN 2.4). *)
From Coq Require Import List.
Import ListNotations.

Inductive fault_kind :=
| SliceBounds | IndexRange | NilDeref | TypeAssert | Regexp | Reentry.

Inductive Res (A : Type) : Type :=
| Ok (a : A)
| Fault (k : fault_kind)
| OutOfFuel.
Arguments Ok {A} a.
Arguments Fault {A} k.
Arguments OutOfFuel {A}.

Definition rbind {A B} (r : Res A) (f : A -> Res B) : Res B :=
  match r with Ok a => f a | Fault k => Fault k | OutOfFuel => OutOfFuel end.
Notation "'do' x <- r ; k" := (rbind r (fun x => k))
  (at level 200, x pattern, r at level 100, k at level 200, right associativity).

Definition is_ok {A} (r : Res A) : bool := match r with Ok _ => true | _ => false end.
