(* Declarative UTF-8 / UTF-16 vocabulary shared by C02, C04, C13.
   A text is valid UTF-8 iff it is the concatenation of the encodings of
   Unicode scalar values (Unicode 15, table 3-7: shortest form, no surrogates). *)
From Coq Require Import List NArith Bool Lia ZifyN ZifyNat ZifyBool.
From LH Require Import Base.Bytes.
Import ListNotations.
Local Open Scope N_scope.

Definition scalar (c : N) : bool :=
  (c <? 55296) || ((57343 <? c) && (c <? 1114112)).   (* < 0xD800 or 0xE000..0x10FFFF *)

Definition utf8_encode (c : N) : list N :=
  if c <? 128 then [c]
  else if c <? 2048 then [192 + c / 64; 128 + c mod 64]
  else if c <? 65536 then [224 + c / 4096; 128 + (c / 64) mod 64; 128 + c mod 64]
  else [240 + c / 262144; 128 + (c / 4096) mod 64; 128 + (c / 64) mod 64; 128 + c mod 64].

Definition utf8_of (cps : list N) : list N := flat_map utf8_encode cps.

Definition valid_utf8 (bs : list N) : Prop :=
  exists cps, forallb scalar cps = true /\ bs = utf8_of cps.

(* UTF-16 code units of a scalar value *)
Definition utf16_len (c : N) : N := if c <? 65536 then 1 else 2.

Definition is_ascii (c : N) : bool := c <? 128.
Definition is_two_byte (c : N) : bool := (127 <? c) && (c <? 2048).
Definition is_astral (c : N) : bool := 65535 <? c.

Lemma utf8_encode_bytes c : scalar c = true -> bytes_ok (utf8_encode c) = true.
Proof.
  unfold scalar, utf8_encode, bytes_ok, is_byte. intros H.
  destruct (c <? 128) eqn:E1; [cbn [forallb]; lia|].
  destruct (c <? 2048) eqn:E2.
  { cbn [forallb]. assert (c / 64 < 32) by (apply N.div_lt_upper_bound; lia).
    assert (c mod 64 < 64) by (apply N.mod_lt; lia). lia. }
  destruct (c <? 65536) eqn:E3.
  { cbn [forallb]. assert (c / 4096 < 16) by (apply N.div_lt_upper_bound; lia).
    assert ((c / 64) mod 64 < 64) by (apply N.mod_lt; lia).
    assert (c mod 64 < 64) by (apply N.mod_lt; lia). lia. }
  cbn [forallb]. assert (c / 262144 < 5) by (apply N.div_lt_upper_bound; lia).
  assert ((c / 4096) mod 64 < 64) by (apply N.mod_lt; lia).
  assert ((c / 64) mod 64 < 64) by (apply N.mod_lt; lia).
  assert (c mod 64 < 64) by (apply N.mod_lt; lia). lia.
Qed.
