(* Reference binder for Lua (the declarative side of C05 C06 C11 C12 C14): the textbook environment-passing
   resolution of names over Ast.v.
     - `local a, b = e1, e2`: the names are visible AFTER the statement (not in e1, e2);
     - `local function f`: f is visible in its own body;
     - parameters are visible in the function body; function bodies see the enclosing locals (upvalues);
     - numeric / generic `for` variables are visible in the loop body only (not in the bounds / iterator expressions);
     - `repeat ... until e`: e sees the locals of the block;
     - a name with no visible local declaration is a global.
   An occurrence is identified by the Loc of its NameExp / declared name.  `bind_file` lists every occurrence of a
   chunk with its binding; the class tags name the places where the unchanged LuaHelper resolvers are known to deviate
   (DESIGN 5, classes B1-B4): they are part of the specification vocabulary, computed from the program alone. *)
From Coq Require Import List NArith ZArith Bool.
From LH Require Import Base.Bytes Model.Lexer Model.Ast Model.Scope.
Import ListNotations.
Local Open Scope Z_scope.

Inductive binding := BLocal (d : loc) | BGlobal (n : list N).
Inductive role := RDecl | RRead | RWrite.
Inductive ctag := CB1 | CB2 | CB3 | CB4 | CB5.

Definition binding_eqb (a b : binding) : bool :=
  match a, b with
  | BLocal d1, BLocal d2 => loc_eqb d1 d2
  | BGlobal n1, BGlobal n2 => beq_bytes n1 n2
  | _, _ => false
  end.
Definition ctag_eqb (a b : ctag) : bool :=
  match a, b with CB1, CB1 | CB2, CB2 | CB3, CB3 | CB4, CB4 | CB5, CB5 => true | _, _ => false end.
Definition is_decl (r : role) : bool := match r with RDecl => true | _ => false end.
Definition is_write (r : role) : bool := match r with RWrite => true | _ => false end.

Record socc := mkS {
  s_loc : loc; s_name : list N; s_bind : binding; s_role : role;
  s_flv : Z; s_slv : Z;       (* function depth / block depth inside the function *)
  s_region : loc;             (* Loc of the innermost binding construct around the occurrence (for a declaration: the
                                 construct whose body is its scope): chunk, function, do/while/repeat/for, if-branch *)
  s_empty : bool;             (* declaration without a value (`local x`, `= nil`, `= x or nil`) *)
  s_cls : list ctag;
  s_env : list (list N * loc * bool)   (* the local declarations in force at the occurrence, newest first *)
}.

(* environment: newest first; the flag = declared without a value *)
Definition env := list (list N * loc * bool).
Definition env_find (en : env) (n : list N) : option (list N * loc * bool) :=
  find (fun x => beq_bytes (fst (fst x)) n) en.
Definition resolve (en : env) (n : list N) : binding :=
  match env_find en n with Some (_, d, _) => BLocal d | None => BGlobal n end.

Definition exp_loc (e : exp) : loc :=
  match e with
  | ENil l | EBad l | ETrue l | EFalse l | EVararg l | EInt _ l | EFloat _ l | EStr _ l | EUnop _ _ l
  | EBinop _ _ _ l | ETable _ _ l | EFunc _ _ _ _ _ l _ _ | EName _ l | EParens _ l | EIndex _ _ l | ECall _ _ _ l => l
  end.

Definition add_tag (t : ctag) (o : socc) : socc :=
  mkS (s_loc o) (s_name o) (s_bind o) (s_role o) (s_flv o) (s_slv o) (s_region o) (s_empty o) (t :: s_cls o) (s_env o).
Definition tag_if (c : socc -> bool) (t : ctag) (os : list socc) : list socc :=
  map (fun o => if c o then add_tag t o else o) os.

Definition name_in (n : list N) (ns : list (list N)) : bool := existsb (beq_bytes n) ns.
Fixpoint count_name (n : list N) (ns : list (list N)) : nat :=
  match ns with [] => O | x :: r => (if beq_bytes x n then 1 else 0)%nat + count_name n r end.

(* a use inside an initialiser whose binding is the one the OUTER environment gives (not a declaration nested in
   the initialiser itself) *)
Definition outer_use (en : env) (o : socc) : bool :=
  negb (is_decl (s_role o)) && binding_eqb (s_bind o) (resolve en (s_name o)).

(* `local n_0, ..., n_k = e_0, ..., e_m`: tags of the occurrences inside e_i.  Class B3 (a use of an EARLIER name of
   the statement in e_i: the traversal had added it already) is REPAIRED (fixes/C07-multi-local-order.diff), and so is
   class B1 (a use of ANY name of the statement in the initialiser list: the position resolver took the statement's
   own variable; fixes/C05-own-initialiser.diff, VarInfo.InitLoc): no occurrence of this fragment carries a tag any
   more.  (The wide fragment keeps CB1 for one shape, see LuaScopeWide.tag_local_init_w.) *)
Definition tag_local_init (en : env) (ns : list (list N)) (i : nat) (e : exp) (os : list socc) : list socc := os.

Definition index_map {A B} (f : nat -> A -> B) : nat -> list A -> list B :=
  fix go (i : nat) (l : list A) {struct l} : list B :=
    match l with [] => [] | x :: r => f i x :: go (S i) r end.

Definition decl_occ (en : env) (flv slv : Z) (reg : loc) (empty : bool) (nl : list N * loc) : socc :=
  mkS (snd nl) (fst nl) (BLocal (snd nl)) RDecl flv slv reg empty [] en.

Definition push_decls (en : env) (nls : list (list N * loc)) (empties : list bool) : env :=
  fold_left (fun (e : env) (x : list N * loc * bool) => x :: e) (combine nls empties) en.

(* which names of `local ns = es` are declared without a value *)
Definition local_empties (ns : list (list N)) (es : list exp) : list bool :=
  let lastcall := match rev es with ECall _ _ _ _ :: _ => true | _ => false end in
  index_map (fun i n => match nth_error es i with
                        | Some e => refer_empty n e
                        | None => negb lastcall
                        end) O ns.

(* does evaluating the expression create a function scope *)
Fixpoint has_func (e : exp) : bool :=
  match e with
  | EFunc _ _ _ _ _ _ _ _ => true
  | EParens e1 _ | EUnop _ e1 _ => has_func e1
  | EBinop _ e1 e2 _ | EIndex e1 e2 _ => has_func e1 || has_func e2
  | ECall p _ args _ => has_func p || existsb has_func args
  | ETable ks vs _ => existsb (fun k => match k with Some k' => has_func k' | None => false end) ks || existsb has_func vs
  | _ => false
  end.

Definition bres := (env * list socc)%type.

(* thread the environment through a list of statement binders *)
Definition seq_stats (fs : list (env -> bres)) (en : env) : bres :=
  fold_left (fun (acc : bres) (f : env -> bres) =>
               match acc with (en1, os) => match f en1 with (en2, os2) => (en2, os ++ os2) end end) fs (en, []).

Fixpoint b_exp (flv slv : Z) (reg : loc) (e : exp) (en : env) {struct e} : list socc :=
  match e with
  | EName n l => [mkS l n (resolve en n) RRead flv slv reg false [] en]
  | EParens e1 _ => b_exp flv slv reg e1 en
  | EUnop _ e1 _ => b_exp flv slv reg e1 en
  | EBinop _ e1 e2 _ => b_exp flv slv reg e1 en ++ b_exp flv slv reg e2 en
  | EIndex p k _ => b_exp flv slv reg p en ++ b_exp flv slv reg k en
  | ECall p _ args _ => b_exp flv slv reg p en ++ flat_map (fun a => b_exp flv slv reg a en) args
  | ETable ks vs _ =>
    flat_map (fun k => match k with Some k' => b_exp flv slv reg k' en | None => [] end) ks
             ++ flat_map (fun v => b_exp flv slv reg v en) vs
  | EFunc _ _ pars plocs b l _ _ =>
    let pl := combine pars plocs in
    map (decl_occ en (flv + 1) 0 l false) pl
        ++ snd (b_block (flv + 1) 0 l b (push_decls en pl (map (fun _ => false) pl)))
  | _ => []
  end
with b_stat (flv slv : Z) (reg : loc) (s : stat) (en : env) {struct s} : bres :=
  match s with
  | SBreak | SLabel _ _ | SGoto _ _ => (en, [])
  | SDo b l => (en, snd (b_block flv (slv + 1) l b en))
  | SCall e => (en, b_exp flv slv reg e en)
  | SIf es bs _ =>
    (en, flat_map (fun e => b_exp flv slv reg e en) es
                  ++ flat_map (fun b => snd (b_block flv (slv + 1) (block_loc b) b en)) bs)
  | SWhile e b l => (en, b_exp flv slv reg e en ++ snd (b_block flv (slv + 1) l b en))
  | SRepeat b e l =>
    let (en1, os) := b_block flv (slv + 1) l b en in
    (en, os ++ b_exp flv (slv + 1) l e en1)
  | SForNum n vl e1 e2 e3 b l =>
    (* class B5 (REPAIRED, fixes/C05-for-step-order.diff: no occurrence carries the tag CB5 any more): the step was visited BEFORE the limit, so a function scope of the step preceded
       the function scopes of the limit in SubScopes and FindMinScope's early exit never reached the latter *)
    let bounds := b_exp flv slv reg e1 en ++ b_exp flv slv reg e2 en ++ b_exp flv slv reg e3 en in
    (en, tag_if (fun o => outer_use en o && beq_bytes (s_name o) n) CB2 bounds
                ++ decl_occ en flv (slv + 1) l false (n, vl)
                :: snd (b_block flv (slv + 1) l b (push_decls en [(n, vl)] [false])))
  | SForIn ns ls es b l =>
    let its := flat_map (fun e => b_exp flv slv reg e en) es in
    let nls := combine ns ls in
    (en, tag_if (fun o => outer_use en o && name_in (s_name o) ns) CB2 its
                ++ map (decl_occ en flv (slv + 1) l false) nls
                ++ snd (b_block flv (slv + 1) l b (push_decls en nls (map (fun _ => false) nls))))
  | SAssign vars es _ =>
    let eocc := map (fun e => (e, b_exp flv slv reg e en)) es in
    (* class B4: target i is a plain name bound to a local declared without a value and e_i is a name / call /
       function expression: the occurrences of that local lying inside e_i's Loc *)
    let b4 (i : nat) (os : list socc) : list socc :=
        match nth_error vars i, nth_error es i with
        | Some (EName n _), Some e =>
          match env_find en n, ref_of_exp e with
          | Some (_, d, true), (RFunc _ | RName _ | RCall _) =>
            tag_if (fun o => binding_eqb (s_bind o) (BLocal d) && loc_contains (exp_loc e) (s_loc o)) CB4 os
          | _, _ => os
          end
        | _, _ => os
        end in
    let tocc := index_map (fun i v =>
                  match v with
                  | EName n l => b4 i [mkS l n (resolve en n) RWrite flv slv reg false [] en]
                  | EIndex p k _ => b_exp flv slv reg p en ++ b_exp flv slv reg k en
                  | _ => []
                  end) O vars in
    (en, concat tocc ++ concat (index_map (fun i eo => b4 i (snd eo)) O eocc))
  | SLocal ns ls _ es _ =>
    let nls := combine ns ls in
    let empties := local_empties ns es in
    let eocc := map (fun e => (e, b_exp flv slv reg e en)) es in
    (push_decls en nls empties,
     concat (index_map (fun i eo => tag_local_init en ns i (fst eo) (snd eo)) O eocc)
            ++ map (fun x => decl_occ en flv slv reg (snd x) (fst x)) (combine nls empties))
  | SLocalFunc n nl f _ =>
    let en1 := push_decls en [(n, nl)] [false] in
    (en1, decl_occ en flv slv reg false (n, nl) :: b_exp flv slv reg f en1)
  end
with b_block (flv slv : Z) (reg : loc) (b : block) (en : env) {struct b} : bres :=
  match b with
  | Block ss ret _ =>
    let (en1, os) := seq_stats (map (fun s => b_stat flv slv reg s) ss) en in
    match ret with
    | Some es => (en1, os ++ flat_map (fun e => b_exp flv slv reg e en1) es)
    | None => (en1, os)
    end
  end.

Definition bind_file (b : block) : list socc := snd (b_block 0 0 (block_loc b) b []).

(* the occurrence under a cursor: line from 1, column from 0, both ends of the identifier count *)
Definition occ_covers (line col : Z) (o : socc) : bool :=
  (sl (s_loc o) =? line) && (el (s_loc o) =? line) && (sc (s_loc o) <=? col) && (col <=? ec (s_loc o)).
Definition occ_at (os : list socc) (line col : Z) : option socc := find (occ_covers line col) os.

(* bind P o *)
Definition bind (b : block) (l : loc) : option binding :=
  option_map s_bind (find (fun o => loc_eqb (s_loc o) l) (bind_file b)).

Definition has_tag (t : ctag) (o : socc) : bool := existsb (ctag_eqb t) (s_cls o).

(* ------------------------------------------------------------------ workspace level: what the features must answer *)
Definition sws := list (list N * list socc).        (* file name, occurrences *)

Definition file_occs (w : sws) (f : list N) : list socc :=
  match find (fun x => beq_bytes (fst x) f) w with Some (_, os) => os | None => [] end.

Definition all_occs (w : sws) : list (list N * socc) :=
  flat_map (fun x => map (fun o => (fst x, o)) (snd x)) w.

(* every occurrence of the same variable: same declaration in the same file, or the same global name anywhere *)
Definition same_var (w : sws) (f : list N) (o : socc) : list (list N * loc) :=
  match s_bind o with
  | BLocal d => map (fun o' => (f, s_loc o'))
                    (filter (fun o' => binding_eqb (s_bind o') (BLocal d)) (file_occs w f))
  | BGlobal n => map (fun x => (fst x, s_loc (snd x)))
                     (filter (fun x => binding_eqb (s_bind (snd x)) (BGlobal n)) (all_occs w))
  end.

(* go-to-definition: the declaration of a local; for a global SOME assignment to it in the workspace (none if there
   is none) *)
Definition global_writes (w : sws) (n : list N) : list (list N * loc) :=
  map (fun x => (fst x, s_loc (snd x)))
      (filter (fun x => binding_eqb (s_bind (snd x)) (BGlobal n) && is_write (s_role (snd x))) (all_occs w)).

Definition floc_eqb (a b : list N * loc) : bool := beq_bytes (fst a) (fst b) && loc_eqb (snd a) (snd b).

Definition define_ok (w : sws) (f : list N) (o : socc) (answer : list (list N * loc)) : bool :=
  match s_bind o with
  | BLocal d => match answer with [a] => floc_eqb a (f, d) | _ => false end
  | BGlobal n =>
    match global_writes w n, answer with
    | [], [] => true
    | ws, [a] => existsb (floc_eqb a) ws
    | _, _ => false
    end
  end.

(* completion (C14): names that MUST be offered and names that must NOT be *)
Definition starts_with (pre s : list N) : bool := beq_bytes (firstn (length pre) s) pre.

(* the declarations in force at an occurrence: recomputed by a second walk that stops at the occurrence *)
Definition pos_le (l1 c1 l2 c2 : Z) : bool := (l1 <? l2) || ((l1 =? l2) && (c1 <=? c2)).

Definition decl_later_or_outside (line col : Z) (d : socc) : bool :=
  is_decl (s_role d) &&
  (negb (pos_le (sl (s_loc d)) (sc (s_loc d)) line col) || negb (in_location (s_region d) line col)).

(* class predicates over a workspace (globals) *)
Definition writes_of (w : sws) (n : list N) : list (list N * socc) :=
  filter (fun x => binding_eqb (s_bind (snd x)) (BGlobal n) && is_write (s_role (snd x))) (all_occs w).

Definition split_global (w : sws) (n : list N) : bool :=
  match writes_of w n with
  | [] => false
  | x :: r => existsb (fun y => negb (beq_bytes (fst x) (fst y))) r
  end.

Definition global_mixed_levels (w : sws) (n : list N) : bool :=
  match writes_of w n with
  | [] => false
  | x :: r => existsb (fun y => negb ((s_flv (snd x) =? s_flv (snd y)) && (s_slv (snd x) =? s_slv (snd y)))) r
  end.

(* FIXED class (fixes/C06-same-pos-other-file.diff): kept as vocabulary of the pre-fix refutation only *)
Definition same_pos_other_file (w : sws) (n : list N) : bool :=
  let os := filter (fun x => binding_eqb (s_bind (snd x)) (BGlobal n)) (all_occs w) in
  existsb (fun x => existsb (fun y => negb (beq_bytes (fst x) (fst y)) && loc_eqb (s_loc (snd x)) (s_loc (snd y))) os) os.

(* some occurrence of that name somewhere carries the tag (references re-resolve every occurrence of the name) *)
Definition name_has_tag (w : sws) (t : ctag) (n : list N) : bool :=
  existsb (fun x => beq_bytes (s_name (snd x)) n && has_tag t (snd x)) (all_occs w).

(* ------------------------------------------------------------------ the core fragment (T1) *)
Local Open Scope N_scope.
Definition frag_name (n : list N) : bool :=
  negb (beq_bytes n [115;101;108;102])                          (* self *)
  && negb (beq_bytes n [95;71])                                 (* _G *)
  && negb (beq_bytes n [114;101;113;117;105;114;101])           (* require *)
  && negb (beq_bytes n [100;111;102;105;108;101])               (* dofile *)
  && negb (beq_bytes n [108;111;97;100;102;105;108;101]).       (* loadfile *)

Definition frag_str_byte (c : N) : bool :=
  (((48 <=? c) && (c <=? 57)) || ((65 <=? c) && (c <=? 90)) || ((97 <=? c) && (c <=? 122)) || (c =? 32) || (c =? 95))%N.

Fixpoint frag_exp (e : exp) {struct e} : bool :=
  match e with
  | ENil _ | ETrue _ | EFalse _ | EVararg _ | EInt _ _ | EFloat _ _ => true
  | EStr s _ => forallb frag_str_byte s
  | EUnop _ e1 _ => frag_exp e1
  | EBinop _ e1 e2 _ => frag_exp e1 && frag_exp e2
  | EParens e1 _ => frag_exp e1
  | EName n _ => frag_name n
  | ECall (EName n _) None args _ => frag_name n && forallb frag_exp args
  | EFunc cls _ pars _ b _ _ colon =>
    negb colon && (match cls with [] => true | _ => false end) && forallb frag_name pars && frag_block b
  | _ => false
  end
with frag_stat (s : stat) {struct s} : bool :=
  match s with
  | SBreak => true
  | SLabel _ _ | SGoto _ _ => false
  | SDo b _ => frag_block b
  | SCall e => match e with ECall _ _ _ _ => frag_exp e | _ => false end
  | SIf es bs _ => forallb frag_exp es && forallb frag_block bs
  | SWhile e b _ => frag_exp e && frag_block b
  | SRepeat b e _ => frag_block b && frag_exp e
  | SForNum n _ e1 e2 e3 b _ => frag_name n && frag_exp e1 && frag_exp e2 && frag_exp e3 && frag_block b
  | SForIn ns _ es b _ => forallb frag_name ns && forallb frag_exp es && frag_block b
  | SAssign vars es _ =>
    forallb (fun v => match v with EName n _ => frag_name n | _ => false end) vars && forallb frag_exp es
  | SLocal ns _ _ es _ => forallb frag_name ns && forallb frag_exp es      (* any number of initialisers *)
  | SLocalFunc n _ f _ => frag_name n && match f with EFunc _ _ _ _ _ _ _ _ => frag_exp f | _ => false end
  end
with frag_block (b : block) {struct b} : bool :=
  match b with
  | Block ss ret _ =>
    forallb frag_stat ss && match ret with Some es => forallb frag_exp es | None => true end
  end.

Definition in_fragment (b : block) : bool := frag_block b.
Local Close Scope N_scope.

(* ------------------------------------------------------------------ what each feature must answer at an occurrence *)
Definition spec_refs (w : sws) (f : list N) (o : socc) : list (list N * loc) := same_var w f o.
Definition spec_highlight (w : sws) (f : list N) (o : socc) : list loc :=
  map snd (filter (fun x => beq_bytes (fst x) f) (same_var w f o)).
Definition spec_hover_local (o : socc) : bool := match s_bind o with BLocal _ => true | BGlobal _ => false end.

(* the environment at an occurrence = the local declarations that some occurrence at that place could be bound to;
   executable form used by the completion spec: the declarations d of the file such that a use of d's name placed at
   the cursor's occurrence would bind to d.  For the legs the must-set is computed from the occurrence's own walk: *)
Fixpoint env_names (en : env) (seen : list (list N)) : list (list N) :=
  match en with
  | [] => []
  | (n, _, _) :: r => if name_in n seen then env_names r seen else n :: env_names r (n :: seen)
  end.

Definition global_names (w : sws) : list (list N) :=
  map (fun x => s_name (snd x))
      (filter (fun x => is_write (s_role (snd x)) && match s_bind (snd x) with BGlobal _ => true | _ => false end)
              (all_occs w)).

(* every name that occurs as a global (read or written) somewhere: a label equal to such a name is not "a local" *)
Definition global_used_names (w : sws) : list (list N) :=
  map (fun x => s_name (snd x))
      (filter (fun x => match s_bind (snd x) with BGlobal _ => true | _ => false end) (all_occs w)).

(* completion answer `labels` at cursor (line, col) for prefix pre, given the names visible at the occurrence:
   every visible local and every (assigned) global with the prefix is offered; no label is the name of a local that is
   declared later or in a block that does not enclose the cursor - unless the same name is also visible / a global *)
Definition complete_ok (w : sws) (f : list N) (visible : list (list N)) (pre : list N) (line col : Z)
           (labels : list (list N)) : bool :=
  forallb (fun n => negb (starts_with pre n) || name_in n labels) (visible ++ global_names w)
  && forallb (fun d => negb (decl_later_or_outside line col d) || negb (name_in (s_name d) labels)
                       || name_in (s_name d) (visible ++ global_used_names w))
             (file_occs w f).

(* ------------------------------------------------------------------ C12: the four features agree with each other.
   Stated over ANY four feature functions (cursor = file, line from 1, column); instantiated with the model's
   functions by the driver and by Properties/C12.v. *)
Section Consistency.
  Variable define : list N -> Z -> Z -> list (list N * loc).
  Variable refs : list N -> Z -> Z -> list (list N * loc).
  Variable highlight : list N -> Z -> Z -> list loc.
  Variable hover_local : list N -> Z -> Z -> bool.
  Variable is_local_decl : list N * loc -> bool.      (* the location is a local declaration (local, parameter, loop
                                                         variable, local function) of the program *)

  Definition flocs_eqb (a b : list (list N * loc)) : bool :=
    Nat.eqb (length a) (length b) && forallb (fun x => existsb (floc_eqb x) b) a && forallb (fun x => existsb (floc_eqb x) a) b.
  Definition locs_eqb (a b : list loc) : bool :=
    Nat.eqb (length a) (length b) && forallb (fun x => existsb (loc_eqb x) b) a && forallb (fun x => existsb (loc_eqb x) a) b.

  (* every reference resolves to the same declaration as p *)
  Definition c12_refs_same_decl (f : list N) (line col : Z) : bool :=
    forallb (fun r => flocs_eqb (define (fst r) (sl (snd r)) (sc (snd r))) (define f line col)) (refs f line col).
  (* p is among the references of its own declaration; me = the identifier's own range *)
  Definition c12_self_in_refs (f : list N) (line col : Z) (me : loc) : bool :=
    forallb (fun d => existsb (floc_eqb (f, me)) (refs (fst d) (sl (snd d)) (sc (snd d)))) (define f line col).
  (* highlight = the references in the same file *)
  Definition c12_highlight (f : list N) (line col : Z) : bool :=
    locs_eqb (highlight f line col) (map snd (filter (fun r => beq_bytes (fst r) f) (refs f line col))).
  (* hover says `local` exactly when the definition is a local declaration *)
  Definition c12_hover (f : list N) (line col : Z) : bool :=
    Bool.eqb (hover_local f line col) (existsb is_local_decl (define f line col)).
End Consistency.

Definition is_local_decl_of (w : sws) (x : list N * loc) : bool :=
  existsb (fun o => is_decl (s_role o) && loc_eqb (s_loc o) (snd x)) (file_occs w (fst x)).

(* ------------------------------------------------------------------ Laid: the Locs are token spans of a text.
   Stated on the AST alone: the boundary marks of the scopes, of the call / function expressions and of the
   identifiers, listed in TEXTUAL order, have non-decreasing positions; where something ends and something else begins
   (an identifier or a scope after an identifier, a `)`, an `end`) there is at least one character in between; every
   identifier is non-empty and on one line.  Positions are compared through key = line * W + column for a line-width
   bound W (any W larger than every column works).  True for the parser's output on texts in which no identifier
   directly follows a closing bracket or a string (e.g. `f(a)b = 1`); the binder legs test it on every program. *)
Inductive mark :=
| MOpen (l : loc)            (* start of a scope / call / function expression *)
| MClose (l : loc)           (* its end *)
| MIdS (l : loc)             (* start of an identifier occurrence *)
| MIdE (l : loc).            (* its end (exclusive column = the last cursor position that belongs to it) *)

Definition id_marks (l : loc) : list mark := [MIdS l; MIdE l].
(* marks inside a region of their own (the initialiser list of a local statement) *)
Definition region_marks (o : option loc) (ms : list mark) : list mark :=
  match o with Some il => MOpen il :: ms ++ [MClose il] | None => ms end.

Fixpoint m_exp (e : exp) {struct e} : list mark :=
  match e with
  | EName _ l => id_marks l
  | EParens e1 _ => m_exp e1
  | EUnop _ e1 _ => m_exp e1
  | EBinop _ e1 e2 _ => m_exp e1 ++ m_exp e2
  | EIndex p k _ => m_exp p ++ m_exp k
  | ECall p _ args l => MOpen l :: m_exp p ++ flat_map m_exp args ++ [MClose l]
  | ETable ks vs _ => flat_map (fun k => match k with Some k' => m_exp k' | None => [] end) ks ++ flat_map m_exp vs
  | EFunc _ _ _ plocs b l _ _ => MOpen l :: flat_map id_marks plocs ++ m_block b ++ [MClose l]
  | _ => []
  end
with m_stat (s : stat) {struct s} : list mark :=
  match s with
  | SBreak | SLabel _ _ | SGoto _ _ => []
  | SDo b l => MOpen l :: m_block b ++ [MClose l]
  | SCall e => m_exp e
  | SIf es bs _ =>
    (* cond_1 block_1 cond_2 block_2 ...; an empty branch contributes nothing (its Loc is an empty interval) *)
    (fix go (cs : list (list mark)) (bls : list (list mark)) : list mark :=
       match cs, bls with
       | c :: cs', b :: bls' => c ++ b ++ go cs' bls'
       | _, _ => []
       end)
      (map m_exp es)
      (map (fun b => match block_stats b, block_ret b with
                     | [], None => []
                     | _, _ => MOpen (block_loc b) :: m_block b ++ [MClose (block_loc b)]
                     end) bs)
  | SWhile e b l => MOpen l :: m_exp e ++ m_block b ++ [MClose l]
  | SRepeat b e l => MOpen l :: m_block b ++ m_exp e ++ [MClose l]
  | SForNum _ vl e1 e2 e3 b l => MOpen l :: id_marks vl ++ m_exp e1 ++ m_exp e2 ++ m_exp e3 ++ m_block b ++ [MClose l]
  | SForIn _ ls es b l => MOpen l :: flat_map id_marks ls ++ flat_map m_exp es ++ m_block b ++ [MClose l]
  | SAssign vars es _ =>
    match vars, es with
    | [EName _ nl], [EFunc _ (_ :: _) _ plocs b l _ _] =>          (* `function name(...)`: the Loc starts at `function` *)
      MOpen l :: id_marks nl ++ flat_map id_marks plocs ++ m_block b ++ [MClose l]
    | _, _ => flat_map m_exp vars ++ flat_map m_exp es
    end
  | SLocal ns ls _ es l =>
    (* the initialiser list is a region of its own (Scope.init_loc: from behind the last name to the end of the
       statement): IsCorrectPosition hides the declared variables from the cursors inside it *)
    flat_map id_marks ls ++ region_marks (init_loc ns ls es l) (flat_map m_exp es)
  | SLocalFunc _ nl f _ =>
    match f with
    | EFunc _ _ _ plocs b l _ _ => MOpen l :: id_marks nl ++ flat_map id_marks plocs ++ m_block b ++ [MClose l]
    | _ => id_marks nl ++ m_exp f
    end
  end
with m_block (b : block) {struct b} : list mark :=
  match b with
  | Block ss ret _ => flat_map m_stat ss ++ match ret with Some es => flat_map m_exp es | None => [] end
  end.

Definition marks (b : block) : list mark := MOpen (block_loc b) :: m_block b ++ [MClose (block_loc b)].

Section Keys.
  Variable W : Z.
  Definition key (line col : Z) : Z := line * W + col.
  Definition lo (l : loc) : Z := key (sl l) (sc l).
  Definition hi (l : loc) : Z := key (el l) (ec l).
  Definition mark_key (m : mark) : Z :=
    match m with MOpen l | MIdS l => lo l | MClose l | MIdE l => hi l end.
  Definition ends (m : mark) : bool := match m with MClose _ | MIdE _ => true | _ => false end.
  Definition begins (m : mark) : bool := match m with MOpen _ | MIdS _ => true | _ => false end.
  Definition col_ok (l : loc) : bool := (0 <=? sc l) && (sc l <? W) && (0 <=? ec l) && (ec l <? W).

  Definition mark_ok (m : mark) : bool :=
    match m with
    | MIdS l => (sl l =? el l) && (sc l <? ec l) && col_ok l
    | MOpen l => col_ok l
    | _ => true
    end.

  (* consecutive marks: non-decreasing; strictly increasing from an end to a beginning and inside an identifier *)
  Definition step_ok (m m' : mark) : bool :=
    (mark_key m <=? mark_key m')
    && (negb ((ends m && begins m') || match m with MIdS _ => true | _ => false end) || (mark_key m <? mark_key m')).

  Fixpoint steps_ok (ms : list mark) : bool :=
    match ms with
    | m :: ((m' :: _) as r) => step_ok m m' && steps_ok r
    | _ => true
    end.

  Definition laid_b (b : block) : bool := (0 <? W) && forallb mark_ok (marks b) && steps_ok (marks b).
End Keys.

Definition Laid (b : block) : Prop := exists W, laid_b W b = true.

(* guards of the partial theorems: the occurrence carries no refuted-class tag *)
Definition classB_ok (o : socc) : bool := match s_cls o with [] => true | _ => false end.
(* no occurrence of that name in the chunk carries a tag that changes what the traversal (4th pass) resolves *)
Definition classA_ok (os : list socc) (n : list N) : bool :=
  negb (existsb (fun o => beq_bytes (s_name o) n && (has_tag CB3 o || has_tag CB4 o)) os).
