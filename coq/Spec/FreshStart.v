(* C08 - the specification: what the client must be left holding.

   "Whenever no document has unsaved edits, the diagnostics the client is left holding are the same as those of a
    server freshly started on the workspace's current files. While a buffer has unsaved edits, its file shows exactly
    that buffer's syntax errors if it has any, otherwise its last saved non-syntax diagnostics."

   fresh_view dk f        what a server started on disk dk publishes for f
   fresh_view_open w f    the same for a server started on the disk of world w and told about the documents outside the
                          workspace that are open in w (only the repaired code - flag fix_outside - lets them take part;
                          without it, and whenever no such document is open, it IS fresh_view (disk w) f)
   demanded w f           what the property demands for f in world w (lists are compared up to order)
   conformant / classes   the boolean predicates on histories used as hypotheses of the guarded theorem; each class
                          mirrors one confirmed finding (known_findings/C08.json; open_text: known_findings/C02.json) and
                          is switched off by the flag of its repair (Model/Events.v `fixes`): under `deployed` no class
                          is left, guard = conformant. A document may be opened with any text (action AOpenWith): when the
                          text is not the file's, the document has unsaved edits from that moment on *)
From Coq Require Import List NArith Bool.
From LH Require Import Model.Diag Model.Events.
Import ListNotations.
Local Open Scope N_scope.

(* equality of diagnostics lists up to order *)
Definition ecount (e : err) (l : list err) : nat := length (filter (err_eqb e) l).
Definition perm_eqb (a b : list err) : bool :=
  forallb (fun e => Nat.eqb (ecount e a) (ecount e b)) (a ++ b).
Definition has_syn (l : list err) : bool := existsb is_syn l.

(* what the theorems assume of the abstract analyses (the toy analysis satisfies it: Proofs/EventsToyOk.v toy_ok) *)
Record analysis_ok (A : analysis) : Prop := {
  ok_teqb : forall a b : text A, teqb A a b = true -> a = b;
  ok_teqb_refl : forall a : text A, teqb A a a = true;
  ok_tempty : forall a b : text A, tempty A a = true -> tempty A b = true -> a = b;
  (* the first pass reports type 6 exactly at require sites *)
  ok_first : forall t i, In i (first A t) -> match i with Own e => etype e <> 6 | Req _ e => etype e = 6 end
}.

Section Spec.
  Variable A : analysis.
  Variable fx : fixes.
  Local Notation txt := (text A).

  Definition fresh_view (dk : amap txt) (f : file) : list err := vget (all_errs A (init_proj A fx dk)) f.

  (* the files the project consists of in world w: the workspace files and, with the repaired code, the open documents
     outside the workspace; start_on mem dk = CreateAllProject + HandleCheck over the files of dk selected by mem
     (init_proj is start_on (in_dir A)) *)
  Definition member (w : world A) (f : file) : bool := in_dir A f || (fix_outside fx && ahas (ebuf w) f).
  Definition start_on (mem : file -> bool) (dk : amap txt) : proj A :=
    let fl := fset_of (filter mem (akeys dk)) in
    let p0 := {| p_files := fl; p_index := fl; p_fsm := []; p_lru := []; p_tincl := []; p_terrs := [] |} in
    recompute_third A (fst (first_many A fx false dk p0 fl)).
  Definition fresh_view_open (w : world A) (f : file) : list err := vget (all_errs A (start_on (member w) (disk w))) f.

  (* the demanded list for every file (stronger than the property where some OTHER buffer is unsaved: the property
     then leaves files without unsaved edits unconstrained; the guarded theorem proves this stronger form) *)
  Definition demanded (w : world A) (f : file) : list err :=
    if fmem f (dirty w) then
      match aget (ebuf w) f with
      | Some b => if is_nil (syn A b) then nonsyn (fresh_view_open w f) else syn A b
      | None => fresh_view_open w f
      end
    else fresh_view_open w f.

  (* what the property literally constrains in world w *)
  Definition constrained (w : world A) (f : file) : bool := fmem f (dirty w) || is_nil (dirty w).

  (* ---- conformance of an action in the world it is performed in (editor discipline) ---- *)
  Fixpoint fnodup (l : list file) : bool :=
    match l with [] => true | x :: r => negb (fmem x r) && fnodup r end.
  Definition conf_action (w : world A) (a : action A) : bool :=
    match a with
    | ARaw _ => false
    (* a document may be opened with ANY text (AOpenWith: a restored unsaved buffer): with the repaired didOpen - flag
       fix_didopen - that is an unsaved edit like any other; without it, it is the finding class open_text below *)
    (* saving a buffer whose file is gone re-creates the file: a client's watcher then also reports the creation,
       which this action does not send. With the changed-unknown repair - flag fix_changed_unknown - the didSave alone
       makes the file join the project again (HandleFileEventChanges handles its Changed event like Created) *)
    | ASave f => fix_changed_unknown fx || ahas (disk w) f || negb (ahas (ebuf w) f)
    (* a watched-files notification names every file once, workspace files only (the client watches the workspace);
       before the repair of the class changed_unknown - flag fix_changed_unknown - "changed" is only said of a file that
       was there before; the repaired code handles "changed" of a new file like "created", so a watcher may report a new
       file either way *)
    | AWatched l =>
      fnodup (map (witem_file A) l) && forallb (fun i => in_dir A (witem_file A i)) l &&
      forallb (fun i => match i with WM f _ => fix_changed_unknown fx || ahas (disk w) f | _ => true end) l
    | _ => true
    end.

  Definition action_files (a : action A) : list file :=
    match a with
    | AOpen f | AChange f _ | ASave f | AClose f | AOpenWith f _ => [f]
    | AWatched l => map (witem_file A) l
    | ARaw _ => []
    end.

  (* ---- finding classes: boolean predicates on (world before, action, world after) ---- *)
  Definition saved_of (w : world A) (f : file) : list err := vget (saved (ds (sv w))) f.
  Definition live_has (w : world A) (f : file) : bool := ahas (live (ds (sv w))) f.

  (* K_outside: the action names a file outside the workspace directories (a class only while the outside-file repair is
     off: the repaired code lets such a document take part exactly while it is open, see `member`) *)
  Definition names_outside (a : action A) : bool := existsb (fun f => negb (in_dir A f)) (action_files a).
  Definition k_outside (a : action A) : bool := negb (fix_outside fx) && names_outside a.

  (* no action of the history names a file outside the workspace directories *)
  Definition inside_only (h : list (action A)) : bool := forallb (fun a => negb (names_outside a)) h.

  (* no action of the history opens a document with a text of its own (the editor discipline assumed before the didOpen
     repair: a document is opened with the file's text, action AOpen) *)
  Definition opens_disk_text (h : list (action A)) : bool :=
    forallb (fun a => match a with AOpenWith _ _ => false | _ => true end) h.

  (* K_live_cleared (12a): a file keeps its live (unsaved-buffer) entry across the action while its saved list changes and
     the new saved map is not empty: pushAllDiagnosticsAgain overwrites the live syntax errors on the client *)
  Definition k_live_cleared (w : world A) (w' : world A) : bool :=
    negb (fix12a fx) && negb (is_nil (saved (ds (sv w')))) &&
    existsb (fun f => live_has w' f && negb (errs_eqb (saved_of w f) (saved_of w' f))) (akeys (live (ds (sv w)))).

  (* K_unhidden: a file with a clean unsaved buffer (syntax errors of the saved version hidden) gets a changed saved
     list that contains syntax errors: the full list is pushed *)
  Definition k_unhidden (w : world A) (w' : world A) : bool :=
    negb (fix_unhidden fx) &&
    existsb (fun f => fmem f (dirty w') && negb (live_has w f) &&
                      negb (errs_eqb (saved_of w f) (saved_of w' f)) && has_syn (saved_of w' f)) (dirty w).

  (* K_close_revert (12b): a buffer with unsaved edits is closed while the saved list has syntax errors *)
  Definition k_close_revert (w : world A) (a : action A) : bool :=
    negb (fix12b fx) &&
    match a with
    | AClose f => ahas (ebuf w) f && fmem f (dirty w) && has_syn (saved_of w f)
    | _ => false
    end.

  (* K_watched_dirty: a watched-file event names a file whose unsaved buffer has syntax errors (its live entry is dropped) *)
  Definition k_watched_dirty (w : world A) (a : action A) : bool :=
    negb (fix_watched fx) &&
    match a with
    | AWatched l => existsb (fun i => fmem (witem_file A i) (dirty w) && live_has w (witem_file A i)) l
    | _ => false
    end.

  (* K_deleted_require (12): after the action some file's require resolves to a file that is not in the project *)
  Definition k_stale_ref (w' : world A) : bool :=
    let p := pj (sv w') in
    negb (fix_index fx) &&
    existsb (fun f => match res_of A p f with
                      | Some r => existsb (fun ot => match ot with Some t => negb (fmem t (p_files p)) | None => false end)
                                          (r_refs r)
                      | None => false
                      end) (p_files p).

  (* K_empty_shortcut: a file analysed at start-up (contents not kept) is saved / changed on disk to an EMPTY file:
     bytes.Equal(nil, empty) makes the server believe nothing changed *)
  Definition empty_hit_p (p : proj A) (f : file) (t : txt) : bool :=
    negb (fix_empty fx) && tempty A t &&
    match aget (p_fsm p) f with
    | Some s => match s_contents s, s_res s with
                | None, Some r => negb (tempty A (r_text r))
                | _, _ => false
                end
    | None => false
    end.
  Definition empty_hit (w : world A) (f : file) (t : txt) : bool := empty_hit_p (pj (sv w)) f t.
  Definition k_empty_shortcut (w : world A) (a : action A) : bool :=
    match a with
    | ASave f => match aget (ebuf w) f with Some t => empty_hit w f t | None => false end
    | AWatched l => existsb (fun i => match i with WC f t | WM f t => empty_hit w f t | WD _ => false end) l
    | _ => false
    end.

  (* K_open_text (C02's finding open_text_not_disk seen from the diagnostics): a document is opened with a text that is not
     the file's text; the unrepaired didOpen caches it and leaves the analysis and the diagnostics those of the file *)
  Definition k_open_text (w : world A) (a : action A) : bool :=
    negb (fix_didopen fx) &&
    match a with
    | AOpenWith f t => match aget (disk w) f, aget (ebuf w) f with
                       | Some d, None => negb (teqb A d t)
                       | _, _ => false
                       end
    | _ => false
    end.

  (* class numbers: 1 outside 2 live_cleared 3 unhidden 4 close_revert 5 watched_dirty 6 deleted_require 7 empty_shortcut
     8 open_text *)
  Definition classes_step (w : world A) (a : action A) (w' : world A) : list N :=
    (if k_outside a then [1] else []) ++ (if k_live_cleared w w' then [2] else []) ++
    (if k_unhidden w w' then [3] else []) ++ (if k_close_revert w a then [4] else []) ++
    (if k_watched_dirty w a then [5] else []) ++ (if k_stale_ref w' then [6] else []) ++
    (if k_empty_shortcut w a then [7] else []) ++ (if k_open_text w a then [8] else []).

  (* fold over the history: (all actions conformant, classes met so far) *)
  Fixpoint scan_history (cf : world A -> action A -> bool) (w : world A) (h : list (action A)) : bool * list N :=
    match h with
    | [] => (true, [])
    | a :: h' =>
      let w' := fst (act A fx w a) in
      let '(c, ks) := scan_history cf w' h' in
      (cf w a && c, classes_step w a w' ++ ks)
    end.

  Definition conformant (dk : amap txt) (h : list (action A)) : bool :=
    fst (scan_history conf_action (fst (init_world A fx dk)) h).
  Definition classes (dk : amap txt) (h : list (action A)) : list N :=
    snd (scan_history conf_action (fst (init_world A fx dk)) h).
  Definition guard (dk : amap txt) (h : list (action A)) : bool := conformant dk h && is_nil (classes dk h).

End Spec.
