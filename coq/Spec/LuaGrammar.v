(* The syntax of Lua 5.3/5.4 (reference manual, section 9 "The Complete Syntax of Lua") over token lists.

   Every nonterminal X is a LONGEST-MATCH relation   X ts r :
       "the token list ts starts with an X, and r is what follows that X".
   One rule per production of the manual. A terminal is `T k ts r` (ts = one token of kind k, then r).
   Wherever the manual's grammar is ambiguous about where a repetition / option ends, the rule that ENDS it
   carries the manual's (and PUC-Lua's) disambiguation as a side condition on the head of the remainder:
     - a prefix expression extends as far as possible  (Sx_end: the next token is none of  [ . : ( { String);
     - a list ends where no separator follows           (`,` for names/variables/expressions, `,` `;` for fields);
     - the operator tail ends where no binary operator follows;
     - a statement list ends at `return` or at a token that closes a block (end else elseif until EOF);
     - `return` takes an expression list unless a block closer or `;` follows;
     - a table field is `Name = exp` exactly when it starts with the two tokens  Name `=`.
   Expressions are in the FLAT form   exp ::= {unop} simple { binop {unop} simple }   which generates the same
   language as the manual's  exp ::= exp binop exp | unop exp | ...  (precedence shapes the tree, not acceptance).
   What acceptance depends on, per token: its kind; for a Number whether the numeral is well formed;
   for the Name inside `< >` whether its text is `const` / `close`.

   Purely syntactic, as in the manual: `break`, `goto`, labels are not resolved. A `local` statement may carry at
   most one `<close>` attribute (manual 3.3.7).  A statement cannot follow `return`: `Block` ends right after
   the return statement, and every context of a Block demands a closing token next.  *)
From Coq Require Import List NArith Bool.
From LH Require Import Base.Bytes Model.Lexer Model.Ast.
Import ListNotations.

Definition kd (t : ltok) : tkind := tk (lt t).
(* kind of the next token; a token list produced by the lexer always ends with the EOF token *)
Definition hdk (ts : list ltok) : tkind := match ts with t :: _ => kd t | [] => TkEOF end.

(* a terminal of kind k *)
Definition T (k : tkind) (ts r : list ltok) : Prop := exists t, ts = t :: r /\ kd t = k.

Definition unop (k : tkind) : bool :=
  match k with TkOpNot | TkOpNen | TkOpMinus | TkOpWave => true | _ => false end.
Definition binop (k : tkind) : bool :=
  match k with
  | TkOpAdd | TkOpMinus | TkOpMul | TkOpDiv | TkOpIdiv | TkOpPow | TkOpMod
  | TkOpBand | TkOpWave | TkOpBor | TkOpShr | TkOpShl | TkOpConcat
  | TkOpLt | TkOpLe | TkOpGt | TkOpGe | TkOpEq | TkOpNe | TkOpAnd | TkOpOr => true
  | _ => false
  end.
(* tokens that continue a prefix expression:  [ . : ( { String *)
Definition starts_suffix (k : tkind) : bool :=
  match k with
  | TkSepLbrack | TkSepDot | TkSepColon | TkSepLparen | TkSepLcurly | TkString => true
  | _ => false
  end.
(* tokens that close a block *)
Definition block_follow (k : tkind) : bool :=
  match k with TkEOF | TkKwEnd | TkKwElse | TkKwElseif | TkKwUntil => true | _ => false end.
(* the two tokens  Name `=`  are next *)
Definition name_assign_ahead (ts : list ltok) : bool :=
  match ts with t1 :: t2 :: _ => tk_eqb (kd t1) TkIdentifier && tk_eqb (kd t2) TkOpAssign | _ => false end.

(* what kind of thing a prefix expression is, decided by its LAST component *)
Inductive pkind := PName | PParen | PIndex | PCall.
Definition assignable (k : pkind) : Prop := k = PName \/ k = PIndex.      (* var ::= Name | prefixexp[exp] | prefixexp.Name *)

(* ------------------------------------------------------------------ the parts without expressions *)
(* namelist ::= Name {',' Name} *)
Inductive NameTail : list ltok -> list ltok -> Prop :=
| NT_end ts : hdk ts <> TkSepComma -> NameTail ts ts
| NT_cons ts r1 r2 r : T TkSepComma ts r1 -> T TkIdentifier r1 r2 -> NameTail r2 r -> NameTail ts r.
Definition NameList (ts r : list ltok) : Prop := exists r1, T TkIdentifier ts r1 /\ NameTail r1 r.

(* attrib ::= ['<' Name '>'] with Name = const | close; the index counts the `close` *)
Definition txt_const : list N := [99; 111; 110; 115; 116]%N.       (* "const" *)
Definition txt_close : list N := [99; 108; 111; 115; 101]%N.       (* "close" *)
Inductive Attrib : nat -> list ltok -> list ltok -> Prop :=
| At_none ts : hdk ts <> TkOpLt -> Attrib 0 ts ts
| At_const ts r1 t r2 r : T TkOpLt ts r1 -> r1 = t :: r2 -> kd t = TkIdentifier -> tstr (lt t) = txt_const ->
    T TkOpGt r2 r -> Attrib 0 ts r
| At_close ts r1 t r2 r : T TkOpLt ts r1 -> r1 = t :: r2 -> kd t = TkIdentifier -> tstr (lt t) = txt_close ->
    T TkOpGt r2 r -> Attrib 1 ts r.
(* attnamelist ::= Name attrib {',' Name attrib}; the index counts the `close` attributes *)
Inductive AttTail : nat -> list ltok -> list ltok -> Prop :=
| AT_end ts : hdk ts <> TkSepComma -> AttTail 0 ts ts
| AT_cons c n ts r1 r2 r3 r : T TkSepComma ts r1 -> T TkIdentifier r1 r2 -> Attrib c r2 r3 -> AttTail n r3 r ->
    AttTail (c + n) ts r.
Definition AttNameList (n : nat) (ts r : list ltok) : Prop :=
  exists c m r1 r2, T TkIdentifier ts r1 /\ Attrib c r1 r2 /\ AttTail m r2 r /\ n = c + m.

(* parlist ::= namelist [',' '...'] | '...'   (possibly empty, always followed by ')') *)
Inductive ParTail : list ltok -> list ltok -> Prop :=
| PT_end ts : hdk ts <> TkSepComma -> ParTail ts ts
| PT_name ts r1 r2 r : T TkSepComma ts r1 -> T TkIdentifier r1 r2 -> ParTail r2 r -> ParTail ts r
| PT_vararg ts r1 r : T TkSepComma ts r1 -> T TkVararg r1 r -> ParTail ts r.
Inductive ParList : list ltok -> list ltok -> Prop :=
| PL_empty ts : hdk ts = TkSepRparen -> ParList ts ts
| PL_vararg ts r : T TkVararg ts r -> ParList ts r
| PL_names ts r1 r : T TkIdentifier ts r1 -> ParTail r1 r -> ParList ts r.

(* funcname ::= Name {'.' Name} [':' Name] *)
Inductive DotNames : list ltok -> list ltok -> Prop :=
| DN_end ts : hdk ts <> TkSepDot -> DotNames ts ts
| DN_cons ts r1 r2 r : T TkSepDot ts r1 -> T TkIdentifier r1 r2 -> DotNames r2 r -> DotNames ts r.
Inductive OptMethod : list ltok -> list ltok -> Prop :=
| OM_none ts : hdk ts <> TkSepColon -> OptMethod ts ts
| OM_some ts r1 r : T TkSepColon ts r1 -> T TkIdentifier r1 r -> OptMethod ts r.
Definition FuncName (ts r : list ltok) : Prop :=
  exists r1 r2, T TkIdentifier ts r1 /\ DotNames r1 r2 /\ OptMethod r2 r.

Section Grammar.
  Variable classify : list N -> numcls.            (* parser_number.go: is the numeral well formed *)
  Definition num_ok (t : ltok) : Prop := classify (tstr (lt t)) <> NBad.

  (* ---------------------------------------------------------------- blocks, statements, expressions *)
  Inductive Block : list ltok -> list ltok -> Prop :=
  (* block ::= {stat} [retstat] *)
  | B_noret ts r : Stats ts r -> hdk r <> TkKwReturn -> Block ts r
  | B_ret ts r1 r2 r : Stats ts r1 -> T TkKwReturn r1 r2 -> RetTail r2 r -> Block ts r

  (* retstat ::= return [explist] [';'] *)
  with RetTail : list ltok -> list ltok -> Prop :=
  | R_none ts : block_follow (hdk ts) = true -> RetTail ts ts
  | R_semi ts r : T TkSepSemi ts r -> RetTail ts r
  | R_exps ts r : ExpList ts r -> hdk r <> TkSepSemi -> RetTail ts r
  | R_exps_semi ts r1 r : ExpList ts r1 -> T TkSepSemi r1 r -> RetTail ts r

  with Stats : list ltok -> list ltok -> Prop :=
  | Ss_nil ts : block_follow (hdk ts) = true \/ hdk ts = TkKwReturn -> Stats ts ts
  | Ss_cons ts r1 r : Stat ts r1 -> Stats r1 r -> Stats ts r

  with Stat : list ltok -> list ltok -> Prop :=
  | St_semi ts r : T TkSepSemi ts r -> Stat ts r
  | St_break ts r : T TkKwBreak ts r -> Stat ts r
  | St_goto ts r1 r : T TkKwGoto ts r1 -> T TkIdentifier r1 r -> Stat ts r
  | St_label ts r1 r2 r : T TkSepLabel ts r1 -> T TkIdentifier r1 r2 -> T TkSepLabel r2 r -> Stat ts r
  | St_do ts r1 r2 r : T TkKwDo ts r1 -> Block r1 r2 -> T TkKwEnd r2 r -> Stat ts r
  | St_while ts r1 r2 r3 r4 r :
      T TkKwWhile ts r1 -> Exp r1 r2 -> T TkKwDo r2 r3 -> Block r3 r4 -> T TkKwEnd r4 r -> Stat ts r
  | St_repeat ts r1 r2 r3 r :
      T TkKwRepeat ts r1 -> Block r1 r2 -> T TkKwUntil r2 r3 -> Exp r3 r -> Stat ts r
  | St_if ts r1 r2 r3 r4 r5 r :
      T TkKwIf ts r1 -> Exp r1 r2 -> T TkKwThen r2 r3 -> Block r3 r4 -> IfTail r4 r5 -> T TkKwEnd r5 r -> Stat ts r
  | St_fornum ts r1 r2 r3 r4 r5 r6 r7 r8 r9 r :
      T TkKwFor ts r1 -> T TkIdentifier r1 r2 -> T TkOpAssign r2 r3 -> Exp r3 r4 -> T TkSepComma r4 r5 -> Exp r5 r6 ->
      ForStep r6 r7 -> T TkKwDo r7 r8 -> Block r8 r9 -> T TkKwEnd r9 r -> Stat ts r
  | St_forin ts r1 r2 r3 r4 r5 r6 r :
      T TkKwFor ts r1 -> NameList r1 r2 -> T TkKwIn r2 r3 -> ExpList r3 r4 ->
      T TkKwDo r4 r5 -> Block r5 r6 -> T TkKwEnd r6 r -> Stat ts r
  | St_function ts r1 r2 r : T TkKwFunction ts r1 -> FuncName r1 r2 -> FuncBody r2 r -> Stat ts r
  | St_localfunc ts r1 r2 r3 r :
      T TkKwLocal ts r1 -> T TkKwFunction r1 r2 -> T TkIdentifier r2 r3 -> FuncBody r3 r -> Stat ts r
  | St_local ts r1 n r :
      T TkKwLocal ts r1 -> AttNameList n r1 r -> n <= 1 -> hdk r <> TkOpAssign -> Stat ts r
  | St_local_init ts r1 n r2 r3 r :
      T TkKwLocal ts r1 -> AttNameList n r1 r2 -> n <= 1 -> T TkOpAssign r2 r3 -> ExpList r3 r -> Stat ts r
  (* stat ::= functioncall : a prefix expression whose last component is a call *)
  | St_call ts r : PrefixExp PCall ts r -> Stat ts r
  (* stat ::= varlist '=' explist *)
  | St_assign ts k r1 r2 r3 r :
      PrefixExp k ts r1 -> assignable k -> VarTail r1 r2 -> T TkOpAssign r2 r3 -> ExpList r3 r -> Stat ts r

  (* {elseif exp then block} [else block] *)
  with IfTail : list ltok -> list ltok -> Prop :=
  | IT_end ts : hdk ts <> TkKwElseif -> hdk ts <> TkKwElse -> IfTail ts ts
  | IT_elseif ts r1 r2 r3 r4 r :
      T TkKwElseif ts r1 -> Exp r1 r2 -> T TkKwThen r2 r3 -> Block r3 r4 -> IfTail r4 r -> IfTail ts r
  | IT_else ts r1 r : T TkKwElse ts r1 -> Block r1 r -> IfTail ts r

  (* [',' exp] *)
  with ForStep : list ltok -> list ltok -> Prop :=
  | FS_none ts : hdk ts <> TkSepComma -> ForStep ts ts
  | FS_some ts r1 r : T TkSepComma ts r1 -> Exp r1 r -> ForStep ts r

  (* {',' var} *)
  with VarTail : list ltok -> list ltok -> Prop :=
  | VT_end ts : hdk ts <> TkSepComma -> VarTail ts ts
  | VT_cons ts r1 k r2 r : T TkSepComma ts r1 -> PrefixExp k r1 r2 -> assignable k -> VarTail r2 r -> VarTail ts r

  (* explist ::= exp {',' exp} *)
  with ExpList : list ltok -> list ltok -> Prop :=
  | EL ts r1 r : Exp ts r1 -> ExpTail r1 r -> ExpList ts r
  with ExpTail : list ltok -> list ltok -> Prop :=
  | ET_end ts : hdk ts <> TkSepComma -> ExpTail ts ts
  | ET_cons ts r1 r2 r : T TkSepComma ts r1 -> Exp r1 r2 -> ExpTail r2 r -> ExpTail ts r

  (* exp ::= operand {binop operand} ;  operand ::= {unop} simple *)
  with Exp : list ltok -> list ltok -> Prop :=
  | E ts r1 r : Operand ts r1 -> BinTail r1 r -> Exp ts r
  with Operand : list ltok -> list ltok -> Prop :=
  | Op_unop ts t r1 r : ts = t :: r1 -> unop (kd t) = true -> Operand r1 r -> Operand ts r
  | Op_simple ts r : Simple ts r -> Operand ts r
  with BinTail : list ltok -> list ltok -> Prop :=
  | BT_end ts : binop (hdk ts) = false -> BinTail ts ts
  | BT_cons ts t r1 r2 r : ts = t :: r1 -> binop (kd t) = true -> Operand r1 r2 -> BinTail r2 r -> BinTail ts r

  (* nil | false | true | Numeral | LiteralString | '...' | functiondef | prefixexp | tableconstructor *)
  with Simple : list ltok -> list ltok -> Prop :=
  | Si_nil ts r : T TkKwNil ts r -> Simple ts r
  | Si_true ts r : T TkKwTrue ts r -> Simple ts r
  | Si_false ts r : T TkKwFalse ts r -> Simple ts r
  | Si_vararg ts r : T TkVararg ts r -> Simple ts r
  | Si_string ts r : T TkString ts r -> Simple ts r
  | Si_number ts t r : ts = t :: r -> kd t = TkNumber -> num_ok t -> Simple ts r
  | Si_table ts r : Table ts r -> Simple ts r
  | Si_function ts r1 r : T TkKwFunction ts r1 -> FuncBody r1 r -> Simple ts r
  | Si_prefix ts k r : PrefixExp k ts r -> Simple ts r

  (* prefixexp ::= (Name | '(' exp ')') {suffix} ; the index is the kind of its last component *)
  with PrefixExp : pkind -> list ltok -> list ltok -> Prop :=
  | Px_name ts r1 k r : T TkIdentifier ts r1 -> Suffixes PName r1 k r -> PrefixExp k ts r
  | Px_paren ts r1 r2 r3 k r :
      T TkSepLparen ts r1 -> Exp r1 r2 -> T TkSepRparen r2 r3 -> Suffixes PParen r3 k r -> PrefixExp k ts r

  (* suffix ::= '[' exp ']' | '.' Name | args | ':' Name args.   Suffixes k0 ts k r : after something of kind k0,
     ts starts with a maximal run of suffixes followed by r, and the whole is of kind k *)
  with Suffixes : pkind -> list ltok -> pkind -> list ltok -> Prop :=
  | Sx_end k ts : starts_suffix (hdk ts) = false -> Suffixes k ts k ts
  | Sx_index k0 ts r1 r2 r3 k r :
      T TkSepLbrack ts r1 -> Exp r1 r2 -> T TkSepRbrack r2 r3 -> Suffixes PIndex r3 k r -> Suffixes k0 ts k r
  | Sx_field k0 ts r1 r2 k r :
      T TkSepDot ts r1 -> T TkIdentifier r1 r2 -> Suffixes PIndex r2 k r -> Suffixes k0 ts k r
  | Sx_call k0 ts r1 k r : Args ts r1 -> Suffixes PCall r1 k r -> Suffixes k0 ts k r
  | Sx_method k0 ts r1 r2 r3 k r :
      T TkSepColon ts r1 -> T TkIdentifier r1 r2 -> Args r2 r3 -> Suffixes PCall r3 k r -> Suffixes k0 ts k r

  (* args ::= '(' [explist] ')' | tableconstructor | LiteralString *)
  with Args : list ltok -> list ltok -> Prop :=
  | Ar_none ts r1 r : T TkSepLparen ts r1 -> T TkSepRparen r1 r -> Args ts r
  | Ar_exps ts r1 r2 r : T TkSepLparen ts r1 -> ExpList r1 r2 -> T TkSepRparen r2 r -> Args ts r
  | Ar_table ts r : Table ts r -> Args ts r
  | Ar_string ts r : T TkString ts r -> Args ts r

  (* tableconstructor ::= '{' [fieldlist] '}' ;  fieldlist ::= field {fieldsep field} [fieldsep] *)
  with Table : list ltok -> list ltok -> Prop :=
  | Tb_empty ts r1 r : T TkSepLcurly ts r1 -> T TkSepRcurly r1 r -> Table ts r
  | Tb_fields ts r1 r2 r3 r :
      T TkSepLcurly ts r1 -> Field r1 r2 -> FieldTail r2 r3 -> T TkSepRcurly r3 r -> Table ts r
  with FieldTail : list ltok -> list ltok -> Prop :=
  | FT_end ts : hdk ts <> TkSepComma -> hdk ts <> TkSepSemi -> FieldTail ts ts
  | FT_sep_end ts t r : ts = t :: r -> kd t = TkSepComma \/ kd t = TkSepSemi -> hdk r = TkSepRcurly -> FieldTail ts r
  | FT_sep_field ts t r1 r2 r :
      ts = t :: r1 -> kd t = TkSepComma \/ kd t = TkSepSemi -> Field r1 r2 -> FieldTail r2 r -> FieldTail ts r
  (* field ::= '[' exp ']' '=' exp | Name '=' exp | exp *)
  with Field : list ltok -> list ltok -> Prop :=
  | Fd_index ts r1 r2 r3 r4 r :
      T TkSepLbrack ts r1 -> Exp r1 r2 -> T TkSepRbrack r2 r3 -> T TkOpAssign r3 r4 -> Exp r4 r -> Field ts r
  | Fd_name ts r1 r2 r : T TkIdentifier ts r1 -> T TkOpAssign r1 r2 -> Exp r2 r -> Field ts r
  | Fd_exp ts r : name_assign_ahead ts = false -> Exp ts r -> Field ts r

  (* funcbody ::= '(' [parlist] ')' block end *)
  with FuncBody : list ltok -> list ltok -> Prop :=
  | FB ts r1 r2 r3 r4 r :
      T TkSepLparen ts r1 -> ParList r1 r2 -> T TkSepRparen r2 r3 -> Block r3 r4 -> T TkKwEnd r4 r -> FuncBody ts r.

  (* chunk ::= block, and the whole file is consumed: what follows the block is exactly the EOF token *)
  Definition Chunk (ts : list ltok) : Prop := exists r e, Block ts r /\ r = [e] /\ kd e = TkEOF.
End Grammar.

(* Token lists as the lexer produces them (Model/Lexer.v lex_all): the EOF token is the last one and occurs only
   there; a token of kind "illegal" always carries the lexical error raised for it. *)
Definition wf_tokens (ts : list ltok) : Prop :=
  (exists body e, ts = body ++ [e] /\ kd e = TkEOF /\ Forall (fun t => kd t <> TkEOF) body) /\
  Forall (fun t => kd t = IKIllegal -> lerrs t <> []) ts.
