(* C13 - declarative description of comment attachment.

   The white space between two tokens ("gap") is seen as LINES: each line is some indentation followed, optionally, by a
   line comment `--text` running to the end of the line. The gap's comment lines are numbered with the file's line
   numbers; the comment map then is:
     * a comment on the gap's FIRST line, when that line is the line the previous token ends on, is that line's
       TRAILING comment (stored alone under that line);
     * all other comment lines are grouped into maximal runs of consecutive line numbers (BLOCKS), each stored under the
       number of its last line.
   The comment of a declaration on line L is the trailing comment stored for L when its text is non-empty, else the
   block stored for L-1, lines joined by "\n" - bytes unchanged.  (`--[[ ]]` comments are outside this description.) *)
From Coq Require Import List NArith ZArith Bool.
From LH Require Import Base.Bytes Base.Res Model.Lexer Model.Ast Model.Comments.
Import ListNotations.
Local Open Scope N_scope.

(* ------------------------------------------------------------------ structured gaps and their bytes *)
Inductive nlk := NlLF | NlCRLF.
Definition nl_bytes (k : nlk) : list N := match k with NlLF => [10] | NlCRLF => [13; 10] end.

Record gline := mkGl { gl_indent : list N; gl_comment : option (list N) }.
Definition render_gline (l : gline) : list N :=
  gl_indent l ++ match gl_comment l with Some t => 45 :: 45 :: t | None => [] end.

Record gap := mkGap { g_first : gline; g_rest : list (nlk * gline) }.
Fixpoint render_rest (r : list (nlk * gline)) : list N :=
  match r with [] => [] | (k, l) :: t => nl_bytes k ++ render_gline l ++ render_rest t end.
Definition render_gap (g : gap) : list N := render_gline (g_first g) ++ render_rest (g_rest g).

(* well-formed line: indentation is white space; the comment text has no line break and does not start with `[`
   (`--[[` / `--[=[` open a long-bracket comment; `--[x` is a line comment the description does not cover) *)
Definition gline_ok (l : gline) : bool :=
  forallb is_white (gl_indent l)
  && match gl_comment l with
     | Some t => forallb (fun c => negb (is_newline c)) t && negb (match t with 91 :: _ => true | _ => false end)
     | None => true
     end.

(* what follows the gap: nothing, or the first byte of a token (not white space, not a line break, not `--`) *)
Definition tail_ok (tail : list N) : bool :=
  match tail with
  | [] => true
  | c0 :: r => negb (is_white c0) && negb (is_newline c0)
               && negb (match r with c1 :: _ => (c0 =? 45) && (c1 =? 45) | [] => false end)
  end.

Definition starts_with_cr (l : list N) : bool := match l with 13 :: _ => true | _ => false end.

(* a comment runs to the end of its line: after a comment line comes a line break or the end of the file;
   a lone LF must not be followed by CR (that pair is ONE line break for the lexer) *)
Fixpoint rest_ok (prev_comment : bool) (r : list (nlk * gline)) (tail : list N) : bool :=
  match r with
  | [] => if prev_comment then match tail with [] => true | _ => false end else true
  | (k, l) :: t =>
    gline_ok l
    && (match k with NlLF => negb (starts_with_cr (render_gline l ++ render_rest t ++ tail)) | NlCRLF => true end)
    && rest_ok (match gl_comment l with Some _ => true | None => false end) t tail
  end.

Definition gap_ok (g : gap) (tail : list N) : bool :=
  gline_ok (g_first g) && tail_ok tail
  && rest_ok (match gl_comment (g_first g) with Some _ => true | None => false end) (g_rest g) tail.

(* ------------------------------------------------------------------ comment lines of a gap, numbered *)
(* line number L, column c0 of the line's first byte *)
Definition cline_of (L c0 : Z) (l : gline) : list cline :=
  match gl_comment l with
  | Some t => [mkCline t L (c0 + Z.of_nat (length (gl_indent l)) + 2)%Z]
  | None => []
  end.

Fixpoint rest_clines (L : Z) (r : list (nlk * gline)) : list cline :=      (* L = number of the line before *)
  match r with [] => [] | (_, l) :: t => cline_of (L + 1) 0 l ++ rest_clines (L + 1) t end.

(* ------------------------------------------------------------------ blocks = maximal runs of consecutive lines *)
Definition flush_run (cur : list cline) : list (list cline) := match cur with [] => [] | _ => [cur] end.

Fixpoint runs (cs : list cline) (cur : list cline) (last : Z) : list (list cline) :=
  match cs with
  | [] => flush_run cur
  | c :: t =>
    match cur with
    | [] => runs t [c] (cl_line c)
    | _ => if (cl_line c =? last + 1)%Z then runs t (cur ++ [c]) (cl_line c)
           else cur :: runs t [c] (cl_line c)
    end
  end.

Definition block_entry (run : list cline) : Z * cinfo :=
  (cl_line (last run (mkCline [] 0 0)), mkCinfo run true true).
Definition trailing_entry (c : cline) : Z * cinfo := (cl_line c, mkCinfo [c] true false).

(* the entries one gap contributes: p = line the previous token ends on (0: no token yet), L0 = line the gap starts on,
   c0 = column the gap starts at *)
Definition spec_entries (p L0 c0 : Z) (g : gap) : list (Z * cinfo) :=
  let first := cline_of L0 c0 (g_first g) in
  let rest := rest_clines L0 (g_rest g) in
  if (p =? L0)%Z then map trailing_entry first ++ map block_entry (runs rest [] 0)
  else map block_entry (runs (first ++ rest) [] 0).

(* ------------------------------------------------------------------ attachment, on a table of comment lines *)
(* The file's comment lines as a table: (line number, trailing?, text). *)
Record tabline := mkTl { tl_line : Z; tl_trailing : bool; tl_text : list N }.

(* the comment lines of one gap *)
Definition gap_table (p L0 : Z) (g : gap) : list tabline :=
  map (fun c => mkTl (cl_line c) (p =? L0)%Z (cl_str c)) (cline_of L0 0 (g_first g))
  ++ map (fun c => mkTl (cl_line c) false (cl_str c)) (rest_clines L0 (g_rest g)).

(* the comment lines recorded in a comment map *)
Definition table_of_entry (e : Z * cinfo) : list tabline :=
  map (fun c => mkTl (cl_line c) (negb (ci_head (snd e))) (cl_str c)) (ci_lines (snd e)).
Definition table_of (es : list (Z * cinfo)) : list tabline := flat_map table_of_entry es.

Definition trailing_at (T : list tabline) (L : Z) : option (list N) :=
  match find (fun t => tl_trailing t && (tl_line t =? L)%Z) T with Some t => Some (tl_text t) | None => None end.
Definition pure_at (T : list tabline) (L : Z) : option (list N) :=
  match find (fun t => negb (tl_trailing t) && (tl_line t =? L)%Z) T with Some t => Some (tl_text t) | None => None end.

(* the maximal block of comment-only lines ending on line L (texts, top to bottom); fuel bounds the block length *)
Fixpoint block_up (T : list tabline) (fuel : nat) (L : Z) : list (list N) :=
  match fuel with
  | O => []
  | S f => match pure_at T L with Some t => block_up T f (L - 1) ++ [t] | None => [] end
  end.

Fixpoint join_nl_texts (ls : list (list N)) : list N :=
  match ls with [] => [] | [a] => a | a :: t => a ++ 10 :: join_nl_texts t end.

(* "the trailing comment on the declaration's line, else the block ending on the line directly above" *)
Definition spec_comment (T : list tabline) (L : Z) : list N :=
  match trailing_at T L with
  | Some (c :: t) => c :: t
  | _ => join_nl_texts (block_up T (length T) (L - 1))
  end.

(* ------------------------------------------------------------------ the layout of a whole file: gap, token, gap, ...
   A file is read as  gap_0 token_1 gap_1 ... token_n gap_n.  The gaps are cut out by the structural parser below
   (white space, optional `--text` up to the line end, LF / CRLF line breaks; nothing else); the extent of a token, and
   the line count across a token that spans several lines, come from `scan_token` of the shared lexer model
   (Model/Lexer.v, the token scanner validated for C03 / C04). No use of the lexer's comment bookkeeping. *)
Fixpoint span_white (l : list N) : list N * list N :=
  match l with
  | c :: t => if is_white c then let '(a, b) := span_white t in (c :: a, b) else ([], l)
  | [] => ([], [])
  end.
Fixpoint span_line (l : list N) : list N * list N :=             (* up to the first line-break byte *)
  match l with
  | c :: t => if is_newline c then ([], l) else let '(a, b) := span_line t in (c :: a, b)
  | [] => ([], [])
  end.
Definition parse_gline (l : list N) : gline * list N :=
  let '(ind, r) := span_white l in
  match r with
  | 45 :: 45 :: r1 => let '(t, r2) := span_line r1 in (mkGl ind (Some t), r2)
  | _ => (mkGl ind None, r)
  end.
Fixpoint parse_rest (fuel : nat) (l : list N) : list (nlk * gline) * list N :=
  match fuel with
  | O => ([], l)
  | S f =>
    match l with
    | 13 :: 10 :: r => let '(gl, r1) := parse_gline r in let '(rest, tl) := parse_rest f r1 in ((NlCRLF, gl) :: rest, tl)
    | 10 :: r => let '(gl, r1) := parse_gline r in let '(rest, tl) := parse_rest f r1 in ((NlLF, gl) :: rest, tl)
    | _ => ([], l)
    end
  end.
(* the gap at the head of l and what follows it; always  render_gap g ++ tail = l  (Proofs/CommentsFile.v) *)
Definition parse_gap (l : list N) : gap * list N :=
  let '(g0, r) := parse_gline l in
  let '(rest, tl) := parse_rest (length r) r in (mkGap g0 rest, tl).

Definition last_gline (g : gap) : gline := last (map snd (g_rest g)) (g_first g).

(* scanner state behind a gap: the gap's bytes consumed, one line per line break, line start = start of the last line *)
Definition after_gap (s : lst) (g : gap) (tail : list N) : lst :=
  let p' := (pos s + Z.of_nat (length (render_gap g)))%Z in
  mkLst tail (line s + Z.of_nat (length (g_rest g)))%Z
        (match g_rest g with [] => lsp s | _ => p' - Z.of_nat (length (render_gline (last_gline g))) end)%Z p'.

(* one gap of the file: line the previous token ends on (0: none), line and column the gap starts at, the gap *)
Record gaprec := mkGr { gr_p : Z; gr_L : Z; gr_c : Z; gr_g : gap }.

Section FileLayout.
  Variable gbk_runes : list N -> Z.

  Fixpoint file_gaps_f (fuel : nat) (p : Z) (s : lst) : option (list gaprec) :=
    match fuel with
    | O => None
    | S f =>
      let '(g, tail) := parse_gap (chunk s) in
      if gap_ok g tail then
        let r := mkGr p (line s) (pos s - lsp s)%Z g in
        match tail with
        | [] => Some [r]
        | _ => let '(t, s2, _) := scan_token gbk_runes (after_gap s g tail) in
               match file_gaps_f f (tline t) s2 with Some rs => Some (r :: rs) | None => None end
        end
      else None
    end.

  (* None: some gap of the file is not structured (gap_ok fails: `--[` comment, lone CR, LF CR) *)
  Definition file_gaps (bs : list N) : option (list gaprec) :=
    file_gaps_f (S (S (length bs))) 0 (skip_first_line bs).

  (* the comment lines of the file *)
  Definition table_of_gaps (rs : list gaprec) : list tabline :=
    flat_map (fun r => gap_table (gr_p r) (gr_L r) (gr_g r)) rs.
  Definition file_table (bs : list N) : list tabline :=
    match file_gaps bs with Some rs => table_of_gaps rs | None => [] end.
End FileLayout.

(* the class of files of C13_comment_attach_file: every gap is structured and the parser reads the whole file *)
Definition file_class (gbk_runes : list N -> Z) (classify : list N -> numcls) (bs : list N) : bool :=
  match file_gaps gbk_runes bs with Some _ => true | None => false end && parser_reads_all gbk_runes classify bs.

(* ------------------------------------------------------------------ attachment, on the recorded entries *)
(* the same rule read off a list of entries (trailing entries and blocks, as produced by spec_entries) *)
Definition is_trailing_for (L : Z) (e : Z * cinfo) : bool := negb (ci_head (snd e)) && (fst e =? L)%Z.
Definition is_block_ending (K : Z) (e : Z * cinfo) : bool := ci_head (snd e) && (fst e =? K)%Z.
Definition entry_text (e : Z * cinfo) : list N := join_nl_texts (map cl_str (ci_lines (snd e))).

Definition spec_attach (es : list (Z * cinfo)) (L : Z) : list N :=
  match option_map entry_text (find (is_trailing_for L) es) with
  | Some (c :: t) => c :: t
  | _ => match find (is_block_ending (L - 1)) es with Some e => entry_text e | None => [] end
  end.

(* guard: line numbers are positive and no two entries share a key (for the entries of a whole file both are PROVED
   from the layout of the file: Proofs/CommentsFile.v) *)
Fixpoint keys_nodup (es : list (Z * cinfo)) : bool :=
  match es with
  | [] => true
  | e :: t => negb (existsb (fun x => (fst x =? fst e)%Z) t) && keys_nodup t
  end.
Definition keys_pos (es : list (Z * cinfo)) : bool := forallb (fun e => (0 <? fst e)%Z) es.
Definition attach_guard (es : list (Z * cinfo)) : bool := keys_pos es && keys_nodup es.

(* ================================================================================================================
   Gaps with long-bracket comments (after fix C13-long-comment-doc; Model/Comments.v, variant fx = true).
   Reading of the statement (properties.jsonl C13): "the comment block directly above" a declaration includes a
   long-bracket comment `--[[ text ]]` (one or several lines) that ends on the line directly above it - a long-bracket
   comment IS Lua's block comment - and "the trailing comment on its line" is a comment (either form) on the line of the
   declaration's IDENTIFIER, behind a token of that line. A trailing comment behind a multi-line initialiser
   (`local s = [[a` / `b]] -- t`, `local t = {` / `} -- t`) stands on the initialiser's last line, not on the identifier's
   line: it is NOT the declaration's documentation (statement and code agree; covered by C13_comment_attach_file already).
   Blocks: a maximal run of `--` comments on consecutive lines is one block; a long-bracket comment is a block of its
   own (it never joins a neighbour), whose text is the bracket's content with line breaks normalised to "\n", one
   leading line break dropped (Lua's own rule for long brackets) and a closing "\n--" (the `--]]` style) trimmed.

   A gap is read as a flat list of items: white-space bytes, LF / CRLF line breaks, `--text` comments up to the end of
   the line, long-bracket comments. The extent, the number of line breaks and the content of a long bracket come from
   scan_long_string of the shared lexer model (the long-string scanner validated for C03 / C04), as token extents come
   from scan_token. Only closed brackets are items (an unclosed one ends the description: the file is outside the class). *)
Inductive item :=
| IWhite (c : N)
| INl (k : nlk)
| IShort (t : list N)
| ILong (raw txt : list N) (nl : Z).      (* `--` raw; txt = content as scanned; nl = line breaks inside *)

Definition render_item (it : item) : list N :=
  match it with
  | IWhite c => [c]
  | INl k => nl_bytes k
  | IShort t => 45 :: 45 :: t
  | ILong raw _ _ => 45 :: 45 :: raw
  end.
Definition render_items (its : list item) : list N := flat_map render_item its.

(* `[` `=`* `[` : the test skipComment makes before it scans a long bracket *)
Definition is_long_open (r : list N) : bool :=
  match r with
  | 91 :: _ => match fst (match_long_bracket r) with [] => false | _ => true end
  | _ => false
  end.

(* a closed long bracket at the head of l: (content, length in bytes, line breaks) *)
Definition long_scan (l : list N) : option (list N * nat * Z) :=
  match scan_long_string (mkLst l 0 0 0) with
  | (str, s2, [], _) => Some (str, Z.to_nat (pos s2), line s2)
  | _ => None
  end.

Fixpoint parse_items (fuel : nat) (l : list N) {struct fuel} : list item * list N :=
  match fuel with
  | O => ([], l)
  | S f =>
    match l with
    | [] => ([], [])
    | 13 :: 10 :: r => let '(its, tl) := parse_items f r in (INl NlCRLF :: its, tl)
    | 10 :: r => if starts_with_cr r then ([], l) else let '(its, tl) := parse_items f r in (INl NlLF :: its, tl)
    | 45 :: 45 :: r =>
      if is_long_open r then
        match long_scan r with
        | Some (txt, n, nl) => let '(its, tl) := parse_items f (skipn n r) in (ILong (firstn n r) txt nl :: its, tl)
        | None => ([], l)
        end
      else let '(t, r2) := span_line r in let '(its, tl) := parse_items f r2 in (IShort t :: its, tl)
    | c :: r => if is_white c then let '(its, tl) := parse_items f r in (IWhite c :: its, tl) else ([], l)
    end
  end.

(* one comment of a gap: form, head (not on the line the previous token ends on), text, the line it ENDS on, the column
   of its first text byte (after a long bracket the lexer's column count restarts at 0: the C04 column finding) *)
Record occ := mkOcc { o_short : bool; o_head : bool; o_text : list N; o_line : Z; o_col : Z }.

(* p = line the previous token ends on (0: none); L, c = line and column of the next byte *)
Fixpoint occs (p L c : Z) (its : list item) {struct its} : list occ :=
  match its with
  | [] => []
  | IWhite _ :: t => occs p L (c + 1) t
  | INl _ :: t => occs p (L + 1) 0 t
  | IShort tx :: t => mkOcc true (negb (p =? L)%Z) tx L (c + 2) :: occs p L (c + 2 + Z.of_nat (length tx)) t
  | ILong _ txt nl :: t => mkOcc false (negb (p =? L)%Z) (trim_suffix_nl_dashes txt) (L + nl) (c + 2) :: occs p (L + nl) 0 t
  end.

(* line and column behind the items *)
Fixpoint items_end (L c : Z) (its : list item) {struct its} : Z * Z :=
  match its with
  | [] => (L, c)
  | IWhite _ :: t => items_end L (c + 1) t
  | INl _ :: t => items_end (L + 1) 0 t
  | IShort tx :: t => items_end L (c + 2 + Z.of_nat (length tx)) t
  | ILong _ _ nl :: t => items_end (L + nl) 0 t
  end.

(* the grouping rule, comment by comment (the rule of skipWhiteSpaces, Model/Comments.v comment_step_v): a trailing
   comment is stored alone under its line; a `--` comment joins the pending block iff that block is a `--` block ending
   on the previous line; a long-bracket comment always starts a block of its own and the next comment starts another;
   a block is stored under its last line. *)
Definition occ_step (cs : cstate) (o : occ) : cstate :=
  comment_step_v true cs (o_short o) (o_head o) (o_text o) (o_line o) (o_col o).
Definition cs_finish (cs : cstate) : list (Z * cinfo) :=
  match cur cs with Some ci => emitted cs ++ [(last_line cs, ci)] | None => emitted cs end.
Definition group_occs (os : list occ) : list (Z * cinfo) := cs_finish (fold_left occ_step os (mkCst None 0 [])).

Definition items_entries (p L c : Z) (its : list item) : list (Z * cinfo) := group_occs (occs p L c its).

(* one gap of the file *)
Record lgaprec := mkLgr { lg_p : Z; lg_L : Z; lg_c : Z; lg_items : list item }.
Definition lgap_entries (r : lgaprec) : list (Z * cinfo) := items_entries (lg_p r) (lg_L r) (lg_c r) (lg_items r).

(* scanner state behind the items of a gap *)
Definition after_items (s : lst) (its : list item) (tail : list N) : lst :=
  let p' := (pos s + Z.of_nat (length (render_items its)))%Z in
  let '(L, c) := items_end (line s) (pos s - lsp s)%Z its in
  mkLst tail L (p' - c)%Z p'.

Section FileLayoutLong.
  Variable gbk_runes : list N -> Z.

  Fixpoint file_lgaps_f (fuel : nat) (p : Z) (s : lst) {struct fuel} : option (list lgaprec) :=
    match fuel with
    | O => None
    | S f =>
      let '(its, tail) := parse_items (S (length (chunk s))) (chunk s) in
      if tail_ok tail then
        let r := mkLgr p (line s) (pos s - lsp s)%Z its in
        match tail with
        | [] => Some [r]
        | _ => let '(t, s2, _) := scan_token gbk_runes (after_items s its tail) in
               match file_lgaps_f f (tline t) s2 with Some rs => Some (r :: rs) | None => None end
        end
      else None
    end.

  Definition file_lgaps (bs : list N) : option (list lgaprec) :=
    file_lgaps_f (S (S (length bs))) 0 (skip_first_line bs).

  (* the comment blocks of the file: (key line, block) in file order *)
  Definition file_blocks (bs : list N) : list (Z * cinfo) :=
    match file_lgaps bs with Some rs => flat_map lgap_entries rs | None => [] end.
End FileLayoutLong.

(* the class of C13_comment_attach_long: every gap is made of the four items, no two blocks of the file are stored under
   one line (two comments on one line, e.g. `--[[ a ]] -- b`, would be: the statement does not say which one counts),
   and the parser reads the file to its end *)
Definition file_class_long (gbk_runes : list N -> Z) (classify : list N -> numcls) (bs : list N) : bool :=
  match file_lgaps gbk_runes bs with Some rs => attach_guard (flat_map lgap_entries rs) | None => false end
  && parser_reads_all_v true gbk_runes classify bs.
