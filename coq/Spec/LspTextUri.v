(* The client's side of property C02 when documents are named by URIs (LSP 3.17 "Text Documents": a document is
   identified by its URI; didSave carries the text only if the client chooses to send it).

   The client keeps one text per URI.  The server is required to hold, for every URI the client has open, exactly
   that text.  Two URIs name the same resource when their percent-decoded paths are equal (RFC 3986 2.1/6.2.2.2);
   a client names each resource by ONE URI - what its percent-encoder produces from the path: `canonical`. *)
From Coq Require Import List NArith Bool.
From LH Require Import Base.Bytes Base.Res Base.Utf8 Model.TextSync Model.TextSyncUri Spec.LspText.
Import ListNotations.
Local Open Scope N_scope.

(* ---- the client: open documents (by URI) with their text (code points) ---- *)
Definition uspec_step (cs : kcache) (n : unote) : kcache :=
  match n with
  | UOpen u t => kupd cs u (Some t)
  | UChange u chs =>
    match cs u with
    | Some cur => match spec_apply_all cur chs with Some new => kupd cs u (Some new) | None => cs end
    | None => cs
    end
  | USave _ _ => cs                               (* saving does not change the text *)
  | UClose u => kupd cs u None
  end.

Definition uclient (ns : list unote) : kcache := fold_left uspec_step ns kempty.

(* what goes over the wire: JSON strings arrive in Go as UTF-8 *)
Definition enc_unote (n : unote) : unote :=
  match n with
  | UOpen u t => UOpen u (utf8_of t)
  | UChange u chs => UChange u (map enc_change chs)
  | USave u t => USave u (option_map utf8_of t)
  | UClose u => UClose u
  end.
Definition enc_kcache (cs : kcache) : kcache := fun u => option_map utf8_of (cs u).

(* ---- conformant histories.  `lua u` = the server treats the document as Lua (the client registers the server for
        Lua documents only).  didSave WITHOUT text is conformant: `text` is optional in DidSaveTextDocumentParams. ---- *)
Definition unote_ok (lua : list N -> bool) (cs : kcache) (n : unote) : bool :=
  match n with
  | UOpen u t => lua u && forallb scalar t && match cs u with None => true | Some _ => false end
  | UChange u chs => match cs u with Some cur => changes_ok cur chs | None => false end
  | USave u (Some t) => match cs u with Some cur => beq_bytes t cur | None => false end
  | USave u None => match cs u with Some _ => true | None => false end
  | UClose u => match cs u with Some _ => true | None => false end
  end.

Fixpoint uconformant_from (lua : list N -> bool) (cs : kcache) (ns : list unote) {struct ns} : bool :=
  match ns with
  | [] => true
  | n :: t => unote_ok lua cs n && uconformant_from lua (uspec_step cs n) t
  end.

(* the server's own idea of "a Lua document": the decoded path ends in .lua *)
Definition uconformant (ux : bool) (prefix : list N) (ns : list unote) : bool :=
  uconformant_from (fun u => is_lua_key (uri_key ux prefix u)) kempty ns.

(* ---- class guards ---- *)
Definition unote_class_ok (P : list N -> bool) (cs : kcache) (n : unote) : bool :=
  match n with
  | UChange u chs => match cs u with Some cur => changes_class_ok P cur chs | None => true end
  | _ => true
  end.

Fixpoint uclass_ok_from (P : list N -> bool) (cs : kcache) (ns : list unote) {struct ns} : bool :=
  match ns with
  | [] => true
  | n :: t => unote_class_ok P cs n && uclass_ok_from P (uspec_step cs n) t
  end.
Definition uclass_ok (fx : bool) (ns : list unote) : bool := uclass_ok_from (text_ok fx) kempty ns.

(* a didSave without text occurs in the history *)
Definition is_save_nil (n : unote) : bool := match n with USave _ None => true | _ => false end.
Definition save_nil (ns : list unote) : bool := existsb is_save_nil ns.
Definition save_ok (sx : bool) (ns : list unote) : bool := sx || negb (save_nil ns).

(* the URIs used; the decode is injective on them: different URIs, different keys *)
Definition uris (ns : list unote) : list (list N) := map unote_uri ns.

Definition inj_on (ux : bool) (prefix : list N) (us : list (list N)) : bool :=
  forallb (fun u1 => forallb (fun u2 =>
    negb (beq_bytes (uri_key ux prefix u1) (uri_key ux prefix u2)) || beq_bytes u1 u2) us) us.

(* ---- canonical URIs: prefix, then the path with every byte either written as it is (the bytes the client's
        encoder leaves alone: `raw`) or as %XX with two UPPER-case hex digits (all other bytes).  '%' itself is never
        raw.  A backslash is not part of a path (the server reads it as a Windows separator). ---- *)
Definition isuphex (c : N) : bool := ((48 <=? c) && (c <=? 57)) || ((65 <=? c) && (c <=? 70)).

Fixpoint canon_path (raw : N -> bool) (s : list N) {struct s} : bool :=
  match s with
  | [] => true
  | c :: t =>
    if c =? 37 then
      match t with
      | a :: b :: t2 =>
        let v := unhex a * 16 + unhex b in
        isuphex a && isuphex b && negb (raw v) && negb (v =? 92) && canon_path raw t2
      | _ => false
      end
    else raw c && canon_path raw t
  end.

Definition raw_ok (raw : N -> bool) : bool := negb (raw 37) && negb (raw 92).

Definition canonical (raw : N -> bool) (prefix u : list N) : bool :=
  raw_ok raw && match strip_prefix prefix u with Some rest => canon_path raw rest | None => false end.

(* the client's encoder *)
Definition hexdigit (x : N) : N := if x <? 10 then 48 + x else 55 + x.
Definition enc_byte (raw : N -> bool) (c : N) : list N :=
  if raw c then [c] else [37; hexdigit (c / 16); hexdigit (c mod 16)].
Definition encode_path (raw : N -> bool) (k : list N) : list N := flat_map (enc_byte raw) k.

(* two raw sets in use:
   RFC 3986 `pchar` and '/' (what e.g. Emacs url-hexify-string with url-path-allowed-chars leaves alone):
   unreserved, sub-delims, ':' and '@'; *)
Definition is_alnum (c : N) : bool :=
  ((48 <=? c) && (c <=? 57)) || ((65 <=? c) && (c <=? 90)) || ((97 <=? c) && (c <=? 122)).
Definition raw_unreserved (c : N) : bool :=
  is_alnum c || (c =? 45) || (c =? 46) || (c =? 95) || (c =? 126) || (c =? 47).          (* - . _ ~ / *)
Definition raw_pchar (c : N) : bool :=
  raw_unreserved c || existsb (N.eqb c) [33; 36; 38; 39; 40; 41; 42; 43; 44; 59; 61; 58; 64].   (* !$&'()*+,;= : @ *)
(* and the one of vscode-uri (URI.toString): only unreserved and '/' stay, '+' is sent as %2B: raw_unreserved *)

(* ---- vocabulary of the statements in Properties/C02.v ---- *)
Definition userver_text (fx ux sx : bool) (prefix : list N) (ns : list unote) (u : list N) : option (list N) :=
  match urun fx ux sx prefix kempty (map enc_unote ns) with Ok s => s (uri_key ux prefix u) | _ => None end.
Definition uclient_text (ns : list unote) (u : list N) : option (list N) := enc_kcache (uclient ns) u.
Definition ustale (fx ux sx : bool) (prefix : list N) (ns : list unote) : bool :=
  uany_rejected fx ux sx prefix kempty (map enc_unote ns).

(* the server ends the history without a fault; for every URI the client used it holds the client's text (nothing if
   the client has closed it), and it holds nothing under any other key *)
Definition usync_statement (fx ux sx : bool) (prefix : list N) (ns : list unote) : Prop :=
  exists s, urun fx ux sx prefix kempty (map enc_unote ns) = Ok s /\
            (forall u, In u (uris ns) -> s (uri_key ux prefix u) = enc_kcache (uclient ns) u) /\
            (forall k, (forall u, In u (uris ns) -> uri_key ux prefix u <> k) -> s k = None).

(* witnesses.  file:///dir/a+b.lua and file:///dir/a%20b.lua *)
Definition uri_plus : list N :=
  prefix2 ++ [47; 100; 105; 114; 47; 97; 43; 98; 46; 108; 117; 97].
Definition uri_space : list N :=
  prefix2 ++ [47; 100; 105; 114; 47; 97; 37; 50; 48; 98; 46; 108; 117; 97].
(* the client opens a+b.lua with "x", then "a b.lua" with "y" *)
Definition plus_witness : list unote := [UOpen uri_plus [120]; UOpen uri_space [121]].
(* the client opens a+b.lua with "x" and saves it without sending the text *)
Definition save_nil_witness : list unote := [UOpen uri_plus [120]; USave uri_plus None].
