(* Spec for C16: the annotation language of docs/manual/annotate.md (+ the forms named by the property:
   overload, vararg, enum, const / enum modifiers, optional markers, string constants, parentheses),
   as an abstract syntax `dtype` / `dstat`, its well-formedness (`doc_type`, `doc_stat`), the canonical printer
   `show_*` and the implementation AST the text must be understood as, `embed_*` ("structure intact").

   Printer conventions (the text denotes the tree unambiguously):
     union            a | b | c              a member that is a union or a fun type is parenthesised
     array            T[]                    an item that is a union or a fun type is parenthesised; an item that is itself
                                             an array is parenthesised by the canonical printer `(T[])[]` (nested = true)
                                             and not by the plain one `T[][]` (nested = false): both are documented
                                             (`TYPE[]` applied repeatedly, `(TYPE)`) and both are read back
     table            table   table<K, V>    a fun type as K / V is parenthesised
     fun              fun(a: T, b?: T, c): R1, R2     a fun type as parameter / return type is parenthesised
     string constant  's'   '"s"'            (the second form sets QuotesFlag; "s" is read like 's')
     lists of types   T1, T2, T3             (type / return statements) a fun type is parenthesised unless last
     comment          <space>@text           kept verbatim
   The canonical `show_bare true` prints exactly what the repaired annotateast.TypeConvertStr prints; the printer of
   the code as it is differs on fun types only (Proofs/AnnPrinter.v).
   The implementation wraps every "one type" position in a MultiType and a parenthesised type is the MultiType
   of its content; `embed_*` says exactly where, `abs` forgets singleton MultiTypes again. *)
From Coq Require Import String Ascii List NArith Bool.
From LH Require Import Base.Bytes Base.Res Model.AnnLexer Model.AnnAst.
Import ListNotations.
Local Open Scope N_scope.

Inductive dtype :=
| DName (n : bytes)                                            (* a type name (dotted names allowed) or "..." *)
| DConst (s : bytes) (q : bool)                                (* string constant; q = written as '"s"' *)
| DArray (item : dtype)                                        (* T[] *)
| DTable0                                                      (* table *)
| DTable (k v : dtype)                                         (* table<K, V> *)
| DFun (ps : list (bytes * bool * option dtype)) (rs : list dtype)   (* fun((name, optional?, type?)...): rets *)
| DUnion (ts : list dtype).                                    (* a | b | ...  (at least two) *)

Inductive dstat :=
| DSType (items : list (bool * bool * dtype)) (c : option bytes)      (* (const, enum, type), ... *)
| DSAlias (name : bytes) (t : dtype) (c : option bytes)
| DSClass (name : bytes) (parents : list bytes) (c : option bytes)
| DSOverload (ps : list (bytes * bool * option dtype)) (rs : list dtype) (c : option bytes)
| DSField (scope : option N) (colon : bool) (name : bytes) (t : dtype) (c : option bytes)
     (* scope: None = not written (means public), Some 0/1/2 = public/protected/private *)
| DSParam (is_const : bool) (name : bytes) (opt : bool) (t : dtype) (c : option bytes)
| DSReturn (items : list (dtype * bool)) (c : option bytes)            (* (type, optional) *)
| DSGeneric (items : list (bytes * option bytes)) (c : option bytes)   (* (name, parent) *)
| DSVararg (t : dtype) (c : option bytes)
| DSEnum (is_start : bool) (c : option bytes).                         (* enum start / enum end *)

(* ------------------------------------------------------------------ well-formedness *)
Definition ident_shape (n : bytes) : bool :=
  match n with c :: r => is_id_start c && forallb is_id_cont r | [] => false end.
Definition not_keyword (n : bytes) : bool := match kw_lookup n with None => true | Some _ => false end.
(* a type / alias / generic name: identifier that is not a keyword *)
Definition plain_name (n : bytes) : bool := ident_shape n && not_keyword n.
(* a type name: plain name or "..." *)
Definition type_name_ok (n : bytes) : bool := plain_name n || beq_bytes n s_dots.
(* a parameter name: identifier (keywords allowed) or "..." *)
Definition param_name_ok (n : bytes) : bool := ident_shape n || beq_bytes n s_dots.
Definition no_quote (s : bytes) : bool := forallb (fun c => negb ((c =? 34) || (c =? 39))) s.

Definition is_union (t : dtype) : bool := match t with DUnion _ => true | _ => false end.
Definition is_fun (t : dtype) : bool := match t with DFun _ _ => true | _ => false end.
Definition is_array (t : dtype) : bool := match t with DArray _ => true | _ => false end.

Definition doc_param (dt : dtype -> bool) (p : bytes * bool * option dtype) : bool :=
  match p with (n, _, ot) => param_name_ok n && match ot with Some t => dt t | None => true end end.

Fixpoint doc_type (t : dtype) : bool :=
  match t with
  | DName n => type_name_ok n
  | DConst s q => no_quote s && (negb q || negb (is_nil s))
  | DArray i => doc_type i
  | DTable0 => true
  | DTable k v => doc_type k && doc_type v
  | DFun ps rs => forallb (doc_param doc_type) ps && forallb doc_type rs
  | DUnion ts => Nat.leb 2 (length ts) && forallb doc_type ts
  end.

Definition s_public : bytes := Eval vm_compute in bs "public".
Definition s_protected : bytes := Eval vm_compute in bs "protected".
Definition s_private : bytes := Eval vm_compute in bs "private".
Definition s_const : bytes := Eval vm_compute in bs "const".
Definition is_scope_word (n : bytes) : bool := beq_bytes n s_public || beq_bytes n s_protected || beq_bytes n s_private.

Definition doc_stat (s : dstat) : bool :=
  match s with
  | DSType items _ => negb (is_nil items) && forallb (fun it => doc_type (snd it)) items
  | DSAlias n t _ => plain_name n && doc_type t
  | DSClass n ps _ => ident_shape n && forallb (fun p => ident_shape p && negb (beq_bytes p n)) ps
  | DSOverload ps rs _ => doc_type (DFun ps rs)
  | DSField sc _ n t _ =>
    ident_shape n && doc_type t &&
    match sc with None => negb (is_scope_word n) | Some k => k <=? 2 end
  | DSParam isc n _ t _ => param_name_ok n && (isc || negb (beq_bytes n s_const)) && doc_type t
  | DSReturn items _ => negb (is_nil items) && forallb (fun it => doc_type (fst it)) items
  | DSGeneric items _ =>
    negb (is_nil items) &&
    forallb (fun it => plain_name (fst it) && match snd it with Some p => plain_name p | None => true end) items
  | DSVararg t _ => doc_type t
  | DSEnum _ _ => true
  end.

(* an enum line with a trailing comment (the witness class of the repaired C16-enum-comment) *)
Definition enum_with_comment (s : dstat) : bool :=
  match s with DSEnum _ (Some _) => true | _ => false end.

(* ------------------------------------------------------------------ canonical printer *)
Definition t_bar : bytes := Eval vm_compute in bs " | ".
Definition t_brackets : bytes := Eval vm_compute in bs "[]".
Definition t_table : bytes := Eval vm_compute in bs "table".
Definition t_table_lt : bytes := Eval vm_compute in bs "table<".
Definition t_comma : bytes := Eval vm_compute in bs ", ".
Definition t_colon : bytes := Eval vm_compute in bs ": ".
Definition t_fun : bytes := Eval vm_compute in bs "fun(".

Fixpoint join (sep : bytes) (l : list bytes) : bytes :=
  match l with
  | [] => []
  | x :: r => match r with [] => x | _ => x ++ sep ++ join sep r end
  end.

Definition paren (b : bool) (s : bytes) : bytes := if b then [40] ++ s ++ [41] else s.
Definition member_paren (t : dtype) : bool := is_union t || is_fun t.
(* `nested` = parenthesise an array inside an array (the canonical printer does; the plain reading of the
   documented `TYPE[]` rule does not: show_type_plain below) *)
Definition item_paren (nested : bool) (t : dtype) : bool := is_union t || is_fun t || (nested && is_array t).
Definition sub_paren (t : dtype) : bool := is_fun t.

Definition show_const (s : bytes) (q : bool) : bytes :=
  if q then [39; 34] ++ s ++ [34; 39] else [39] ++ s ++ [39].

Section Show.
  Variable nested : bool.

  Fixpoint show_bare (t : dtype) : bytes :=
    match t with
    | DName n => n
    | DConst s q => show_const s q
    | DArray i => paren (item_paren nested i) (show_bare i) ++ t_brackets
    | DTable0 => t_table
    | DTable k v =>
      t_table_lt ++ paren (sub_paren k) (show_bare k) ++ t_comma ++ paren (sub_paren v) (show_bare v) ++ [62]
    | DFun ps rs =>
      t_fun ++
      join t_comma (map (fun p : bytes * bool * option dtype => match p with
                                  | (n, o, ot) =>
                                    n ++ (if o then [63] else []) ++
                                    match ot with
                                    | Some t => t_colon ++ paren (sub_paren t) (show_bare t)
                                    | None => []
                                    end
                                  end) ps) ++ [41] ++
      (if is_nil rs then [] else t_colon ++ join t_comma (map (fun r => paren (sub_paren r) (show_bare r)) rs))
    | DUnion ts => join t_bar (map (fun m => paren (member_paren m) (show_bare m)) ts)
    end.

  Definition show_sub (t : dtype) : bytes := paren (sub_paren t) (show_bare t).

  (* "T1, T2, T3" with per-item prefix / suffix; only the last item may be a bare fun type *)
  Fixpoint show_tlist {A} (pre : A -> bytes) (ty : A -> dtype) (post : A -> bytes) (l : list A) : bytes :=
    match l with
    | [] => []
    | a :: r =>
      match r with
      | [] => pre a ++ show_bare (ty a) ++ post a
      | _ => pre a ++ show_sub (ty a) ++ post a ++ t_comma ++ show_tlist pre ty post r
      end
    end.

  Definition show_comment (c : option bytes) : bytes :=
    match c with None => [] | Some x => [32; 64] ++ x end.

  Definition k_type : bytes := Eval vm_compute in bs "type ".
  Definition k_alias : bytes := Eval vm_compute in bs "alias ".
  Definition k_class : bytes := Eval vm_compute in bs "class ".
  Definition k_overload : bytes := Eval vm_compute in bs "overload ".
  Definition k_field : bytes := Eval vm_compute in bs "field ".
  Definition k_param : bytes := Eval vm_compute in bs "param ".
  Definition k_return : bytes := Eval vm_compute in bs "return ".
  Definition k_generic : bytes := Eval vm_compute in bs "generic ".
  Definition k_vararg : bytes := Eval vm_compute in bs "vararg ".
  Definition k_enum_start : bytes := Eval vm_compute in bs "enum start".
  Definition k_enum_end : bytes := Eval vm_compute in bs "enum end".
  Definition k_const : bytes := Eval vm_compute in bs "const ".
  Definition k_enum : bytes := Eval vm_compute in bs "enum ".
  Definition k_sp_colon_sp : bytes := Eval vm_compute in bs " : ".

  Definition show_scope (sc : option N) : bytes :=
    match sc with
    | None => []
    | Some k => (if k =? 1 then s_protected else if k =? 2 then s_private else s_public) ++ [32]
    end.

  (* the text after the "-@" head of the comment line *)
  Definition show_stat (s : dstat) : bytes :=
    match s with
    | DSType items c =>
      k_type ++
      show_tlist (fun it : bool * bool * dtype =>
                    (if fst (fst it) then k_const else []) ++ (if snd (fst it) then k_enum else []))
                 (fun it => snd it) (fun _ => []) items ++ show_comment c
    | DSAlias n t c => k_alias ++ n ++ [32] ++ show_bare t ++ show_comment c
    | DSClass n ps c =>
      k_class ++ n ++ (if is_nil ps then [] else k_sp_colon_sp ++ join t_comma ps) ++ show_comment c
    | DSOverload ps rs c => k_overload ++ show_bare (DFun ps rs) ++ show_comment c
    | DSField sc colon n t c =>
      k_field ++ show_scope sc ++ n ++ (if colon then k_sp_colon_sp else [32]) ++ show_bare t ++ show_comment c
    | DSParam isc n opt t c =>
      k_param ++ (if isc then k_const else []) ++ n ++ (if opt then [63; 32] else [32]) ++ show_bare t ++ show_comment c
    | DSReturn items c =>
      k_return ++
      show_tlist (fun _ : dtype * bool => []) (fun it => fst it) (fun it => if snd it then [63] else []) items ++
      show_comment c
    | DSGeneric items c =>
      k_generic ++
      join t_comma (map (fun it : bytes * option bytes =>
                           fst it ++ match snd it with Some p => k_sp_colon_sp ++ p | None => [] end) items) ++
      show_comment c
    | DSVararg t c => k_vararg ++ show_bare t ++ show_comment c
    | DSEnum st c => (if st then k_enum_start else k_enum_end) ++ show_comment c
    end.
End Show.

(* the canonical printer parenthesises nested arrays; the plain one writes string[][] *)
Definition show_type : dtype -> bytes := show_bare true.
Definition show_line : dstat -> bytes := show_stat true.
Definition show_type_plain : dtype -> bytes := show_bare false.
Definition show_line_plain : dstat -> bytes := show_stat false.

(* ------------------------------------------------------------------ expected implementation AST *)
Definition wrap_one (t : dtype) (a : atype) : atype := if is_union t then a else AMulti [a].
Definition wrap_member (t : dtype) (a : atype) : atype := if member_paren t then wrap_one t a else a.
Definition wrap_sub (t : dtype) (a : atype) : atype := if sub_paren t then AMulti [wrap_one t a] else wrap_one t a.

Section Embed.
  (* the printer whose text is read: `(T[])[]` is ArrayType{MultiType{ArrayType T}}, `T[][]` is ArrayType{ArrayType T} *)
  Variable nested : bool.

Definition wrap_item (t : dtype) (a : atype) : atype := if item_paren nested t then wrap_one t a else a.

(* what parserSingleType returns for the bare (unparenthesised) text of t; for a union: what parserOneType returns *)
Fixpoint embed_bare (t : dtype) : atype :=
  match t with
  | DName n => ANormal n true
  | DConst s q => AConst s q []
  | DArray i => AArray (wrap_item i (embed_bare i))
  | DTable0 => ATableEmpty
  | DTable k v => ATable (wrap_sub k (embed_bare k)) (wrap_sub v (embed_bare v))
  | DFun ps rs =>
    AFun (map (fun p : bytes * bool * option dtype => match p with
                        | (n, o, ot) =>
                          (n, o, match ot with
                                 | Some t => wrap_sub t (embed_bare t)
                                 | None => ANormal [97; 110; 121] false      (* "any", not coloured *)
                                 end)
                        end) ps)
         (map (fun r => wrap_sub r (embed_bare r)) rs)
  | DUnion ts => AMulti (map (fun m => wrap_member m (embed_bare m)) ts)
  end.

Definition embed_one (t : dtype) : atype := wrap_one t (embed_bare t).   (* a "one type" position, bare text *)
Definition embed_sub (t : dtype) : atype := wrap_sub t (embed_bare t).   (* a "one type" position, show_sub text *)

Fixpoint embed_tlist {A B} (mk : A -> atype -> B) (ty : A -> dtype) (l : list A) : list B :=
  match l with
  | [] => []
  | a :: r =>
    match r with
    | [] => [mk a (embed_one (ty a))]
    | _ => mk a (embed_sub (ty a)) :: embed_tlist mk ty r
    end
  end.

Definition comment_of (c : option bytes) : bytes := match c with Some x => x | None => [] end.

Definition embed_stat (s : dstat) : astat :=
  match s with
  | DSType items c =>
    SType (embed_tlist (fun (it : bool * bool * dtype) a => (fst (fst it), snd (fst it), a)) (fun it => snd it) items)
          (comment_of c)
  | DSAlias n t c => SAlias n (Some (embed_one t)) (comment_of c)
  | DSClass n ps c => SClass n ps (comment_of c)
  | DSOverload ps rs c => SOverload (embed_bare (DFun ps rs)) (comment_of c)
  | DSField sc colon n t c =>
    SField (match sc with Some k => k | None => 0 end) (if colon then 1 else 0) n (embed_one t) (comment_of c)
  | DSParam isc n opt t c => SParam isc opt n (embed_one t) (comment_of c)
  | DSReturn items c =>
    SReturn (embed_tlist (fun (it : dtype * bool) a => (a, snd it)) (fun it => fst it) items) (comment_of c)
  | DSGeneric items c =>
    SGeneric (map (fun it : bytes * option bytes => (fst it, match snd it with Some p => p | None => [] end)) items)
             (comment_of c)
  | DSVararg t c => SVararg (embed_one t) (comment_of c)
  | DSEnum st c => SEnum (if st then 1 else 2) (comment_of c)
  end.
End Embed.

(* the trees the canonical / the plain text must be read as *)
Definition embed_type : dtype -> atype := embed_one true.
Definition embed_type_plain : dtype -> atype := embed_one false.
Definition embed_line : dstat -> astat := embed_stat true.
Definition embed_line_plain : dstat -> astat := embed_stat false.

(* ------------------------------------------------------------------ reading an implementation type back *)
(* forgets singleton MultiTypes, colouring and constant comments; a parameter typed by the uncoloured default
   "any" is a parameter without a type *)
Fixpoint abs (a : atype) : dtype :=
  match a with
  | ANormal n _ => DName n
  | AMulti ts => match ts with [x] => abs x | _ => DUnion (map abs ts) end
  | AArray i => DArray (abs i)
  | ATableEmpty => DTable0
  | ATable k v => DTable (abs k) (abs v)
  | AFun ps rs =>
    DFun (map (fun p : bytes * bool * atype => match p with
                        | (n, o, t) =>
                          (n, o, match t with
                                 | ANormal s false => if beq_bytes s [97; 110; 121] then None else Some (abs t)
                                 | _ => Some (abs t)
                                 end)
                        end) ps)
         (map abs rs)
  | AConst n q _ => DConst n q
  end.

(* union of unions = the flat union (used only to compare types in the printer leg of the check) *)
Fixpoint flat (t : dtype) : dtype :=
  match t with
  | DArray i => DArray (flat i)
  | DTable k v => DTable (flat k) (flat v)
  | DFun ps rs =>
    DFun (map (fun p : bytes * bool * option dtype => match p with
                        | (n, o, ot) => (n, o, match ot with Some t => Some (flat t) | None => None end)
                        end) ps) (map flat rs)
  | DUnion ts =>
    let ms := flat_map (fun m => match flat m with DUnion xs => xs | y => [y] end) ts in
    match ms with [x] => x | _ => DUnion ms end
  | _ => t
  end.

(* ------------------------------------------------------------------ class predicates of the known (and repaired) findings *)
Fixpoint has_nested_array (t : dtype) : bool :=
  match t with
  | DArray i => is_array i || has_nested_array i
  | DTable k v => has_nested_array k || has_nested_array v
  | DFun ps rs =>
    existsb (fun p : bytes * bool * option dtype => match p with (_, _, Some t) => has_nested_array t | _ => false end) ps
    || existsb has_nested_array rs
  | DUnion ts => existsb has_nested_array ts
  | _ => false
  end.

Definition stat_types (s : dstat) : list dtype :=
  match s with
  | DSType items _ => map (fun it => snd it) items
  | DSAlias _ t _ | DSField _ _ _ t _ | DSParam _ _ _ t _ | DSVararg t _ => [t]
  | DSOverload ps rs _ => [DFun ps rs]
  | DSReturn items _ => map (fun it => fst it) items
  | _ => []
  end.
Definition stat_nested_array (s : dstat) : bool := existsb has_nested_array (stat_types s).

(* guards of the implementation-printer round trip (C16_impl_printer_partial) *)
Fixpoint has_fun (t : dtype) : bool :=
  match t with
  | DFun _ _ => true
  | DArray i => has_fun i
  | DTable k v => has_fun k || has_fun v
  | DUnion ts => existsb has_fun ts
  | _ => false
  end.
Fixpoint has_const (t : dtype) : bool :=
  match t with
  | DConst _ _ => true
  | DArray i => has_const i
  | DTable k v => has_const k || has_const v
  | DFun ps rs =>
    existsb (fun p : bytes * bool * option dtype => match p with (_, _, Some t) => has_const t | _ => false end) ps || existsb has_const rs
  | DUnion ts => existsb has_const ts
  | _ => false
  end.
(* an array whose item needs parentheses (union / fun / array): the witness class of the repaired C16-printer-union *)
Fixpoint has_paren_item (t : dtype) : bool :=
  match t with
  | DArray i => item_paren true i || has_paren_item i
  | DTable k v => has_paren_item k || has_paren_item v
  | DFun ps rs =>
    existsb (fun p : bytes * bool * option dtype => match p with (_, _, Some t) => has_paren_item t | _ => false end) ps
    || existsb has_paren_item rs
  | DUnion ts => existsb has_paren_item ts
  | _ => false
  end.
Fixpoint has_union_under_array (t : dtype) : bool :=
  match t with
  | DArray i => is_union i || has_union_under_array i
  | DTable k v => has_union_under_array k || has_union_under_array v
  | DFun ps rs =>
    existsb (fun p : bytes * bool * option dtype => match p with (_, _, Some t) => has_union_under_array t | _ => false end) ps
    || existsb has_union_under_array rs
  | DUnion ts => existsb has_union_under_array ts
  | _ => false
  end.
(* a union directly inside a union (printed flat by TypeConvertStr) *)
Fixpoint has_union_in_union (t : dtype) : bool :=
  match t with
  | DArray i => has_union_in_union i
  | DTable k v => has_union_in_union k || has_union_in_union v
  | DFun ps rs =>
    existsb (fun p : bytes * bool * option dtype => match p with (_, _, Some t) => has_union_in_union t | _ => false end) ps
    || existsb has_union_in_union rs
  | DUnion ts => existsb is_union ts || existsb has_union_in_union ts
  | _ => false
  end.

(* ------------------------------------------------------------------ fragments: line isolation as a spec *)
From LH Require Import Model.AnnParser.

(* a continuation line of a multi-line alias: ---| 'x' # comment *)
Definition is_cont_line (ln : N * bytes) : bool := test_prefix s_alias_head (snd ln).

(* a unit = a line together with the continuation lines that follow it (leading continuation lines of a
   fragment form a unit of their own) *)
Fixpoint units (ls : list (N * bytes)) : list (list (N * bytes)) :=
  match ls with
  | [] => []
  | ln :: r =>
    match units r with
    | u :: us => if match u with h :: _ => is_cont_line h | [] => false end then (ln :: u) :: us else [ln] :: u :: us
    | [] => [[ln]]
    end
  end.

Definition frag_empty : frag := mkFrag [] [] [].
Definition frag_app (a b : frag) : frag :=
  mkFrag (f_stats a ++ f_stats b) (f_lines a ++ f_lines b) (f_errs a ++ f_errs b).

(* what clearEmpytAlias should do: drop the statement together with its line *)
Definition clear_aligned (fr : frag) : frag :=
  let ps := filter (fun p => negb (empty_alias (fst p))) (combine (f_stats fr) (f_lines fr)) in
  mkFrag (map fst ps) (map snd ps) (f_errs fr).

Definition parse_unit_spec (u : list (N * bytes)) : Res frag :=
  do fr <- frag_loop frag_empty u; Ok (clear_aligned fr).

(* the property: every unit is read on its own; results are concatenated in order *)
Fixpoint parse_units_spec (us : list (list (N * bytes))) : Res frag :=
  match us with
  | [] => Ok frag_empty
  | u :: r => do a <- parse_unit_spec u; do b <- parse_units_spec r; Ok (frag_app a b)
  end.
Definition parse_fragment_spec (ls : list (N * bytes)) : Res frag := parse_units_spec (units ls).

(* class predicate of the fragment-level finding *)
(* (a) a unit whose head line yields no statement but which has continuation lines: they attach to an
       EARLIER alias (the malformed / foreign head line does not shield its neighbours) *)
Definition head_yields_stat (u : list (N * bytes)) : bool :=
  match u with
  | [] => false
  | h :: _ => match frag_step frag_empty h with Ok fr => negb (is_nil (f_stats fr)) | _ => false end
  end.
Definition unit_shielded (u : list (N * bytes)) : bool :=
  head_yields_stat u || match u with _ :: _ :: _ => false | _ => true end.
Definition frag_cont_after_bad (ls : list (N * bytes)) : bool := negb (forallb unit_shielded (units ls)).
(* an alias statement without a type is read (and later removed together with its line): the witness class of the
   repaired C16-alias-lines *)
Definition frag_has_empty_alias (ls : list (N * bytes)) : bool :=
  match frag_loop frag_empty ls with
  | Ok fr => existsb empty_alias (f_stats fr)
  | _ => false
  end.
