(* Declarative side of C18.
   (1) What the file index must answer: it is a function of the SET of files currently present.
   (2) The documented module mapping: separator '.' or '/' -> directories; name.lua, then name/init.lua;
       native name.so tolerated; a candidate matches a workspace file when it is a whole-component path
       suffix of it; "found" iff some workspace file matches. *)
From Coq Require Import List NArith Bool.
From LH Require Import Base.Bytes Model.FileIndex Model.ModulePath.
Import ListNotations.
Local Open Scope N_scope.

(* ---- (1) the file set after a history, and the index of a file set ---- *)
Definition fset := list (list N).                       (* membership semantics only *)
Definition fmem (f : list N) (s : fset) : bool := existsb (beq_bytes f) s.
Definition fadd (f : list N) (s : fset) : fset := f :: s.
Definition fdel (f : list N) (s : fset) : fset := filter (fun g => negb (beq_bytes f g)) s.

Definition files_step (s : fset) (o : op) : fset :=
  match o with Ins p => fadd p s | Rem p => fdel p s end.
Definition files_after (ops : list op) : fset := fold_left files_step ops [].

(* every file ever created, deletions ignored *)
Definition ever_step (s : fset) (o : op) : fset :=
  match o with Ins p => fadd p s | Rem _ => s end.
Definition ever_inserted (ops : list op) : fset := fold_left ever_step ops [].

(* index_of s: name -> path -> pre. sfx says what "the suffix" of a name is (Model/FileIndex.v suffix_index):
   false = everything from the first '.', true = the final ".lua" (any other file type: from the first '.' of the
   file name) *)
Definition spec_name (sfx : bool) (s : fset) (name f : list N) : option (list N) :=
  if fmem f s && beq_bytes (last_seg f) name then Some (complete_pre_fx sfx f) else None.
Definition spec_pre (sfx : bool) (s : fset) (p f : list N) : option (list N) :=
  if fmem f s then
    match suffix_index sfx (last_seg f) with
    | Some i => if beq_bytes (firstn i (last_seg f)) p then Some (complete_pre_fx sfx f) else None
    | None => None
    end
  else None.

(* the index state st answers exactly like index_of s *)
Definition index_is (sfx : bool) (st : idx) (s : fset) : Prop :=
  forall name f, aget f (get_name_map st name) = spec_name sfx s name f
              /\ aget f (get_pre_map st name) = spec_pre sfx s name f.

(* guards / class predicates of the history part *)
(* absolute path: starts with '/' (every path the server handles does) *)
Definition abs_path (p : list N) : bool := match p with x :: _ => x =? slash | [] => false end.
Definition op_path (o : op) : list N := match o with Ins p => p | Rem p => p end.
Definition abs_ops (ops : list op) : bool := forallb (fun o => abs_path (op_path o)) ops.
Definition no_removes (ops : list op) : bool :=
  forallb (fun o => match o with Ins _ => true | Rem _ => false end) ops.
(* class of the finding C18-remove-key: some file that was created is gone now *)
Definition stale_remove (ops : list op) : bool :=
  existsb (fun f => negb (fmem f (files_after ops))) (ever_inserted ops).

(* ---- (2) documented mapping ---- *)
Definition mod_path (m : list N) : list N := replace_byte dot slash m.   (* both separators -> '/' *)
Definition doc_lua (m : list N) : list N := mod_path m ++ lua_ext.
Definition doc_init (m : list N) : list N := mod_path m ++ init_tail.
Definition doc_so (m : list N) : list N := mod_path m ++ so_ext.

(* candidate c is a whole-component path suffix of workspace file g *)
Definition path_suffix (c g : list N) : bool := is_suffix (slash :: c) g.

Definition matches_doc (m g : list N) : bool := path_suffix (doc_lua m) g || path_suffix (doc_init m) g.
Definition doc_found (m : list N) (files : fset) : bool := existsb (matches_doc m) files.

(* the files the documented mapping allows `require m` to load: name.lua first, then name/init.lua *)
Definition doc_candidates (m : list N) (files : fset) : fset :=
  match filter (path_suffix (doc_lua m)) files with
  | [] => filter (path_suffix (doc_init m)) files
  | l => l
  end.

(* dofile / loadfile / suffix-style imports name the file literally *)
Definition lit_candidates (r : list N) (files : fset) : fset := filter (path_suffix r) files.

(* ---- what the documented mapping demands of CheckReferFile (same configuration switches as the code:
        ignore lists, exact mode = relative to the workspace root only) ---- *)
Section SpecResolve.
  Variable disk : list N -> bool.
  Variable cfg : rcfg.
  Variable files : fset.               (* the workspace's Lua files *)

  Definition spec_refer (k : rkind) (refer : list N) : routcome :=
    let s := remove_pre_str refer in
    if mem_bytes s (ignore_refer cfg) then skipped else
    match k with
    | KSuffix =>
      let p := complete_path (main_dir cfg) s in
      if disk p then found [p]
      else if exact_mode cfg then not_found
      else match lit_candidates s files with [] => not_found | l => found l end
    | _ =>
      if (match k with KRequire => true | _ => false end) && mem_bytes s (ignore_modules cfg) then skipped else
      if disk (complete_path (main_dir cfg) (doc_so s)) then skipped else
      if exact_mode cfg then
        if disk (complete_path (main_dir cfg) (doc_lua s)) then found [complete_path (main_dir cfg) (doc_lua s)]
        else if disk (complete_path (main_dir cfg) (doc_init s)) then found [complete_path (main_dir cfg) (doc_init s)]
        else not_found
      else match doc_candidates s files with [] => not_found | l => found l end
    end.
End SpecResolve.

(* the code's outcome (a set of possible answers) conforms to the demanded outcome (the set of allowed answers) *)
Definition subset_bytes (a b : list (list N)) : bool := forallb (fun x => mem_bytes x b) a.
Definition conforms (m s : routcome) : bool :=
  Bool.eqb (r_valid m) (r_valid s) && Bool.eqb (r_err6 m) (r_err6 s)
  && subset_bytes (r_resolved m) (r_resolved s) && Bool.eqb (is_nil (r_resolved m)) (is_nil (r_resolved s)).

(* guards / class predicates of the resolution part *)
(* every workspace file is a ".lua" file: the domain of the documented mapping (true of every server without
   file-type associations: the directory scan takes *.lua only) *)
Definition all_lua (files : fset) : bool := forallb (is_suffix lua_ext) files.
Definition non_lua (files : fset) : bool := negb (all_lua files).

(* the six module names that occur inside the text "lua" (l, lu, lua, u, ua, a): strings.LastIndex finds them inside
   the suffix of name.lua, so the score of a candidate is computed from another place than for name.lua; excluded by
   C18_features_agree_ties (ties between equally named modules) *)
Definition lua_overlap (mp : list N) : bool :=
  existsb (beq_bytes mp) [[108]; [108; 117]; [108; 117; 97]; [117]; [117; 97]; [97]].

(* classes of the findings repaired by fixes/C18-dotted-path.diff and fixes/C18-dofile-no-suffix.diff (kept for the
   theorems about the code before them) *)
(* the only '.' of the whole path is the one of a final ".lua" *)
Definition simple_lua (g : list N) : bool :=
  match index_byte dot g with Some i => beq_bytes (skipn i g) lua_ext | None => false end.
Definition odd_name (files : fset) : bool := existsb (fun g => negb (simple_lua g)) files.
Definition literal_no_dot (k : rkind) (refer : list N) : bool :=
  match k with KSuffix => negb (has_dot (remove_pre_str refer)) | _ => false end.
