(* C15 - declarative specification: which members an annotated type gives.

   A type name stands for ALL its ---@class / ---@alias declarations in the workspace (classes may be split
   across files).  `reach` is the reflexive-transitive closure of "has parent" and "alias expands to a name";
   the members of a type are the ---@field names of every class declaration of every reachable name.
   Nothing here knows about files, lines, visiting order or visited sets. *)
From Coq Require Import List NArith Bool Relations.
From LH Require Import Base.Res Model.Classes.
Import ListNotations.
Local Open Scope N_scope.

(* all declarations of a name; the builtin word `any` names no class *)
Definition sdefs (tm : tmap) (n : name) : list def :=
  if n =? n_any then [] else global_defs tm n.

(* names a declaration refers to: the parents of a class, the simple names of an alias's type *)
Definition refs_of (d : def) : list name :=
  match d_kind d with DClass ps _ => ps | DAlias t => normal_names t end.

Definition succs (tm : tmap) (n : name) : list name := flat_map refs_of (sdefs tm n).

Definition edge (tm : tmap) (a b : name) : Prop := In b (succs tm a).
Definition reach (tm : tmap) : name -> name -> Prop := clos_refl_trans name (edge tm).

(* a class declaration the type t gives access to *)
Definition reachable_def (tm : tmap) (t : ty) (d : def) : Prop :=
  exists n0 n, In n0 (normal_names t) /\ reach tm n0 n /\ In d (sdefs tm n).

Definition members_spec (tm : tmap) (t : ty) (x : name) : Prop :=
  exists d, reachable_def tm t d /\ In x (map f_name (class_fields d)).

(* ---------- executable version (worklist closure); proved equal to the above in Proofs/ClassesSpecExec.v ---------- *)

Fixpoint close (tm : tmap) (fuel : nat) (todo seen : list name) : option (list name) :=
  match todo with
  | [] => Some seen
  | n :: rest =>
      match fuel with
      | O => None
      | S k => if mem n seen then close tm k rest seen
               else close tm k (succs tm n ++ rest) (n :: seen)
      end
  end.

Definition close_fuel (tm : tmap) (t : ty) : nat :=
  S (length (normal_names t) + fold_right (fun d a => S (length (refs_of d)) + a)%nat O tm).

Definition reach_exec (tm : tmap) (t : ty) : option (list name) :=
  close tm (close_fuel tm t) (normal_names t) [].

Definition names_members (tm : tmap) (R : list name) : list name :=
  flat_map (fun n => flat_map (fun d => map f_name (class_fields d)) (sdefs tm n)) R.

Definition members_exec (tm : tmap) (t : ty) : option (list name) :=
  match reach_exec tm t with Some R => Some (names_members tm R) | None => None end.

(* where go-to-definition on member k may land: any ---@field k line of a reachable class *)
Definition define_spec (tm : tmap) (t : ty) (k : name) (loc : N * N) : Prop :=
  exists d fl, reachable_def tm t d /\ In fl (class_fields d) /\ f_name fl = k /\ loc = (d_file d, f_line fl).

Definition define_exec (tm : tmap) (t : ty) (k : name) : option (list (N * N)) :=
  match reach_exec tm t with
  | Some R => Some (flat_map (fun n => flat_map (fun d =>
                      map (fun fl => (d_file d, f_line fl)) (filter (fun fl => f_name fl =? k) (class_fields d)))
                      (sdefs tm n)) R)
  | None => None
  end.

(* ---------- element / value / key type: big-step semantics of "look through aliases" ---------- *)
(* first union member that yields something; a name yields what its (first) alias declaration yields;
   derivations are finite, so a cyclic alias chain that is actually followed has NO result here. *)
Inductive elem_rel (leaf : ty -> option ty) (tm : tmap) : ty -> N -> option ty -> Prop :=
| ER_leaf t f :
    (forall n, t <> TName n) -> (forall l, t <> TMulti l) -> elem_rel leaf tm t f (leaf t)
| ER_alias n f d t' r :
    first_alias (elem_lookup tm f n) = Some (d, t') -> elem_rel leaf tm t' (d_file d) r ->
    elem_rel leaf tm (TName n) f r
| ER_noalias n f :
    first_alias (elem_lookup tm f n) = None -> elem_rel leaf tm (TName n) f None
| ER_nil f : elem_rel leaf tm (TMulti []) f None
| ER_hit x r f e :
    elem_rel leaf tm x f (Some e) -> elem_rel leaf tm (TMulti (x :: r)) f (Some e)
| ER_skip x r f res :
    elem_rel leaf tm x f None -> elem_rel leaf tm (TMulti r) f res -> elem_rel leaf tm (TMulti (x :: r)) f res.

(* alias declarations are stratified: every name an alias's type mentions at union level ranks below the alias *)
Fixpoint union_names (t : ty) : list name :=
  match t with
  | TName n => [n]
  | TMulti l => (fix go (l : list ty) : list name :=
                   match l with [] => [] | x :: r => union_names x ++ go r end) l
  | _ => []
  end.

Definition acyclic_alias (tm : tmap) : Prop :=
  exists rank : name -> nat,
    forall d t, In d tm -> d_kind d = DAlias t ->
      forall m, In m (union_names t) -> (rank m < rank (d_name d))%nat.

(* what indexing (`v[i]`, `v.k` for a non-member k, a pairs/ipairs value) gives: array element, else table value.
   Executable through the visited-set variant, which is total (ClassesElem.v: agrees with elem_rel wherever
   elem_rel has a result). *)
Definition index_exec (tm : tmap) (t : ty) (f : N) : option ty :=
  match resolve_fx leaf_arr tm (fuel_of tm) [] t f with
  | Ok (Some e) => Some e
  | _ => match resolve_fx leaf_val tm (fuel_of tm) [] t f with Ok (Some e) => Some e | _ => None end
  end.

Definition pairs_key_exec (tm : tmap) (t : ty) (f : N) : option ty :=
  match resolve_fx leaf_arr tm (fuel_of tm) [] t f with
  | Ok (Some _) => Some (TName 3)
  | _ => match resolve_fx leaf_key tm (fuel_of tm) [] t f with Ok (Some e) => Some e | _ => None end
  end.

(* ---------- guard of C15_members_eq_closure ---------- *)
(* The code looks a name up in the file of the referring annotation first ("best" single declaration of that
   file) and only otherwise in the workspace.  That is invisible unless a name with several declarations is
   referred to from a file that declares it; `shadow_free` excludes exactly that. *)
Definition multi (tm : tmap) (n : name) : bool :=
  match global_defs tm n with _ :: _ :: _ => true | _ => false end.
Definition defined_in (tm : tmap) (f : N) (n : name) : bool :=
  match file_defs tm f n with [] => false | _ => true end.
Definition ref_ok (tm : tmap) (f : N) (n : name) : bool := negb (multi tm n && defined_in tm f n).

Definition shadow_free (tm : tmap) (t : ty) (f : N) : bool :=
  forallb (ref_ok tm f) (normal_names t) &&
  forallb (fun d => forallb (ref_ok tm (d_file d)) (refs_of d)) tm.

(* definitions are distinct objects (pointer identity in repeatTypeList) *)
Definition wf_tm (tm : tmap) : Prop := NoDup (map d_id tm).

(* ---------- member prefixes of any length: what `v<path>` denotes ---------- *)
(* One step of a prefix is `.k` (Some k) or `[i]` (None).  `.k` selects the type of A ---@field k line of a class
   declaration of the closure, read in the file of that declaration (several declarations of k: any of them);
   when the closure has no member k, and for `[i]`, the step goes to the element type (array element first, else
   table value), read in the same place; no element type: the prefix denotes nothing. *)
Definition no_member (tm : tmap) (t : ty) (key : option name) : Prop :=
  match key with Some k => forall loc, ~ define_spec tm t k loc | None => True end.

Inductive path_rel (tm : tmap) : sym -> list (option name) -> option sym -> Prop :=
| PR_nil s : path_rel tm s [] (Some s)
| PR_member t f l k d fl rest r :
    reachable_def tm t d -> In fl (class_fields d) -> f_name fl = k ->
    path_rel tm (f_ty fl, d_file d, d_line d) rest r ->
    path_rel tm (t, f, l) (Some k :: rest) r
| PR_index t f l key e rest r :
    no_member tm t key -> index_exec tm t f = Some e ->
    path_rel tm (e, f, l) rest r ->
    path_rel tm (t, f, l) (key :: rest) r
| PR_stuck t f l key rest :
    no_member tm t key -> index_exec tm t f = None ->
    path_rel tm (t, f, l) (key :: rest) None.

(* executable version of the member step of path_rel: every (field type, file, line) the step `.k` may select *)
Definition member_step_spec (tm : tmap) (t : ty) (k : name) (s : sym) : Prop :=
  exists d fl, reachable_def tm t d /\ In fl (class_fields d) /\ f_name fl = k /\ s = (f_ty fl, d_file d, d_line d).

Definition member_step_exec (tm : tmap) (t : ty) (k : name) : option (list sym) :=
  match reach_exec tm t with
  | Some R => Some (flat_map (fun n => flat_map (fun d =>
                      map (fun fl => (f_ty fl, d_file d, d_line d)) (filter (fun fl => f_name fl =? k) (class_fields d)))
                      (sdefs tm n)) R)
  | None => None
  end.
