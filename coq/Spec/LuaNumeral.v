(* Numerals of the supported language (property C03): Lua 5.3/5.4 reference manual 3.1 plus LuaJIT's
   64-bit integer suffixes.

     decimal   ::= digits [ '.' digits0 ] | '.' digits       with an optional exponent  [eE] [+-] digits
     hex       ::= 0[xX] ( hexdigits [ '.' hexdigits0 ] | '.' hexdigits )   optional exponent  [pP] [+-] digits
     LuaJIT    ::= ( digits | 0[xX] hexdigits ) ( LL | ULL )                (letters in any case)

   "A numeric constant with a radix point or an exponent denotes a float; otherwise, if its value fits in an
   integer or it is a hexadecimal constant, it denotes an integer; otherwise (a decimal integer numeral that
   overflows) it denotes a float.  Hexadecimal numerals with neither a radix point nor an exponent always
   denote an integer value; if the value overflows, it wraps around."  (manual 3.1)
   LuaJIT suffixes (semantics fixed by lj_strscan.c only, not by a manual): a suffixed decimal literal is read
   as an unsigned 64-bit number and stored in two's complement; one that does not fit in 64 bits is malformed
   (range condition of D_jit_dec).  A suffixed hex literal is specified here to wrap like an unsuffixed one
   (LuaJIT itself rejects more than 16 significant hex digits; that refinement is deliberately not part of
   this spec - it only concerns literals that already lose digits).

   Letters are case-insensitive: a text is a numeral iff its ASCII-lower-cased form is (DenotesLc).
   Float VALUES are not specified (only "denotes a float"). *)
From Coq Require Import List NArith ZArith Bool.
Import ListNotations.
Local Open Scope N_scope.

Inductive numeral_value := IntegerValue (v : Z) | FloatValue.

Definition num_lc (c : N) : N := if (65 <=? c) && (c <=? 90) then c + 32 else c.      (* 'A'..'Z' -> 'a'..'z' *)
Definition num_digit (c : N) : bool := (48 <=? c) && (c <=? 57).                       (* '0'..'9' *)
Definition num_hexdigit (c : N) : bool := num_digit c || ((97 <=? c) && (c <=? 102)).  (* + 'a'..'f' *)
Definition num_digit_val (c : N) : N := if num_digit c then c - 48 else c - 87.        (* 'a' = 97 is 10 *)
(* value of a digit string, most significant digit first *)
Definition num_value (base : N) (ds : list N) : N :=
  fold_left (fun acc c => acc * base + num_digit_val c) ds 0.

Definition max_int64 : N := 9223372036854775807.
Definition two64 : N := 18446744073709551616.
(* the 64-bit two's-complement integer congruent to z *)
Definition int64_of (z : Z) : Z :=
  ((z + 9223372036854775808) mod 18446744073709551616 - 9223372036854775808)%Z.

(* one or more digits *)
Definition Digits1 (isd : N -> bool) (ds : list N) : Prop := ds <> [] /\ forallb isd ds = true.

(* digits with an optional radix point ('.' = 46) anywhere, at least one digit; the flag says "has a point" *)
Inductive Mantissa (isd : N -> bool) : list N -> bool -> Prop :=
| Mant_plain a : Digits1 isd a -> Mantissa isd a false
| Mant_point a b : forallb isd a = true -> forallb isd b = true -> a ++ b <> [] ->
                   Mantissa isd (a ++ 46 :: b) true.

(* optional exponent: marker, optional sign ('+' = 43, '-' = 45), decimal digits; the flag says "present" *)
Inductive Exponent (mark : N) : list N -> bool -> Prop :=
| Exp_absent : Exponent mark [] false
| Exp_present sg ds : sg = [] \/ sg = [43] \/ sg = [45] -> Digits1 num_digit ds ->
                      Exponent mark (mark :: sg ++ ds) true.

Definition JitSuffix (suf : list N) : Prop := suf = [108; 108] \/ suf = [117; 108; 108].   (* ll | ull *)

(* what a lower-cased text denotes; '0' = 48, 'x' = 120, 'e' = 101, 'p' = 112 *)
Inductive DenotesLc : list N -> numeral_value -> Prop :=
| D_dec_int ds :
    Digits1 num_digit ds -> num_value 10 ds <= max_int64 ->
    DenotesLc ds (IntegerValue (Z.of_N (num_value 10 ds)))
| D_dec_int_overflow ds :
    Digits1 num_digit ds -> max_int64 < num_value 10 ds ->
    DenotesLc ds FloatValue
| D_dec_float m pt e ex :
    Mantissa num_digit m pt -> Exponent 101 e ex -> pt || ex = true ->
    DenotesLc (m ++ e) FloatValue
| D_hex_int hs :
    Digits1 num_hexdigit hs ->
    DenotesLc (48 :: 120 :: hs) (IntegerValue (int64_of (Z.of_N (num_value 16 hs))))
| D_hex_float m pt e ex :
    Mantissa num_hexdigit m pt -> Exponent 112 e ex -> pt || ex = true ->
    DenotesLc (48 :: 120 :: m ++ e) FloatValue
| D_jit_dec ds suf :
    Digits1 num_digit ds -> JitSuffix suf -> num_value 10 ds < two64 ->
    DenotesLc (ds ++ suf) (IntegerValue (int64_of (Z.of_N (num_value 10 ds))))
| D_jit_hex hs suf :
    Digits1 num_hexdigit hs -> JitSuffix suf ->
    DenotesLc (48 :: 120 :: hs ++ suf) (IntegerValue (int64_of (Z.of_N (num_value 16 hs)))).

Definition Denotes (s : list N) (v : numeral_value) : Prop := DenotesLc (map num_lc s) v.
Definition Numeral (s : list N) : Prop := exists v, Denotes s v.
Definition FloatNumeral (s : list N) : Prop := Denotes s FloatValue.
Definition IntegerNumeral (s : list N) (v : Z) : Prop := Denotes s (IntegerValue v).

(* ---------- the same, executable (proved equivalent in Proofs/NumberSpecProofs.v: spec_value_iff) ---------- *)
Fixpoint num_span (p : N -> bool) (s : list N) : list N * list N :=
  match s with
  | c :: r => if p c then let (a, b) := num_span p r in (c :: a, b) else ([], s)
  | [] => ([], [])
  end.
Definition num_nonempty (s : list N) : bool := match s with [] => false | _ => true end.
Definition num_digits1 (isd : N -> bool) (s : list N) : bool := num_nonempty s && forallb isd s.

(* "" or mark [+-] digits *)
Definition num_exponent_ok (mark : N) (s : list N) : bool :=
  match s with
  | [] => true
  | c :: r => (c =? mark) &&
              num_digits1 num_digit (match r with d :: r' => if (d =? 43) || (d =? 45) then r' else r | [] => r end)
  end.
(* mantissa followed by an optional exponent (this includes the plain integers) *)
Definition num_mant_exp (isd : N -> bool) (mark : N) (s : list N) : bool :=
  let (a, r1) := num_span isd s in
  match r1 with
  | c :: r => if c =? 46
              then let (b, r2) := num_span isd r in (num_nonempty a || num_nonempty b) && num_exponent_ok mark r2
              else num_nonempty a && num_exponent_ok mark r1
  | [] => num_nonempty a
  end.
(* text without its ll / ull suffix *)
Definition num_strip_jit (s : list N) : option (list N) :=
  match rev s with
  | a :: b :: r =>
    if (a =? 108) && (b =? 108)
    then match r with
         | c :: r' => if c =? 117 then Some (rev r') else Some (rev r)
         | [] => Some []
         end
    else None
  | _ => None
  end.
Definition num_hex_body (s : list N) : option (list N) :=          (* the text after "0x" *)
  match s with
  | a :: b :: r => if (a =? 48) && (b =? 120) then Some r else None
  | _ => None
  end.
Definition num_is_hex_int (s : list N) : bool :=
  match num_hex_body s with Some r => num_digits1 num_hexdigit r | None => false end.
Definition num_hex_int_value (s : list N) : numeral_value :=
  IntegerValue (int64_of (Z.of_N (num_value 16 (match num_hex_body s with Some r => r | None => [] end)))).

Definition spec_value_lc (t : list N) : option numeral_value :=
  if num_digits1 num_digit t then
    (if num_value 10 t <=? max_int64 then Some (IntegerValue (Z.of_N (num_value 10 t))) else Some FloatValue)
  else if num_is_hex_int t then Some (num_hex_int_value t)
  else if num_mant_exp num_digit 101 t
          || match num_hex_body t with Some r => num_mant_exp num_hexdigit 112 r | None => false end
  then Some FloatValue
  else match num_strip_jit t with
       | Some i =>
         if num_digits1 num_digit i then
           (if num_value 10 i <? two64 then Some (IntegerValue (int64_of (Z.of_N (num_value 10 i)))) else None)
         else if num_is_hex_int i then Some (num_hex_int_value i)
         else None
       | None => None
       end.

Definition spec_value (s : list N) : option numeral_value := spec_value_lc (map num_lc s).
