(* C20 - the documented patterns (docs/manual/config.md, types 5 7 8 13 14 15 16; package.nls.json for 19 20 21)
   as predicates on nodes of the syntax tree, independent of the analysis code.

   "The same" (14, 19, 20) = structural equality modulo Locs and grouping parentheses, between expressions that
   contain no function / table constructor (a constructor yields a fresh value each time it is evaluated).
   Float literals are the same when the oracle [fclose] says so (the value of a float literal is not part of the
   model AST).  The parentheses of `(f())` and `(...)` are no grouping parentheses: they adjust a value list to one
   value (visibly so in the last argument of a call, the last field of a constructor, ...); they are kept, once
   (`((f()))` = `(f())`).

   Every pattern comes as a Prop (readable) and as a boolean / list function (extracted, drives the `spec` column of
   the correspondence leg); Proofs/PatternsFile.v shows that they agree. *)
From Coq Require Import List NArith ZArith Bool Arith.
From LH Require Import Base.Bytes Model.Lexer Model.Ast.
Import ListNotations.
Local Open Scope N_scope.

(* the Loc every expression node carries *)
Definition exp_loc (e : exp) : loc :=
  match e with
  | ENil l | EBad l | ETrue l | EFalse l | EVararg l | EInt _ l | EFloat _ l | EStr _ l | EUnop _ _ l
  | EBinop _ _ _ l | ETable _ _ l | EFunc _ _ _ _ _ l _ _ | EName _ l | EParens _ l | EIndex _ _ l
  | ECall _ _ _ l => l
  end.
(* the source range from the start of the first to the end of the second *)
Definition span (a b : loc) : loc := mkLoc (sl a) (sc a) (el b) (ec b).

(* ------------------------------------------------------------------ erasing every Loc *)
Definition erase_name (nm : option (list N * loc)) : option (list N * loc) :=
  match nm with Some (s, _) => Some (s, zero_loc) | None => None end.
Fixpoint erase_exp (e : exp) : exp :=
  match e with
  | ENil _ => ENil zero_loc
  | EBad _ => EBad zero_loc
  | ETrue _ => ETrue zero_loc
  | EFalse _ => EFalse zero_loc
  | EVararg _ => EVararg zero_loc
  | EInt v _ => EInt v zero_loc
  | EFloat t _ => EFloat t zero_loc
  | EStr s _ => EStr s zero_loc
  | EUnop o x _ => EUnop o (erase_exp x) zero_loc
  | EBinop o a b _ => EBinop o (erase_exp a) (erase_exp b) zero_loc
  | ETable ks vs _ =>
    ETable (map (fun o => match o with Some k => Some (erase_exp k) | None => None end) ks) (map erase_exp vs) zero_loc
  | EFunc cls fname pars plocs b _ va colon =>
    EFunc cls fname pars (map (fun _ => zero_loc) plocs) (erase_block b) zero_loc va colon
  | EName n _ => EName n zero_loc
  | EParens x _ => EParens (erase_exp x) zero_loc
  | EIndex p k _ => EIndex (erase_exp p) (erase_exp k) zero_loc
  | ECall p nm args _ => ECall (erase_exp p) (erase_name nm) (map erase_exp args) zero_loc
  end
with erase_stat (s : stat) : stat :=
  match s with
  | SBreak => SBreak
  | SLabel n _ => SLabel n zero_loc
  | SGoto n _ => SGoto n zero_loc
  | SDo b _ => SDo (erase_block b) zero_loc
  | SCall e => SCall (erase_exp e)
  | SIf es bs _ => SIf (map erase_exp es) (map erase_block bs) zero_loc
  | SWhile e b _ => SWhile (erase_exp e) (erase_block b) zero_loc
  | SRepeat b e _ => SRepeat (erase_block b) (erase_exp e) zero_loc
  | SForNum n _ i lim st b _ =>
    SForNum n zero_loc (erase_exp i) (erase_exp lim) (erase_exp st) (erase_block b) zero_loc
  | SForIn ns ls es b _ => SForIn ns (map (fun _ => zero_loc) ls) (map erase_exp es) (erase_block b) zero_loc
  | SAssign vars es _ => SAssign (map erase_exp vars) (map erase_exp es) zero_loc
  | SLocal ns ls ats es _ => SLocal ns (map (fun _ => zero_loc) ls) ats (map erase_exp es) zero_loc
  | SLocalFunc n _ f _ => SLocalFunc n zero_loc (erase_exp f) zero_loc
  end
with erase_block (b : block) : block :=
  match b with
  | Block stats ret _ =>
    Block (map erase_stat stats) (match ret with Some es => Some (map erase_exp es) | None => None end) zero_loc
  end.

Definition name_eq (a b : option (list N * loc)) : Prop :=
  match a, b with
  | None, None => True
  | Some (s, _), Some (t, _) => s = t
  | _, _ => False
  end.

(* no function / table constructor (and no BadExpr) anywhere at the expression level *)
Inductive no_ctor : exp -> Prop :=
| nc_nil l : no_ctor (ENil l)
| nc_true l : no_ctor (ETrue l)
| nc_false l : no_ctor (EFalse l)
| nc_vararg l : no_ctor (EVararg l)
| nc_int v l : no_ctor (EInt v l)
| nc_float t l : no_ctor (EFloat t l)
| nc_str s l : no_ctor (EStr s l)
| nc_name n l : no_ctor (EName n l)
| nc_unop o x l : no_ctor x -> no_ctor (EUnop o x l)
| nc_binop o a b l : no_ctor a -> no_ctor b -> no_ctor (EBinop o a b l)
| nc_parens x l : no_ctor x -> no_ctor (EParens x l)
| nc_index p k l : no_ctor p -> no_ctor k -> no_ctor (EIndex p k l)
| nc_call p nm args l : no_ctor p -> Forall no_ctor args -> no_ctor (ECall p nm args l).

(* ------------------------------------------------------------------ the nodes of a syntax tree *)
Inductive node := NE (e : exp) | NS (s : stat) | NB (b : block).

Fixpoint table_fields (ks : list (option exp)) (vs : list exp) : list node :=
  match ks, vs with
  | Some k :: kr, v :: vr => NE k :: NE v :: table_fields kr vr
  | None :: kr, v :: vr => NE v :: table_fields kr vr
  | _, _ => []
  end.
Fixpoint if_branches (es : list exp) (bs : list block) : list node :=
  match es, bs with
  | e :: er, b :: br => NE e :: NB b :: if_branches er br
  | _, _ => []
  end.

(* the direct sub-nodes of a node, in source order *)
Definition children_all (n : node) : list node :=
  match n with
  | NE e =>
    match e with
    | EUnop _ x _ => [NE x]
    | EBinop _ a b _ => [NE a; NE b]
    | ETable ks vs _ => table_fields ks vs
    | EFunc _ _ _ _ b _ _ _ => [NB b]
    | EParens x _ => [NE x]
    | EIndex p k _ => [NE p; NE k]
    | ECall p _ args _ => NE p :: map NE args
    | _ => []
    end
  | NS s =>
    match s with
    | SDo b _ => [NB b]
    | SCall e => [NE e]
    | SIf es bs _ => if_branches es bs
    | SWhile e b _ => [NE e; NB b]
    | SRepeat b e _ => [NB b; NE e]
    | SForNum _ _ i lim st b _ => [NE i; NE lim; NE st; NB b]
    | SForIn _ _ es b _ => map NE es ++ [NB b]
    | SAssign vars es _ => map NE vars ++ map NE es
    | SLocal _ _ _ es _ => map NE es
    | SLocalFunc _ _ f _ => [NE f]
    | SBreak | SLabel _ _ | SGoto _ _ => []
    end
  | NB (Block stats ret _) =>
    map NS stats ++ match ret with Some es => map NE es | None => [] end
  end.

(* number of nodes (recursion measure) *)
Fixpoint esize (e : exp) : nat :=
  match e with
  | EUnop _ x _ => S (esize x)
  | EBinop _ a b _ => S (esize a + esize b)
  | ETable ks vs _ =>
    S (list_sum (map (fun o => match o with Some k => esize k | None => O end) ks) + list_sum (map esize vs))
  | EFunc _ _ _ _ b _ _ _ => S (bsize b)
  | EParens x _ => S (esize x)
  | EIndex p k _ => S (esize p + esize k)
  | ECall p _ args _ => S (esize p + list_sum (map esize args))
  | _ => 1%nat
  end
with ssize (s : stat) : nat :=
  match s with
  | SDo b _ => S (bsize b)
  | SCall e => S (esize e)
  | SIf es bs _ => S (list_sum (map esize es) + list_sum (map bsize bs))
  | SWhile e b _ => S (esize e + bsize b)
  | SRepeat b e _ => S (bsize b + esize e)
  | SForNum _ _ i lim st b _ => S (esize i + esize lim + esize st + bsize b)
  | SForIn _ _ es b _ => S (list_sum (map esize es) + bsize b)
  | SAssign vars es _ => S (list_sum (map esize vars) + list_sum (map esize es))
  | SLocal _ _ _ es _ => S (list_sum (map esize es))
  | SLocalFunc _ _ f _ => S (esize f)
  | SBreak | SLabel _ _ | SGoto _ _ => 1%nat
  end
with bsize (b : block) : nat :=
  match b with
  | Block stats ret _ =>
    S (list_sum (map ssize stats) + match ret with Some es => list_sum (map esize es) | None => O end)
  end.
Definition nsize (n : node) : nat :=
  match n with NE e => esize e | NS s => ssize s | NB b => bsize b end.

(* [m] is a node of the tree rooted at [n] *)
Inductive within (ch : node -> list node) : node -> node -> Prop :=
| within_refl n : within ch n n
| within_step n c m : In c (ch n) -> within ch c m -> within ch n m.

(* every node of a tree, parents first *)
Fixpoint subnodes (fuel : nat) (n : node) : list node :=
  match fuel with
  | O => []
  | S f => n :: flat_map (subnodes f) (children_all n)
  end.

(* the Locs of the `else` keyword tokens (GetNowTokenLoc of each) *)
Fixpoint else_locs (prev : tok) (ts : list ltok) : list loc :=
  match ts with
  | [] => []
  | t :: r => (if tk_eqb (tk (lt t)) TkKwElse then [tok_loc prev (lt t)] else []) ++ else_locs (lt t) r
  end.

Section Spec.
  Variable fclose : list N -> list N -> bool.       (* "denote the same number", see Model/Patterns.v *)

  (* structural equality modulo Locs *)
  Inductive eq_mod_loc : exp -> exp -> Prop :=
  | eml_nil l l' : eq_mod_loc (ENil l) (ENil l')
  | eml_true l l' : eq_mod_loc (ETrue l) (ETrue l')
  | eml_false l l' : eq_mod_loc (EFalse l) (EFalse l')
  | eml_vararg l l' : eq_mod_loc (EVararg l) (EVararg l')
  | eml_int v l l' : eq_mod_loc (EInt v l) (EInt v l')
  | eml_float s t l l' : fclose s t = true -> eq_mod_loc (EFloat s l) (EFloat t l')
  | eml_str s l l' : eq_mod_loc (EStr s l) (EStr s l')
  | eml_name n l l' : eq_mod_loc (EName n l) (EName n l')
  | eml_unop o x y l l' : eq_mod_loc x y -> eq_mod_loc (EUnop o x l) (EUnop o y l')
  | eml_binop o a b c d l l' : eq_mod_loc a c -> eq_mod_loc b d -> eq_mod_loc (EBinop o a b l) (EBinop o c d l')
  | eml_parens x y l l' : eq_mod_loc x y -> eq_mod_loc (EParens x l) (EParens y l')
  | eml_index p k q j l l' : eq_mod_loc p q -> eq_mod_loc k j -> eq_mod_loc (EIndex p k l) (EIndex q j l')
  | eml_call p q nm nm' args args' l l' :
      eq_mod_loc p q -> name_eq nm nm' -> Forall2 eq_mod_loc args args' ->
      eq_mod_loc (ECall p nm args l) (ECall q nm' args' l')
  | eml_table ks vs l ks' vs' l' :
      erase_exp (ETable ks vs l) = erase_exp (ETable ks' vs' l') -> eq_mod_loc (ETable ks vs l) (ETable ks' vs' l')
  | eml_func c f ps pl b l va co c' f' ps' pl' b' l' va' co' :
      erase_exp (EFunc c f ps pl b l va co) = erase_exp (EFunc c' f' ps' pl' b' l' va' co') ->
      eq_mod_loc (EFunc c f ps pl b l va co) (EFunc c' f' ps' pl' b' l' va' co').

  (* boolean version restricted to constructor-free expressions *)
  Fixpoint sim_b (a b : exp) {struct a} : bool :=
    match a, b with
    | ENil _, ENil _ | ETrue _, ETrue _ | EFalse _, EFalse _ | EVararg _, EVararg _ => true
    | EInt v _, EInt w _ => (v =? w)%Z
    | EFloat s _, EFloat t _ => fclose s t
    | EStr s _, EStr t _ => beq_bytes s t
    | EName s _, EName t _ => beq_bytes s t
    | EUnop o x _, EUnop p y _ => tk_eqb o p && sim_b x y
    | EBinop o a1 a2 _, EBinop p b1 b2 _ => tk_eqb o p && sim_b a1 b1 && sim_b a2 b2
    | EParens x _, EParens y _ => sim_b x y
    | EIndex p k _, EIndex q j _ => sim_b p q && sim_b k j
    | ECall p nm args _, ECall q nm' args' _ =>
      sim_b p q
      && match nm, nm' with
         | None, None => true
         | Some (s, _), Some (t, _) => beq_bytes s t
         | _, _ => false
         end
      && (fix go (l1 l2 : list exp) {struct l1} : bool :=
            match l1, l2 with
            | [], [] => true
            | x :: r, y :: s => sim_b x y && go r s
            | _, _ => false
            end) args args'
    | _, _ => false
    end.

  (* grouping parentheses removed; those that adjust a call / `...` to one value are kept (once) *)
  Definition is_multi (e : exp) : bool := match e with ECall _ _ _ _ | EVararg _ => true | _ => false end.
  Fixpoint strip (e : exp) : exp :=
    match e with
    | EParens x l => let s := strip x in if is_multi s then EParens s l else s
    | EUnop o x l => EUnop o (strip x) l
    | EBinop o a b l => EBinop o (strip a) (strip b) l
    | EIndex p k l => EIndex (strip p) (strip k) l
    | ECall p nm args l => ECall (strip p) nm (map strip args) l
    | _ => e
    end.

  Definition Same (a b : exp) : Prop := eq_mod_loc (strip a) (strip b) /\ no_ctor (strip a).
  Definition same_b (a b : exp) : bool := sim_b (strip a) (strip b).

  (* ---------------------------------------------------------------- the patterns *)
  Definition IsTrue (e : exp) : Prop := exists l, e = ETrue l.
  Definition IsFalse (e : exp) : Prop := exists l, e = EFalse l.
  Definition IsFloat (e : exp) : Prop := exists t l, e = EFloat t l.
  Definition is_true_b (e : exp) : bool := match e with ETrue _ => true | _ => false end.
  Definition is_false_b (e : exp) : bool := match e with EFalse _ => true | _ => false end.
  Definition is_float_b (e : exp) : bool := match e with EFloat _ _ => true | _ => false end.

  (* the eight operators of check 14 *)
  Definition CmpOp (op : tkind) : Prop :=
    In op [TkOpOr; TkOpAnd; TkOpLt; TkOpLe; TkOpGt; TkOpGe; TkOpEq; TkOpNe].
  Definition cmp_op_b (op : tkind) : bool :=
    existsb (tk_eqb op) [TkOpOr; TkOpAnd; TkOpLt; TkOpLe; TkOpGt; TkOpGe; TkOpEq; TkOpNe].

  (* 14 15 16 21 on a binary expression  e1 op e2 *)
  Definition Pattern14 (op : tkind) (e1 e2 : exp) : Prop := CmpOp op /\ Same e1 e2.
  Definition Pattern15 (op : tkind) (e1 e2 : exp) : Prop := op = TkOpOr /\ (IsTrue e1 \/ IsTrue e2).
  Definition Pattern16 (op : tkind) (e1 e2 : exp) : Prop := op = TkOpAnd /\ (IsFalse e1 \/ IsFalse e2).
  Definition Pattern21 (op : tkind) (e1 e2 : exp) : Prop :=
    (op = TkOpEq \/ op = TkOpNe) /\ (IsFloat e1 \/ IsFloat e2).

  (* 13: parameter j repeats an earlier parameter; the dummy name `_` may be repeated *)
  Definition Pattern13 (pars : list (list N)) (j : nat) : Prop :=
    exists x, nth_error pars j = Some x /\ x <> [95] /\ exists i, (i < j)%nat /\ nth_error pars i = Some x.

  (* 5: normal form of a constructor key: integer / string (`k = v` and `["k"] = v` alike) / variable name;
     other keys (floats, booleans, computed) and positional fields are not compared *)
  Inductive keynf := KInt (v : Z) | KStr (s : list N) | KName (n : list N).
  Definition key_nf (k : option exp) : option keynf :=
    match k with
    | Some (EInt v _) => Some (KInt v)
    | Some (EStr s _) => Some (KStr s)
    | Some (EName n _) => Some (KName n)
    | _ => None
    end.
  Definition Pattern5 (ks : list (option exp)) (j : nat) : Prop :=
    exists k nf, nth_error ks j = Some k /\ key_nf k = Some nf /\
                 exists i k', (i < j)%nat /\ nth_error ks i = Some k' /\ key_nf k' = Some nf.

  (* 7 8: more values than targets, or fewer values than targets when every value is a plain name or literal
     (IsOneValueType: "single valued, incomplete") *)
  Definition OneValue (e : exp) : Prop :=
    match e with
    | EName _ _ | EStr _ _ | EFloat _ _ | EInt _ _ | EFalse _ | ETrue _ | ENil _ => True
    | _ => False
    end.
  Definition one_value_b (e : exp) : bool :=
    match e with
    | EName _ _ | EStr _ _ | EFloat _ _ | EInt _ _ | EFalse _ | ETrue _ | ENil _ => true
    | _ => false
    end.
  Definition Pattern7 (vars es : list exp) : Prop :=
    (length vars < length es)%nat \/ ((length es < length vars)%nat /\ Forall OneValue es).
  Definition Pattern8 (names : list (list N)) (es : list exp) : Prop :=
    (length names < length es)%nat \/ ((length es < length names)%nat /\ es <> [] /\ Forall OneValue es).

  (* 20: every target is assigned itself *)
  Definition Pattern20 (vars es : list exp) : Prop := Forall2 Same vars es.

  (* 19: condition j of an if / elseif chain repeats an earlier condition.  [conds] are the conditions written in the
     source: the parser appends a synthetic `true` (Loc of the `else` keyword) for an else branch, [real_conds]
     removes it; [elses] = the Locs of the `else` keyword tokens of the file. *)
  Definition Pattern19 (conds : list exp) (j : nat) : Prop :=
    exists c, nth_error conds j = Some c /\ exists i c', (i < j)%nat /\ nth_error conds i = Some c' /\ Same c' c.

  Definition loc_eqb (a b : loc) : bool :=
    ((sl a =? sl b) && (sc a =? sc b) && (el a =? el b) && (ec a =? ec b))%Z.
  Definition synthetic_else (elses : list loc) (e : exp) : bool :=
    match e with ETrue l => existsb (loc_eqb l) elses | _ => false end.
  Definition real_conds (elses : list loc) (es : list exp) : list exp :=
    if synthetic_else elses (last es (ENil zero_loc)) then removelast es else es.

  (* ---------------------------------------------------------------- executable: the reports the property demands *)
  Definition place := (N * loc)%type.

  Definition spec_binop (op : tkind) (e1 e2 : exp) (l : loc) : list place :=
    let sp := span (exp_loc e1) (exp_loc e2) in
    (if tk_eqb op TkOpOr && (is_true_b e1 || is_true_b e2) then [(15, sp)] else [])
    ++ (if tk_eqb op TkOpAnd && (is_false_b e1 || is_false_b e2) then [(16, sp)] else [])
    ++ (if (tk_eqb op TkOpEq || tk_eqb op TkOpNe) && (is_float_b e1 || is_float_b e2) then [(21, l)] else [])
    ++ (if cmp_op_b op && same_b e1 e2 then [(14, sp)] else []).

  Definition keynf_eqb (a b : keynf) : bool :=
    match a, b with
    | KInt v, KInt w => (v =? w)%Z
    | KStr s, KStr t => beq_bytes s t
    | KName s, KName t => beq_bytes s t
    | _, _ => false
    end.
  (* one report at every key whose normal form occurred before, at the key *)
  Fixpoint spec_table (ks : list (option exp)) (seen : list keynf) : list place :=
    match ks with
    | [] => []
    | k :: r =>
      match key_nf k, k with
      | Some nf, Some ke =>
        if existsb (keynf_eqb nf) seen then (5, exp_loc ke) :: spec_table r seen
        else spec_table r (nf :: seen)
      | _, _ => spec_table r seen
      end
    end.

  Fixpoint spec_params (ps : list (list N * loc)) (seen : list (list N)) : list place :=
    match ps with
    | [] => []
    | (x, l) :: r =>
      (if negb (beq_bytes x [95]) && existsb (beq_bytes x) seen then [(13, l)] else [])
      ++ spec_params r (x :: seen)
    end.

  Fixpoint spec_if (cs : list exp) (seen : list exp) : list place :=
    match cs with
    | [] => []
    | c :: r =>
      (if existsb (fun c' => same_b c' c) seen then [(19, exp_loc c)] else []) ++ spec_if r (c :: seen)
    end.

  Fixpoint all2 {A B} (f : A -> B -> bool) (l1 : list A) (l2 : list B) : bool :=
    match l1, l2 with
    | [], [] => true
    | x :: r, y :: s => f x y && all2 f r s
    | _, _ => false
    end.

  Definition spec_assign (vars es : list exp) (l : loc) : list place :=
    let nv := length vars in
    let ne := length es in
    (if Nat.ltb nv ne || (Nat.ltb ne nv && forallb one_value_b es) then [(7, l)] else [])
    ++ (if all2 same_b vars es then [(20, l)] else []).

  Definition spec_local (names : list (list N)) (es : list exp) (l : loc) : list place :=
    let nn := length names in
    let ne := length es in
    if Nat.ltb nn ne || (Nat.ltb ne nn && Nat.ltb 0 ne && forallb one_value_b es) then [(8, l)] else [].
  (* what the property demands at one node / for a whole file *)
  Definition spec_node (elses : list loc) (n : node) : list place :=
    match n with
    | NE (EBinop op a b l) => spec_binop op a b l
    | NE (ETable ks _ _) => spec_table ks []
    | NE (EFunc _ _ pars plocs _ _ _ _) => spec_params (combine pars plocs) []
    | NS (SIf es _ _) => spec_if (real_conds elses es) []
    | NS (SAssign vars es l) => spec_assign vars es l
    | NS (SLocal names _ _ es l) => spec_local names es l
    | _ => []
    end.
  Definition demanded (elses : list loc) (b : block) : list place :=
    flat_map (spec_node elses) (subnodes (nsize (NB b)) (NB b)).
End Spec.
