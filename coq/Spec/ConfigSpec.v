(* C17 - the documented filter law, readable in minutes (docs/manual/config.md, package.nls.json).

   A configuration expresses an INTENT:
     - a master switch,
     - for every diagnostic type whether it is switched off,
     - patterns of files/folders that are not analysed at all,
     - patterns of files/folders whose diagnostics are all silenced,
     - per-file rules silencing some types.
   A pattern matches a name if the name contains it or the Go regexp matches ("包含文件名或go的正则").
   The diagnostics shown are exactly those of the everything-enabled run over the analysed files that the intent does
   not exclude - nothing else may depend on the configuration. *)
From Coq Require Import List NArith Bool.
From LH Require Import Base.Bytes Base.Res Model.Config.
Import ListNotations.
Local Open Scope N_scope.

Record intent := {
  i_master : bool;
  i_off : N -> bool;
  i_handle : list path;
  i_err : list path;
  i_file_types : list (path * list N)
}.

Section Spec.
  Variable re_ok : path -> bool.
  Variable re_match : path -> path -> bool.
  Notation pm := (pat_match re_ok re_match).
  Notation diag := Config.diag.

  (* "忽略分析指定的文件或文件夹，支持正则" (config.md; the documented example: "port/on.*lua" = the lua files of folder
     port whose name starts with on, "tests/" = the folder tests, "one.lua" = the file one.lua): a rule takes a file out
     of the analysis if it matches the file's name - relative to the workspace root, written with or without the
     leading separator - or one of the folders on the way to it ("a/", "a/b/").  How the rule is spelt (whether its
     text ends in ".lua") plays no part; a malformed pattern still counts as literal text.
     The SAME answer is due wherever the server asks: when it walks the workspace and whenever a later request names
     the file. *)
  Definition rule_hits (p rel : path) : bool := existsb (fun n => pm n p) (names_of rel).
  Definition spec_handled (i : intent) (rel : path) : bool := negb (existsb (fun p => rule_hits p rel) (i_handle i)).

  (* server/meta is the built-in rule for the Lua stubs shipped with the plugin;
     f = absolute name of the file, t = type of the diagnostic *)
  Definition excluded_at (i : intent) (f : path) (t : N) : bool :=
    negb (i_master i)
    || i_off i t
    || existsb (pm f) (i_err i ++ [server_meta])
    || existsb (fun kv => pm f (fst kv) && mem t (snd kv)) (i_file_types i).

  Definition spec_excluded (i : intent) (root : path) (d : diag) : bool :=
    excluded_at i (abs_path root (d_file d)) (d_type d).

  Variable raw : list path -> list diag.

  Definition spec_shown (i : intent) (root : path) (files : list path) : list diag :=
    filter (fun d => negb (spec_excluded i root d)) (raw (filter (spec_handled i) files)).
End Spec.

(* client options: switch k is the one documented as "[Warn Type:k]"; types 26.. have no switch *)
Definition intent_of_client (c : client_cfg) : intent :=
  {| i_master := hd false (c_flags c);
     i_off := client_off (c_flags c);
     i_handle := c_ignore_handle c;
     i_err := c_ignore_err c;
     i_file_types := [] |}.

(* luahelper.json: IgnoreErrorTypes switches types off; types 22..28 are opt-in through OpenErrorTypes;
   ShowWarnFlag 1 = on.  (With client options the switch of a type is both: on = not ignored and opened.) *)
Definition intent_of_json (j : json_cfg) : intent :=
  {| i_master := (j_show j =? 1);
     i_off := fun t => mem t (j_ignore_types j) || (open_required t && negb (mem t (j_open_types j)));
     i_handle := j_ignore_handle j;
     i_err := j_ignore_err j;
     i_file_types := j_file_types j |}.

Definition intent_of (j : option json_cfg) (c : client_cfg) : intent :=
  match j with Some jc => intent_of_json jc | None => intent_of_client c end.

(* the intent of a whole session: luahelper.json if present (the client is then ignored); otherwise the client's
   latest settings, where the first didChangeConfiguration after initialize is the client's start-up synchronisation
   of the very settings it already sent as initializationOptions (vscode-languageclient `synchronize`) *)
Definition effective_client (c : client_cfg) (cs : list client_cfg) : client_cfg :=
  match cs with
  | [] => c
  | _ :: cs' => last cs' c
  end.
Definition session_intent (j : option json_cfg) (c : client_cfg) (cs : list client_cfg) : intent :=
  intent_of j (effective_client c cs).

(* ---- unsaved buffers -------------------------------------------------------------------------------------------
   What the client should hold for each file while files are edited and the settings change.
     - A file with unsaved edits shows the syntax errors of its buffer, as far as the configuration of the moment
       allows them; if none is left it shows the diagnostics of its saved text without the syntax errors (they belong
       to a text the user no longer sees).  An edit of a file that an ignore rule takes out of the analysis changes
       nothing.
     - A settings change that takes effect is a fresh start with the new intent: the workspace is analysed again as it
       is on disk, and every file shows exactly what the new intent allows of that run - in particular nothing the new
       configuration excludes, whichever files have unsaved edits.  (The unsaved syntax errors come back with the next
       edit, as far as the new configuration allows them.)
     - A notification takes effect unless luahelper.json rules (the client is ignored) or it is the first one of the
       session (the client's start-up synchronisation of the settings it already sent, see effective_client). *)
Section SpecLive.
  Variable re_ok : path -> bool.
  Variable re_match : path -> path -> bool.
  Variable raw : list path -> list Config.diag.
  Notation diag := Config.diag.

  Definition spec_file_view (i : intent) (root : path) (files : list path) : path -> list diag :=
    fun f => of_file f (spec_shown re_ok re_match raw i root files).

  Definition spec_edit (i : intent) (root : path) (files : list path) (v : path -> list diag)
             (f : path) (errs : list diag) : path -> list diag :=
    if negb (spec_handled re_ok re_match i f) then v else
    let allowed := filter (fun d => negb (spec_excluded re_ok re_match i root d)) errs in
    if negb (is_nil allowed) then publish f allowed v
    else publish f (no_syntax (spec_file_view i root files f)) v.

  (* cs = the notifications received before this one *)
  Definition spec_takes_effect (j : option json_cfg) (cs : list client_cfg) : bool :=
    match j with Some _ => false | None => negb (is_nil cs) end.

  Fixpoint spec_steps (j : option json_cfg) (c : client_cfg) (root : path) (files : list path)
           (cs : list client_cfg) (v : path -> list diag) (evs : list event) {struct evs} : path -> list diag :=
    match evs with
    | [] => v
    | EEdit f errs :: evs' =>
        spec_steps j c root files cs (spec_edit (session_intent j c cs) root files v f errs) evs'
    | ESettings c' :: evs' =>
        spec_steps j c root files (cs ++ [c'])
                   (if spec_takes_effect j cs then spec_file_view (session_intent j c (cs ++ [c'])) root files else v) evs'
    end.

  Definition spec_view (j : option json_cfg) (c : client_cfg) (root : path) (files : list path) (evs : list event)
    : path -> list diag :=
    spec_steps j c root files [] (spec_file_view (session_intent j c []) root files) evs.
End SpecLive.

(* the edits of a history are well formed: the syntax errors of the buffer of file f are diagnostics of f, type 1 *)
Definition edits_wf (evs : list event) : bool :=
  forallb (fun e => match e with
                    | EEdit f errs => forallb (fun d => same_file f d && (d_type d =? check_error_syntax)) errs
                    | ESettings _ => true
                    end) evs.

(* ---- where the code departed from the law before the repairs: class predicates (mirrors of the negated guards);
   with every repair in (fx = deployed) all of them are constantly false (Proofs/ConfigProofs.v) ---- *)

Section Classes.
  Variable fx : fixes.
  Variable re_ok : path -> bool.
  Variable re_match : path -> path -> bool.
  Notation diag := Config.diag.

  Definition type_ok (d : diag) : bool := (1 <=? d_type d) && (d_type d <? 30).

  Definition gate_ok (g : gconf) (d : diag) : bool := pass_runs fx g (produced_in (d_type d)).
  Definition prereq_ok (g : gconf) (root : path) (d : diag) : bool :=
    forallb (fun p => negb (mem p (g_ignore_types g))) (prereq_types fx (d_type d))
    && (fx_coupled fx ||
        match d_ref d with
        | None => true
        | Some r => negb (is_ignore_error_file re_ok re_match g (abs_path root r) check_error_no_define)
        end).
  Definition open_ok (g : gconf) (d : diag) : bool :=
    negb (open_required (d_type d)) || mem (d_type d) (g_open_types g).

  (* a diagnostic the intent does not exclude, but ... *)
  Definition cls_special_gate (g : gconf) (i : intent) (root : path) (d : diag) : bool :=
    negb (spec_excluded re_ok re_match i root d) && negb (gate_ok g d).
  Definition cls_coupled (g : gconf) (i : intent) (root : path) (d : diag) : bool :=
    negb (spec_excluded re_ok re_match i root d) && negb (prereq_ok g root d).
  Definition cls_dead_flag (g : gconf) (i : intent) (root : path) (d : diag) : bool :=
    negb (spec_excluded re_ok re_match i root d) && negb (open_ok g d).

  (* the guard of the filter law for one diagnostic *)
  Definition diag_guard (g : gconf) (i : intent) (root : path) (d : diag) : bool :=
    type_ok d
    && (spec_excluded re_ok re_match i root d || (gate_ok g d && prereq_ok g root d && open_ok g d)).

  (* two IgnoreFileErrTypes entries with the same File: before the repair the later one replaces the earlier one *)
  Fixpoint nodup_keys (l : list (path * list N)) : bool :=
    match l with
    | [] => true
    | kv :: l' => negb (existsb (beq_bytes (fst kv)) (map fst l')) && nodup_keys l'
    end.
  Definition json_wf (j : option json_cfg) : bool :=
    fx_dup fx || match j with Some jc => nodup_keys (j_file_types jc) | None => true end.

  (* every user pattern that reaches regexp.MustCompile compiles *)
  Definition patterns_ok (j : option json_cfg) (c : client_cfg) : bool :=
    match j with
    | Some jc => forallb re_ok (map fst (j_file_types jc)) && forallb re_ok (j_ignore_err jc)
    | None => forallb re_ok (c_ignore_err c)
    end.

  (* the Go side always builds 26 booleans from its option struct *)
  Definition client_wf (c : client_cfg) : bool := (N.of_nat (List.length (c_flags c)) =? 26).

  (* configuration-level sufficient conditions (for every workspace) *)
  Definition special_gate_ok (g : gconf) : bool := cross_runs fx g.

  (* the two ignore-for-analysis sites, on one file: both give the answer of the intent *)
  Definition sites_ok_at (g : gconf) (i : intent) (rel : path) : bool :=
    Bool.eqb (is_handled fx re_ok re_match g rel) (spec_handled re_ok re_match i rel)
    && Bool.eqb (need_handle fx re_ok re_match g rel) (spec_handled re_ok re_match i rel).
  (* guard of the filter law for the variants before the repair of the two sites: on the files of the workspace the
     walk follows the intent (the per-file predicate is not part of `shown`) *)
  Definition walk_ok (g : gconf) (i : intent) (files : list path) : bool :=
    forallb (fun rel => Bool.eqb (is_handled fx re_ok re_match g rel) (spec_handled re_ok re_match i rel)) files.
  (* class of the defect (mirror of the negated guard, both sites): some file of the workspace on which the walk or
     the per-file predicate does not follow the intent *)
  Definition cls_ignore_sites (g : gconf) (i : intent) (files : list path) : bool :=
    existsb (fun rel => negb (sites_ok_at g i rel)) files.

  (* class of the unsaved-buffer defect (mirror of the negated guard fx_live): a settings change that takes effect meets
     a remembered unsaved buffer of a file without saved diagnostics - nothing clears what that file shows *)
  Definition cls_live_stale (st : lsp) : bool :=
    negb (fx_live fx) && effective (l_srv st)
    && existsb (fun f => is_nil (of_file f (l_disk st))) (l_live st).
End Classes.
